"""C20 - each input file contributes exactly the HDU and WCS solution the user selected.

Spec: spec/Collection.tla.  TLC enumerates every collection (a SEQUENCE of 1..MaxFiles input paths over a set
of physical files - so the same file may be named at several list positions -; files: empty primary, image
HDUs, a binary table, alternate WCS keys) x every in-scope hdu_index
(none / one / per-file list) x every in-scope wcs_key (none / one / per-file list), explores the two
generators descriptions() / images() under every interleaving and checks the property's sentences as
invariants (ScalarAppliesToAll, ListIsPositional, NoneIsFirstImage, ExactSelection, InInputOrder,
EveryInputContributes, RepeatsAreIndependent - all stated over list positions, not over distinct files -,
DescriptionsMatchImages, CliFaithful, ListIsLocal, KeyListIsLocal, CaseInScope) plus the theorems GuessIsFirstImage (the for/break loop
finds the first image HDU, for every layout of up to 4 HDUs), CaseSpaceComplete (the generated cases are exactly the
in-scope selections, collections of up to 2 files) and EncodingInjective/EncodingKeys (the
observation encoding tells every (file, HDU, key) apart).  TLC also emits (a) the table of FITS files to
write - shape, constant pixel value and CRPIX encode (physical file, HDU), CRVAL encodes the WCS key - and
(b) for every case the expected (hdu, shape, value, key, crval, crpix) per input path and the tokens of the
command-line spelling.

Binding (spec -> code): the harness writes the files exactly as TLC says, names a file that occurs at several
positions by the same path (or by another spelling of it) and pushes every case through the
real code by way of collection.load, SimpleFitsCollection, toasty.tile_fits and every command-line subcommand
that takes --hdu-index / --wcs-key (discovered from the real parsers: `toasty view` - real argparse +
CollectionLoader.create_from_args, the tiler replaced by a recorder - and `toasty tile-multi-tan` - scalar and
absent forms, the tile processor replaced by a recorder), then compares descriptions(), images() and export_simple() with TLC's expectation.  A few
cases run the real tile_fits / `toasty tile-multi-tan` end to end and count the pixel values in the tiles.
"""
import json
import os

from lib import repo, tla

# ---------------------------------------------------------------------------------------------------
# TLC side
# ---------------------------------------------------------------------------------------------------

# curated layouts (TLA+ text): single image HDU like the repository's test files; empty primary with two
# images; table before the first image; primary image + table + image; image followed by a table
LAYOUTS_5 = """<< <<I({" ", "A"})>>,
   <<E, I({" ", "A", "B"}), I({" "})>>,
   <<E, T, I({" ", "B"}), I({" ", "A"})>>,
   <<I({" "}), T, I({" ", "A", "B"})>>,
   <<E, I({" ", "A"}), T>> >>"""
LAYOUTS_6 = LAYOUTS_5[:-3] + """,
   <<E, E, I({" ", "B"}), I({" ", "A", "B"})>> >>"""

CUBES_3 = """<< <<Cube({" ", "A"}, <<"FREQ", "RA", "DEC">>, 2), Cube({" ", "A"}, <<"RA", "FREQ", "DEC">>, 2),
      Cube({" ", "A"}, <<"RA", "DEC", "FREQ">>, 2), Cube({" ", "A"}, <<"STOKES", "RA", "DEC">>, 1)>>,
   <<E, Cube({" ", "A"}, <<"RA", "STOKES", "DEC">>, 1), Cube({" ", "A"}, <<"RA", "DEC", "STOKES", "FREQ">>, 2),
      Cube({" ", "A"}, <<"FREQ", "RA", "STOKES", "DEC">>, 2)>>,
   <<I({" "}), Cube({" ", "A"}, <<"STOKES", "FREQ", "RA", "DEC">>, 2), Cube({" ", "A"}, <<"RA", "DEC", "FREQ">>, 1),
      Cube({" ", "A"}, <<"RA", "FREQ", "DEC", "STOKES">>, 1)>> >>"""

# the second encoding (one shape for every HDU): every file has the image HDUs 1 and 2 with the keys " " and "A", so that
# every entry of a per-file list is in scope for every file; files 1 and 3 share the pixel scale, file 2 is 2x coarser
FLAT_3 = """<< <<E, I({" ", "A"}), I({" ", "A"})>>,
   <<I({" ", "A"}), I({" ", "A"}), I({" ", "A"})>>,
   <<E, I({" ", "A"}), I({" ", "A"})>> >>"""

ALL_FORMS = ("none", "one", "each")

CFG = """SPECIFICATION Spec
CONSTANTS
 MaxFiles = %d
 FileSeq <- MCLayouts
 HduForms <- MCHduForms
 KeyForms <- MCKeyForms
 HduVals <- MCHduVals
INVARIANT CaseInScope
INVARIANT ScalarAppliesToAll
INVARIANT ListIsPositional
INVARIANT NoneIsFirstImage
INVARIANT ExactSelection
INVARIANT InInputOrder
INVARIANT EveryInputContributes
INVARIANT RepeatsAreIndependent
INVARIANT DescriptionsMatchImages
INVARIANT CliFaithful
INVARIANT ListIsLocal
INVARIANT KeyListIsLocal
INVARIANT Emit
CHECK_DEADLOCK FALSE
"""


def mc_module(layouts_text, hforms=ALL_FORMS, kforms=ALL_FORMS, theorems=True, disjoint=True, flat=False):
    """flat: the second encoding of Collection.tla (one shape for every HDU, keys KeyRise/1000 degrees apart) - for the
    tiling routes whose worker processes read the inputs themselves."""
    table, obs, sky = ("FlatFileTable", "FlatObserved", "FlatSky") if flat else ("FileTable", "Observed", "Sky")
    defs = [
        ("MCLayouts", layouts_text),
        ("MCHduForms", tla.lit(set(hforms))),
        ("MCKeyForms", tla.lit(set(kforms))),
        ("MCHduVals", "0..(MaxHdus - 1)"),
        "ASSUME EncodingInjective /\\ EncodingKeys" + (" /\\ EncodingDisjoint" if disjoint else "") + (" /\\ FlatEncoding" if flat else ""),
        "ASSUME JsonSerialize(IOEnv.OUT, [files |-> %s, names |-> [p \\in DOMAIN FileSeq |-> NameClass(p)]])" % table,
        'Emit == Done => PrintT(<<"R", ToJson([lay |-> lay, hs |-> hs, ks |-> ks, '
        'cli |-> [hdu |-> Tokens(hs), key |-> Tokens(ks)], cross |-> %s, '
        'exp |-> [n \\in 1..N |-> %s(dout[n])], sky |-> [n \\in 1..N |-> %s(dout[n])], '
        'tiling |-> [unit |-> MosaicUnit(dout), aligned |-> Aligned(dout), samesky |-> SameSky(dout)]])>>)'
        % ("CrossValid(Files(lay), hs, ks)" if flat else "FALSE", obs, sky),
    ]
    if theorems:
        defs.insert(3, "ASSUME GuessIsFirstImage(4) /\\ CaseSpaceComplete(2) /\\ CubeSlicing")
    return tla.module("MCCollection", ["Collection", "Json", "IOUtils", "SequencesExt"], defs)


def all_layouts(ctx):
    """TLC enumerates every layout of up to 2 / up to 3 HDUs holding an image (and checks GuessIsFirstImage for every
    layout of up to 4 HDUs); the result is handed back to TLC as explicit text (a constant that is a set expression
    would be re-evaluated in every state)."""
    outp = os.path.join(ctx.scratch, "layouts.json")
    defs = [("MCLayouts", '<< <<I({" "})>> >>'), ("MCForms", '{"none"}'), ("MCHduVals", "0..3"),
            "ASSUME GuessIsFirstImage(4)",
            "ASSUME JsonSerialize(IOEnv.OUT, [l2 |-> SetToSeq({f \\in AllLayouts(2) : HasImage(f)}), "
            "l3 |-> SetToSeq({f \\in AllLayouts(3) : HasImage(f)}), "
            "cubes |-> [f \\in 1..(Cardinality(CubeTypes) \\div 4) |-> [jj \\in 1..4 |-> SetToSeq(CubeTypes)[4 * (f - 1) + jj]]]])"]
    cfg = ("SPECIFICATION Spec\nCONSTANTS\n MaxFiles = 1\n FileSeq <- MCLayouts\n HduForms <- MCForms\n KeyForms <- MCForms\n HduVals <- MCHduVals\n"
           "CHECK_DEADLOCK FALSE\n")
    ctx.tlc("MCLayouts", extra={"MCLayouts.tla": tla.module("MCLayouts", ["Collection", "Json", "IOUtils", "SequencesExt"], defs)},
            cfg_text=cfg, env={"OUT": outp}, workers=1, timeout=600, count=False)
    d = json.load(open(outp))

    def text(files):
        return tla.lit([[{"kind": h["kind"], "keys": set(h["keys"]), "axes": list(h["axes"]), "xlen": h["xlen"]} for h in f]
                        for f in files])
    return text(d["l2"]), text(d["l3"]), len(d["l2"]), len(d["l3"]), text(d["cubes"]), sum(len(f) for f in d["cubes"])


HCFG = """SPECIFICATION HSpec
CONSTANTS
 MaxFiles = 2
 MaxPasses = 3
 Memoise = %s
 FileSeq <- MCLayouts
 HduForms <- MCHduForms
 KeyForms <- MCKeyForms
 HduVals <- MCHduVals
INVARIANT LaterEnumerationIsFresh
INVARIANT NoAliasing
INVARIANT AlwaysAgree
INVARIANT EveryPassComplete
INVARIANT Emit
CHECK_DEADLOCK FALSE
"""


def histories(ctx):
    """spec/CollectionHistory.tla: every history of three complete enumerations of one collection object with client
    edits of the yielded objects in between; TLC checks that every enumeration yields what a fresh collection would and
    emits the operation logs.  Replayed: the logs whose first pass is followed by an edit."""
    defs = [("MCLayouts", '<< <<E, I({" ", "A"}), I({" "})>>, <<I({" ", "B"})>> >>'),
            ("MCHduForms", '{"none", "each"}'), ("MCKeyForms", '{"none", "one"}'), ("MCHduVals", "0..3"),
            'Emit == HDone => PrintT(<<"H", ToJson([log |-> log])>>)']
    mod = tla.module("MCHistory", ["CollectionHistory", "Json"], defs)
    r = ctx.tlc("MCHistory", extra={"MCHistory.tla": mod}, cfg_text=HCFG % "FALSE", workers=2, timeout=600)
    logs = sorted(set(tuple(x["log"]) for x in r.json_lines("H")))
    hists = [list(l) for l in logs if l[0] in ("d", "i") and l[1] in ("parity", "edit")]
    if len(hists) < 8:
        ctx.machinery("TLC emitted %d histories" % len(hists))
    ctx.note("histories", len(hists))
    if not ctx.quick:
        # the design that caches the description objects is refuted by the same invariants
        r2 = ctx.tlc("MCHistory", extra={"MCHistory.tla": mod}, cfg_text=HCFG % "TRUE", workers=4, timeout=600,
                     expect_violation=True, count=False)
        if r2.violated not in ("LaterEnumerationIsFresh", "NoAliasing", "AlwaysAgree"):
            ctx.machinery("the memoising design (Memoise = TRUE) was not refuted by TLC: %r" % (r2.violated,))
        ctx.note("memoising_design_refuted_by", r2.violated)
    return hists


RCFG = """SPECIFICATION RSpec
CONSTANTS
 MaxFiles = 2
 WriteBack = %s
 FileSeq <- MCLayouts
 HduForms <- MCHduForms
 KeyForms <- MCKeyForms
 HduVals <- MCHduVals
INVARIANT ArgumentsUntouched
INVARIANT FirstIsWhatWasAsked
INVARIANT SecondHasNoMemory
INVARIANT Emit
CHECK_DEADLOCK FALSE
"""


def tlc_reuse(ctx):
    """spec/CollectionReuse.tla: pairs of collections (same length, other files: 1, 3 and 4 HDUs) built from the SAME
    argument objects, HDU indices written from the front or from the end (-4..3).  TLC checks ArgumentsUntouched /
    FirstIsWhatWasAsked / SecondHasNoMemory and emits what each of the two collections must yield."""
    outp = os.path.join(ctx.scratch, "files-reuse.json")
    defs = [("MCLayouts", '<< <<I({" ", "A"})>>, <<E, I({" ", "A"}), I({" "})>>, <<E, T, I({" "}), I({" ", "A"})>> >>'),
            ("MCHduForms", '{"none", "one", "each"}'), ("MCKeyForms", '{"none", "each"}'), ("MCHduVals", "(-MaxHdus)..(MaxHdus - 1)"),
            "ASSUME JsonSerialize(IOEnv.OUT, [files |-> FileTable, names |-> [p \\in DOMAIN FileSeq |-> NameClass(p)]])",
            'Emit == RDone => PrintT(<<"P", ToJson([lay |-> lay, lay2 |-> lay2, hs |-> hs, ks |-> ks, '
            'cli |-> [hdu |-> Tokens(hs), key |-> Tokens(ks)], differs |-> Differs, '
            'expA |-> [n \\in DOMAIN outA |-> Observed(outA[n])], expB |-> [n \\in DOMAIN outB |-> Observed(outB[n])]])>>)']
    mod = tla.module("MCReuse", ["CollectionReuse", "Json", "IOUtils"], defs)
    r = ctx.tlc("MCReuse", extra={"MCReuse.tla": mod}, cfg_text=RCFG % "FALSE", env={"OUT": outp}, workers=2, timeout=900)
    recs = r.json_lines("P")
    if not recs or not os.path.exists(outp):
        ctx.machinery("TLC emitted no reuse cases")
    if not ctx.quick:
        r2 = ctx.tlc("MCReuse", extra={"MCReuse.tla": mod}, cfg_text=RCFG % "TRUE", env={"OUT": outp + ".refuted"}, workers=2, timeout=900,
                     expect_violation=True, count=False)
        if r2.violated not in ("ArgumentsUntouched", "SecondHasNoMemory"):
            ctx.machinery("the write-back design (WriteBack = TRUE) was not refuted by TLC: %r" % (r2.violated,))
        ctx.note("write_back_design_refuted_by", r2.violated)
    table = json.load(open(outp))
    root = ctx.mkdtemp("fits-reuse")
    with open(os.path.join(root, "names.json"), "w") as f:
        json.dump([NAME_TEMPLATES[c] % (p_ + 1) for p_, c in enumerate(table["names"])], f)
    for p, hdus in enumerate(table["files"], start=1):
        write_fits(file_path(root, p), hdus)
    ctx.note("cases_reuse", len(recs))
    return root, sorted(recs, key=lambda r_: json.dumps(r_, sort_keys=True))


CCFG = """SPECIFICATION CSpec
CONSTANTS
 MaxFiles = 2
 NPaths = 2
 MaxCalls = %d
 MaxRewrites = 1
 Memo = "%s"
 RewriteTo <- MCRewriteTo
 FileSeq <- MCLayouts
 HduForms <- MCHduForms
 KeyForms <- MCKeyForms
 HduVals <- MCHduVals
INVARIANT EachLoadExact
INVARIANT NoMemoryOfEarlierLoads
INVARIANT LoadsInScope
INVARIANT Emit
CHECK_DEADLOCK FALSE
"""

# the contents the two path names hold at first (1, 2) and the contents a path may be rewritten with (3): the same HDU of
# the same path carries several keys; content 3 has the layout - and the file size - of content 1 and other keys
CALL_LAYOUTS = '<< <<E, I({" ", "A"}), I({" ", "A"})>>, <<I({" ", "A"}), I({" ", "B"})>>, <<E, I({" ", "B"}), I({" ", "A"})>> >>'
CALL_LAYOUTS_B = '<< <<E, I({" ", "A", "B"}), I({" ", "A"})>>, <<I({" ", "A"}), I({" ", "A", "B"})>>, <<E, I({" ", "B"}), I({" ", "A", "B"})>> >>'


def tlc_calls(ctx):
    """spec/CollectionCalls.tla: every history of two loads in one process over two path names (collections of one or two
    paths, the same path possibly twice), a path possibly rewritten in place between the loads.  TLC checks EachLoadExact /
    NoMemoryOfEarlierLoads in every state and emits the histories with what every load must deliver."""
    outp = os.path.join(ctx.scratch, "files-calls.json")
    forms = '{"none", "each"}' if ctx.quick else '{"none", "one", "each"}'
    defs = [("MCLayouts", CALL_LAYOUTS if ctx.quick else CALL_LAYOUTS_B),
            ("MCHduForms", forms), ("MCKeyForms", forms), ("MCHduVals", "0..2"), ("MCRewriteTo", "{3}"),
            "ASSUME NPaths <= Len(FileSeq) /\\ \\A p \\in 1..NPaths : HasImage(FileSeq[p])",
            "ASSUME EncodingInjective /\\ EncodingKeys",
            ("ObsTable", "[p \\in DOMAIN FileSeq |-> [jj \\in DOMAIN FileSeq[p] |-> [k \\in FileSeq[p][jj].keys |-> "
                         "Observed([path |-> 0, file |-> p, hdu |-> jj - 1, key |-> k])]]]"),
            "ASSUME JsonSerialize(IOEnv.OUT, [files |-> FileTable, names |-> [p \\in 1..NPaths |-> NameClass(p + 1)], obs |-> ObsTable])",
            'Emit == CDone => PrintT(<<"C", ToJson([ops |-> [n \\in DOMAIN oplog |-> [op |-> oplog[n].op, names |-> oplog[n].names, '
            'cont |-> oplog[n].cont, hs |-> oplog[n].hs, ks |-> oplog[n].ks, '
            'cli |-> [hdu |-> Tokens(oplog[n].hs), key |-> Tokens(oplog[n].ks)], '
            'out |-> [i \\in DOMAIN oplog[n].out |-> <<oplog[n].out[i].file, oplog[n].out[i].hdu, oplog[n].out[i].key>>], '
            'rel |-> IF oplog[n].op = "load" THEN <<OtherKeyBefore(n), RewrittenBefore(n), OtherHduBefore(n)>> '
            'ELSE <<FALSE, FALSE, FALSE>>]]])>>)']
    mod = tla.module("MCCalls", ["CollectionCalls", "Json", "IOUtils"], defs)
    r = ctx.tlc("MCCalls", extra={"MCCalls.tla": mod}, cfg_text=CCFG % (2, "none"), env={"OUT": outp}, workers=3, timeout=3600)
    recs = r.json_lines("C")
    if not recs or not os.path.exists(outp):
        ctx.machinery("TLC emitted no histories of load calls")
    if not ctx.quick:
        # the designs that remember the parsed geometry under a key that leaves out the WCS key / the file's stat stamp are
        # refuted by the same invariants; the one whose key holds everything passes them
        for memo in ("path-hdu-stat", "path-hdu-key"):
            r2 = ctx.tlc("MCCalls", extra={"MCCalls.tla": mod}, cfg_text=CCFG % (2, memo), env={"OUT": outp + ".refuted"}, workers=2,
                         timeout=3600, expect_violation=True, count=False)
            if r2.violated not in ("EachLoadExact", "NoMemoryOfEarlierLoads"):
                ctx.machinery("the design that remembers geometry under the key %r was not refuted by TLC: %r" % (memo, r2.violated))
            ctx.note("memo_%s_refuted_by" % memo.replace("-", "_"), r2.violated)
        ctx.tlc("MCCalls", extra={"MCCalls.tla": mod}, cfg_text=CCFG % (2, "all"), env={"OUT": outp + ".all"}, workers=4, timeout=3600, count=False)
    table = json.load(open(outp))
    root = ctx.mkdtemp("fits-calls")
    with open(os.path.join(root, "names.json"), "w") as f:
        json.dump([NAME_TEMPLATES[c] % (p_ + 1) for p_, c in enumerate(table["names"])], f)
    with open(os.path.join(root, "obs.json"), "w") as f:
        json.dump(table["obs"], f)
    for q, hdus in enumerate(table["files"], start=1):
        write_fits(os.path.join(root, "content-%d.fits" % q), hdus)
    ctx.note("histories_of_load_calls", len(recs))
    return root, sorted(recs, key=lambda r_: json.dumps(r_, sort_keys=True))


# ---------------------------------------------------------------------------------------------------
# writing the FITS files TLC describes
# ---------------------------------------------------------------------------------------------------

def _wcs_cards(header, w, axes):
    """One WCS solution: the celestial axes carry TLC's numbers, a spectral / Stokes axis a plain linear scale."""
    k = w["key"].strip()
    cel = {"RA": ("RA---TAN", 0), "DEC": ("DEC--TAN", 1)}
    other = {"FREQ": ("FREQ", 1.0e9, 1.0e6, "Hz"), "STOKES": ("STOKES", 1.0, 1.0, "")}
    for n, ax in enumerate(axes, start=1):
        if ax["name"] in cel:
            ctype, c = cel[ax["name"]]
            header["CTYPE%d%s" % (n, k)] = ctype
            header["CRVAL%d%s" % (n, k)] = w["crval"][c] / float(w.get("crvaldiv", 1))
            header["CRPIX%d%s" % (n, k)] = float(w["crpix"][c])
            header["CDELT%d%s" % (n, k)] = w["cdelt"][c] / 1000.0
            header["CUNIT%d%s" % (n, k)] = "deg"
        else:
            ctype, crval, cdelt, unit = other[ax["name"]]
            header["CTYPE%d%s" % (n, k)] = ctype
            header["CRVAL%d%s" % (n, k)] = crval
            header["CRPIX%d%s" % (n, k)] = 1.0
            header["CDELT%d%s" % (n, k)] = cdelt
            if unit:
                header["CUNIT%d%s" % (n, k)] = unit


def write_fits(path, hdus):
    import numpy as np
    from astropy.io import fits
    from astropy.table import Table
    out = []
    for j, h in enumerate(hdus):
        if h["kind"] == "img":
            # numpy order is FITS order reversed; the pixel at (one index per axis) holds val + planestep * (sum of the
            # indices on the non-celestial axes)
            lens = [ax["len"] for ax in h["axes"]][::-1]
            names = [ax["name"] for ax in h["axes"]][::-1]
            grid = np.indices(lens)
            extra = sum(grid[n] for n, nm in enumerate(names) if nm not in ("RA", "DEC"))
            data = (h["val"] + h["planestep"] * extra + np.zeros(lens)).astype(np.float32)
            hdu = fits.PrimaryHDU(data) if j == 0 else fits.ImageHDU(data)
            for w in sorted(h["wcs"], key=lambda w: w["key"]):
                _wcs_cards(hdu.header, w, h["axes"])
        elif h["kind"] == "empty":
            hdu = fits.PrimaryHDU() if j == 0 else fits.ImageHDU()
        elif h["kind"] == "tab":
            if j == 0:
                raise ValueError("a table cannot be the primary HDU")
            hdu = fits.BinTableHDU(Table({"a": np.arange(3, dtype=np.int32), "b": np.full(3, float(h["val"]))}))
        else:
            raise ValueError(h["kind"])
        out.append(hdu)
    fits.HDUList(out).writeto(path, overwrite=True)


# how each of TLC's name classes is spelled on disk: what a file system allows in a file name
NAME_TEMPLATES = {"plain": "F%d.fits", "brackets": "F%d_[OIII].fits", "wildcards": "F%d*?.fits", "dashdots": "-F%d..x.fits",
                  "nonascii": "F%d_\u00e9\u2713.fits", "spaces": "F%d b .fits"}
_NAMES = {}


def file_name(root, p):
    if root not in _NAMES:
        _NAMES[root] = json.load(open(os.path.join(root, "names.json")))
    return _NAMES[root][p - 1]


def file_path(root, p):
    return os.path.join(root, file_name(root, p))


PATH_FORMS = ("absolute", "respelled", "relative", "pathlib")


def input_paths(root, exp, form="absolute", for_argv=False):
    """The user's path list: one path per list position; a physical file named at several positions is the same path.
    absolute: dir/NAME; respelled: a repeat is another spelling of the same file (dir/./NAME, dir/././NAME);
    relative: NAME relative to the working directory (the worker is there); pathlib: pathlib.Path objects (Python API)."""
    import pathlib
    paths, seen = [], {}
    for e in exp:
        k = seen.get(e["file"], 0)
        seen[e["file"]] = k + 1
        name = file_name(root, e["file"])
        if form == "respelled" and k:
            paths.append(os.path.join(root, *([os.curdir] * k + [name])))
        elif form == "relative":
            # on a command line a name that starts with a dash is written ./-name
            paths.append(os.path.join(os.curdir, name) if (for_argv and name.startswith("-")) else name)
        elif form == "pathlib" and not for_argv:
            paths.append(pathlib.Path(root) / name)
        else:
            paths.append(os.path.join(root, name))
    return paths


# ---------------------------------------------------------------------------------------------------
# the real code (runs in pool workers)
# ---------------------------------------------------------------------------------------------------

ENTRIES = ("load", "class", "cli", "tile_fits")


class _Recorder(object):
    """Stands in for toasty.fits_tiler.FitsTiler: records the collection it is given, tiles nothing."""
    last = None

    def __init__(self, coll, out_dir=None, **kwargs):
        _Recorder.last = coll
        self.coll = coll
        self.out_dir = out_dir if out_dir is not None else "unused"
        self.builder = None

    def tile(self, *args, **kwargs):
        return self


CONTAINERS = ("list", "tuple", "numpy")


def _kwargs(hs, ks, container="list"):
    """The selection as Python objects: per-file entries in a list, in a tuple, or as NumPy integers in a list."""
    kw = {}
    if hs["form"] == "one":
        kw["hdu_index"] = int(hs["v"][0])
    elif hs["form"] == "each":
        if container == "numpy":
            import numpy as np
            kw["hdu_index"] = [np.int64(x) for x in hs["v"]]
        else:
            kw["hdu_index"] = [int(x) for x in hs["v"]]
            if container == "tuple":
                kw["hdu_index"] = tuple(kw["hdu_index"])
    if ks["form"] == "one":
        kw["wcs_key"] = ks["v"][0]
    elif ks["form"] == "each":
        kw["wcs_key"] = tuple(ks["v"]) if container == "tuple" else list(ks["v"])
    return kw


def _cli_opts(cli, hs, ks):
    """The option strings: TLC gives the tokens, the user joins them with commas."""
    opts = []
    if hs["form"] != "none":
        text = ",".join(str(t) for t in cli["hdu"])
        # a value that starts with a minus sign has to be attached to its option
        opts += ["--hdu-index=" + text] if text.startswith("-") else ["--hdu-index", text]
    if ks["form"] != "none":
        opts += ["--wcs-key", ",".join(cli["key"])]
    return opts


def make_collection(entry, paths, hs, ks, cli, flip, kw=None, apaths=None, loader=None):
    """The ImageCollection the entry point builds for this selection.  paths: what the Python API is given; apaths: the
    same inputs as command-line words; kw: the caller's argument objects (default: built here from TLC's selection);
    loader: the caller's CollectionLoader instance (entry "loader")."""
    import contextlib
    import io
    import toasty
    from toasty import collection as C
    from toasty import fits_tiler
    kw = _kwargs(hs, ks) if kw is None else kw
    apaths = [str(p_) for p_ in paths] if apaths is None else apaths
    scratch = os.path.dirname(os.path.abspath(str(paths[0])))
    if entry == "load":
        inp = paths[0] if (len(paths) == 1 and flip and isinstance(paths[0], str)) else (tuple(paths) if flip else list(paths))
        return C.load(inp, **kw)
    if entry == "class":
        return C.SimpleFitsCollection(list(paths), **kw)
    if entry == "loader":
        if loader is None:
            loader = C.CollectionLoader()
            for k_, v_ in kw.items():
                setattr(loader, k_, v_)
        return loader.load_paths(paths)
    if entry == "cli-multi-tan":
        # `toasty tile-multi-tan`: the collection the command hands to its tile processor
        from toasty import cli as tcli
        from toasty import multi_tan
        orig_mtp = multi_tan.MultiTanProcessor
        multi_tan.MultiTanProcessor = _Spy
        _Recorder.last = None
        try:
            with contextlib.redirect_stdout(io.StringIO()):
                tcli.entrypoint(["tile-multi-tan", "--parallelism", "1", "--outdir", os.path.join(scratch, "never-written")]
                                + _cli_opts(cli, hs, ks) + list(apaths))
        except _Stop:
            pass
        finally:
            multi_tan.MultiTanProcessor = orig_mtp
        coll = _Recorder.last
        _Recorder.last = None
        if coll is None:
            raise _NoHook("tile-multi-tan did not hand a collection to multi_tan.MultiTanProcessor")
        return coll
    orig = fits_tiler.FitsTiler
    fits_tiler.FitsTiler = _Recorder
    _Recorder.last = None
    try:
        if entry == "cli":
            from toasty import cli as tcli
            with contextlib.redirect_stdout(io.StringIO()):
                tcli.entrypoint(["view", "--tile-only"] + _cli_opts(cli, hs, ks) + list(apaths))
        elif entry == "tile_fits":
            inp = paths[0] if (len(paths) == 1 and flip and isinstance(paths[0], str)) else list(paths)
            toasty.tile_fits(inp, out_dir=os.path.join(scratch, "never-written"), parallel=1, **kw)
        else:
            raise ValueError(entry)
    finally:
        fits_tiler.FitsTiler = orig
    coll = _Recorder.last
    _Recorder.last = None
    if coll is None:
        raise _NoHook("%s did not hand a collection to fits_tiler.FitsTiler" % entry)
    return coll


class _NoHook(Exception):
    pass


class _Stop(Exception):
    pass


class _Spy(object):
    """Stands in for a tile processor: records the collection the command built and stops the command there."""

    def __init__(self, collection, *args, **kwargs):
        _Recorder.last = collection
        raise _Stop()


# the command-line subcommands that take the selection options, and how each is replayed
CLI_ROUTES = {"view": "cli", "tile-multi-tan": "cli-multi-tan"}


def cli_selection_commands():
    """Every subcommand of toasty.cli whose parser accepts --hdu-index or --wcs-key (discovered from the real parsers)."""
    import argparse
    from toasty import cli as tcli
    found = {}
    for name in sorted(dir(tcli)):
        if not name.endswith("_getparser"):
            continue
        parser = argparse.ArgumentParser()
        try:
            getattr(tcli, name)(parser)
        except Exception:  # noqa
            continue
        opts = set()
        for act in parser._actions:
            opts.update(o for o in act.option_strings if o in ("--hdu-index", "--wcs-key"))
        if opts:
            found[name[:-10].replace("_", "-")] = sorted(opts)
    return found


def multi_tan_applies(rec):
    """tile-multi-tan takes one integer and one letter: its route covers the scalar and the absent forms."""
    return rec["hs"]["form"] in ("none", "one") and rec["ks"]["form"] in ("none", "one")


def _snapshot(o, is_image):
    w = o.wcs.wcs
    d = {"shape": [int(x) for x in o.shape], "crval": [float(x) for x in w.crval], "crpix": [float(x) for x in w.crpix],
         "cdelt": [float(x) for x in w.cdelt], "id": getattr(o, "collection_id", None)}
    if is_image:
        a = o.asarray()
        lo, hi = float(a.min()), float(a.max())
        d["val"] = lo if lo == hi else [lo, hi]
    return d


def _one_pass(coll, gen):
    """A complete enumeration; what every object says at the moment it is yielded, and the objects themselves."""
    items, objs = [], []
    for o in (coll.descriptions() if gen == "d" else coll.images()):
        items.append(_snapshot(o, gen == "i"))
        objs.append(o)
    return items, objs


def _mutate(objs, mode, is_image):
    """The client edits, in place, what it was handed."""
    for k, o in enumerate(objs):
        if mode == "parity":
            o.ensure_negative_parity()
        else:
            o.flip_parity()
            o.wcs.wcs.crval = [123.0, -45.0]
            o.wcs.wcs.crpix = [1.0 + k, 2.0]
            if is_image:
                try:
                    o.asarray()[...] = -7.0
                except ValueError:      # read-only buffer
                    pass


def run_history(coll, hist, use_lib):
    """hist: TLC's operation log ("d" / "i" = a complete pass, "parity" / "edit" = the client edits the last pass's
    objects in place).  With use_lib the library's own in-place consumer (_is_multi_tan: ensure_negative_parity on the
    descriptions it scans) stands in for the first client edit.  -> passes [(gen, items)], export_simple(), notes"""
    passes, objs, gen, notes = [], [], None, []
    for n, op in enumerate(hist):
        if op in ("d", "i"):
            gen = op
            items, objs = _one_pass(coll, gen)
            passes.append((gen, items))
        elif use_lib and n == 1:
            objs = []
            try:
                coll._is_multi_tan()
            except AttributeError as e:
                notes.append("no _is_multi_tan on the collection (%s)" % e)
        else:
            _mutate(objs, op, gen == "i")
    simple = [(str(t[0]), t[1]) for t in coll.export_simple()]
    return passes, simple, notes


def _try(entry, paths, hs, ks, cli, flip, hist=("d", "i"), use_lib=False, **mk):
    import warnings
    with warnings.catch_warnings():
        warnings.simplefilter("ignore")
        coll = make_collection(entry, paths, hs, ks, cli, flip, **mk)
        return run_history(coll, hist, use_lib)


def _judge(items, what, exp, paths, hform, kform):
    """One enumeration against TLC's expectation -> [(severity, key, message)]"""
    out = []
    n = len(exp)
    if len(items) != n:
        out.append(("V", "item-count", "%s() yields %d items for %d input paths (%d distinct files)" % (what, len(items), n, len(set(paths)))))
        return out
    eshapes = [e["shape"] for e in exp]
    got = [o["shape"] for o in items]
    if got != eshapes and sorted(got) == sorted(eshapes):
        out.append(("V", "order", "%s() yields the selected HDUs in the order %s, input order is %s" % (what, got, eshapes)))
        return out
    for k, (o, e) in enumerate(zip(items, exp)):
        wrong_val = "val" in o and o["val"] != float(e["val"])
        if o["shape"] != e["shape"] or wrong_val or o["crpix"] != [float(x) for x in e["crpix"]]:
            out.append(("V", "hdu-%s:wrong-hdu" % hform,
                        "%s()[%d] is not HDU %d of input %d: shape %s value %s crpix %s, selected HDU has shape %s value %s crpix %s"
                        % (what, k, e["hdu"], k, o["shape"], o.get("val", "-"), o["crpix"], e["shape"], e["val"], e["crpix"])))
        elif o["crval"] != [x / float(e.get("crvaldiv", 1)) for x in e["crval"]] or o["cdelt"] != [x / 1000.0 for x in e["cdelt"]]:
            out.append(("V", "key-%s:wrong-wcs" % kform,
                        "%s()[%d] carries the WCS with CRVAL %s CDELT %s; the selected key %r of HDU %d has CRVAL %s CDELT %s/1000"
                        % (what, k, o["crval"], o["cdelt"], e["key"], e["hdu"], [x / float(e.get("crvaldiv", 1)) for x in e["crval"]], e["cdelt"])))
        if str(o["id"]) != paths[k]:
            out.append(("D", "collection_id", "%s()[%d].collection_id is %r, input path is %r" % (what, k, o["id"], paths[k])))
    return out


def _export_matches(simple, given, exp):
    """export_simple() designates, for every input path, the selected HDU (an index written from the end counts as the
    HDU it designates: TLC's Resolve)."""
    if len(simple) != len(exp):
        return False
    for (p, h), g, e in zip(simple, given, exp):
        h = int(h)
        if p != g or (h if h >= 0 else h + e["nhdu"]) != e["hdu"]:
            return False
    return True


def _replay(root, idx, rec, exp, entry, hist, use_lib, res, container="list", kw=None, loader=None, tag=None, given_paths=None):
    """One (case, entry point): a history on one collection object against TLC's expectation `exp`.  -> True if quiet
    given_paths: the input paths themselves (default: the files of `root` that exp names, spelled in one of PATH_FORMS)"""
    hs, ks, cli = rec["hs"], rec["ks"], rec["cli"]
    flip = (idx // 4) % 2 == 1
    form = PATH_FORMS[(idx // 8) % 4]
    if given_paths is not None:
        form = "absolute"
        paths = list(given_paths)
        apaths = list(given_paths)
    else:
        paths = input_paths(root, exp, form)
        apaths = input_paths(root, exp, form, for_argv=True)
    given = [str(p_) for p_ in (apaths if entry.startswith("cli") else paths)]
    hform, kform = hs["form"], ks["form"]
    names = {"d": "descriptions", "i": "images"}
    mk = {"apaths": apaths, "loader": loader, "kw": kw if kw is not None else _kwargs(hs, ks, container)}
    case = {"entry": entry, "layouts": [e["file"] for e in exp], "hdu_index": hs, "wcs_key": ks, "expected": exp, "paths": given,
            "path_form": form, "container": container,
            "history": [("_is_multi_tan" if (use_lib and n == 1) else op) for n, op in enumerate(hist)]}
    if entry.startswith("cli"):
        case["argv"] = _cli_opts(cli, hs, ks)

    def bad(sev, key, msg):
        res.append((sev, "%s:%s" % (entry, (tag + ":" + key) if tag else key), msg, case))

    def fresh_mk():
        return {"apaths": apaths, "kw": _kwargs(hs, ks, container)}
    try:
        passes, simple, notes = _try(entry, paths, hs, ks, cli, flip, hist, use_lib, **mk)
    except _NoHook as e:
        bad("D", "no-hook", str(e))
        return True
    except BaseException as e:  # noqa - SystemExit from the CLI's die() included
        # which part of the selection does the failure belong to?
        cls = "hdu-" + hform
        if kform != "none":
            try:
                _try(entry, paths, hs, {"form": "none", "v": []}, dict(cli, key=[]), flip, apaths=apaths)
                cls = "key-" + kform
            except BaseException:  # noqa
                pass
        bad("V", cls + ":raises", "an in-scope selection (hdu_index %s, wcs_key %s, %d file(s), %s paths, entries in a %s) fails with %s: %s"
            % (_show(hs), _show(ks), len(paths), form, container, type(e).__name__, str(e)[:160]))
        return False
    for note in notes:
        bad("D", "lib-consumer", note)
    failed = False
    for pn, (gen, items) in enumerate(passes):
        found = _judge(items, names[gen], exp, given, hform, kform)
        if pn > 0 and any(f[0] == "V" for f in found):
            # does the outcome depend on the history?  the same enumeration on a fresh collection object decides
            try:
                fresh = _try(entry, paths, hs, ks, cli, flip, [gen], **fresh_mk())[0][0][1]
                fresh_ok = not any(f[0] == "V" for f in _judge(fresh, names[gen], exp, given, hform, kform))
            except BaseException:  # noqa
                fresh_ok = False
            if fresh_ok:
                first = [f for f in found if f[0] == "V"][0]
                found = [("V", "later-enumeration:" + names[gen],
                          "after the history %s on one collection object, %s() no longer yields what a fresh collection yields: %s"
                          % (case["history"], names[gen], first[2]))]
        for sev, key, msg in found:
            failed = failed or sev == "V"
            bad(sev, key, msg)
        if failed:
            return False
    lastd = [it for g, it in passes if g == "d"]
    lasti = [it for g, it in passes if g == "i"]
    if lastd and lasti:
        for k, (d, im) in enumerate(zip(lastd[-1], lasti[-1])):
            if any(d[f] != im[f] for f in ("shape", "crval", "crpix", "cdelt")):
                failed = True
                bad("V", "descriptions-vs-images", "item %d: description has shape %s crval %s crpix %s cdelt %s, image has shape %s crval %s crpix %s cdelt %s"
                    % (k, d["shape"], d["crval"], d["crpix"], d["cdelt"], im["shape"], im["crval"], im["crpix"], im["cdelt"]))
    if not _export_matches(simple, given, exp):
        failed = True
        bad("V", "export_simple", "export_simple() = %s, selected %s" % ([(os.path.basename(p), h) for p, h in simple],
                                                                          [(os.path.basename(g), e["hdu"]) for g, e in zip(given, exp)]))
    return not failed


def _replay_case(args):
    """-> (findings, nontrivial, repeated) ; a finding is (severity, key, message, case): 'V' property monitor, 'D' drift."""
    root, idx, rec, entries, hists = args
    repo.setup()
    os.chdir(root)
    exp = rec["exp"]
    res = []
    for en, entry in enumerate(entries):
        hist = hists[(idx + en) % len(hists)]
        use_lib = hist[:2] == ["d", "parity"] and (idx // len(hists)) % 2 == 0
        _replay(root, idx, rec, exp, entry, hist, use_lib, res, container=CONTAINERS[(idx // 3 + en) % 3])
    nontrivial = any(e["hdu"] != 0 or e["key"] != " " for e in exp)
    # a physical file named at several positions with entries that differ between those positions
    repeated = any(a["file"] == b["file"] and (a["hdu"], a["key"]) != (b["hdu"], b["key"])
                   for x, a in enumerate(exp) for b in exp[x + 1:])
    return res, nontrivial, repeated


REUSE_ENTRIES = ("load", "class", "loader", "tile_fits", "cli", "cli-multi-tan")


def _reuse_case(args):
    """The caller's argument objects (the hdu_index / wcs_key lists, or one CollectionLoader) used for a first collection
    (a whole history on it) and then for a SECOND collection over other files: TLC says what each must yield."""
    root, idx, rec, entry, hists = args
    repo.setup()
    os.chdir(root)
    import copy
    import warnings
    hs, ks, cli = rec["hs"], rec["ks"], rec["cli"]
    container = CONTAINERS[idx % 3]
    res = []
    kw = _kwargs(hs, ks, container)
    before = (repr(kw), copy.deepcopy(kw))
    loader = None
    if entry == "loader":
        from toasty import collection as C
        loader = C.CollectionLoader()
        for k_, v_ in kw.items():
            setattr(loader, k_, v_)
    hist = hists[idx % len(hists)]
    ok = _replay(root, idx, rec, rec["expA"], entry, hist, False, res, container=container, kw=kw, loader=loader)
    if not ok:
        return res, True, False
    # the second collection, from the same argument objects: both enumerations and export_simple, then the same from
    # argument objects of its own when something is off (is it the reuse, or the selection itself?)
    n0 = len(res)
    ok = _replay(root, idx, rec, rec["expB"], entry, ["d", "i"], False, res, container=container, kw=kw, loader=loader)
    if not ok:
        probe = []
        if _replay(root, idx, rec, rec["expB"], entry, ["d", "i"], False, probe, container=container):
            first = [f for f in res[n0:] if f[0] == "V"][0]
            case = dict(first[3], first_collection=[e["file"] for e in rec["expA"]], second_collection=[e["file"] for e in rec["expB"]])
            res[n0:] = [("V", "%s:second-collection" % entry,
                         "the same %s passed for a second collection over other files (after files %s, now files %s) no longer selects what it says: %s"
                         % ("CollectionLoader" if loader is not None else "hdu_index / wcs_key objects", case["first_collection"], case["second_collection"], first[2]), case)]
    if repr(kw) != before[0]:
        res.append(("D", "%s:arguments-modified" % entry, "the caller's arguments were %s before the call and are %s after it" % (before[0], repr(kw)), {"layouts": rec["lay"], "hdu_index": hs, "wcs_key": ks}))
    differs = any(a["hdu"] != b["hdu"] for a, b in zip(rec["expA"], rec["expB"]))
    return res, True, differs


CALL_ENTRIES = ("load", "class", "loader", "tile_fits", "cli", "cli-multi-tan")


def _fork_call(fn):
    """fn() in a forked child of this process, which is thrown away afterwards: whatever the library keeps at module level
    starts from what this worker has and is gone with the child.  -> ("ok", value) | ("raised", text)"""
    import pickle
    r, w = os.pipe()
    pid = os.fork()
    if pid == 0:
        code = 0
        try:
            os.close(r)
            try:
                out = ("ok", fn())
            except BaseException as e:  # noqa
                out = ("raised", "%s: %s" % (type(e).__name__, str(e)[:300]))
            with os.fdopen(w, "wb") as f:
                pickle.dump(out, f)
        except BaseException:  # noqa
            code = 3
        finally:
            os._exit(code)
    os.close(w)
    with os.fdopen(r, "rb") as f:
        data = f.read()
    os.waitpid(pid, 0)
    if not data:
        return ("raised", "the child process died without a result")
    return pickle.loads(data)


def _rewrite_in_place(path, src):
    """The file at `path` is rewritten in place with the contents of `src`: same path, same inode, new contents, a later
    modification time (file systems stamp in coarse steps: the stamp is set, two seconds after the old one)."""
    import shutil
    st = os.stat(path)
    shutil.copyfile(src, path)
    os.utime(path, ns=(st.st_atime_ns, st.st_mtime_ns + 2000000000))


def _describe_op(root, op, entry=None):
    if op["op"] == "rewrite":
        return "%s rewritten in place with other contents" % file_name(root, op["names"][0])
    return "%s([%s], hdu_index=%s, wcs_key=%s)" % (entry or "load", ", ".join(file_name(root, p) for p in op["names"]), _show(op["hs"]), _show(op["ks"]))


def _call_entry(idx, n, op):
    ents = [e for e in CALL_ENTRIES if e != "cli-multi-tan" or multi_tan_applies(op)]
    return ents[(idx + 2 * n) % len(ents)]


def _run_history(root, idx, hist, only=None):
    """The operations of one TLC history against the real code IN THIS PROCESS, on a directory of its own: path name p
    holds contents p at first; "rewrite" rewrites a path in place; "load" builds a collection through one of the entry
    points and enumerates descriptions(), images() and export_simple() against what TLC says this load delivers.
    only = n: load n alone, on the disk as the earlier operations left it (none of the earlier loads is made).
    -> ([(n, entry, findings)], number of the first load that failed | None)"""
    import shutil
    import tempfile
    obs = json.load(open(os.path.join(root, "obs.json")))
    d = tempfile.mkdtemp(prefix="h%d-" % idx, dir=root)
    nnames = len(json.load(open(os.path.join(root, "names.json"))))

    def path(p):
        return os.path.join(d, file_name(root, p))

    def content(q):
        return os.path.join(root, "content-%d.fits" % q)
    out, failed = [], None
    try:
        for p in range(1, nnames + 1):
            shutil.copyfile(content(p), path(p))
        for n, op in enumerate(hist["ops"]):
            if op["op"] == "rewrite":
                _rewrite_in_place(path(op["names"][0]), content(op["cont"][0]))
                continue
            if only is not None and n != only:
                continue
            exp = [dict(obs[f - 1][h][k], path=i + 1) for i, (f, h, k) in enumerate(op["out"])]
            entry = _call_entry(idx, n, op)
            rec = {"hs": op["hs"], "ks": op["ks"], "cli": op["cli"], "lay": op["cont"]}
            found = []
            ok = _replay(root, idx + n, rec, exp, entry, ["d", "i"] if (idx + n) % 2 == 0 else ["i", "d"], False, found,
                         container=CONTAINERS[(idx + n) % 3], given_paths=[path(p) for p in op["names"]])
            out.append((n, entry, found))
            if not ok:
                failed = n
                break
    finally:
        shutil.rmtree(d, ignore_errors=True)
    return out, failed


def calls_case(args):
    """One TLC history of load calls, replayed in a process of its own (a forked child).  A load that does not deliver
    what TLC says is made again ALONE in another fresh process: when it is right there, the earlier operations of the
    history are what broke it.  -> (findings, number of loads made)"""
    root, idx, hist = args
    repo.setup()
    os.chdir(root)
    ops = hist["ops"]
    case0 = {"entry": "calls", "layouts": [op["cont"] for op in ops], "hdu_index": ops[-1]["hs"], "wcs_key": ops[-1]["ks"], "history": ops}
    try:
        kind, val = _fork_call(lambda: _run_history(root, idx, hist))
        if kind != "ok":
            return [("D", "calls:not-observed", "the history could not be replayed: %s" % val, case0)], 0
        runs, failed = val
        res = []
        for n, entry, found in runs:
            if n == failed and n > 0 and any(f[0] == "V" for f in found):
                kind2, val2 = _fork_call(lambda: _run_history(root, idx, hist, only=n))
                if kind2 == "ok" and val2[1] is None:
                    first = [f for f in found if f[0] == "V"][0]
                    rel = ops[n]["rel"]
                    why = "other-key-before" if rel[0] else ("rewritten-file" if rel[1] else ("other-hdu-before" if rel[2] else "earlier-load"))
                    before = "; ".join(_describe_op(root, o, _call_entry(idx, m, o) if o["op"] == "load" else None) for m, o in enumerate(ops[:n]))
                    case = dict(first[3], history=ops, failing_load=n)
                    res += [f for f in found if f[0] != "V"]
                    res.append(("V", "%s:later-load:%s" % (entry, why),
                                "in one process, after [%s], %s does not deliver what this call selects (alone in a fresh process it does): %s"
                                % (before, _describe_op(root, ops[n], entry), first[2]), case))
                    continue
            res += found
        return res, len(runs)
    except Exception as e:  # noqa
        return [("D", "calls:not-observed", "the history could not be replayed: %s: %s" % (type(e).__name__, str(e)[:200]), case0)], 0


def _show(spec):
    if spec["form"] == "none":
        return "unset"
    if spec["form"] == "one":
        return repr(spec["v"][0])
    return repr(list(spec["v"]))


def _deepest_pixels(out, level):
    """The pixels of the deepest tile level that hold data: (rows, columns, values) in the pixel frame of that level (row
    0 at the top).  Tile by tile, so that a tiling that came out much deeper than the inputs warrant is still read."""
    import glob
    import numpy as np
    from astropy.io import fits
    ys, xs, vs = [np.zeros(0, dtype=np.int64)], [np.zeros(0, dtype=np.int64)], [np.zeros(0)]
    for p in sorted(glob.glob(os.path.join(out, str(level), "*", "*.fits"))):
        y = int(os.path.basename(os.path.dirname(p)))
        x = int(os.path.basename(p).split("_")[1].split(".")[0])
        with fits.open(p) as hl:
            data = np.asarray(hl[0].data, dtype=np.float64)[::-1]      # FITS tiles are stored bottom-up
        yy, xx = np.nonzero(np.isfinite(data))
        ys.append(yy + 256 * y)
        xs.append(xx + 256 * x)
        vs.append(data[yy, xx])
    return np.concatenate(ys), np.concatenate(xs), np.concatenate(vs)


def check_tiling(out, level, rec, mode, case):
    """What the tiling shows against what TLC says each input contributes and where."""
    import numpy as np
    exp, sky, tiling = rec["exp"], rec["sky"], rec["tiling"]
    res = []
    py, px, pv = _deepest_pixels(out, level)
    if tiling["aligned"]:
        # inputs on one pixel grid: pixels are copied, so the count per value is exact
        v, c = np.unique(pv, return_counts=True)
        counts = dict(zip(v.tolist(), c.tolist()))
        want = {float(e["val"]): e["shape"][0] * e["shape"][1] for e in exp}
        if counts != want:
            res.append(("V", "%s:wrong-pixels" % mode, "deepest tile level holds pixel values %s, the selected HDUs hold %s" % (counts, want), case))
        return res
    # inputs of different pixel scale or reference point: each is resampled (a constant image stays constant) onto the finest grid
    unit = float(tiling["unit"])
    want = {}
    for e, sk in zip(exp, sky):
        want[float(e["val"])] = sk
    vals = np.round(pv)
    if np.abs(pv - vals).max(initial=0.0) > 1e-3:
        res.append(("V", "%s:wrong-pixels" % mode, "the tiling holds pixel values that are no input's value: %s" % (np.unique(pv)[:8],), case))
        return res
    present = set(np.unique(vals).tolist())
    if present != set(want):
        res.append(("V", "%s:wrong-pixels" % mode, "the tiling of inputs %s (finest scale first? %s) shows the values %s; the selected HDUs hold %s"
                    % (rec["lay"], [e["cdelt"][1] for e in exp], sorted(present), sorted(want)), case))
        return res
    if len(want) != len(exp):
        return res          # one (file, HDU) selected at two positions: which copy shows is not judged
    place = {}
    for v, sk in want.items():
        sel = np.abs(pv - v) < 0.5
        place[v] = (px[sel].mean(), py[sel].mean(), int(sel.sum()))
        area = sk["w"] * sk["h"] / (unit * unit)
        if not 0.6 * area <= place[v][2] <= 1.4 * area:
            res.append(("V", "%s:misplaced" % mode, "value %s covers %d pixels of the tiling, the selected HDU covers %s x %s"
                        % (v, place[v][2], sk["w"] / unit, sk["h"] / unit), case))
    vs = sorted(want)
    for a in vs[1:]:
        # displacement between two inputs (the mosaic frame may be rotated to fit the inputs tightly, so: the distance, and -
        # when the inputs lie side by side along x, where the first encoding separates them - the side)
        dx = place[a][0] - place[vs[0]][0]
        dy = place[a][1] - place[vs[0]][1]
        ex = (want[a]["cx2"] - want[vs[0]]["cx2"]) / (2 * unit)
        ey = -(want[a]["cy2"] - want[vs[0]]["cy2"]) / (2 * unit)
        side = abs(ex) > 4 * abs(ey) and dx * ex <= 0
        if abs((dx * dx + dy * dy) ** 0.5 - (ex * ex + ey * ey) ** 0.5) > 2 or side:
            res.append(("V", "%s:misplaced" % mode, "value %s lies (%.1f, %.1f) pixels from value %s in the tiling, its HDU lies (%.1f, %.1f) from that one on the sky"
                        % (a, dx, dy, vs[0], ex, ey), case))
    return res


def _scale_poll_timeouts(cap=0.25):
    """The worker processes of the parallel tilers poll their queue with time-outs of 1 to 10 seconds and leave after a
    time-out that follows the end signal: a run of two tiny images waits 10 s or more for nothing.  In the throw-away
    process that makes such a run, the time-out of every queue poll is capped (time is scaled, the protocol is as it is)."""
    import multiprocessing.queues as mq
    orig = mq.Queue.get

    def get(self, block=True, timeout=None):
        return orig(self, block, timeout if timeout is None else min(timeout, cap))
    mq.Queue.get = get


def _e2e_body(root, idx, rec, mode, par):
    """One end-to-end tiling (par = the `parallel` argument / --parallelism) read back and judged.  -> findings"""
    import contextlib
    import glob
    import io
    import warnings
    import toasty
    os.environ["SLURM_NPROCS"] = "1"      # toasty's own knob: the cascade inside tile_fits takes no `parallel` argument
    hs, ks, cli, exp = rec["hs"], rec["ks"], rec["cli"], rec["exp"]
    paths = input_paths(root, exp)
    key = mode if par == 1 else mode + "-parallel"
    out = os.path.join(root, "e2e-%s-%d-p%d" % (mode, idx, par))
    case = {"entry": key, "parallel": par, "layouts": rec["lay"], "hdu_index": hs, "wcs_key": ks, "expected": exp, "sky": rec["sky"], "tiling": rec["tiling"]}
    res = []
    if par > 1:
        _scale_poll_timeouts()
    try:
        with warnings.catch_warnings(), contextlib.redirect_stdout(io.StringIO()) as sink, contextlib.redirect_stderr(io.StringIO()):
            warnings.simplefilter("ignore")
            if mode == "tiler-history":
                # the library's own consumers on ONE collection object: a TAN tiling, then both enumerations again
                from toasty import collection as C
                from toasty.fits_tiler import FitsTiler
                coll = C.load(list(paths), **_kwargs(hs, ks))
                t = FitsTiler(coll, out_dir=out, tiling_method=toasty.TilingMethod.TAN)
                t.tile(parallel=par)
                level = t.builder.imgset.tile_levels
                for gen, what in (("d", "descriptions"), ("i", "images")):
                    found = _judge(_one_pass(coll, gen)[0], what, exp, paths, hs["form"], ks["form"])
                    for sev, key_, msg in found:
                        if sev == "V":
                            res.append(("V", "tiler-history:later-enumeration:" + what,
                                        "after FitsTiler(coll, tiling_method=TAN).tile() on the same collection object: " + msg, case))
                            break
            elif mode == "tile_fits-e2e":
                _o, bld = toasty.tile_fits(list(paths), out_dir=out, parallel=par, **_kwargs(hs, ks))
                level = bld.imgset.tile_levels
            elif mode == "view-e2e":
                # `toasty view --tile-only` writes next to the first input: give it a directory of its own
                from toasty import cli as tcli
                os.makedirs(out)
                links = []
                for n, p_ in enumerate(paths):
                    links.append(os.path.join(out, "in%d.fits" % n))
                    os.symlink(p_, links[-1])
                argv = ["view", "--tile-only", "--parallelism", str(par)] + _cli_opts(cli, hs, ks) + links
                case["argv"] = argv[:-len(links)]
                tcli.entrypoint(argv)
                wtml = [l.split(None, 1)[1].strip() for l in sink.getvalue().splitlines() if l.startswith("WTML:")]
                out = os.path.dirname(wtml[-1])
                level = max(int(os.path.basename(d)) for d in glob.glob(os.path.join(out, "[0-9]*")))
            else:
                from toasty import cli as tcli
                argv = ["tile-multi-tan", "--parallelism", str(par), "--outdir", out] + _cli_opts(cli, hs, ks) + list(paths)
                case["argv"] = argv[1:-len(paths)]
                tcli.entrypoint(argv)
                level = max(int(os.path.basename(d)) for d in glob.glob(os.path.join(out, "[0-9]*")))
    except BaseException as e:  # noqa
        res.append(("V", "%s:hdu-%s:raises" % (key, hs["form"]), "tiling an in-scope selection (hdu_index %s, wcs_key %s, parallel=%d) fails with %s: %s"
                    % (_show(hs), _show(ks), par, type(e).__name__, str(e)[:160]), case))
        return res
    try:
        return res + check_tiling(out, level, rec, key, case)
    except Exception as e:  # noqa
        return res + [("D", "%s:not-observed" % key, "the tiles could not be read back: %s: %s" % (type(e).__name__, str(e)[:200]), case)]


PAR_BACKSTOP = 1800      # seconds; a backstop for a parallel tiling that never returns (normal duration: a few seconds)


def e2e_case(args):
    """The real tilers end to end: the deepest tile level shows every input's selected HDU, at its own place.
    args = (root, idx, rec, mode) for the serial route, (root, idx, rec, mode, par) for `parallel` = par > 1: the same
    collection is tiled serially and with par worker processes (a throw-away process group each) and both are judged."""
    root, idx, rec, mode = args[:4]
    par = args[4] if len(args) > 4 else 1
    repo.setup()
    case = {"entry": mode, "parallel": par, "layouts": rec["lay"], "hdu_index": rec["hs"], "wcs_key": rec["ks"]}
    try:
        if par == 1:
            return _e2e_body(root, idx, rec, mode, 1)
        from lib import guard
        res = []
        quiet = {}
        for p_ in (1, par):
            kind, val = guard.run_guarded(lambda p_=p_: _e2e_body(root, idx, rec, mode, p_), PAR_BACKSTOP)
            if kind == "ok":
                quiet[p_] = not any(f[0] == "V" for f in val)
                if p_ > 1 and not quiet[p_] and quiet.get(1):
                    val = [(f[0], f[1], "the serial route (parallel=1) shows every input's selected HDU at its place; with parallel=%d: %s" % (p_, f[2]), f[3])
                           if f[0] == "V" else f for f in val]
                res += val
            elif kind == "timeout":
                res.append(("D", "%s:not-observed" % mode, "the tiling with parallel=%d did not return within the %d s backstop (not judged here)" % (p_, PAR_BACKSTOP), case))
            else:
                res.append(("D", "%s:not-observed" % mode, "the tiling with parallel=%d could not be observed: %s" % (p_, val), case))
        return res
    except Exception as e:  # noqa
        return [("D", "%s:not-observed" % mode, "the tiling could not be observed: %s: %s" % (type(e).__name__, str(e)[:200]), case)]


# ---------------------------------------------------------------------------------------------------

def tlc_cases(ctx, name, layouts_text, maxfiles, hforms=ALL_FORMS, kforms=ALL_FORMS, theorems=True, disjoint=True, workers=4, flat=False):
    outp = os.path.join(ctx.scratch, "files-%s.json" % name)
    r = ctx.tlc("MCCollection", extra={"MCCollection.tla": mc_module(layouts_text, hforms, kforms, theorems, disjoint, flat)},
                cfg_text=CFG % maxfiles, env={"OUT": outp}, workers=workers, timeout=3600)
    recs = r.json_lines("R")
    if not recs or not os.path.exists(outp):
        ctx.machinery("TLC emitted no cases for %s" % name)
    table = json.load(open(outp))
    root = ctx.mkdtemp("fits-" + name)
    files = table["files"]
    with open(os.path.join(root, "names.json"), "w") as f:
        json.dump([NAME_TEMPLATES[c] % (p_ + 1) for p_, c in enumerate(table["names"])], f)
    for p, hdus in enumerate(files, start=1):
        write_fits(file_path(root, p), hdus)
    ctx.note("cases_" + name, len(recs))
    ctx.note("fits_files_" + name, len(files))
    return root, recs


def pick_histories(ctx, recs):
    """A stratified subset of TLC's histories of load calls: per (how the last load relates to the earlier operations,
    whether a path was rewritten, forms and lengths of the loads) a few, chosen by the seed."""
    strata = {}
    for h in recs:
        loads = [o for o in h["ops"] if o["op"] == "load"]
        cls = (tuple(loads[-1]["rel"]), len(h["ops"]), tuple((o["hs"]["form"], o["ks"]["form"], len(o["names"])) for o in loads))
        strata.setdefault(cls, []).append(h)
    per = 2 if ctx.quick else 12
    out = []
    for cls in sorted(strata):
        lst = strata[cls]
        k = min(per, len(lst))
        step = len(lst) // k
        off = ctx.rng.randrange(step)
        out += [lst[off + i * step] for i in range(k)]
    ctx.note("history_strata", len(strata))
    return out


def pick_parallel(ctx, root, recs):
    """The collections tiled serially AND with worker processes: two different files, per-file entries that DIFFER and are
    each in scope for every file (TLC's CrossValid), so that nothing but the pixels tells which HDU / key a route took.
    -> [(root, idx, rec, mode, par)]"""
    def two(r):
        return len(r["lay"]) == 2 and r["lay"][0] != r["lay"][1] and r["cross"]

    def hdiff(r):
        return r["hs"]["form"] == "each" and r["exp"][0]["hdu"] != r["exp"][1]["hdu"]

    def kdiff(r):
        return r["ks"]["form"] == "each" and r["exp"][0]["key"] != r["exp"][1]["key"]
    classes = [
        # per-file HDUs, one pixel grid: MultiTanProcessor through tile_fits
        ("tile_fits-e2e", lambda r: two(r) and hdiff(r) and not kdiff(r) and r["tiling"]["aligned"]),
        # per-file HDUs and per-file keys: MultiWcsProcessor through FitsTiler
        ("tiler-history", lambda r: two(r) and hdiff(r) and kdiff(r)),
        # per-file keys: MultiWcsProcessor through `toasty view --parallelism`
        ("view-e2e", lambda r: two(r) and kdiff(r) and r["hs"]["form"] == "one"),
        # one HDU index and one key for all: `toasty tile-multi-tan --parallelism`
        ("tile-multi-tan-e2e", lambda r: two(r) and multi_tan_applies(r) and r["tiling"]["aligned"] and r["exp"][0]["hdu"] != 0),
    ]
    if not ctx.quick:
        # per-file HDUs, inputs of different pixel scale: MultiWcsProcessor through tile_fits
        classes.append(("tile_fits-e2e", lambda r: two(r) and hdiff(r) and not kdiff(r) and r["tiling"]["samesky"] and not r["tiling"]["aligned"]))
    jobs = []
    for mode, pred in classes:
        cands = [r for r in recs if pred(r)]
        if not cands:
            ctx.machinery("TLC emitted no collection for the parallel route %s" % mode)
        for r in ctx.rng.sample(cands, min(len(cands), 1 if ctx.quick else 4)):
            jobs.append((root, len(jobs), r, mode, 2 if (ctx.quick or len(jobs) % 2 == 0) else 3))
    return jobs


def _not_observed(name, args, e):
    rec = args[2]
    case = {"layouts": rec.get("lay"), "hdu_index": rec.get("hs", {"form": "none", "v": []}), "wcs_key": rec.get("ks", {"form": "none", "v": []})}
    return ("D", "not-observed", "%s could not be completed: %s: %s" % (name, type(e).__name__, str(e)[:200]), case)


def replay_case(args):
    """A job of the pool never raises: what cannot be observed is reported as drift."""
    try:
        return _replay_case(args)
    except Exception as e:  # noqa
        return [_not_observed("replay_case", args, e)], False, False


def reuse_case(args):
    try:
        return _reuse_case(args)
    except Exception as e:  # noqa
        return [_not_observed("reuse_case", args, e)], True, False


def run(ctx):
    repo.setup(ctx)
    import multiprocessing as mp
    ctx.rule = ("case = (sequence of 1..3 input paths over a set of physical files - the same file may be named at several "
                "positions -, hdu_index none/one/list, wcs_key none/one/list), all in-scope cases "
                "enumerated by TLC (selected HDU exists, is an image and carries the key); TLC checks the property's sentences "
                "in every state of the descriptions()/images() interleavings and emits the expected (hdu, shape, value, key, "
                "crval, crpix) per input path plus the files to write; each case is loaded by the real code through "
                "load / SimpleFitsCollection / `toasty view` argv / tile_fits and compared. non-trivial = some file contributes "
                "an HDU other than 0 or a key other than ' '")
    # the model-checking runs every tier needs are independent: run them side by side
    import concurrent.futures as cf
    with cf.ThreadPoolExecutor(6) as tp:
        f_h = tp.submit(histories, ctx)
        f_5 = tp.submit(tlc_cases, ctx, "five3", LAYOUTS_5, 3, workers=3)
        f_c = tp.submit(tlc_cases, ctx, "cubes1", CUBES_3, 1, theorems=False, workers=2)
        f_r = tp.submit(tlc_reuse, ctx)
        f_k = tp.submit(tlc_calls, ctx)
        f_f = tp.submit(tlc_cases, ctx, "flat2", FLAT_3, 2, hforms=("one", "each"), theorems=False, workers=1, flat=True)
        hists, five3, cubes1, (rroot, rrecs) = f_h.result(), f_5.result(), f_c.result(), f_r.result()
        (kroot, krecs), (froot, frecs) = f_k.result(), f_f.result()
    cmds = cli_selection_commands()
    ctx.note("cli_subcommands_with_selection_options", cmds)
    for cmd in sorted(cmds):
        if cmd not in CLI_ROUTES:
            ctx.drift("subcommand `toasty %s` accepts %s but this check has no replay route for it" % (cmd, "/".join(cmds[cmd])))
    for cmd in sorted(CLI_ROUTES):
        if cmd not in cmds:
            ctx.drift("subcommand `toasty %s` no longer accepts --hdu-index/--wcs-key" % cmd)
    groups = []     # (name, root, cases)
    groups.append(("five3",) + five3)
    # HDUs with more than two axes, in every axis order (quick: 12 curated cube HDUs, one input path; thorough: all)
    groups.append(("cubes1",) + cubes1)
    if not ctx.quick:
        l2, l3, n2, n3, lc, nc = all_layouts(ctx)
        ctx.note("layouts_up_to_2_hdus", n2)
        ctx.note("layouts_up_to_3_hdus", n3)
        ctx.note("cube_hdu_types", nc)
        groups.append(("cubes2",) + tlc_cases(ctx, "cubes2", lc, 2, hforms=("none", "each"), kforms=("none", "one"), theorems=False))
        groups.append(("all3x1",) + tlc_cases(ctx, "all3x1", l3, 1, theorems=False, disjoint=False))
        groups.append(("all2x2",) + tlc_cases(ctx, "all2x2", l2, 2, theorems=False))
        groups.append(("six3",) + tlc_cases(ctx, "six3", LAYOUTS_6, 3, theorems=False))
    ctx.exhaustive = not ctx.quick
    jobs = []       # (root, idx, rec, entries)
    per_class = {}
    names = []
    for name, root_, recs_ in groups:
        # canonical order: TLC's print order depends on worker scheduling
        for rec in sorted(recs_, key=lambda r: json.dumps(r, sort_keys=True)):
            idx = len(jobs)
            n = len(rec["lay"])
            if name == "cubes1":
                ents = (ENTRIES[idx % 4],)
            elif name == "five3" and n < 3:
                # every entry point (quick tier: one of the four in rotation, plus tile-multi-tan where it applies)
                ents = (ENTRIES[idx % 4],) if ctx.quick else ENTRIES
            elif ctx.quick:
                # quick tier: the 3-file cases are replayed as a stratified subset (every k-th of each form class)
                cls = (rec["hs"]["form"], rec["ks"]["form"])
                per_class[cls] = per_class.get(cls, 0) + 1
                stride = {("each", "each"): 60, ("none", "each"): 15, ("each", "one"): 10, ("each", "none"): 9, ("one", "each"): 6}.get(cls, 3)
                if per_class[cls] % stride != 1 % stride:
                    continue
                ents = (ENTRIES[idx % 4],)
            elif name == "five3":
                ents = (ENTRIES[idx % 4], ENTRIES[(idx + 2) % 4])
            else:
                ents = (ENTRIES[idx % 4],)
            if multi_tan_applies(rec):
                ents = tuple(ents) + ("cli-multi-tan",)
            jobs.append((root_, idx, rec, ents, hists))
            names.append(name)
    e2e_roots = set(g[1] for g in groups if g[0] in ("five3", "six3"))
    # end-to-end subset: collections whose inputs share the reference point (same key), every hdu form, 1..3 paths;
    # TLC says whether the inputs lie on one pixel grid (exact pixel copy) or have to be resampled (different scales):
    # the resampled ones are taken in every order of finer / coarser inputs
    e2e = []
    per_class = 1 if ctx.quick else 6
    seen = {}
    cands = [j for j in jobs if j[0] in e2e_roots and j[2]["tiling"]["samesky"] and any(e["hdu"] != 0 for e in j[2]["exp"])]
    cands.sort(key=lambda j: (j[2]["hs"]["form"] != "each", j[1]))
    for r_, _i, rec, _e, _h in cands:
        n = len(rec["exp"])
        if rec["tiling"]["aligned"]:
            cls = (n, rec["hs"]["form"]) if ctx.quick else (n, rec["hs"]["form"], rec["ks"]["form"])
            if seen.get(cls, 0) < per_class:
                seen[cls] = seen.get(cls, 0) + 1
                e2e.append((r_, len(e2e), rec, "tile_fits-e2e"))
                if seen[cls] % 2 == 1 and rec["hs"]["form"] != "none":
                    e2e.append((r_, len(e2e), rec, "tiler-history"))
                if n == 2 and rec["hs"]["form"] == "each" and seen[cls] == 1:
                    e2e.append((r_, len(e2e), rec, "view-e2e"))
            if rec["hs"]["form"] == "one" and rec["ks"]["form"] == "one" and seen.get(("mt", n), 0) < per_class:
                seen[("mt", n)] = seen.get(("mt", n), 0) + 1
                e2e.append((r_, len(e2e), rec, "tile-multi-tan-e2e"))
        else:
            scales = [e["cdelt"][1] for e in rec["exp"]]
            pattern = tuple((a > b) - (a < b) for a, b in zip(scales, scales[1:]))
            cls = (n, pattern) if ctx.quick else (n, pattern, rec["hs"]["form"])
            if seen.get(cls, 0) < (1 if ctx.quick else 2):
                seen[cls] = seen.get(cls, 0) + 1
                e2e.append((r_, len(e2e), rec, "tile_fits-e2e"))
                if n == 2:
                    e2e.append((r_, len(e2e), rec, "view-e2e" if pattern == (-1,) else "tiler-history"))
    # the caller's argument objects reused for a second collection (quick: those pairs where an entry designates different
    # HDUs in the two collections, every 3rd; thorough: every pair)
    rjobs = []
    for n_, rec in enumerate(rrecs):
        if ctx.quick and not (rec["differs"] and n_ % 6 == 0):
            continue
        ents = [e for e in REUSE_ENTRIES if e != "cli-multi-tan" or multi_tan_applies(rec)]
        rjobs.append((rroot, len(rjobs), rec, ents[len(rjobs) % len(ents)], hists))
    # histories of load calls in one process (quick: a stratified subset - per relation of the last load to the earlier
    # operations and per form of the selections -, rotated by the seed; thorough: a larger one)
    kjobs = [(kroot, n_, h) for n_, h in enumerate(pick_histories(ctx, krecs))]
    # the parallel tiling routes: collections whose per-file entries differ, serial and with worker processes
    pjobs = pick_parallel(ctx, froot, frecs)
    # worker processes that may have children of their own (the parallel tilers start theirs); the runs with real worker
    # processes go first, they take longest
    with cf.ProcessPoolExecutor(6, mp_context=mp.get_context("fork")) as pool:
        f_p = [pool.submit(e2e_case, j) for j in pjobs]
        results = list(pool.map(replay_case, jobs, chunksize=32))
        rresults = list(pool.map(reuse_case, rjobs, chunksize=16))
        kresults = list(pool.map(calls_case, kjobs, chunksize=8))
        e2e_results = list(pool.map(e2e_case, e2e, chunksize=1))
        presults = [f.result() for f in f_p]
    nrep = 0
    for (res, nontrivial, repeated), (r_, idx, rec, ents, _h), name in zip(results, jobs, names):
        nrep += 1 if repeated else 0
        ctx.count(len(ents))
        ctx.trace_ok()
        if nontrivial:
            ctx.distinct((name, tuple(rec["lay"]), _show(rec["hs"]), _show(rec["ks"])))
        _report(ctx, res)
    for res in e2e_results:
        ctx.count()
        _report(ctx, res)
    for res, job in zip(presults, pjobs):
        ctx.count(2)
        ctx.trace_ok()
        ctx.distinct(("parallel", job[3], job[4], tuple(job[2]["lay"]), _show(job[2]["hs"]), _show(job[2]["ks"])))
        _report(ctx, res)
    nrel = {}
    for (res, nloads), (_r, _i, h) in zip(kresults, kjobs):
        ctx.count(nloads)
        if nloads:
            ctx.trace_ok()
        last = h["ops"][-1]
        for name, flag in zip(("other_key_before", "rewritten_file", "other_hdu_before"), last["rel"]):
            if flag:
                nrel[name] = nrel.get(name, 0) + 1
        ctx.distinct(("calls", json.dumps([(o["op"], o["names"], o["cont"], _show(o["hs"]), _show(o["ks"])) for o in h["ops"]])))
        _report(ctx, res)
    ctx.note("histories_of_load_calls_replayed", len(kjobs))
    ctx.note("histories_whose_last_load_follows", nrel)
    ctx.note("parallel_tiling_collections", [{"route": j[3], "parallel": j[4], "files": j[2]["lay"], "hdu_index": _show(j[2]["hs"]),
                                              "wcs_key": _show(j[2]["ks"]), "one_pixel_grid": j[2]["tiling"]["aligned"]} for j in pjobs])
    nre = 0
    for (res, _nt, differs), (_r, _i, rec, ent, _h) in zip(rresults, rjobs):
        ctx.count(2)
        ctx.trace_ok()
        nre += 1 if differs else 0
        ctx.distinct(("reuse", tuple(rec["lay"]), tuple(rec["lay2"]), _show(rec["hs"]), _show(rec["ks"]), ent))
        _report(ctx, res)
    ctx.note("reuse_pairs_replayed", len(rjobs))
    ctx.note("reuse_pairs_where_an_entry_designates_different_hdus", nre)
    ctx.note("end_to_end_tilings", len(e2e))
    ctx.note("replayed_cases_naming_one_file_twice_with_different_entries", nrep)
    ctx.note("entry_points", list(ENTRIES) + ["cli-multi-tan", "tile_fits-e2e", "tile-multi-tan-e2e", "tiler-history", "view-e2e"])
    for _r, _i, rec, ents, _h in jobs[:: max(1, len(jobs) // 5)][:5]:
        ctx.sample({"layouts": rec["lay"], "hdu_index": _show(rec["hs"]), "wcs_key": _show(rec["ks"]), "entry": list(ents),
                    "expected": [[e["hdu"], e["shape"], e["key"], e["crval"]] for e in rec["exp"]]})
    ctx.assume("a path listed twice is two inputs (the documented way to take two extensions of one file); repeated paths are "
               "given both as identical strings and as different spellings of the same file")
    ctx.assume("the objects yielded by descriptions()/images() belong to the caller, who may edit them in place (the library's own "
               "tiling code does); a later enumeration of the same collection object must not see such edits")
    ctx.assume("tilings of inputs with different pixel scales are resampled by the library (the mosaic frame may be rotated): judged "
               "are the set of pixel values shown (exactly the selected HDUs' values), each value's area (within 40%) and the "
               "distance between the inputs' centroids (within 2 pixels; the encoding keeps inputs >= 8 pixels apart)")
    ctx.assume("HDU indices may be written from the end (negative, as Python and astropy read them); export_simple() may report "
               "such an index as written or resolved; per-file entries are given in a list, a tuple or as NumPy integers; a NumPy "
               "integer as the SCALAR hdu_index is rejected by the unchanged code (documented type: int) and is not judged")
    ctx.assume("file names are literal: brackets, * and ?, spaces, leading dashes and double dots, non-ASCII; paths absolute, "
               "respelled, relative to the working directory or pathlib.Path objects (Python API)")
    ctx.assume("in scope: every selected HDU exists, holds a 2-D image and carries the selected WCS key; per-file lists have one "
               "entry per input path (what happens for tables, missing keys, short lists or files without any image is not judged)")
    ctx.assume("an HDU 'holds image data' when it is a 2-D image array (empty HDUs and binary tables do not); 1-D arrays, cubes, "
               "ASCII tables and compressed images are not in the enumerated layouts")
    ctx.assume("the `toasty view` and tile_fits paths are observed at the hand-over to fits_tiler.FitsTiler (recorder in place of the "
               "tiler); the real tilers are run end to end on a subset")


def _report(ctx, res):
    by_key = ctx.notes.setdefault("findings_by_key", {})
    for sev, key, msg, case in res:
        by_key[key] = by_key.get(key, 0) + 1
        if sev == "V":
            if by_key[key] <= 3:        # the same monitor failing on thousands of cases is reported three times
                ctx.violation("C20:" + key, msg, {"case": case})
        else:
            ctx.drift("%s %s (case: layouts %s hdu_index %s wcs_key %s)" % (key, msg, case["layouts"], _show(case["hdu_index"]), _show(case["wcs_key"])))
