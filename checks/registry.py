"""Source of truth for MANIFEST.json (tools/gen_manifest.py turns it into the file).
One entry per property whose check is built and registered."""

CHECKS = {}


def reg(pid, text, note, technique, design_ref, category="model_checking"):
    CHECKS[pid] = dict(text=text, note=note, technique=technique, design_ref=design_ref, category=category)


NOT_BUILT_REASON = "check not built yet in this revision (planned in DESIGN.md section 5; no claim is made)"
NOT_APPLICABLE = {}

reg("C13",
    text="TLC explores the generator + reduction-iterator state machine (spec/Reduce.tla over spec/Quadtree.tla) exhaustively for every configuration "
         "(kind x filter x apex) of a bounded family - all 17^4 effective depth-2 filters in the thorough tier - checking the iterator's assertions, "
         "exactly-once / children-first enumeration, the three counts, ops+leaves=live, the closed forms and the sub-pyramid restriction in every state; "
         "every configuration's terminal history is then replayed into the real Pyramid (generator, iterator, counts, leaf visit, serial walk) and compared. "
         "The position algebra is also evaluated by TLC on seeded positions to depth 27 and compared with the real functions.",
    note="Bounded: depth <= 3 for behaviours (depth 2 exhaustive over filters in thorough), positions to depth 27 for the algebra. Filters are pure functions of the position. "
         "TLC and the JSON bridge are trusted; the spec's Live/Leaves/Ops definitions transcribe the docstrings of count_live_tiles/count_operations.",
    technique="TLA+/TLC exhaustive model checking of the iterator state machine + replay of every TLC behaviour's history into the real code",
    design_ref="DESIGN.md 4.1, 5/C13")

reg("C03",
    text="spec/WorkQueue.tla models producer, bounded queue, feeder thread, reader lock, receive/lock timeouts, the shutdown flag and joins at the "
         "granularity of multiprocessing's critical sections; TLC checks AtMostOnce, ReturnedImpliesAll, NoLossAtSet, Bounded and termination under "
         "fairness over every interleaving for small item/worker/capacity constants (it found the lost-item race that is now fixed). TLC-simulated "
         "behaviours are replayed step by step into the real visit_leaves / transform code running on a fake multiprocessing, comparing the projected "
         "state after every step; all four real stages are then explored under random and adversarial (spec-action-named) schedules and with real "
         "processes, with the property's sentences as monitors.",
    note="multiprocessing.Queue/Event/Process are trusted to behave like lib/simmp.py's fakes (step structure transcribed from CPython 3.12 queues.py); "
         "real-process runs sample this. Exhaustive only for <= 5 items, <= 3 workers in the spec; the real code is explored by sampling schedules, "
         "not exhaustively.",
    technique="TLA+/TLC exhaustive model checking + liveness; replay of TLC behaviours into the real code under a deterministic scheduler; schedule exploration",
    design_ref="DESIGN.md 4.3, 3 (M1, M2), 5/C03")

reg("C01",
    text="spec/WalkPar.tla models the parallel walk at the granularity of multiprocessing's critical sections (readiness table pre-filled with the bits of "
         "non-live children, seeds, ready/done queues with feeder threads and reader lock, timeouts, shutdown flag, joins). TLC checks OnlyOps, AtMostOnce, "
         "ChildrenFirst (state and action form), DoneOK, NoLossAtSet, PopSafe, NoDoubleRelease and Termination over every interleaving for a family of "
         "depth-2 filters (deliberately asymmetric in x/y) x apexes, 2-3 workers. TLC-simulated behaviours are replayed step by step into the real "
         "_walk_parallel/_mp_walk_worker on a fake multiprocessing with the projected state compared after each step; the real walk (serial and parallel) is "
         "explored under seeded random/adversarial schedules against operation sets computed by TLC, and with real processes using ticketed callbacks.",
    note="Exhaustive only in the spec (depth 2, <=3 workers; one depth-3 config in thorough); the real code is sampled over schedules. multiprocessing "
         "primitives trusted to behave like lib/simmp.py's fakes. Serial-walk conformance to the same Live/Ops definitions is C13's Reduce.tla.",
    technique="TLA+/TLC exhaustive model checking + liveness; replay of TLC behaviours into the real code under a deterministic scheduler; schedule exploration",
    design_ref="DESIGN.md 4.2, 3 (M1, M2), 5/C01")

reg("C19",
    text="Fault variants of spec/WorkQueue.tla and spec/WalkPar.tla: an item in `faults` makes the callback raise (worker dies with non-zero exit status), "
         "the parent inspects exit statuses whenever it would otherwise wait. TLC checks NeverSwallowed, RaisedOnlyOnFault and termination for every fault "
         "set x every interleaving, including every worker dead while the bounded queue is full. TLC behaviours with faults are replayed into the real "
         "stages; every (entry point, faulty item, worker count, schedule policy) combination is run on the real code under the deterministic scheduler "
         "(outcome must be `raised`, never `returned`, never a hang by the fixpoint rule), plus real-process runs.",
    note="Hang detection on the real code: no enabled step other than timeouts/polls/flag reads for 30 fair rounds with no change of queue/flag/process state. "
         "A failing callback is assumed to terminate its worker with a non-zero exit status. Real-process runs use a 90 s wall-clock backstop only.",
    technique="TLA+/TLC model checking of the error protocol + fault injection at every item under a deterministic scheduler + replay of TLC fault behaviours",
    design_ref="DESIGN.md 4.2, 4.3, 5/C19")

reg("C18",
    text="TLC model-checks spec/Publish.tla - publish() as written (both directory listings chosen anew in every run, the swap that moves index.wtml last, "
         "per-file BeginPut/EndPut, rename, crash or failed transfer before/during/after every transfer, re-runs) over two store models - and proves IndexLast, "
         "RenameAfterAll, the quiescent invariants IndexImpliesAll / PublishedImpliesAll / RefreshSafe and the liveness 're-run completes' for the atomic store "
         "(and for the in-place store with one fault), and refutes IndexImpliesAll for the in-place store with two faults. Every transition of the graph is dumped "
         "and every path is replayed run by run on the real PipelineManager.publish() with a real LocalPipelineIo: imposed os.listdir order, faults injected at "
         "put_item entry, after k bytes of the source (really truncated item), at exit, or - action Refuse - inside the real put_item by making the creation of any file below the item's store directory raise ENOSPC (so put_item's own clean-up path runs with nothing created), plus one physical run with a file name of NAME_MAX-4 characters; the real store and directories are compared with the spec state at every "
         "hook, the property's sentences are evaluated on the real disk at every quiescent point, and the real `pipeline refresh` is run to see what it skips.",
    note="Bounded: <= 4 files / 2 images at 2 faults, 3 files at 3 faults, 5 files or 3 images at 1 fault (thorough); quick: 3 files + 2 images at 2 faults, 4 files at 1. "
         "Paths reaching the same spec state with byte-identical disk contents share their continuation (publish() assumed a function of directory contents, listing "
         "order and fault). Crash = BaseException at put_item boundaries / inside the source stream; power-loss buffer loss, concurrent publishers and the Azure "
         "backend are outside the model. TLC, the JSON bridge and the harness' byte comparison are trusted.",
    technique="TLA+/TLC exhaustive model checking (safety + liveness) + complete replay of the TLC state graph into the real code with fault injection",
    design_ref="DESIGN.md 4.9, 5/C18, 9 (C18 row)", category="model_checking")

reg("C20",
    text="TLC enumerates every sequence of 1-3 input paths over a set of physical multi-extension FITS files (the same file may be named at several positions; layouts: empty primary, "
         "image HDUs of distinct shapes, binary table, alternate WCS keys) x "
         "hdu_index none/scalar/per-file list x wcs_key none/scalar/per-file list, checks the property's sentences (scalar applies to every file, list is positional "
         "and local, none = first image HDU via the code's for/break loop, descriptions and images yield the same HDU/WCS in input order under every interleaving, one item per list position - a file named twice is read at each position with that position's own entry, "
         "command-line spelling selects the same thing) and emits the FITS contents to write and the expected (hdu, shape, value, key, CRVAL, CRPIX) per input path; "
         "the real load / SimpleFitsCollection / `toasty view` argv parsing / tile_fits are run on every case and descriptions(), images(), export_simple() compared, "
         "plus real tile_fits and tile-multi-tan runs whose tile pixels are counted. Every replayed case is a history on one collection object (TLC-enumerated sequences of "
         "descriptions()/images() enumerations with in-place edits of the yielded objects - ensure_negative_parity, flip_parity, WCS/pixel overwrite, the library's own "
         "_is_multi_tan and a FitsTiler TAN tiling - in between); every enumeration must equal what a fresh collection yields; spec/CollectionHistory.tla checks "
         "LaterEnumerationIsFresh / NoAliasing / AlwaysAgree and refutes the description-caching design.",
    note="Bounds: quick 5 layouts x 1-3 files (7849 cases model-checked, 1483 replayed); thorough exhaustive over 59275 cases incl. all 208 layouts of <=3 HDUs (1 file) "
         "and all 32 layouts of <=2 HDUs (2 files). In scope = selected HDU exists, is a 2-D image and carries the key, list length = number of files. view/tile_fits "
         "observed at the hand-over to FitsTiler (recorder) with real end-to-end tiling on a subset. Trusted: astropy FITS/WCS reading, the harness's file writer.",
    technique="TLA+ spec (operator library + two-generator state machine) model-checked by TLC; TLC-produced cases and expectations replayed into the real code",
    design_ref="DESIGN.md 4.10 Collection.tla, 5/C20, 9 (C20 row)")

reg("C08",
    text="TLC checks spec/StudyTiling.tla, an integer model of StudyTiling parameterised by the tile size: SpecImage enumerates every image up to a bound and every "
         "sub-image of it for small tile sizes and checks in each state that the padded square is the minimal power of two, the image is centred with offsets rounded "
         "down, the per-tile rectangles are disjoint, inside their tiles, cover the image and number the reported count, a sub-image's slots are the parent's, and that "
         "writing the tiles as tile_image does (incl. the reversed-row slice with its -1->None case) and reading them back in display orientation reproduces the image "
         "with everything else undefined, for top-down and bottom-up formats; SpecAxis checks the per-axis sentences pixel by pixel at TS=256 for every length to the bound "
         "and emits the segment tables. The real StudyTiling (rectangles, count, image_to_tile for every pixel, depth, offsets, compute_for_subimage) is compared with "
         "TLC's tables for critical x all size pairs, sub-images at tile/image edges and sampled sizes to 65537, and real tilings (tile_image, Builder + WTML template, "
         "tile-study CLI; RGB/RGBA/F32/F64/U8/I16 in png/npy/fits; every input-image default format - class default, png, npy, fits, set by constructor or by ImageLoader - x every pyramid "
         "format that can hold the mode; sub-images inside a larger tiling) are read back from disk with independent readers and TLC's file-row table for the pyramid format's parity, "
         "incl. half-float RGB (F16x3) and float/RGBA images whose undefined regions cover whole tiles, partial tiles and single colour planes (inside must equal the image exactly "
         "incl. the per-channel NaN pattern). Sub-image tilings are exercised as histories on ONE StudyTiling object (parent queried / used to tile first, several sub-images derived in "
         "turn, parent re-queried), matching the spec's full -> sub -> full -> sub behaviours.",
    note="Bounds: 2-D exhaustive for TS=4 w,h<=8 and TS=2 <=7 (thorough: TS=4 13x13, 20x6, 6x20; TS=2 9x9; TS=8 11x11) with all sub-images; per axis TS=256 all lengths "
         "<=1100 (thorough 4200). 2-D at TS=256 rests on Rects = AxisSegs x AxisSegs (checked at small TS and by IntervalPartitionOK on the emitted cases). Integer modes: "
         "'undefined' read as 0. TLC, the JSON bridge, PIL/numpy/astropy readers trusted.",
    technique="TLA+/TLC exhaustive model checking (2-D small tile size, 1-D at 256) + TLC-emitted expected tables replayed into the real code + end-to-end read-back",
    design_ref="DESIGN.md 4.7, 5/C08")

reg("C10",
    text="TLC explores the soft-lock read-modify-write machine of PyramidIO.update_image (spec/TileLock.tla: TryAcquire/Read/Modify/WriteBegin/WriteEnd/Release per process, "
         "lock file per key, tile file absent|partial|content over abstract pixels) over all interleavings of 3 processes x 2 updates (thorough: also 4x2 and 3x3), checking "
         "Mutex, NoPartialRead, NoLostUpdate (final = fold of all contributions in lock-acquisition order), SerialPrefix, EveryContribution, LocksFreeAtEnd and Termination; "
         "it also refutes the per-process and per-format-argument lock-key designs. The real code is bound in two layers: (1) 2-4 forked processes run real update_image calls "
         "on shared npy/fits/png tiles; each body takes tickets and joins a rendezvous that can only succeed if two bodies are inside at once; final files must hold every "
         "contribution and each ticket-ordered recording must be accepted by TLC against spec/TileLockTrace.tla (TLC interposes the unobservable steps); (2) with "
         "SoftFileLock._acquire/_release, read_image and Image.save as deterministic sync points, TLC-simulated behaviours (including failed acquisitions) are stepped through "
         "real update_image calls with state comparison after every step, and schedules of the real code are explored with every full trace validated by TLC. "
         "Lock-acquisition time is virtual in the thread layer (every failed poll advances filelock's clock by >= 1 s) and the policy 'stall the holder before modify / write-begin / "
         "write-end / release while the waiter polls 40 times' is run; TLC refutes the design 'finite lock timeout + takeover' (StealLock) on Mutex and NoLostUpdate. The in-tree caller "
         "ToastSampler is driven as separately started jobs with masked samplers on fresh, not yet existing tiles (barrier inside the sampler in real processes; all 2x1 schedules in the thread layer). Real-process scenarios also start the updaters as separately "
         "configured jobs with different environments (batch-scheduler job ids, host name, temp and home directory, locale set for some and unset for others), in both entering "
         "orders; TLC refutes a design whose lock class, hence exclusion domain, depends on the updater's environment.",
    note="Bounds: exhaustive model 3x2 (thorough 4x2, 3x3), 4 abstract pixels, 2 tile positions; real runs up to 4 processes x 3 updates. Assumes atomic O_CREAT|O_EXCL and unlink, "
         "no updater crashing while holding the lock. Layer 2 runs only while update_image goes through filelock.SoftFileLock (otherwise drift; real processes decide). "
         "Real-process detection of a broken lock relies on a 0.25 s rendezvous window (affects sensitivity only). TLC, the JSON bridge and lib/simmp.Sched are trusted.",
    technique="TLA+/TLC exhaustive model checking + liveness; TLC trace validation of real multi-process runs; deterministic replay of TLC behaviours into real update_image",
    design_ref="DESIGN.md 4.8, 5/C10, 3 (M1-M3)")

reg("C04",
    text="spec/ToastLattice.tla describes TOAST on an integer lattice where every point is a record [coordinates, the pair it is the midpoint of]; TLC checks as theorems "
         "over the whole bounded lattice that the code's level-1 table is the documented layout (both coordinate systems), that _div4, create_single_tile and the post-order "
         "generator produce exactly the canonical tiles including the defining pairs (so the diagonal choice is visible), that the tiles of a level partition the square, four "
         "children tile their parent, defining pairs respect the sewn boundary, and explores point lookup as a state machine (LookupHolds, NeverStuck, LookupNested). TLC emits "
         "anchors, the Def table and the tile table; psi (lattice -> sphere) built from them is compared with the corners and orientation the real code reports through full "
         "enumeration, filtered enumeration, single-tile construction, point lookup and Pyramid._generator for every tile to depth 5 (7 thorough) and seeded tiles to depth 20, in "
         "both coordinate systems; identical lattice points seen from different tiles / levels / across the fold must be one sphere point; areas must sum to 4 pi per level and "
         "parent = sum of children.",
    note="The lattice theorems are exhaustive at R=5, depth 3 (thorough R=6, depth 4); deeper positions use the closed form lib/lattice.def_pair, validated against TLC's Def table "
         "for the whole lattice on every run. Trusted: normalize(a+b) is the great-circle midpoint. Tolerances: 1e-9 spec vs real (observed 1e-15), 1e-12 between routes. Area clause to "
         "depth 4 (6 thorough): toast_tile_area itself loses digits deeper. _libtoasty.pyx cannot be recompiled here (no Cython); the compiled mid()/subsample() are what is exercised.",
    technique="TLA+/TLC theorems + state machine on the integer lattice; TLC-emitted tables drive the comparison with the real tile geometry through every construction route",
    design_ref="DESIGN.md 4.4, 5/C04")

reg("C11",
    text="TLC checks, for every configuration (layout x nx x ny x resolution x point family; all shapes <= 12x12, larger ones in the thorough tier), that the documented "
         "plate-carree layouts (spec/PlateCarree.tla: containment relations for sky, zero-right, planet, zero-left) select exactly one in-range cell for every admissible angle, "
         "with period 2*pi (also +-10^6 turns), the stated direction of increasing longitude, longitude 0 at the centre / right edge / left edge, +90 on the top row, the mirror/shift "
         "relations and cell refinement under doubling; that the closed forms and an exact-arithmetic transcription of vec2pix compute that cell; and emits the expected arange-map "
         "value for every (lon unit, lat unit). Every table is replayed through the real sampler (scalar, RGB and list maps, four request shapes: value per point, result shape, no "
         "exception) and sky tables through plate_carree_galactic_sampler at astropy's ICRS pre-images. A third point family puts the angles exactly on the cell edges, corners, seam and "
         "poles, where TLC emits the set of admissible cells (Boundary theorem) and the real value must be one of them in three float renderings; every sampler is additionally driven "
         "through call sequences whose requests collide on shape, first/last point and every order-insensitive digest (permuted interior, alternating samplers of different maps, "
         "request arrays modified in place), each point's answer having to stay TLC's value.",
    note="Interior test angles are odd multiples of 1/(4g) of a cell; points exactly on an edge are judged against a two- or four-element admissible set; poles included. astropy's ICRS<->Galactic rotation, TLC and the JSON bridge are trusted. "
         "Ecliptic and chunked samplers are outside the anchors.",
    technique="TLA+/TLC model checking of the layout theorems over a bounded configuration space + TLC-produced expected cells replayed into the real samplers",
    design_ref="DESIGN.md 4.10 (PlateCarree.tla), 5/C11")

reg("C16",
    text="spec/Parity.tla models the object under flip_parity / ensure_negative_parity as a state machine over exact integers (CDELT, PC, doubled CRPIX, the array and the PIL "
         "representation of the pixel rows; original kept as history) for array-backed Images, PIL-backed Images (with a Touch action = any asarray()/dtype call that fills the array "
         "cache) and data-less ImageDescriptions. TLC enumerates kind x width x height x header x CRPIX and checks in every state that each stored pixel keeps its sky position "
         "(SkyUnchanged, SamePicture), the sign tracks the row orientation and asarray()/aspil() never disagree (ViewsAgree), and on every transition FlipOK (sign and determinant "
         "negated, rows reversed in both views, World(x,y) = World'(x,h-1-y), involution), EnsureOK (yields -1, idempotent, no-op on negative parity) and TouchInvisible (the cache state "
         "never influences a later flip/ensure). Every case's predicted signs, row orders of both views, header values and per-pixel world tables are replayed into real astropy WCS "
         "objects and real toasty objects: Image.from_array (F32, RGB), ImageDescription, and PIL-backed Images (from_pil RGB/RGBA, ImageLoader on an 'L' bitmap and on a png file) "
         "after each pre-call history (nothing, asarray, dtype, aspil, shape): flip, flip, ensure, ensure; signs, data rows through asarray() and aspil(), wcs_pix2world per pixel "
         "(1e-9 deg), linear stage vs TLC's table; header values as drift only. TLC also generates every call history of length 4 (thorough 5) over flip / ensure (x data "
         "reads for PIL-backed objects) for a thin header set, with EnsureAlwaysNegative checked on every history, and each history is replayed on one real object and compared "
         "with the spec's state after every call.",
    note="Linear TAN WCS with non-singular integer matrices x 1e-3 deg; sizes to 4x6 (quick 3x5); PIL-backed kinds on every 4th header, every (backing, history, starting sign) "
         "combination required. Singular matrices have no parity and are excluded. astropy's projection is trusted.",
    technique="TLA+/TLC exhaustive exploration of the flip/ensure/touch state machine over enumerated integer WCS cases + replay of every case's predicted outcome into the real code",
    design_ref="DESIGN.md 4.10 (Parity.tla), 5/C16")

reg("C15",
    text="TLC explores two machines of spec/Mask.tla. BufSpec: one maskable buffer of the 2x2 grid under Clear / Fill / Update for five mode classes, from every reachable buffer "
         "content, with every slice / reversed-slice indexer quadruple, pointwise integer-array indexers and source images; the invariant EveryCallObeysC15 asserts the buffer "
         "sentences of C15 for every step. FileSpec: one tile file of a PyramidIO per lossless format under Write(mode, tile) / ReadNone / ReadMasked for the eight modes from every "
         "file state, with the persistence sentences as invariant / action properties. TLC's complete transition tables are then executed on real toasty Images of all eight modes "
         "(chains of real clear/fill/update calls on real maskable buffers; write/read histories on a real PyramidIO in png, npy and fits) and the projected real state is compared "
         "with TLC's after every call. A third machine (PairSpec) has two tile positions on one PyramidIO with up to two live buffers (read_image(default='masked') results or nested "
         "update_image contexts): LiveBuffersAreIndependent, MissingTileOpensAllUndefined, PositionStoredFromItsOwnBuffer; every emitted transition is walked on a real PyramidIO. "
         "Infinities are defined float values; every fourth file write goes through update_image on a handle whose default format differs from the explicit format.",
    note="Bounded: 2x2 grid exhaustive, 2x3 from sampled priors, abstract values {undefined, 1, 2}. Integer modes only with non-negative values; 'all-undefined never stored' only for "
         "RGBA/F32/F64/F16x3; update only with slice indexers. Trusted: TLC, the JSON bridge, the per-mode value map/projection of the harness.",
    technique="TLA+/TLC exhaustive model checking of the buffer and tile-file machines + replay of every TLC transition into the real code with state comparison after each call",
    design_ref="DESIGN.md 4.6, 5/C15")

reg("C05",
    text="Theorem T_Sub of spec/ToastLattice.tla: the quadrant recursion of _subsample (with its sub-array placement and diagonal rule) yields at [row r][col c] the canonical "
         "centre point of tile (n+K, 2^K x + c, 2^K y + r); TLC checks it for K = 1..3 over every tile of the bounded lattice and emits the grids. The real compiled subsample() is "
         "run with npix = 2, 4, 8 on every emitted tile and compared cell by cell with psi of TLC's grid; for npix = 256 the real toast_tile_get_coords arrays (all 65536 pixels) of "
         "every tile to depth 2 (quick: a subset) and seeded tiles to depth 12, in both coordinate systems, are compared with psi of the centres and with the centre of the real tile "
         "built eight levels deeper; the latitude-range and inside-the-tile clauses are evaluated on the real arrays.",
    note="K <= 3 in TLC; K = 8 is compared against the theorem's right-hand side through psi. Trusted: normalize(a+b) as great-circle midpoint; the compiled extension cannot be "
         "rebuilt here (no Cython), so only Python-level changes can be exercised by mutants. Tolerance 1e-9 (observed 2e-15).",
    technique="TLA+/TLC theorem on the integer lattice (sub-sampling recursion = centres K levels deeper) + TLC-emitted grids and psi compared with the real pixel coordinates",
    design_ref="DESIGN.md 4.4, 5/C05")

reg("C12",
    text="The lookup part of spec/ToastLattice.tla: Admissible(p, d) = tiles of depth d whose closed cell holds lattice point p or a point sewn to it by the fold; the descent of "
         "toast_tile_for_point as a state machine with invariants LookupHolds and NeverStuck and the action property LookupNested; T_LookupCentre. TLC explores the machine from "
         "every lattice point and emits Admissible for every point at every depth. Test points are generated from the lattice (tile and pixel centres, edge midpoints, corners, "
         "the equator diamond, the seam, both poles with arbitrary longitudes, the sewn boundary), mapped to the sphere by psi, shifted by multiples of 2 pi and fed to the real "
         "toast_tile_for_point / toast_pixel_for_point in both coordinate systems: the returned tile must be in TLC's admissible set (closed form for interior points to depth 10), "
         "tiles for increasing depths nested, 2-pi shifts give the same answer, and the fractional pixel within 2 px of the pixel whose centre is nearest (points >= 1 deg from the poles).",
    note="Admissible table exhaustive at R=5, depth 4 (thorough R=6, depth 5); deeper points are strictly interior (odd lattice coordinates) so the containing cell is unique. psi "
         "is validated against the real tile corners by C04. Observed worst pixel error 0.69 px against the 2 px bound. A 20 s per-call backstop turns a non-returning lookup into a "
         "reported violation.",
    technique="TLA+/TLC state machine + emitted admissible sets on the integer lattice; lattice-generated points replayed into the real lookups",
    design_ref="DESIGN.md 4.4, 5/C12")

reg("C17",
    text="spec/Wtml.tla models file names as character sequences and URL templates as token sequences: TLC checks, for every position to a depth bound (walk state space to depth 8, "
         "both naming schemes, all formats) and seeded positions to depth 12, that expanding the recorded template gives exactly the tile's path, that the position can be read back "
         "from the name (distinct positions give distinct names), and that FileType is the extension. TLC's expansions of the Url the real Builder records are compared with the real "
         "PyramidIO.tile_path. The real workflows (tile-study, tile-allsky, cascade, tile-multi-tan, tile_fits TAN/TOAST with single inputs, multi-TAN / multi-WCS collections and TOAST collections of images of different pixel scales in every input order, `toasty view --tile-only --tiling-method toast`, pipeline process-todos) are run with every tile save observed, and TLC judges "
         "each observed directory against the property's sentences. spec/WtmlHistory.tla is the tile_fits history machine (fresh / reuse / override on one directory); every history TLC "
         "generates is replayed with real tile_fits calls and after each call the returned Builder's imgset/place must equal the parsed index_rel.wtml.",
    note="Bounded: walk depth 5 (quick) / 8; history machine explored to 4 calls (with a process-lifetime cache component; a cache that override fails to invalidate is refuted); thorough replays all 4-call histories over 4 inputs, quick all 3-call histories over 2 inputs plus the 4-call family fresh(X), reuse, override(Y != X), reuse and a seeded sample; every history runs in one process with out_dir spelled absolute / relative / x/../out in turn. Placeholder meaning {1}=level {2}=x {3}=y is fixed by the WWT client and "
         "assumed. Workflows run serially so the save hook sees every write; HiPS output is not exercised (needs Java + network). TLC and the JSON bridge are trusted.",
    technique="TLA+/TLC theorem checking + state-space walk; TLC-evaluated oracle tables; observations of the real workflows judged by TLC; replay of all TLC histories into the real tile_fits",
    design_ref="DESIGN.md 4.10 (Wtml.tla), 5/C17, 9")

reg("C09",
    text="spec/Mosaic.tla (over spec/StudyTiling.tla) transcribes MultiTanProcessor: global size and per-input offsets from the CRPIX extrema, parity reconciliation, the four slices of "
         "the tiling loop incl. the bottom-up flip, update_into_maskable_buffer, the ImageSet fields, update_image as Lock/Read/Write/Unlock and the lock clean-up. TLC checks, for every "
         "input order x storage-parity assignment x both tile parities of all two-input decompositions of small mosaics and seeded 2-4-input ones with undefined borders/holes: placement "
         "recovers the ground truth, tiles equal StudyTiling's single-image tiling of the pasted image after every prefix, order and parity independence, undefined never overwrites; and "
         "over all interleavings of 2-3 workers: mutual exclusion, no lost contribution, equality with the serial result, no lock files left, termination. The harness draws real "
         "decompositions, (incl. grids rotated by exactly 0, +-90, 180 and 45 degrees in CD and PC+CDELT form, and a later input covering a whole aligned tile of an earlier one) TLC evaluates the same operators at tile size 256 for exactly those file sets, and the real code (serial, deterministic scheduler, real processes, CLI; fits and "
         "npy tiles) must reproduce TLC's tiles, the real single-image tiling of the pasted mosaic, TLC's integer ImageSet fields (1e-9) and leave no *.lock file.",
    note="Float inputs with CD-matrix WCS only. Exhaustive only in the spec (mosaics up to 3x2 px quick / 4x3 thorough at tile size 2; seeded beyond); real code sampled over decompositions "
         "and schedules. Queue hand-over (C03) and SoftFileLock exclusion (C10) are assumed. With filelock 4 the lock marker vanishes on release, so the clean-up sentence is exercised "
         "through a stale lock file left at an untouched position. TLC and the JSON bridge are trusted.",
    technique="TLA+/TLC exhaustive model checking of serial and parallel paste machines + TLC-evaluated expectations at the real tile size replayed into the real code",
    design_ref="DESIGN.md 4.7, 4.8, 3 (M1, M4), 5/C09")

reg("C06",
    text="spec/SampleLayer.tla (over ToastLattice.tla): the leaves of the (filtered) pyramid are visited in any order, each writing - clobbering or read-modify-write updating - "
         "the identity sampler's values at its own 2^K x 2^K pixel grid, rows reversed for bottom-up formats, all-undefined tiles not stored; TLC checks FinalOK / OnlyLeaves / "
         "OwnPixels over every visiting order and pass list, T_Level0 (the whole-sphere tile's grid is the four level-1 grids side by side), and emits the final files. The closed "
         "form 'file row fr, column c of tile (n,x,y) = centre of tile (n+K, 2^K x + c, 2^K y + display_row(fr))' is validated against every emitted file (K = 1, 2) and applied at "
         "K = 8 through psi: the real sample_layer / sample_layer_filtered / Builder.toast_base run with smooth injective scalar and RGB samplers, npy / fits / png, both coordinate "
         "systems, depths 0-3, serial, deterministic scheduler and real processes, clobber and update with complementary / overlapping masked passes; every tile is read back and all "
         "65536 pixels compared with the sampler at the tile's own coordinates (exactly) and at psi (1e-9); the file set must be the spec's leaf set.",
    note="Abstract machine exhaustive for <= 7 leaves per configuration (all visiting orders), K <= 2 (3 thorough). Real runs are a fixed list of configurations (about 25 quick), not "
         "a product. psi is validated by C04/C05. png tiles are 8-bit RGB: the psi comparison allows one level, the comparison with the sampler at the real coordinates is exact.",
    technique="TLA+/TLC model checking of the sampling machine on the lattice + TLC-emitted files validating the closed form that drives pixel-exact comparison of real sampled tiles",
    design_ref="DESIGN.md 5/C06, 4.4")

reg("C07",
    text="The compiled lat/lon box test is transcribed in spec/BBoxFilter.tla and TLC checks NoFalseNegative (and exactness away from poles, sorting/unwrap correctness) over every "
         "corner/box configuration on a pi/G grid; every grid verdict is replayed into the compiled function and its Python wrapper, and the theorem is evaluated on every real tile to "
         "depth 4 for seeded boxes (any origin, width > 2pi, poles, seam) through generate_tiles_filtered. spec/ImageBounds.tla gives the exact sample sets of WcsSampler._image_bounds "
         "(both ends of every refined interval, reaching the image edge; TLC refutes this for the single-sample variant that was in the tree); a recording WCS compares them with what the "
         "code evaluates, and a directed witness search over image footprints checks that every tile holding a finite sampled pixel is accepted on its whole path. spec/Chunks.tla shows "
         "the chunk grid partitions the map and that chunk boxes/samplers use exactly the chunk's pixels; filtered vs unfiltered layers and all-chunks vs whole-map sampling are compared "
         "pixel by pixel; no filter call may change the tile's corners.",
    note="Bounds: G=4 quick / G=8 thorough; tiles to depth 4; footprint monitor restricted to levels where a tile spans >= 64 image px, witness pixel >= 0.05 px inside, footprints with "
         "(pixel size)*tan(lat) <= 0.02 and enclosed poles >= 20 px from edges (sampled bounds are inherently short by up to ~1 px around an enclosed pole); chunk pixels within 1e-6 cell "
         "of a boundary excluded. Trusted: compiled _libtoasty (pyx not rebuildable here). Private helpers _latlon_tile_filter/_image_bounds/_chunk_bounds used for conformance (drift) only.",
    technique="TLA+ function-table specs checked by TLC (BBoxFilter, ImageBounds, Chunks); TLC-emitted verdicts/sample sets/chunk grids replayed into the real code; monitors on real tiles and layers",
    design_ref="DESIGN.md 4.10, 5/C07, 9")

reg("C02",
    text="spec/Cascade.tla is a state machine over abstract T x T tiles (exact rationals for float data, integer intervals admitting either neighbour of the exact mean for "
         "integer/colour data) as STORED: the code's two slice tables, one Merge(pos) at a time in ANY children-first order, stale parent files in the start directory, existence "
         "rule (written iff a child exists and the merge is not entirely undefined, else an earlier file removed). TLC checks in every state that each completed position holds "
         "exactly the property's display-orientation sentence (child (2x+i,2y+j) in quadrant row j col i, rows reversed for bottom-up formats) - hence every merge order gives one "
         "result (serial = parallel) - plus ExistenceRule, ExistsIffDataBelow, StaleReplaced, NeverStoredUndefined, Progress, SerialAdmitted, MergeCommutes, over all 16 leaf subsets "
         "x matrices at depth 1 (17^4 populations in thorough) and harness-enumerated depth 1-3 families in Float/Int/RGBA/RGB. Every terminal state is lifted to real 256x256 tiles "
         "(index map under which the real merge commutes exactly), written by the real PyramidIO in fits/npy/png/jpg, cascaded by cascade_images / the CLI entry point / a "
         "TOAST-filtered cascade with 1 and 2-3 real worker processes, and every produced file (read without toasty) compared in tile set, dtype and every pixel; parallel runs are "
         "also compared bit-for-bit with a serial twin.",
    note="Bounded: T=2/4/8, depth<=3 (depth 3 only with merge orders within a window of 2 and in the thorough tier); pixel patterns are lifted T x T patterns, not arbitrary noise. "
         "Domain: integer tiles non-negative (incl. int32 values above 2^24), no all-zero integer leaf; stale parents only where a child exists (childless stale parents are not "
         "judged); float means within 2 ulp per level; jpg approximately. Trusted: TLC, JSON bridge, numpy/astropy/PIL readers, the lifting map (verified numerically). Real parallel "
         "cascades are sampled, not schedule-exhaustive; order-independence is exhaustive in the spec only (the walk's ordering guarantee is C01's). +/-inf pixels are defined "
         "values: a block with +inf (or -inf) averages to it; a block holding both infinities has no mean and the output is undefined (IEEE).",
    technique="TLA+/TLC exhaustive model checking of the cascade machine over enumerated pyramids + TLC-computed expected pyramids lifted and replayed into the real cascade",
    design_ref="DESIGN.md 4.5, 3 (M4, M5), 5/C02")

reg("C14",
    text="The range part of spec/Cascade.tla: a leaf records the min/max of its defined final pixels, Merge records min of the children's minima / max of their maxima; TLC checks "
         "RangeRule/LeafRangeRule in every state under every admissible merge order: the recorded range of each tile equals the range of the defined LEAF values beneath it (not of the "
         "averaged pixels), for depth-1 populations enumerated by TLC and harness families to depth 3 (NaNs, all-NaN leaves that are not stored, zero / -0.0 extremes, integer FITS). "
         "The FITS pyramids are written by the real PyramidIO (some leaves twice via update_image with a widening range), cascaded by cascade_images / CLI / Builder.cascade serially "
         "and with 2-3 real processes; DATAMIN/DATAMAX of every tile (astropy), Builder's imageset data_min/data_max and the DataMin/DataMax attributes of the written index_rel.wtml "
         "are compared at float32 precision with TLC's ranges. The tile_fits / FitsTiler TOAST workflow is bound as well: 2-3 images of disjoint footprints in every input order, the finite "
         "range of every leaf file read back and handed to TLC as the leaf table, TLC's expected ancestor/root ranges compared with every tile's cards, the returned Builder and the WTML.",
    note="Leaves written by toasty (some twice via update_image). Pixels finite, NaN or +/-inf: the range is over the FINITE values only, a tile with no finite value beneath it "
         "must carry no DATAMIN/DATAMAX card; finite values exactly representable in float32. Outside the domain (skipped by the spec's Init): pyramids in which a whole tile vanishes "
         "only because +inf and -inf cancel in every block. Builder/WTML runs only on pyramids whose root has a finite value beneath it. Bounds as for C02 (T=2/4/8, depth<=3).",
    technique="TLA+/TLC model checking of the range rule under all merge orders + replay of TLC's expected ranges against headers, ImageSet and WTML of real cascaded FITS pyramids",
    design_ref="DESIGN.md 4.5, 5/C14")


# ------------------------------------------------------------------------------------------------
# additions after the third round of independently seeded changes (DESIGN 10) and the growth of WorkQueue.tla
# ------------------------------------------------------------------------------------------------

def more(pid, text="", note=""):
    if text:
        CHECKS[pid]["text"] = CHECKS[pid]["text"].rstrip() + " " + text
    if note:
        CHECKS[pid]["note"] = CHECKS[pid]["note"].rstrip() + " " + note


more("C01",
     text="Deep sparse pyramids (depth 15-19, coordinates beyond 2^12 and 2^16, pairs of branches a power of two apart in x and one step in y) are walked serially and with "
          "three workers under several schedule policies; their expected operation sets come from TLC's sparse computation of the live set (spec/SparseLive.tla), which the "
          "invariant SparseAgrees proves equal to LiveSet in every state of the exhaustive runs.",
     note="Deep pyramids are sampled (seeded), not exhaustive.")
more("C03",
     text="WorkQueue.tla now carries the OS pipe between feeder thread and workers (PipeCap: 0 = every item larger than the pipe, 1, unbounded; the overflowing write is "
          "visible to readers but blocks the feeder) and the polled wait for the feeder (PJoinThreadPoll, par_util.finish_checking_workers); TLC checks the same sentences for "
          "every PipeCap, behaviours with PipeCap = 0 are replayed into the real multi_tan stage with images larger than 64 KiB, and lib/simmp.py's queue has the pipe's capacity "
          "in bytes and helper threads started by the library.",
     note="The pipe capacity is the Linux default of 64 KiB; message sizes are those of the pickled items.")
more("C19",
     text="Fault runs now include items larger than the OS pipe (multi_tan with 96 KB images; one fault, and every image failing so that all workers are dead with images still "
          "buffered): TLC checks NeverSwallowed and Ends for PipeCap 0 / 1 with any fault set and must refute Ends for the unconditional join_thread (JoinChecked = FALSE, negative "
          "control); that hang was present in the code and is repaired (6e53506).")
more("C04",
     text="Every tile obtained through single-tile construction or point lookup then lives on: it is shown to the library's own consumers of tiles (the eight footprint filters of a "
          "chunked plate-carree sampler, toast_tile_area) and must still have the enumerated tile's corners, after which its caller overwrites it in place - which must not reach "
          "any tile reported later. Deep positions are given as Python ints and as NumPy integers of every width that holds them.")
more("C05",
     text="Before its grid is asked for, each tile is shown to the library's footprint filters and area function, as in a filtered sampling run.")
more("C12",
     text="After every lookup the caller overwrites in place every writeable array reachable from the returned tile; later lookups must not depend on it.")
more("C06",
     text="Builder.toast_base is also run with a tile filter (its updating mode) in both coordinate systems, the planetary one given as coordsys= and as is_planet=True; "
          "samplers with bands of +inf / -inf covering whole tiles must produce tiles holding those values (undefined means NaN only).")
more("C13",
     text="Every TOAST case is re-run in each coordinate system with the filter lifted to the tile's corners (a tile is accepted iff the centre of the corners it is shown with "
          "is the centre of an accepted position in that coordinate system), and cases with a gap tile on the level above the leaves (plus one case in 16) are also visited with "
          "two workers under the deterministic scheduler, the set of tiles visited compared with the spec's.",
     note="The geometry lift takes its reference centres from create_single_tile (judged by C04).")
more("C10",
     text="Layer 1 also starts updaters as separate interpreters (multiprocessing spawn), each with its own environment: its own str-hash salt (PYTHONHASHSEED), scheduler "
          "variables, working directory and relative or absolute spelling of the pyramid directory; entering order is controlled. In the thread layer the deletion of a lock file "
          "outside the release is a scheduling point of its own, and one updater doing two updates is explored exhaustively against one updater doing one update of the same tile.",
     note="Separately started interpreters are exercised with real processes only; in the thread layer salt- or directory-dependent lock identities show up as drift.")
more("C09",
     text="Pixel data of the lifted mosaics is seeded with +-inf, +-0.0 and extreme-magnitude values; tiles are compared with TLC's at bit level.")
more("C15",
     text="A third machine (PairSpec) covers two tile positions with two live buffers on one PyramidIO under open / fill / update / direct assignment through the handed-out "
          "array / clear / close; TLC checks that live buffers are independent, that a missing tile always opens all-undefined and that a position is persisted from its own "
          "buffer. The tile-file machine carries the process-level history of other ImageLoader objects configured from command-line options (every option / defaults); "
          "read-back identity is checked in each such environment (OtherLoadersDoNotMatter).",
     note="PIL-loaded (read-only) tiles take the set/clear steps through fill. Pure black is a defined colour value.")
more("C20",
     text="Every command-line subcommand that takes --hdu-index / --wcs-key is discovered from the real parsers (today `view` and `tile-multi-tan`) and run through cli.entrypoint "
          "in-process with the tiler replaced by a recorder; the collection the command built goes through the same TLC histories as every other route. This route exposed that "
          "tile-multi-tan without --hdu-index loaded HDU 0 instead of the first image HDU (repaired, 4ee13a7).",
     note="`view --tunnel` (whose remote command line drops the selection options) is not exercised: it needs ssh.")
more("C11",
     text="The same request points re-presented in other memory layouts and dimensionalities (Fortran order, transposed / strided / reversed / sliced / broadcast views, read-only "
          "arrays, lon and lat in different layouts, 0-d / 1-d / 3-d requests, Python floats) must give TLC's value at every point in the request's own shape.")
more("C16",
     text="Further TLC-generated histories cover WCS objects that record a pixel-grid size equal to, larger or smaller than the image (the flip mirrors about the image's own "
          "height, so the recorded size must not matter) and two Images over one pixel buffer (alias and overlapping row slices, each with its own WCS; NonInterference / "
          "BufferUntouched / PeerSkyUnchanged in Parity.tla; both real objects judged after every call).")
more("C18",
     text="Action StoreFail: a low-level step of the store-side write fails inside put_item; every such edge of TLC's graph is replayed as a real RLIMIT_FSIZE of 0 / half / "
          "all-but-one byte of the item (kernel EFBIG inside a write() or at the close-time flush of the real put_item) or a failing os.replace onto the item's name; every stored "
          "file is compared byte for byte with its source, index.wtml included when refresh skips the image.",
     note="The file-size limit is process-wide for the duration of one put_item call (SIGXFSZ ignored meanwhile).")
more("C08",
     text="Directory histories: several images of one layout (fully defined / with undefined regions covering whole tiles, partial tiles, single planes) are tiled one after the "
          "other into ONE directory and the directory must show the image tiled last after every step (theorem RetileOK, model-checked for all layouts <= 5x5 at TS = 4 plus "
          "sub-image layouts, with the keep-stale-file variant refuted by TLC).",
     note="The removal of an all-undefined tile's earlier file is C15's mechanism; C08 observes its end-to-end consequence (keys C08:reassembly:retile:*).")
more("C17",
     text="The library route Builder(PyramidIO(scheme)) is run under both naming schemes with image sizes down to a single tile and a single pixel in every study route; the "
          "tile_fits history machine is explored to 4 calls over inputs that include a 10-level TOAST pyramid, so that directory states with two-digit level names are overridden "
          "and reused.")
more("C02",
     text="Lossy format (jpg, code -> spec): noisy RGB pyramids are written and cascaded by the real code; the children of every parent AS STORED (decoded from disk) are handed "
          "to TLC (spec/MCLossy.tla over the variable-free spec/TileMerge.tla), which evaluates the display sentence and the reduce rule on them; the stored parent must equal, "
          "sample for sample, the re-encoding (with the file's own quantisation tables) of that reduction under one of the uniform roundings, and serial and 2-process cascades of "
          "the same stored leaves must agree exactly.",
     note="jpg: quick sends the root completely and the other parents at 1500 sampled pixels through TLC (thorough: 24 parents completely); admitted roundings are down / up / "
          "nearest (ties even or up) applied uniformly; libjpeg via the same PIL is trusted to be deterministic.")
more("C07",
     text="Filtered runs are compared with exhaustive ones through every public route (toast.sample_layer_filtered, Builder.toast_base with is_planet / coordsys, tile_fits / FitsTiler "
          "in TOAST mode including the union-of-footprints filter of the downsampling stage for collections that list one file several times) in both coordinate systems; chunk "
          "filters are probed along every chunk edge down to tiles much smaller than a map cell; pixel centres on chunk seams must be filled.",
     note="UnionNoFalseNegative (BBoxFilter), SeamsCovered / SeamIsLocalTie (Chunks) checked by TLC. The chunk sampler left seam pixel centres unfilled (repaired, 8ef389e). "
          "Fits-tiler route at start level 3, 2 images in quick.")


# ---- fourth round of independently seeded changes
more("C01",
     text="The walk is also reached through its main callers, cascade_images(tile_filter=...) and Builder.cascade, over a directory with a leaf tile at every position; the parents "
          "written must be exactly TLC's operation set, serially and with two workers under the scheduler.")
more("C04",
     text="The Pyramid objects of both coordinate systems (plain, filtered, sub-pyramid, sub-pyramid of a filtered one) are all constructed first and enumerated afterwards, newest "
          "first and oldest first, through the generator and through visit_leaves.")
more("C05",
     text="A pixel lookup inside the tile (the library's other user of the grid) precedes the request for the grid.")
more("C12",
     text="One interior lookup in three goes to depth 18-26; points on the meridians bounding the level-1 quadrants are also given with the last bit of the longitude either way and, "
          "on the prime meridian, as tiny negative residues (-5e-324, -1e-17).")
more("C13",
     text="Each case starts by asking pos_children as a user would and then consuming the returned lists (the caller owns them).")
more("C19",
     text="Fault flavours (plain / unpicklable / signal / OSError with and without errno) rotate so that every entry point meets every flavour; the fake process maps sys.exit(None / n / "
          "message) to exit status 0 / n / 1 as multiprocessing does; single-fault walks also run at depth 3, where the survivors have more ready tiles than the done queue holds.")
more("C18",
     text="Crash is realised both as a hard process death (publish() in a forked child that os._exit()s at the crash point - before, after k source bytes of, or after a transfer; no "
          "handler of the code under test runs; the parent inspects approved/, published/ and the store; the re-run happens in another process) and as an unwinding BaseException; "
          "whenever a faulty run leaves the spec, one fault-free re-run is executed and must complete the job.",
     note="Temporary files left in the store by killed runs are counted, not judged.")
more("C10",
     text="In the ToastSampler route, concurrent contributions range over the coverage classes (every pixel, part, or nothing defined) on fresh and existing tiles, in every combination; "
          "in the thread layer all interleavings of each pair are explored, in real processes the jobs meet inside the sampler.",
     note="Opt-in `--foreign-job` scenario (not part of the registered check): a MultiTanProcessor.tile() job finishing on the same pyramid sweeps the lock files (clean_lockfiles) "
          "while another job's updater holds one - outside the property's quantifier (the updaters' own steps), described in DESIGN 9.")
more("C08",
     text="One StudyTiling object is reused for images of every mode in several orders (directly and via Builder.prepare / execute_study_tiling) with dtype and values compared exactly "
          "(theorem ModeHistoriesOK, sticky-buffer variant refuted). Sizes over the whole integer range (2^k + d, d in -1..1, k to 44 / 46, incl. 2^29, 2^31, 2^39) are covered "
          "symbolically: TLC proves SymAgrees (symbolic geometry = concrete operators) for every pair with k <= 29 and emits sign / exponent tables for the rest; the real "
          "StudyTiling's depth, offsets, first / last pixel slots, count and first rectangles are compared without instantiating an image.",
     note="Beyond 32 bits the expected values rest on the symbolic operators being the ones TLC validated for k <= 29.")
more("C09",
     text="Inputs are delivered as separate files and as several HDUs of one multi-extension file (same path listed per HDU, mixed); undefined pixels are encoded as NaN or as a declared "
          "blank value (0, 0.0, -999, 2^100; SimpleFitsCollection(blankval) and `toasty view --blankval / --hdu-index`).")
more("C07",
     text="Footprint and layer cases hand WcsSampler the WCS in every form a caller legally can (no grid size recorded, the right one, a stale smaller or larger one - via pixel_shape / "
          "array_shape, header NAXISn, to_header() round trip, slicing); the image is the DATA array throughout.",
     note="ImageBounds.CoversEveryArrayPixel (L = data axis length) checked by TLC; a stale recorded size differs by 1..L/3 px per axis.")
more("C11",
     text="Every answer returned during a battery of calls is held and compared with TLC's table again after the battery's last call (answers belong to the caller), and the requests "
          "are the caller's too: read-only arrays and views, lon and lat as one object or overlapping views.",
     note="A sampler that modifies a writeable request while still answering correctly is reported as drift.")
more("C16",
     text="The cases are given pixel scales from 1e-2 to 1e-9 deg and seven native-frame settings (CRVAL incl. RA wrap, near and at both poles, default and non-default LONPOLE / "
          "LATPOLE), the world coordinates of every pixel being compared before and after every call at 1e-4 pixel.")
more("C17",
     text="A second exploration lets one call of a history be interrupted after its tiles and before its index (partial directory: 'late' and 'base'), followed by reuse / override / "
          "`toasty view` calls; it is replayed with real Ctrl-C-style interruptions (and the natural keyword-rejected-by-the-cascade route): where no index exists nothing is claimed, "
          "whatever index exists after any call is judged against the tiles on disk.",
     note="Interrupted histories: 3 calls, one interruption; interruptions are injected at Builder.write_index_rel_wtml / at the first cascade write, so a crash in the middle of the "
          "base layer is not modelled.")
more("C20",
     text="Files have different pixel scales (1x / 2x / 4x), so collections are or are not on one pixel grid: the real tile_fits / toasty view / FitsTiler are run on both the aligned "
          "(exact pixel counts) and the resampling multi-WCS route, in every finer / coarser input order, and the tiling must show exactly the selected HDUs' values, each at its own "
          "place (TLC-owned footprints); image HDUs with 3-4 axes in all 18 axis orders (celestial axes first / last / interleaved with FREQ / STOKES, degenerate and not): "
          "descriptions(), images(), export_simple() must give the celestial plane 0 (theorem CubeSlicing).",
     note="Resampled tilings are judged by value set (exact), area (+-40%) and centroid distance (+-2 px; inputs >= 8 px apart).")
more("C02",
     text="Also covered: one PyramidIO handle used for a first cascade, further leaves in new rows and a second cascade (serial and 2-process); one-sided sparse populations at depth "
          "2-3 in which empty sub-trees precede the populated tiles in walk order; integer tiles of any non-negative value, all-zero tiles and low counts included (integer data has "
          "no undefined value: a parent exists whenever a child exists).",
     note="This supersedes the earlier domain restriction on integer tiles (no all-zero leaf, values >= 4^depth). Depth 3 in quick: 2 cases, serial walk order only.")
more("C14",
     text="Depth-0 pyramids (a single tile, leaf = root) are bound through tile_fits in TAN mode, Builder.cascade and the WTML.")


# ---- fifth round of independently seeded changes
more("C03",
     text="The stages are also explored with os.getppid() = 1 (the dispatching process as a container's entry point), and with a multi_tan collection whose inputs are the HDUs of one "
          "file listed once per HDU.")
more("C04",
     text="The deep-position loop (to depth 30) also looks up every second tile's centre (route 4 at depth).")
more("C06",
     text="One PyramidIO object outlives its output tree (or one row directory) and samples again; a sampler whose dtype differs from tile to tile (int16 counts / float32 with NaN) is "
          "sampled into FITS with stored dtype and values compared; memoising samplers (which hand out the very same array when asked again) serve a second pyramid.")
more("C12",
     text="45 % of the pixel lookups lie within a fraction of a pixel .. a few pixels of the meridians lon = k pi/2 and pi/4 + k pi/2 (the centre cross and diagonals of the square); a "
          "third of the deep lookups (depth 11-15) lie close to the equator, where tile edges bend most; four threads look up disjoint points at the same time with a microsecond "
          "switch interval and must get the answers of sequential use.")
more("C13",
     text="The filter is also given as a callable object whose truth value is False (an empty list subclass with __call__): 'no filter' is None, nothing else.")
more("C19",
     text="Fault flavours include persistent OSError(EAGAIN) and OSError(EIO) (the errnos a retry loop would treat as transient).")
more("C10",
     text="Layer 1 also launches real MultiTanProcessor.tile() jobs separately into one pyramid (serial + workers, workers + serial, both serial; overlapping segments): the harness "
          "launches the second job while the first is inside a critical section, places reads between the other job's read and write, and holds each job's FINAL clean_lockfiles() "
          "call back until all jobs are quiescent; every recording is validated by TLC against TileLockTrace, which also supplies the expected final content.",
     note="The end-of-run lock-file sweep of tile() is outside the property's quantifier (DESIGN 9) and is held back by the harness; any earlier sweep runs unhindered.")
more("C08",
     text="Tiling objects of every kind (top-level, sub-image, sub-image of a sub-image) are also examined after the transports they can take before use - pickle protocols 2-5, copy, "
          "deepcopy, a multiprocessing queue, inheritance across a fork into a worker process - and transported objects perform end-to-end tilings (spec: Transport is the step that "
          "leaves the tiling unchanged; 'rebuild from the image size' is proved for top-level tilings and refuted for sub-image tilings).",
     note="Which grid a nested sub-image belongs to is not fixed by the property (a difference there is drift); only changes caused by a transport are judged.")
more("C18",
     text="The unwinding realisation of Crash ranges over exception classes: KeyboardInterrupt as a real SIGINT at every crash point, and - rotating over the crash points - SystemExit, "
          "GeneratorExit, MemoryError, an Exception and a BaseException subclass, each once or delivered again at the next transfer if publish() carries on.",
     note="Exception classes other than KeyboardInterrupt are sampled in rotation (1 per crash edge in quick, 3 in thorough).")
more("C07",
     text="Chunk-by-chunk sampling is compared with the real whole-map sampler bit for bit on every pixel (C07 states equality; no boundary tolerance) for many map sizes (a spread incl. "
          "24, 48, 96, 1000x500 in quick; every multiple of 8 to 200 and larger in thorough), with chunk grids from TLC; float sources carry +-inf, +-0.0 and extreme magnitudes, NaN "
          "being the only undefined value, and filtered / unfiltered values are compared bit for bit.",
     note="Chunks.GridByAxes (per-axis partition, product grid) checked by TLC for maps up to 1200x600; the heavy chunk theorems on maps up to 24x11.")
more("C09",
     text="Undefined bands are asymmetric up to 60 % of an input (whole tile rows / columns of a segment undefined); every deepest-level FITS tile's DATAMIN / DATAMAX cards are "
          "compared with the range of the pixels TLC expects in it and with the single-image tiling.")
more("C20",
     text="HDU indices as Python allows them (negative = from the end, resolved per file: Resolve; entries in lists, tuples, NumPy integers); file names as the file system allows "
          "them (brackets, * / ?, spaces, leading dash, double dots, non-ASCII; absolute, respelled, relative, pathlib.Path) at every list position; spec/CollectionReuse.tla: the "
          "caller's list / CollectionLoader reused for a second collection over other files - ArgumentsUntouched, SecondHasNoMemory, the write-back design refuted - replayed through "
          "load, SimpleFitsCollection, a shared CollectionLoader, tile_fits and the CLI.",
     note="Reuse model: 3 files (1 / 3 / 4 HDUs), <= 2 paths, indices -4..3; a NumPy integer as the SCALAR hdu_index is rejected by the code (documented type int) and not judged; a "
          "modified argument object is reported as drift, its consequence (second collection wrong) as the violation.")
more("C17",
     note="History inputs include a single-tile data set (TileLevels 0, SkyImage) and every tile_fits input class of the workflow runs is called a second time identically, so the "
          "returned-vs-written comparison over every ImageSet / Place trait covers descriptions whose tiling fields coincide with Builder defaults; a workflow that raises is reported "
          "as drift, not judged.")
more("C15",
     text="The tile-file machine also carries the same position stored in a second format in the same directory (written, masked and read with an explicit format); TLC checks that a "
          "call about one format's file never changes the other's (OtherFormatUntouched). The file and two-position histories are replayed in pyramid directories whose names rotate "
          "over glob / regex / format metacharacters, spaces, dots, a leading dash, non-ASCII and nested names, spelled absolute, relative and with a trailing slash.",
     note="The directory name is not modelled in Mask.tla (a tile file is a function of position and format); it is an environment dimension of the replay: 10 names x 3 spellings.")
more("C11",
     text="The map is replayed in both byte orders and all common item sizes (as FITS readers hand it out), non-contiguous and read-only; edge-family points are also approached to "
          "within 1e-6 .. 1e-12 rad of every cell edge, the celestial poles and the seam, and the Galactic sampler is asked at and within 1e-6 rad of both Galactic poles (row judged "
          "against TLC's table).")
more("C16",
     text="Histories in which the client edits the object's WCS in place between calls (EditWcs / EditOK in Parity.tla: the parity is a function of the object's current matrix; the "
          "reference picture is reset at the edit).")
more("C02",
     text="Stale parent files anywhere the walk passes, with or without children, chains included, must be replaced or removed (this supersedes the earlier 'childless stale parents "
          "are not judged'; the defect behind it is repaired in /repo). The directory name and spelling (dots, spaces, parentheses, brackets, non-ASCII, ./relative, trailing slash) "
          "and the route by which the format is determined (explicit / guessed from the content) are dimensions of the lift; the pyramid tile_fits leaves behind in TOAST mode for "
          "2-3 images of disjoint footprints in several orders is compared, tile set and pixels, with TLC's evaluation of the stored base layer (spec/MCDeep.tla).")
more("C14",
     text="A tile that exists although no leaf lies beneath it (left by an earlier cascade) is a violation: its range describes data that does not exist.")
more("C18",
     note="The harness tolerates files vanishing under its reads, waits (bounded) for threads the code under test started and for the disk to stand still before judging it, and treats "
          "concurrent put_item calls as drift from the step order while still judging the disk.")


# ---- sixth round of independently seeded changes
more("C02",
     text="A cascade started from a level that holds no tile must be refused (ValueError / non-zero exit) with the directory left byte-identical, through the API, the CLI entry point, a "
          "filtered cascade, Builder.cascade and 2 processes (spec: Refused, RefusedLeavesDirectoryAlone; the guard was added to /repo with the stale-parent repair). Cascades also run "
          "under an application that escalates RuntimeWarnings to errors, and with a custom view-returning merger on constant-valued leaves.")
more("C11",
     text="Maps with 1, 2, 4 or 5 colour planes on every map shape, incl. maps of 1-5 rows (result shape = request shape + the map's colour axes).")
more("C06",
     text="Colour samples are also written into a bottom-up format (fits).")
more("C19",
     text="Real-process runs include a second and third failing operation in one process after an earlier one has already failed, and a parallel transform under `python -O` (assert "
          "statements compiled away).")
more("C12",
     note="Depths 27-30 are probed on every run; failures at depths 29-30 are the recorded known finding (double precision of the half-space scores), reported as KNOWN-FINDING under a "
          "key of their own.")
more("C18",
     text="Failed transfers are realised with a rotation of OSError flavours (FileNotFoundError, PermissionError, IsADirectoryError, ENOSPC, EIO, errno-less OSError, TimeoutError, "
          "ConnectionError) raised inside the real put_item, plus a 'janitor' that really deletes the in-flight temporary file; for a rotation of crash edges the killed run and the "
          "judged re-run go through the command-line entry point (`toasty pipeline publish`).",
     note="OSError flavours and the CLI route are sampled in rotation over the fault points; stray files at the top of the work directory are part of the replayed disk state.")
more("C07",
     text="Chunk-by-chunk and filtered runs also use float maps with tiles stored as FITS (big-endian on read-back) and npy; footprints containing a pole are probed in a cap around the "
          "pole down to tiles of 4 image pixels, with the pole placed on either side of the coarse grid nodes.",
     note="Enclosed-pole domain: tiles >= 4 image px (the sampled bound is short by < 1 px by design).")
more("C08",
     text="One Image object is tiled several times into pyramids of different formats / parities in seeded orders, every tiling judged (theorem ImageHistoriesOK, the "
          "flip-the-source-in-place variant refuted); thumbnail-then-tile workflows (Builder.make_thumbnail_from_other + tile_base_as_study, the tile-study CLI with a real thumbnail) "
          "run on PIL-backed images incl. sizes with the thumbnail's 32:15 aspect.",
     note="A changed source Image is reported as drift only; the property is judged on the tiles.")
more("C15",
     note="Pyramid directories in the replay also rotate over existing / not yet existing (also two levels below what exists) at PyramidIO construction.")
more("C17",
     note="out_dir is spelled absolute / relative / x/../out in turn, and for the fresh ; override(other) ; reuse histories also through a symbolic link (a loudly refused override ends "
          "the history) and by a name containing $VAR, ${VAR}, %s as plain characters with the variable pointing elsewhere; a leading ~ is not exercised.")
more("C09",
     text="The reference pixel of the common grid is placed on input edges (CRPIX exactly 0, 1, width, width + 1) in every input order; directory creation is one more scheduling point "
          "of the scheduled runs, next to lock / read / write.")


# ------------------------------------------------------------------------------------------------
# additions after the seventh round of independently seeded changes (DESIGN 10)
# ------------------------------------------------------------------------------------------------
more("C01",
     text="A refused start of the k-th worker is an environment action (spec/WalkParStart.tla: StartFails with outcomes raise / carry on; the serial-fallback-beside-live-workers "
          "design WalkParStartBad is rejected by AtMostOnce), exhaustive for every k, replayed, and injected into the fake Process.start with the left-behind workers observed after "
          "the walk ends. Filters that decide from tile corners (lifted position filters, _latlon_tile_filter boxes) run in both TOAST coordinate systems x sub-pyramid apexes.",
     note="Reference geometry for corner-reading filters = create_single_tile (judged by C04).")
more("C02",
     text="Pyramids in which the 2x2 reduction itself makes a whole tile undefined (+inf/-inf pairs; faint alpha with three-valued undefinedness) are in scope; the multiprocessing "
          "start method (spawn / forkserver in a fresh interpreter) x parallel in {None, 2, 4} is a configuration dimension; histories over one directory (spec/CascadeHistory.tla) "
          "are explored by TLC and a cover replayed.")
more("C14",
     text="Histories (spec/CascadeHistory.tla): cascade(D) then cascade(k<D) by API / CLI / Builder; leaf data growing between cascades; one Builder cascading several times, fresh or "
          "restored from index_rel.wtml; BuilderRule / IndexRule: imageset and WTML range after Builder.cascade equal the range of the leaves now on disk.")
more("C03",
     text="spec/WorkQueueProd.tla adds a fault of the producer's iterable at item k (PFail) with the parent's reaction as a parameter (TLC refutes 'wind down and return'); PFail behaviours "
          "are replayed and injected in all four stages. spec/LeafHistory.tla: histories on one Pyramid object (count / visit, then subpyramid or depth change, then visit); every visit must "
          "deliver the current leaf set TLC emits.",
     note="Hangs after a producer fault are drift (outside C03).")
more("C04",
     note="Areas: children-vs-parent and 4..1024-descendant generation sums for tiles spec/ToastArea.tla picks within two tiles of the fold lines at every depth to 20 / 22, both "
          "coordinate systems, tolerance 100 x the measured 1e-16 * 4^n rounding envelope of toast_tile_area (C04:area:deep-nesting, C04:area:deep-generations).")
more("C05",
     text="Tiles that arrive: spec/LeafDelivery.tla (filtered generator, sub-pyramid filter, producer / queue / feeder / worker machine over values; T_LeafTiles, ArrivedIsItsTile, "
          "ArrivedGridIsCentres); the real visit_leaves(parallel=2) is driven through TLC's feeder-lag vectors (items pickled at flush), adversarial policies and real processes, the grid "
          "computed in the worker compared with TLC's table. One child interpreter per environment variable the library source reads, and one without the compiled extension, recompute "
          "a stratified subset (a clean ImportError is not judged).")
more("C06",
     text="spec/SampleOps.tla models the array object a sampler returns (byte order, layout, writability; T_ReprInvisible / T_ReprSensitive); the real runs hand the same values out as "
          "big-endian, Fortran-ordered, negatively strided, gapped, read-only, memory-mapped and broadcast arrays. spec/SampleJobs.tla composes sampling with TileLock's critical section for "
          "two or three separately started updating jobs (JFinalOK, JKept, JMutex, JTermination; the unlocked variant refuted); forked jobs whose samplers rendezvous per shared tile must "
          "leave every job's pixels in the final tiles.")
more("C07",
     note="Footprints also vary in the WCS's celestial frame (FK5 / FK4 / FK4-NO-E with an equinox, Galactic, ecliptic axes) and in SIP distortion (1-4 px); the recorder follows "
          "wcs_pix2world and all_pix2world; the bounds are checked against the extremes of the recorded samples through the sampler's route (spec/FootprintMap.tla).")
more("C08",
     text="Every defined value class at the edge of a type's meaning (infinities, signed zeros, subnormals, largest finite / integer, black / white, alpha 1) is reassembled per mode x "
          "lossless format (EdgeValueTable from TLC; blanking / flushing stores refuted); offsets, sizes and indexes are also handed over as NumPy integers of every fitting width, incl. "
          "tilings whose offset sums leave 8 / 16-bit ranges (ReprSlotsOK, ReprSubOK; wrapping variants refuted).")
more("C10",
     text="'One tile' is one tile FILE: every updater has its own PyramidIO object, differing in default format (the file's / another with format= named / guessed before or after the "
          "directory held tiles), scheme and base-directory spelling; TLC refutes a lock key computed from the object's default format (keymode dflt) and a lock owned by an identity "
          "memoised per memory image (keymode owner; fork history 'a process completes its own updates, then forks the contending updaters').",
     note="Updaters of one file name the same directory (any spelling), scheme and stored format; fork history is exercised with real processes only.")
more("C11",
     text="Maps up to 2^22 columns / rows (TLC 'wide' family: centres of sampled cells +- 1/4 cell) asked with float32 / float16 / big-endian / long-double request arrays; one sampler "
          "object called by 4 threads at once (same / different / pairwise-shared request shapes), every answer compared with TLC's table for that caller's own points.")
more("C12",
     text="Points given by coordinates (whole radians, float32 / float16 values) are located in the lattice and asked in every number type that denotes them (Python / NumPy ints and floats "
          "of all widths, 0-d arrays, longdouble, Fraction / Decimal if accepted); spec/ToastQuery.tla (unit squares, the number format as a variable of the lookup machine).")
more("C13",
     text="Environment dimensions (spec/ReduceEnv.tla): every callback-return policy (None / falsy non-None / truthy / no-truth-value arrays / large objects) through serial and two-worker "
          "walks and leaf visits; the same enumeration, counts and serial visits replayed in one child interpreter started with -O (asserts stripped).")
more("C15",
     text="Fill and Update are explored with the same indexer families - slice / reversed-slice rectangles, rectangles written with an integer list or array on one buffer axis, and pointwise "
          "integer-array quadruples - for all 8 modes (key C15:buffer:<mode>:update-non-slice).")
more("C16",
     text="One WCS object held by several owners (spec/ParityHolders.tla): 2-3 Images / ImageDescriptions and the caller around w, w.copy(), w.deepcopy(), w.sub(), w.celestial, every "
          "history of flip / ensure on one holder and in-place edits - the flipped holder must be right and every other holder unchanged (key ...:bystander).",
     note="The caller's own WCS object alone written = drift; alternate-axis-key WCS objects are refused loudly (KeyError) and are outside the enumeration.")
more("C17",
     text="spec/WtmlFormats.tla is the library-route machine (Builder over a PyramidIO whose tile format is independent of the input's own; tile_base_as_study / prepare+execute / "
          "tile_study_image / toast_base with optional format=; base layer, cascade per level, index), every emitted case replayed through the real API and judged; WtmlHistory also starts "
          "on an existing empty output directory (first call = fresh call).")
more("C18",
     text="File sets with sub-folders (files named by relative path, whole store tree compared): as built publish() raises at a sub-folder before index.wtml is sent (RefuseSubdir, "
          "NestedClosed); a publish() that descends is followed through the graph of a publisher with any traversal, faults at every transfer incl. nested ones. Beyond the stated "
          "quantifier, labelled as such: spec/PublishOverlap.tla, two overlapping publisher processes (inodes, names, blocks, kills), every schedule with <= 2 preemptions replayed on two "
          "forked processes running the real publish().",
     note="'Re-running completes the job' is judged for flat image directories only; overlap findings use keys C18:publish:overlapping-runs:*.")
more("C19",
     note="Also: input image k unreadable in the parent (every k, serial / scheduler / real processes, parallel 2 and 3) must raise; fault matrix repeated with cli_progress=True; every "
          "simulated run has a wall-clock backstop (drift, no verdict) and in-process thread queues are scheduled.")
more("C20",
     note="Also: histories of two load calls in one process over the same paths (other key / other HDU / file rewritten in place in between), judged per call by TLC (spec/CollectionCalls.tla); "
          "parallel tiling routes (tile_fits, FitsTiler, view, tile-multi-tan with parallel=2) on collections whose per-file entries differ, equal-shape encoding, tiles read back against "
          "TLC's selection.")
