"""Source of truth for MANIFEST.json (tools/gen_manifest.py turns it into the file).
One entry per property whose check is built and registered."""

CHECKS = {}


def reg(pid, text, note, technique, design_ref, category="model_checking"):
    CHECKS[pid] = dict(text=text, note=note, technique=technique, design_ref=design_ref, category=category)


NOT_BUILT_REASON = "check not built yet in this revision (planned in DESIGN.md section 5; no claim is made)"
NOT_APPLICABLE = {}
