"""Source of truth for MANIFEST.json (tools/gen_manifest.py turns it into the file).
One entry per property whose check is built and registered."""

CHECKS = {}


def reg(pid, text, note, technique, design_ref, category="model_checking"):
    CHECKS[pid] = dict(text=text, note=note, technique=technique, design_ref=design_ref, category=category)


NOT_BUILT_REASON = "check not built yet in this revision (planned in DESIGN.md section 5; no claim is made)"
NOT_APPLICABLE = {}

reg("C13",
    text="TLC explores the generator + reduction-iterator state machine (spec/Reduce.tla over spec/Quadtree.tla) exhaustively for every configuration "
         "(kind x filter x apex) of a bounded family - all 17^4 effective depth-2 filters in the thorough tier - checking the iterator's assertions, "
         "exactly-once / children-first enumeration, the three counts, ops+leaves=live, the closed forms and the sub-pyramid restriction in every state; "
         "every configuration's terminal history is then replayed into the real Pyramid (generator, iterator, counts, leaf visit, serial walk) and compared. "
         "The position algebra is also evaluated by TLC on seeded positions to depth 27 and compared with the real functions.",
    note="Bounded: depth <= 3 for behaviours (depth 2 exhaustive over filters in thorough), positions to depth 27 for the algebra. Filters are pure functions of the position. "
         "TLC and the JSON bridge are trusted; the spec's Live/Leaves/Ops definitions transcribe the docstrings of count_live_tiles/count_operations.",
    technique="TLA+/TLC exhaustive model checking of the iterator state machine + replay of every TLC behaviour's history into the real code",
    design_ref="DESIGN.md 4.1, 5/C13")

reg("C03",
    text="spec/WorkQueue.tla models producer, bounded queue, feeder thread, reader lock, receive/lock timeouts, the shutdown flag and joins at the "
         "granularity of multiprocessing's critical sections; TLC checks AtMostOnce, ReturnedImpliesAll, NoLossAtSet, Bounded and termination under "
         "fairness over every interleaving for small item/worker/capacity constants (it found the lost-item race that is now fixed). TLC-simulated "
         "behaviours are replayed step by step into the real visit_leaves / transform code running on a fake multiprocessing, comparing the projected "
         "state after every step; all four real stages are then explored under random and adversarial (spec-action-named) schedules and with real "
         "processes, with the property's sentences as monitors.",
    note="multiprocessing.Queue/Event/Process are trusted to behave like lib/simmp.py's fakes (step structure transcribed from CPython 3.12 queues.py); "
         "real-process runs sample this. Exhaustive only for <= 5 items, <= 3 workers in the spec; the real code is explored by sampling schedules, "
         "not exhaustively.",
    technique="TLA+/TLC exhaustive model checking + liveness; replay of TLC behaviours into the real code under a deterministic scheduler; schedule exploration",
    design_ref="DESIGN.md 4.3, 3 (M1, M2), 5/C03")
