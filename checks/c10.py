"""C10 - concurrent updates of one tile never lose a contribution.

Spec: spec/TileLock.tla (PyramidIO.update_image as a state machine: TryAcquire / Read / Modify / WriteBegin / WriteEnd /
Release per process, lock file per lock key, tile file absent | partial | content over abstract pixels) and
spec/TileLockTrace.tla (trace validation).  TLC (a) explores the machine exhaustively for 3 processes x 2 updates over a
family of region / position configurations checking Mutex, NoPartialRead, NoLostUpdate (final = fold in lock-acquisition
order), SerialPrefix, EveryContribution, LocksFreeAtEnd; (b) checks Termination under weak fairness; (c) refutes the two
alternative lock-key designs (per process, per format argument), so the theorems are known to depend on "key = position";
(d) produces simulated behaviours for the replay.

Binding, two layers:
 1. real forked processes call the real update_image on shared tiles (npy / fits / png, float NaN-masked and RGBA).  The
    body of each `with` draws a ticket, joins a rendezvous with a short timeout (two bodies inside at once -> it succeeds:
    a certain mutual-exclusion failure), records what it was handed and what it leaves.  The final files must hold every
    contribution; the ticket-ordered recordings are validated by TLC against TileLockTrace (the steps the recording cannot
    see are interposed by TLC), which also computes the expected final content.
 2. thread-level, when update_image uses filelock.SoftFileLock: SoftFileLock._acquire/_release, PyramidIO.read_image and
    Image.save (begin/end) become sync points of lib/simmp.Sched, so that
      2a. TLC behaviours are stepped through real update_image calls, the projected real state (lock files and holders,
          tile files, per-process control point and buffer) compared with the spec state after every step (drift if not);
      2b. the schedules of the real code are explored (all interleavings of 2 x 1 updates with bounded failed attempts,
          seeded random ones for larger instances) with the property monitors on the real files, every run's full event
          trace being validated by TLC.  Time is virtual there (every failed lock poll advances filelock's clock by >= 1 s)
          and the policy "stall the lock holder before one of its steps while the waiter polls 40 times" is run: a holder
          may be stalled arbitrarily long, so no finite "the lock must be stale" timeout may break exclusion.
 Both layers also drive the in-tree caller toast.ToastSampler (update mode) as separately started jobs with masked samplers
 on FRESH tiles (no file yet), the jobs meeting inside the sampler callable (a barrier for processes, a sync point for
 threads); the thorough tier adds a real-process holder stalled for 12 s of real time.
 TLC also refutes the design "finite lock timeout + takeover" (action StealLock) on Mutex and NoLostUpdate.
 Layer 1 also runs heterogeneous updaters: forked ones that change their environment (scheduler job ids, host, temp/home
 directory, locale) before touching toasty, and separately STARTED interpreters (multiprocessing "spawn", launched with
 their own environment: own str-hash salt PYTHONHASHSEED, working directory, absolute / relative spelling of the pyramid
 directory), in controlled entering orders: mutual exclusion must hold between ANY processes updating one tile.
 "One tile" is one tile FILE.  Both layers give every updater its OWN PyramidIO object, and the objects of one scenario
 differ in what does not change the file: default format given (the file's, or another one - the updater then names the
 file's format in the call) or guessed at construction (before / after the directory held tiles), path scheme left out or
 spelled out (keyword / positional; also the LXY layout for all), base directory spelled with a trailing or doubled slash,
 "/./", "x/../x", through a symbolic link (cfg.dflt / cfg.fmt in the specification; TLC refutes the key computed from the
 object's default format).  Layer 1 also runs the fork history "a process makes its own updates, THEN forks the contending
 updaters" (cfg.parent; the children inherit its memory image, some also its PyramidIO object; TLC refutes a lock owned by
 an identity that is memoised per memory image).
"""
import json
import os
import threading
import time

from lib import repo, tla

RP, RU = 4, 3            # constants of every TLC run that is bound to the real code (MaxP, MaxU)
NPIX, NPOS = 4, 2
PRE = RP * RU + 1
JUNK = RP * RU + 2
T = 256
QUAD = {1: (slice(0, 128), slice(0, 128)), 2: (slice(0, 128), slice(128, 256)),
        3: (slice(128, 256), slice(0, 128)), 4: (slice(128, 256), slice(128, 256))}
POS_XY = {1: (2, 1, 2), 2: (2, 2, 2)}      # abstract position -> real (n, x, y)
DWELL = 0.25


def rid(p, i):
    return (p - 1) * RU + i


# ------------------------------------------------------------------------------------------------
# lifting abstract contents to real 256 x 256 tiles and projecting back
# ------------------------------------------------------------------------------------------------

_pat = {}


def pattern(mode, c):
    import numpy as np
    k = (mode, c)
    if k not in _pat:
        yy, xx = np.mgrid[0:T, 0:T]
        if mode == "rgba":
            a = np.empty((T, T, 4), dtype=np.uint8)
            a[..., 0] = 10 * c + 3
            a[..., 1] = yy
            a[..., 2] = xx
            a[..., 3] = 255
        else:
            a = (c * 1000 + ((3 * yy + 5 * xx) % 251)).astype(np.float32 if mode == "f32" else np.float64)
        _pat[k] = a
    return _pat[k]


def blank(mode):
    import numpy as np
    if mode == "rgba":
        return np.zeros((T, T, 4), dtype=np.uint8)
    return np.full((T, T), np.nan, dtype=np.float32 if mode == "f32" else np.float64)


def lifted(mode, content):
    """content: list of NPIX values (0 = undefined) -> real array."""
    a = blank(mode)
    for j, c in enumerate(content, 1):
        if c:
            a[QUAD[j]] = pattern(mode, c)[QUAD[j]]
    return a


def project(arr, mode):
    """real array -> list of NPIX values; JUNK for a block that is no lifted value."""
    import numpy as np
    out = []
    if arr is None:
        return [0] * NPIX
    arr = np.asarray(arr)
    want = (T, T, 4) if mode == "rgba" else (T, T)
    if arr.shape != want:
        return [JUNK] * NPIX
    for j in range(1, NPIX + 1):
        blk = arr[QUAD[j]]
        if mode == "rgba":
            al = blk[..., 3]
            if (al == 0).all():
                out.append(0)
                continue
            c = (int(blk[0, 0, 0]) - 3) // 10
        else:
            nan = np.isnan(blk)
            if nan.all():
                out.append(0)
                continue
            if nan.any():
                out.append(JUNK)
                continue
            c = int(blk[0, 0] // 1000)
        if 1 <= c <= PRE and np.array_equal(blk, pattern(mode, c)[QUAD[j]]):
            out.append(c)
        else:
            out.append(JUNK)
    return out


def tile_record(px):
    return {"st": "absent" if not any(px) else "content", "px": list(px)}


_RECT = {(1,): 1, (2,): 2, (3,): 3, (4,): 4, (1, 2): (slice(0, 128), slice(0, 256)), (3, 4): (slice(128, 256), slice(0, 256)),
         (1, 3): (slice(0, 256), slice(0, 128)), (2, 4): (slice(0, 256), slice(128, 256)),
         (1, 2, 3, 4): (slice(0, 256), slice(0, 256))}


def apply_contribution(basis, mode, c, region, style):
    """The caller's body: merge contribution c on `region` into the image update_image handed out."""
    from toasty.image import Image
    key = tuple(sorted(region))
    if style == "slice" and key in _RECT:        # multi_tan / multi_wcs style: rectangular sub-ranges of source and buffer
        r = _RECT[key]
        ys, xs = QUAD[r] if isinstance(r, int) else r
        src = Image.from_array(pattern(mode, c))
        src.update_into_maskable_buffer(basis, ys, xs, ys, xs)
    else:                                         # ToastSampler style: full frame, undefined pixels masked
        content = [c if j in region else 0 for j in range(1, NPIX + 1)]
        src = Image.from_array(lifted(mode, content))
        src.update_into_maskable_buffer(basis, slice(None), slice(None), slice(None), slice(None))


def mode_of(mode):
    from toasty.image import ImageMode
    return {"f32": ImageMode.F32, "f64": ImageMode.F64, "rgba": ImageMode.RGBA}[mode]


def real_pos(t):
    from toasty.pyramid import Pos
    return Pos(*POS_XY[t])


# ---- the updaters' PyramidIO objects ---------------------------------------------------------------------------------------
# An updater reaches a tile FILE through its own PyramidIO object.  sc["obj"][p - 1] (None: the plain object) says how p's is made:
#   default  "given"        default_format = the format of the file
#            "other1/2"     default_format = another format (the updater then names the file's format in every call)
#            "guess-before" default_format left out, object constructed BEFORE the directory held any tile (the guess finds nothing)
#            "guess-after"  default_format left out, object constructed after (the guess finds the tiles)
#   scheme   None | "kw" | "pos": the path scheme left out / spelled out as keyword / positionally (sc["scheme"], default "L/Y/YX")
#   base     spelling of the pyramid directory: "abs", "slash" (trailing /), "dslash" (//), "dot" (/./), "dotdot" (x/../x), "symlink"
OTHER = {"npy": ("fits", "png"), "fits": ("npy", "png"), "png": ("npy", "fits")}
PLAIN = {"default": "given", "scheme": None, "base": "abs"}
BYSTANDER = (2, 0, 0)          # a tile nobody updates: what "the directory holds tiles" means for the format guess


def obj_of(sc, p):
    o = (sc.get("obj") or [None] * RP)[p - 1]
    return dict(PLAIN, **(o or {}))


def O(default="given", base="abs", scheme=None):
    return {"default": default, "base": base, "scheme": scheme}


def dflt_of(objs, fmt):
    """cfg.dflt: the class of each object's default format (0 = the file's format)."""
    out = []
    for o in objs:
        kind = dict(PLAIN, **(o or {}))["default"]
        if kind.startswith("other"):
            out.append(int(kind[5:]))
        elif kind == "guess-before" and fmt != "png":
            out.append(3)                                    # no tile to look at: the documented fall-back, png
        else:
            out.append(0)
    return out


def spelled(d, how):
    d = os.path.abspath(d)
    up, name = os.path.dirname(d), os.path.basename(d)
    if how == "slash":
        return d + os.sep
    if how == "dslash":
        return up + os.sep + os.sep + name
    if how == "dot":
        return os.path.join(up, ".", name)
    if how == "dotdot":
        return os.path.join(d, "..", name)
    if how == "symlink":
        return d + ".lnk"
    return d


def ensure_spellings(sc, d):
    os.makedirs(d, exist_ok=True)
    if any(obj_of(sc, p)["base"] == "symlink" for p in range(1, RP + 1)) and not os.path.islink(os.path.abspath(d) + ".lnk"):
        os.symlink(os.path.abspath(d), os.path.abspath(d) + ".lnk")


def make_pio(sc, p, d):
    """p's own PyramidIO object for the pyramid directory d."""
    from toasty.pyramid import PyramidIO
    o = obj_of(sc, p)
    args, kw = [spelled(d, o["base"])] if o["base"] != "abs" else [d], {}
    scheme = sc.get("scheme", "L/Y/YX")
    if o["scheme"] == "pos":
        args.append(scheme)
    elif o["scheme"] == "kw" or scheme != "L/Y/YX":
        kw["scheme"] = scheme
    if o["default"] == "given":
        kw["default_format"] = sc["fmt"]
    elif o["default"].startswith("other"):
        kw["default_format"] = OTHER[sc["fmt"]][int(o["default"][5:]) - 1]
    return PyramidIO(*args, **kw)


def guess_before(sc, p):
    return obj_of(sc, p)["default"] == "guess-before"


def prepare_dir(sc, d):
    """The pyramid directory with the configuration's initial tiles (and, when the updaters' objects are described, a
    bystander tile in the file format, so that the directory does hold tiles)."""
    from toasty.pyramid import PyramidIO, Pos
    from toasty.image import Image
    pio = PyramidIO(d, scheme=sc.get("scheme", "L/Y/YX"), default_format=sc["fmt"])
    for t in range(1, NPOS + 1):
        init = sc["cfg"]["init"][t - 1]
        if init:
            content = [PRE if j in init else 0 for j in range(1, NPIX + 1)]
            pio.write_image(real_pos(t), Image.from_array(lifted(sc["mode"], content)), format=sc["fmt"])
    if sc.get("obj"):
        pio.write_image(Pos(*BYSTANDER), Image.from_array(lifted(sc["mode"], [PRE] * NPIX)), format=sc["fmt"])
    return pio


def read_final(pio, sc):
    tiles = []
    for t in range(1, NPOS + 1):
        try:
            img = pio.read_image(real_pos(t), format=sc["fmt"])
            px = project(None if img is None else img.asarray(), sc["mode"])
        except Exception:  # noqa - an unreadable final file
            px = [JUNK] * NPIX
        tiles.append(tile_record(px))
    return tiles


def update_kwargs(sc, p, pio):
    """The format is named when the configuration says so, and whenever the object's own default is not the file's format."""
    return {"format": sc["fmt"]} if (sc["cfg"]["fmt"][p - 1] or pio.get_default_format() != sc["fmt"]) else {}


# ------------------------------------------------------------------------------------------------
# configurations
# ------------------------------------------------------------------------------------------------

def mkcfg(nupd, pos, reg, init=((), ()), keymode="pos", fmt=None, maxp=RP, maxu=RU, env=None, dflt=None, parent=0):
    def pad(seq, n, fill):
        seq = [list(x) if isinstance(x, (list, tuple)) else x for x in seq]
        return seq + [fill] * (n - len(seq))
    nupd = pad(nupd, maxp, 0)
    pos = [pad(r, maxu, 1) for r in pad(pos, maxp, [])]
    reg = [pad([list(x) for x in r], maxu, []) for r in pad(reg, maxp, [])]
    dflt = pad(dflt or [], maxp, 0)
    fmt = [1 if dflt[k] else f for k, f in enumerate(pad(fmt or [], maxp, 0))]      # another default: the format must be named
    return {"id": 0, "nupd": nupd, "pos": pos, "reg": reg, "init": [list(init[0]), list(init[1])], "keymode": keymode,
            "fmt": fmt, "env": pad(env or [], maxp, 0), "dflt": dflt, "parent": parent}


def cfg_lit(c):
    return tla.lit({"id": c["id"], "nupd": tuple(c["nupd"]), "pos": tuple(tuple(r) for r in c["pos"]),
                    "reg": tuple(tuple(tuple(x) for x in r) for r in c["reg"]),
                    "init": tuple(tuple(x) for x in c["init"]), "keymode": c["keymode"], "fmt": tuple(c["fmt"]), "env": tuple(c["env"]),
                    "dflt": tuple(c["dflt"]), "parent": c["parent"]})


def mc_configs(quick):
    """3 processes x 2 updates (the exhaustive bound), several region / position patterns."""
    k = dict(maxp=3, maxu=2)
    cs = [
        mkcfg([2, 2, 2], [[1, 1]] * 3, [[[1], [1, 4]], [[2], [2, 4]], [[3], [3, 4]]], **k),                       # private, then shared
        mkcfg([2, 2, 2], [[1, 2], [2, 1], [1, 1]], [[[1, 2], [1, 4]], [[2, 3], []], [[3], [1, 2, 3, 4]]], init=((4,), ()), fmt=[0, 1, 0], dflt=[0, 2, 3], **k),
        mkcfg([2, 2, 2], [[1, 1]] * 3, [[[1, 2, 3, 4]] * 2] * 3, init=((1, 2), ()), **k),                          # pure last-writer-wins
        mkcfg([2, 2, 2], [[1, 2], [1, 2], [2, 1]], [[[1, 2], [3]], [[2], [3, 4]], [[1, 4], [4]]], init=((), (1,)), parent=1, dflt=[1, 0, 0], **k),  # fork history
    ]
    if not quick:
        cs += [
            mkcfg([2, 2, 2], [[1, 1]] * 3, [[[1, 2], [2, 3]], [[2, 3], [3, 4]], [[3, 4], [4, 1]]], **k),          # chains
            mkcfg([2, 2, 2], [[1, 2], [1, 2], [2, 1]], [[[1], [1]], [[1], [2]], [[1, 2], [1, 3]]], init=((), (3,)), **k),
            mkcfg([2, 2, 2], [[1, 1]] * 3, [[[], [1]], [[], []], [[2], []]], **k),                                    # empty contributions
            mkcfg([2, 2, 2], [[2, 2], [2, 2], [2, 2]], [[[4], [3]], [[3], [4]], [[3, 4], [1]]], init=((), (1, 2, 3, 4)), **k),
        ]
    return cs


MC_CFG = """SPECIFICATION %s
CONSTANTS
 MaxP = %d
 MaxU = %d
 NPix = 4
 NPos = 2
 Cfgs <- MCCfgs
%s
CHECK_DEADLOCK FALSE
"""
SAFETY = ["TypeOK", "Mutex", "NoPartialRead", "NoLostUpdate", "SerialPrefix", "EveryContribution", "LocksFreeAtEnd", "LockHolderOK"]


def mc_module(name, cfgs, extra=()):
    for k, c in enumerate(cfgs, 1):
        c["id"] = k
    return tla.module(name, ["TileLock", "Json"], [("MCCfgs", "{" + ", ".join(cfg_lit(c) for c in cfgs) + "}")] + list(extra))


EMIT = ('Emit == PrintT(<<"S", ToJson([lvl |-> TLCGet("level"), ci |-> cfg.id, a |-> act[1], p |-> act[2], pc |-> pc, upd |-> upd, '
        'buf |-> buf, tile |-> tile, hold |-> [t \\in Poss |-> lock[<<t, 0>>]]])>>)')


class Background(object):
    """TLC runs that do not depend on the real code, executed while the real processes run."""

    def __init__(self):
        self.threads = []
        self.results = {}
        self.errors = []

    def start(self, key, fn):
        def run():
            try:
                self.results[key] = fn()
            except BaseException as e:  # noqa - re-raised in the main thread
                self.errors.append(e)
        t = threading.Thread(target=run, name="tlc-" + key)
        t.start()
        self.threads.append(t)

    def join(self):
        for t in self.threads:
            t.join()
        if self.errors:
            raise self.errors[0]

    def wait(self, key):
        for t in self.threads:
            if t.name == "tlc-" + key:
                t.join()
        if key not in self.results:
            self.join()
            raise RuntimeError("background TLC run %s produced no result" % key)
        return self.results[key]


# ------------------------------------------------------------------------------------------------
# layer 1: real forked processes
# ------------------------------------------------------------------------------------------------

def l1_scenarios(rng, quick):
    """(format, mode) x region / position families; 2-4 processes, up to 3 updates each."""
    fams = {
        "private-then-shared": lambda n: mkcfg([2] * n, [[1, 1]] * n, [[[p], [p, 4 if p != 4 else 1]] for p in range(1, n + 1)], fmt=[p % 2 for p in range(n)]),
        "all-overlap": lambda n: mkcfg([2] * n, [[1, 1]] * n, [[[1, 2, 3, 4]] * 2] * n, init=((1, 2), ()), fmt=[0, 1, 1, 0][:n]),
        "chain": lambda n: mkcfg([3] * n, [[1, 1, 1]] * n, [[[p], [p, p % 4 + 1], [p % 4 + 1]] for p in range(1, n + 1)], init=((3,), ()), fmt=[1, 0, 0, 1][:n]),
        "two-tiles": lambda n: mkcfg([3] * n, [[1 + (p + i) % 2 for i in range(3)] for p in range(n)],
                                     [[[p], [p, 4 if p != 4 else 2], []] for p in range(1, n + 1)], init=((), (3,)), fmt=[0, 1, 0, 1][:n]),
        "disjoint": lambda n: mkcfg([1] * n, [[1]] * n, [[[p]] for p in range(1, n + 1)], fmt=[1, 0, 1, 0][:n]),
    }
    kinds = [("npy", "f32"), ("fits", "f32"), ("png", "rgba"), ("npy", "rgba"), ("npy", "f64"), ("fits", "f64")]
    plan = [("private-then-shared", 3, 0), ("all-overlap", 3, 1), ("chain", 3, 2), ("two-tiles", 4, 0), ("disjoint", 4, 1),
            ("private-then-shared", 4, 2), ("all-overlap", 2, 3), ("chain", 2, 4), ("two-tiles", 3, 5), ("private-then-shared", 2, 1),
            ("disjoint", 3, 3), ("chain", 4, 0)]
    if not quick:
        plan = [(f, n, k) for f in fams for n in (2, 3, 4) for k in range(len(kinds))]
    out = []
    for idx, (fam, n, k) in enumerate(plan):
        fmt, mode = kinds[k]
        cfg = fams[fam](n)
        style = [[rng.choice(["full", "slice"]) for _ in range(RU)] for _ in range(RP)]
        out.append({"name": "%s/%d/%s-%s" % (fam, n, fmt, mode), "fmt": fmt, "mode": mode, "cfg": cfg, "style": style, "idx": idx})
    # the in-tree caller toast.ToastSampler (update mode), as several separately started sampling jobs whose masked samplers
    # cover disjoint / overlapping parts of FRESH tiles (no file yet): the `with` body cannot be observed, only the final
    # files; the jobs rendezvous inside the sampler callable so that they reach each tile together
    for k, n in (((0, 3), (1, 2), (2, 2)) if quick else [(k, n) for k in range(len(kinds)) for n in (2, 3)]):
        fmt, mode = kinds[k]
        out.append(toast_scenario(fmt, mode, n, len(out)))
    if not quick:
        # a holder that stays in its critical section for 12 s (any finite "the lock must be stale by now" bound up to that
        # is a mutual-exclusion failure): real processes, real clock
        cfg = mkcfg([1, 1], [[1]] * 2, [[[1, 4]], [[2, 4]]], init=((3,), ()))
        out.append({"name": "stalled-holder/2/npy-f32", "fmt": "npy", "mode": "f32", "cfg": cfg, "style": [["full"] * RU] * RP, "idx": len(out),
                    "stall": 12.0})
    combos = ([("full", "partA", "none"), ("partA", "full"), ("full", "full", "partB")] if quick else
              [c for c in __import__("itertools").product(("full", "partA", "none"), ("full", "partB", "none"))] +
              [("full", "partA", "partB"), ("full", "full", "partC"), ("none", "full", "partA"), ("partA", "partB", "partC")])
    for k, classes in enumerate(combos):
        fmt, mode = kinds[(0, 1, 4, 5)[k % 4]]            # float formats (NaN = undefined) first of all; RGBA below
        out.append(coverage_scenario(fmt, mode, classes, k % 2 == 1, len(out)))
        if not quick:
            out.append(coverage_scenario("png", "rgba", classes, k % 2 == 0, len(out)))
    out += env_scenarios(quick, len(out))
    out += launch_scenarios(quick, len(out))
    out += object_scenarios(quick, len(out))
    out += history_scenarios(quick, len(out))
    # separately launched MultiTanProcessor.tile() jobs into one pyramid: serial + workers, workers + serial, both serial
    jobs = [("npy", (1, 2)), ("npy", (2, 1)), ("fits", (1, 1))] if quick else [(f, par) for f in ("npy", "fits") for par in ((1, 2), (2, 1), (1, 1), (2, 2), (1, 3))]
    for fmt, par in jobs:
        out.append(job_scenario(fmt, par, len(out)))
    return out


ENV_VARS = ("SLURM_JOB_ID", "PBS_JOBID", "LSB_JOBID", "SLURM_NPROCS", "HOSTNAME", "TMPDIR", "HOME", "LANG")
ENV_VALUES = {"SLURM_JOB_ID": "424242", "PBS_JOBID": "1717.head", "LSB_JOBID": "9901", "SLURM_NPROCS": "4", "HOSTNAME": "node07",
              "TMPDIR": "/tmp", "HOME": "/tmp", "LANG": "C"}


LAUNCH_VARS = ENV_VARS + ("PYTHONHASHSEED",)


def launch_scenarios(quick, start_idx):
    """Updaters that are SEPARATELY STARTED INTERPRETERS (two batch jobs, two shells): nothing is inherited from a common
    parent - each has its own str-hash salt (PYTHONHASHSEED unset = random, or different fixed values), working directory,
    spelling of the pyramid directory (absolute / relative) and scheduler variables.  Mutual exclusion must hold between
    ANY processes updating one tile, so they must still agree on the lock."""
    kinds = [("npy", "f32"), ("fits", "f32"), ("png", "rgba")]
    out = []
    launches = [
        ([{}, {"PYTHONHASHSEED": "12345"}, {"SLURM_JOB_ID": "77"}], ["abs", "rel-parent", "rel-dot"]),
        ([{"PYTHONHASHSEED": "1"}, {}, {"PYTHONHASHSEED": "0", "LANG": "C"}], ["rel-up", "abs", "rel-parent"]),
        ([{}, {}], ["abs", "abs"]),
        ([{"PYTHONHASHSEED": "0"}, {"PYTHONHASHSEED": "4294967295"}], ["rel-dot", "rel-up"]),
    ]

    def add(k, first, caller=None):
        envs, base = launches[k % len(launches)]
        n = len(envs)
        fmt, mode = kinds[k % len(kinds)]
        if caller:
            sc = toast_scenario(fmt, mode, n, start_idx + len(out))
            sc["name"] = "launch-toast-sampler/%d/%d/%s" % (k, n, fmt)
        else:
            cfg = mkcfg([2] * n, [[1, 2]] * n, [[[p, 4], [p]] for p in range(1, n + 1)], init=((), (4,)), fmt=[p % 2 for p in range(n)])
            sc = {"name": "launch-update_image/%d/first%d/%d/%s" % (k, first, n, fmt), "fmt": fmt, "mode": mode, "cfg": cfg,
                  "style": [["full", "slice", "full"]] * RP, "idx": start_idx + len(out), "first": first}
        sc.update(launch="spawn", env=list(envs) + [{}] * (RP - n), base=list(base) + ["abs"] * (RP - n), deadline=90)
        out.append(sc)
    if quick:
        add(0, 1)
        add(3, 2)
        add(2, None, caller="toast")
    else:
        for k in range(len(launches)):
            for first in range(1, len(launches[k][0]) + 1):
                add(k, first)
            add(k, None, caller="toast")
    return out


def object_scenarios(quick, start_idx):
    """Updaters of one tile FILE whose PyramidIO OBJECTS differ: default format given (the file's / another one) or guessed at
    construction (before / after the directory held tiles), path scheme left out or spelled out, base directory spelled in
    different ways - crossed with naming the format in the call or relying on the default.  Each object is made in its
    updater's own process.  Whatever the objects look like, the updaters of one file must exclude each other."""
    kinds = [("npy", "f32"), ("fits", "f32"), ("png", "rgba"), ("npy", "f64")]
    out = []

    def add(k, objs, first, caller=None, scheme=None, two=False, tag=""):
        n = len(objs)
        fmt, mode = kinds[k % len(kinds)]
        objs = list(objs) + [None] * (RP - n)
        dflt = dflt_of(objs, fmt)
        idx = start_idx + len(out)
        if caller:
            sc = toast_scenario(fmt, mode, n, idx)
            sc["name"] = "objects-toast-sampler/%s%d/%s" % (tag, n, fmt)
        else:
            if two:
                cfg = mkcfg([2] * n, [[1, 2]] * n, [[[p, 4 if p != 4 else 1], [p]] for p in range(1, n + 1)], init=((), (4,)),
                            fmt=[p % 2 for p in range(n)], dflt=dflt)
            else:
                cfg = mkcfg([1] * n, [[1]] * n, [[[p, 4 if p != 4 else 1]] for p in range(1, n + 1)], init=((3,) if first % 2 else (), ()),
                            fmt=[(p + 1) % 2 for p in range(n)], dflt=dflt)
            sc = {"name": "objects-update_image/%sfirst%d/%d/%s" % (tag, first, n, fmt), "fmt": fmt, "mode": mode, "cfg": cfg,
                  "style": [["full", "slice", "full"]] * RP, "idx": idx, "first": first}
        sc["obj"] = objs
        if scheme:
            sc["scheme"] = scheme
        sc["deadline"] = 60
        out.append(sc)
    mixes = [
        [O("given"), O("other1", "slash", "kw"), O("guess-before", "symlink"), O("guess-after", "dot", "pos")],
        [O("other2", "dotdot", "pos"), O("given", "dslash"), O("guess-after", scheme="kw"), O("guess-before", "slash")],
        [O("other1", "symlink"), O("guess-before", scheme="kw"), O("given", "slash", "pos")],
        [O("given", "dot"), O("other2"), O("guess-before", "dslash", "kw")],
    ]
    if quick:
        add(0, mixes[0], 2)
        add(1, mixes[1], 3)
        add(2, mixes[2], 1)
        add(3, mixes[3], 1, scheme="LXY", two=True, tag="LXY/")
        add(0, [O("given"), O("guess-after", "symlink", "kw"), O("guess-after", "slash", "pos")], None, caller="toast")
    else:
        for k in range(len(kinds)):
            for m, mix in enumerate(mixes):
                for first in range(1, len(mix) + 1):
                    add(k, mix, first, tag="mix%d/" % m, scheme="LXY" if (k + m) % 3 == 2 else None, two=(m + first) % 2 == 0)
        others = [O("other1"), O("other2"), O("guess-before"), O("guess-after")]
        for k in range(len(kinds)):                 # one difference at a time against the plain object, both entering orders
            for j, o in enumerate(others):
                for first in (1, 2):
                    add(k, [O("given"), o], first, tag="pair%d/" % j)
            for base in ("slash", "dslash", "dot", "dotdot", "symlink"):
                add(k, [O("given"), O("given", base)], 2, tag=base + "/")
            add(k, [O("given"), O("guess-after", "symlink", "kw"), O("guess-after", "slash", "pos")], None, caller="toast")
            add(k, [O("guess-after", "dotdot"), O("given", scheme="pos")], None, caller="toast", scheme="LXY", tag="LXY/")
    return out


def history_scenarios(quick, start_idx):
    """Fork history: one process makes its own updates FIRST and then forks the contending updaters, which inherit its memory
    image (anything the first updates left in the process: caches, module state, the PyramidIO object).  The parent's updates
    happen before every child's (cfg.parent); the children contend as usual."""
    kinds = [("npy", "f32"), ("fits", "f32"), ("png", "rgba")]
    out = []

    def add(k, n, first, caller=None):
        fmt, mode = kinds[k % len(kinds)]
        idx = start_idx + len(out)
        if caller:
            sc = toast_scenario(fmt, mode, n, idx)
            sc["cfg"]["parent"] = 1
            sc["name"] = "parent-updates-then-forks/toast-sampler/%d/%s" % (n, fmt)
        else:
            cfg = mkcfg([2] + [1] * (n - 1), [[1, 2]] + [[1]] * (n - 1), [[[1], [2]]] + [[[p, 4 if p != 4 else 1]] for p in range(2, n + 1)],
                        init=((3,), ()), fmt=[p % 2 for p in range(n)], parent=1)
            sc = {"name": "parent-updates-then-forks/update_image/first%d/%d/%s" % (first, n, fmt), "fmt": fmt, "mode": mode, "cfg": cfg,
                  "style": [["full", "slice", "full"]] * RP, "idx": idx, "first": first}
        sc["deadline"] = 90
        out.append(sc)
    if quick:
        add(0, 4, 2)
        add(1, 3, None, caller="toast")
    else:
        for k in range(len(kinds)):
            for n in (3, 4):
                for first in range(2, n + 1):
                    add(k, n, first)
                add(k, n, None, caller="toast")
    return out


def env_scenarios(quick, start_idx):
    """Updaters that were launched separately, with DIFFERENT environments (batch-scheduler job ids, host name, temp/home
    directory, locale set for some and unset for others), in both entering orders, through update_image and through the
    ToastSampler caller: all updaters of a tile must agree on the lock whatever their environment says."""
    kinds = [("npy", "f32"), ("fits", "f32"), ("png", "rgba"), ("npy", "f64")]
    out = []

    def add(envs, first, k, caller=None, tag=""):
        n = len(envs)
        fmt, mode = kinds[k % len(kinds)]
        envs = [dict((v, ENV_VALUES[v]) for v in e) for e in envs] + [{}] * (RP - n)
        if caller:
            sc = toast_scenario(fmt, mode, n, start_idx + len(out))
            sc["name"] = "env-toast-sampler/%s%d/%s" % (tag, n, fmt)
        else:
            cfg = mkcfg([1] * n, [[1]] * n, [[[p, 4 if p != 4 else 1]] for p in range(1, n + 1)], init=((), ()), fmt=[p % 2 for p in range(n)])
            sc = {"name": "env-update_image/%sfirst%d/%d/%s" % (tag, first, n, fmt), "fmt": fmt, "mode": mode, "cfg": cfg,
                  "style": [["full", "slice", "full"]] * RP, "idx": start_idx + len(out), "first": first}
        sc["env"] = envs
        sc["deadline"] = 30
        out.append(sc)
    if quick:
        # four differently configured updaters at once (every pair differs), each of them entering first once
        mixes = [
            [["SLURM_JOB_ID", "TMPDIR"], [], ["PBS_JOBID", "LANG", "HOSTNAME"], ["LSB_JOBID", "HOME", "SLURM_NPROCS"]],
            [["SLURM_JOB_ID", "SLURM_NPROCS", "HOSTNAME"], ["LANG", "HOME"], ["PBS_JOBID", "LSB_JOBID"], ["TMPDIR"]],
        ]
        for first in (1, 2, 3, 4):
            add(mixes[first % 2], first, first)
        add(mixes[0][:3], None, 0, caller="toast")
        add(mixes[1][:2], None, 2, caller="toast")
    else:
        k = 0
        for var in ENV_VARS:                       # one variable at a time: set for one updater, unset for the other
            for first in (1, 2):
                add([[var], []], first, k, tag=var + "/")
                k += 1
            add([[var], []], None, k, caller="toast", tag=var + "/")
            add([[], [var]], None, k + 1, caller="toast", tag=var + "-second/")
        for first in (1, 2, 3, 4):
            add([["SLURM_JOB_ID", "TMPDIR"], [], ["PBS_JOBID", "LANG", "HOSTNAME"], ["LSB_JOBID", "HOME", "SLURM_NPROCS"]], first, first, tag="mix/")
    return out


COVER = {"full": [1, 2, 3, 4], "partA": [1, 4], "partB": [2, 4], "partC": [3], "none": []}


def coverage_scenario(fmt, mode, classes, existing, idx):
    """ToastSampler jobs whose samples define every pixel / part / nothing of one tile (fresh or existing), one update each:
    a fully defined contribution is where "update" degenerates to "overwrite"."""
    n = len(classes)
    cfg = mkcfg([1] * n, [[1]] * n, [[COVER[c]] for c in classes], init=((3,) if existing else (), ()))
    return {"name": "toast-sampler-coverage/%s/%s/%s-%s" % ("+".join(classes), "existing" if existing else "fresh", fmt, mode),
            "fmt": fmt, "mode": mode, "cfg": cfg, "style": None, "idx": idx, "caller": "toast"}


def toast_scenario(fmt, mode, n, idx):
    cfg = mkcfg([2] * n, [[1, 2]] * n, [[[p], [p, 4 if p != 4 else 1]] for p in range(1, n + 1)])
    return {"name": "toast-sampler-fresh/%d/%s-%s" % (n, fmt, mode), "fmt": fmt, "mode": mode, "cfg": cfg, "style": None, "idx": idx, "caller": "toast"}


def _l1_updater(p, sc, d, sh, inherited=None):
    """One updater process."""
    import warnings
    warnings.simplefilter("ignore")
    ticket, cond, inside, overlap, barrier, entered, setup = sh
    evdir = os.path.abspath(d)
    events = []
    err = None
    stuck = []
    pio = inherited                                           # a child may go on with the object its parent made
    parent = sc["cfg"].get("parent", 0)

    def draw():
        with ticket.get_lock():
            ticket.value += 1
            return ticket.value
    try:
        if sc.get("launch") == "spawn":
            repo.setup()                                      # this interpreter has not imported toasty yet
            how = sc["base"][p - 1]                           # the same pyramid directory, spelled differently
            if how == "rel-parent":
                os.chdir(os.path.dirname(d))
                d = os.path.basename(d)
            elif how == "rel-dot":
                os.chdir(d)
                d = "."
            elif how == "rel-up":
                sub = os.path.join(d, "wd-%d" % p)
                os.makedirs(sub, exist_ok=True)
                os.chdir(sub)
                d = ".."
        if sc.get("env") and sc.get("launch") != "spawn":     # a separately launched job: its own environment, set before
            for var in ENV_VARS:                              # anything of toasty's is created or called
                val = sc["env"][p - 1].get(var)
                if val is None:
                    os.environ.pop(var, None)
                else:
                    os.environ[var] = val
        if setup is not None and guess_before(sc, p):
            pio = make_pio(sc, p, d)                          # the directory exists and holds no tile yet
    except BaseException as e:  # noqa
        err = "%s: %s" % (type(e).__name__, str(e)[:200])
    if setup is not None:
        try:
            setup.wait(120)                                   # every object "constructed before" exists
            setup.wait(120)                                   # the launcher has written the initial tiles
        except BaseException as e:  # noqa
            err = err or "HARNESS: set-up barrier broken (%s)" % type(e).__name__
    try:
        if err is not None:
            raise RuntimeError(err)
        first = sc.get("first")
        if pio is None:
            pio = make_pio(sc, p, d)
        cfg = sc["cfg"]
        mode = sc["mode"]
        tiles = {}
        if sc.get("caller") == "toast":
            from toasty.toast import ToastSampler, generate_tiles
            if pio.get_default_format() != sc["fmt"]:         # this caller cannot name the format: not the same file then
                raise RuntimeError("HARNESS: the sampling job's PyramidIO has default format %r, the scenario's tiles are %r"
                                   % (pio.get_default_format(), sc["fmt"]))
            tiles = {tuple(tl.pos): tl for tl in generate_tiles(POS_XY[1][0])}
            flip = pio.get_default_vertical_parity_sign() == 1      # visit_callback flips rows for bottom-up formats
        if p != parent:
            barrier.wait(90)
        for i in range(1, cfg["nupd"][p - 1] + 1):
            t = cfg["pos"][p - 1][i - 1]
            region = cfg["reg"][p - 1][i - 1]
            if tiles:
                arr = lifted(mode, [rid(p, i) if j in region else 0 for j in range(1, NPIX + 1)])

                def sampler(lon, lat, arr=arr):
                    if p != parent:
                        barrier.wait(30)                      # the jobs reach this tile together
                    return arr[::-1] if flip else arr
                ToastSampler(pio, sampler, False).visit_callback(real_pos(t), tiles[POS_XY[t]])
                continue
            if first and i == 1 and p not in (first, parent):   # entering order: the designated updater is inside first
                with cond:                                    # (and, if there is one, the foreign job has finished)
                    cond.wait_for(lambda: entered.value == (2 if sc.get("finisher") else 1), 30)
            with pio.update_image(real_pos(t), masked_mode=mode_of(mode), default="masked", **update_kwargs(sc, p, pio)) as basis:
                t0 = draw()                                   # before the work
                with cond:                                    # rendezvous: succeeds iff a second body is inside this tile now
                    inside[t] += 1
                    if first == p and i == 1:
                        entered.value = 1
                        cond.notify_all()
                    if inside[t] >= 2:
                        overlap.value = 1
                        cond.notify_all()
                    elif first:
                        if first == p and i == 1:
                            if sc.get("finisher"):
                                cond.wait_for(lambda: entered.value == 2 or inside[t] >= 2, 30)
                            if inside[t] < 2:
                                cond.wait(2 * DWELL)
                    elif i == 1 and p != parent:
                        cond.wait(sc["stall"] if (t0 == 1 and sc.get("stall")) else DWELL)   # "stall": the first holder overall
                px0 = project(basis.asarray(), mode)
                events.append({"ev": "read", "p": p, "i": i, "px": px0, "t": t0})
                apply_contribution(basis, mode, rid(p, i), region, sc["style"][p - 1][i - 1])
                px1 = project(basis.asarray(), mode)
                with cond:
                    inside[t] -= 1
                t1 = draw()                                   # after the work
                events.append({"ev": "modify", "p": p, "i": i, "px": px1, "t": t1})
        if p == parent:
            # fork history: this process has completed its own updates; NOW it forks the other updaters (which inherit its
            # memory image - every second one also goes on with its PyramidIO object, as tile()'s workers do)
            stuck = _fork_children(sc, d, sh, pio)
    except BaseException as e:  # noqa
        err = "%s: %s" % (type(e).__name__, str(e)[:200])
    with open(os.path.join(evdir, "ev-%d.json" % p), "w") as f:
        json.dump({"events": events, "error": err, "stuck": stuck}, f)
    os._exit(0)


def _fork_children(sc, d, sh, pio):
    import signal
    kids = {}
    for q in range(1, RP + 1):
        if sc["cfg"]["nupd"][q - 1] > 0 and q != sc["cfg"]["parent"]:
            pid = os.fork()
            if pid == 0:
                _l1_updater(q, sc, d, sh, inherited=pio if q % 2 == 0 else None)       # does not return
                os._exit(1)
            kids[pid] = q
    t_end = time.time() + sc.get("deadline", 60) - 30
    while kids and time.time() < t_end:
        pid, _st = os.waitpid(-1, os.WNOHANG)
        if pid == 0:
            time.sleep(0.02)
        else:
            kids.pop(pid, None)
    for pid in kids:
        os.kill(pid, signal.SIGKILL)
        os.waitpid(pid, 0)
    return sorted(kids.values())


def _l1_finisher(sc, d, sh):
    """A separately started tiling job on the same pyramid that FINISHES while an updater of another job is inside its
    critical section: a real MultiTanProcessor.tile() over a 600 x 1 pixel image (its data fall into other tiles of the
    level-2 layer; like every multi_tan / multi_wcs job it ends with pio.clean_lockfiles(level))."""
    import warnings
    warnings.simplefilter("ignore")
    ticket, cond, inside, overlap, barrier, entered, _setup = sh
    err = None
    try:
        from toasty import collection, multi_tan
        from toasty.builder import Builder
        from toasty.pyramid import PyramidIO
        pio = PyramidIO(d, default_format=sc["fmt"])
        proc = multi_tan.MultiTanProcessor(collection.SimpleFitsCollection([sc["finisher"]]))
        proc.compute_global_pixelization(Builder(pio))
        if proc._tiling._tile_levels != POS_XY[1][0]:
            raise RuntimeError("foreign job tiles level %d, harness tiles are at level %d" % (proc._tiling._tile_levels, POS_XY[1][0]))
        barrier.wait(90)
        with cond:
            cond.wait_for(lambda: entered.value == 1, 30)
        proc.tile(pio, parallel=1, cli_progress=False)
    except BaseException as e:  # noqa
        err = "%s: %s" % (type(e).__name__, str(e)[:200])
    with cond:
        entered.value = 2
        cond.notify_all()
    with open(os.path.join(d, "finisher.json"), "w") as f:
        json.dump({"error": err}, f)
    os._exit(0)


def foreign_job_scenario(scratch):
    """Two updaters of one tile (job Y, the first one held inside its body) + a foreign MultiTanProcessor job X finishing."""
    import numpy as np
    from astropy.io import fits
    from astropy.wcs import WCS
    w = WCS(naxis=2)
    w.wcs.ctype = ["RA---TAN", "DEC--TAN"]
    w.wcs.crval = [10.0, 20.0]
    w.wcs.crpix = [300.5, 1.0]
    w.wcs.cdelt = [-0.001, 0.001]
    src = os.path.join(scratch, "strip.fits")
    fits.PrimaryHDU(np.ones((1, 600), dtype=np.float32), header=w.to_header()).writeto(src, overwrite=True)
    cfg = mkcfg([1, 1], [[1]] * 2, [[[1, 4]], [[2, 4]]], init=((3,), ()))
    return {"name": "foreign-job-finishes/2/fits-f32", "fmt": "fits", "mode": "f32", "cfg": cfg, "style": [["full"] * RU, ["slice"] * RU] * 2,
            "idx": 998, "first": 1, "finisher": src, "deadline": 60, "entry": "MultiTanProcessor.tile"}


def _l1_run(sc, d):
    """Run one scenario with real processes; returns the recording."""
    import multiprocessing as mp
    spawn = sc.get("launch") == "spawn"
    ctx = mp.get_context("spawn" if spawn else "fork")
    ensure_spellings(sc, d)
    hetero = bool(sc.get("obj"))          # objects described: some are made before the directory holds tiles
    pio = None if hetero else prepare_dir(sc, d)
    procs = [p for p in range(1, RP + 1) if sc["cfg"]["nupd"][p - 1] > 0]
    parent = sc["cfg"].get("parent", 0)
    started = [parent] if parent else procs                   # a forking parent starts the others itself
    sh = (ctx.Value("i", 0), ctx.Condition(), ctx.Array("i", NPOS + 1, lock=False), ctx.Value("i", 0, lock=False),
          ctx.Barrier(len(procs) - (1 if parent else 0) + (1 if sc.get("finisher") else 0)), ctx.Value("i", 0, lock=False),
          ctx.Barrier(len(procs) + 1) if hetero else None)
    t0 = time.time()
    ws = []
    for p in started:
        w = ctx.Process(target=_l1_updater, args=(p, sc, d, sh))
        if spawn:
            # a separately started interpreter: launched with its own environment (what Python reads at start-up - the str
            # hash salt PYTHONHASHSEED - included); nothing but the files and the harness's primitives is shared
            saved = dict(os.environ)
            try:
                for var in LAUNCH_VARS:
                    val = sc["env"][p - 1].get(var)
                    if val is None:
                        os.environ.pop(var, None)
                    else:
                        os.environ[var] = val
                w.start()
            finally:
                os.environ.clear()
                os.environ.update(saved)
        else:
            w.start()
        ws.append(w)
    if hetero:
        sh[6].wait(120)                                       # the objects "constructed before the directory held tiles" exist
        pio = prepare_dir(sc, d)
        sh[6].wait(120)
    fin = None
    if sc.get("finisher"):
        fin = ctx.Process(target=_l1_finisher, args=(sc, d, sh))
        fin.start()
    stuck = []
    deadline = time.time() + sc.get("deadline", 60)
    for p, w in zip(started, ws):
        w.join(max(0.1, deadline - time.time()))
        if w.is_alive():
            stuck.append(p)
            w.kill()
            w.join()
    events, errors = [], {}
    for p in ([parent] if parent else []) + [q for q in procs if q != parent]:      # (the parent reports which children it killed)
        path = os.path.join(d, "ev-%d.json" % p)
        if os.path.exists(path):
            rec = json.load(open(path))
            events += rec["events"]
            stuck += rec.get("stuck") or []
            if rec["error"]:
                if rec["error"].startswith(("HARNESS:", "RuntimeError: HARNESS:")):
                    raise RuntimeError(rec["error"])
                errors[p] = rec["error"]
        elif p not in stuck:
            errors[p] = "updater exited without a recording"
    if fin is not None:
        fin.join(10)
        if fin.is_alive():
            fin.kill()
            fin.join()
        fpath = os.path.join(d, "finisher.json")
        ferr = json.load(open(fpath))["error"] if os.path.exists(fpath) else "no report"
        if ferr:
            raise RuntimeError("the foreign tiling job could not be run: %s" % ferr)
    events.sort(key=lambda e: e["t"])
    locks_left = sorted(fn for _r, _d, fns in os.walk(d) for fn in fns if fn.endswith(".lock"))
    tiles = read_final(pio, sc)
    return {"sc": sc["name"], "idx": sc["idx"], "events": events, "errors": errors, "stuck": stuck, "overlap": bool(sh[3].value),
            "tiles": tiles, "locks_left": locks_left, "wall": round(time.time() - t0, 2)}


# ---- real MultiTanProcessor.tile() jobs, separately launched, into one pyramid -------------------------------------------

MOSAIC = 1024                                  # the jobs' common mosaic: 4 x 4 tiles at level 2
JOB_REG = {1: {1: [1], 2: [1, 4]}, 2: {1: [2, 4], 2: [2]}, 3: {1: [3, 4], 2: [3]}, 4: {1: [1, 2], 2: [4]}}   # image p -> tile -> region


def _job_tile_origin(t):
    n, x, y = POS_XY[t]
    return x * T, y * T


def _paint(ids_by_tile, regs_by_tile, tile_flip):
    """A MOSAIC x MOSAIC image (top-down), undefined except for lifted contributions on the modelled tiles."""
    import numpy as np
    m = np.full((MOSAIC, MOSAIC), np.nan, dtype=np.float32)
    for t, c in ids_by_tile.items():
        x0, y0 = _job_tile_origin(t)
        tile = lifted("f32", [c if j in regs_by_tile[t] else 0 for j in range(1, NPIX + 1)])
        m[y0:y0 + T, x0:x0 + T] = tile[::-1] if tile_flip else tile
    return m


def _write_segment(path, m, input_flip):
    from astropy.io import fits
    from astropy.wcs import WCS
    w = WCS(naxis=2)
    w.wcs.ctype = ["RA---TAN", "DEC--TAN"]
    w.wcs.crval = [10.0, 20.0]
    w.wcs.crpix = [MOSAIC / 2 + 0.5, MOSAIC / 2 + 0.5]
    w.wcs.cdelt = [-0.0005, 0.0005]
    fits.PrimaryHDU(m[::-1] if input_flip else m, header=w.to_header()).writeto(path, overwrite=True)


def _make_job_pio(d, fmt, hooks):
    """A PyramidIO whose update_image / clean_lockfiles report to the harness (in the job's own processes)."""
    from contextlib import contextmanager
    from toasty.pyramid import PyramidIO
    modelled = {POS_XY[t]: t for t in POS_XY}

    class JobPIO(PyramidIO):
        @contextmanager
        def update_image(self, pos, *a, **k):
            t = modelled.get(tuple(pos))
            with PyramidIO.update_image(self, pos, *a, **k) as basis:
                tok = hooks["body_start"](t, basis) if t is not None else None
                yield basis
                if t is not None:
                    hooks["body_end"](t, basis, tok)
            hooks["completed"]()

        def clean_lockfiles(self, level):
            hooks["before_clean"]()
            return PyramidIO.clean_lockfiles(self, level)
    return JobPIO(d, default_format=fmt)


def _tile_job(pio, paths, parallel):
    from toasty import collection, multi_tan
    from toasty.builder import Builder
    proc = multi_tan.MultiTanProcessor(collection.SimpleFitsCollection(paths))
    proc.compute_global_pixelization(Builder(pio))
    if proc._tiling._tile_levels != POS_XY[1][0]:
        raise RuntimeError("the jobs tile level %d, the harness's tiles are at level %d" % (proc._tiling._tile_levels, POS_XY[1][0]))
    return proc


_CAL_CACHE = {}


def _calibrate_jobs(fmt, scratch):
    """One job alone: in which order does an image visit the modelled tiles, how many update_image calls does it make, and how
    must the input be oriented so that the tile buffers hold the lifted patterns?"""
    import itertools
    from toasty.image import get_format_vertical_parity_sign
    if fmt in _CAL_CACHE:
        return _CAL_CACHE[fmt]
    guess = get_format_vertical_parity_sign(fmt) == 1         # only the order of the attempts; the read-back decides
    for tile_flip, input_flip in itertools.product((guess, not guess), (True, False)):
        d = os.path.join(scratch, "cal-%d%d" % (tile_flip, input_flip))
        os.makedirs(d, exist_ok=True)
        order, calls = [], [0]
        hooks = {"body_start": lambda t, b: order.append(t), "body_end": lambda t, b, tok: None,
                 "completed": lambda: calls.__setitem__(0, calls[0] + 1), "before_clean": lambda: None}
        pio = _make_job_pio(os.path.join(d, "pyr"), fmt, hooks)
        src = os.path.join(d, "cal.fits")
        _write_segment(src, _paint({1: 1, 2: 2}, {1: [1], 2: [2, 4]}, tile_flip), input_flip)
        proc = _tile_job(pio, [src], 1)
        proc.tile(pio, parallel=1, cli_progress=False)
        sc = {"fmt": fmt, "mode": "f32"}
        got = [x["px"] for x in read_final(pio, sc)]
        if got == [[1, 0, 0, 0], [0, 2, 0, 2]] and sorted(order) == [1, 2]:
            _CAL_CACHE[fmt] = {"tile_flip": tile_flip, "input_flip": input_flip, "order": order, "calls": calls[0]}
            return _CAL_CACHE[fmt]
    raise RuntimeError("cannot place lifted contributions through MultiTanProcessor (last result %s, order %s)" % (got, order))


def _l1_job(j, sc, d, sh, cal, paths, evdir):
    """One separately launched tiling job: MultiTanProcessor.tile() over its own segments, serial or with workers."""
    import warnings
    warnings.simplefilter("ignore")
    ticket, cond, inside, overlap, barrier, entered, completed, jobs_done = sh
    total = cal["calls"] * len(paths)
    err = None

    def draw():
        with ticket.get_lock():
            ticket.value += 1
            return ticket.value

    def body_start(t, basis):
        t0 = draw()
        with cond:
            inside[t] += 1
            mefirst = entered.value == 0
            if mefirst:
                entered.value = 1                             # the other job is launched now: while we are inside
                cond.notify_all()
            if inside[t] >= 2:
                overlap.value = 1
                cond.notify_all()
            elif mefirst:
                cond.wait_for(lambda: inside[t] >= 2, 3 * DWELL)
        return t0, project(basis.asarray(), "f32")

    def body_end(t, basis, tok):
        t0, px0 = tok
        px1 = project(basis.asarray(), "f32")
        with cond:
            inside[t] -= 1
        t1 = draw()
        new = sorted({b for a, b in zip(px0, px1) if a != b and 1 <= b <= RP * RU})
        p, i = (((new[0] - 1) // RU + 1), ((new[0] - 1) % RU + 1)) if len(new) == 1 else (0, 0)
        with open(os.path.join(evdir, "%d.ndjson" % os.getpid()), "a") as f:
            f.write(json.dumps({"ev": "read", "p": p, "i": i, "px": px0, "t": t0}) + "\n")
            f.write(json.dumps({"ev": "modify", "p": p, "i": i, "px": px1, "t": t1}) + "\n")

    def done_one():
        with cond:
            completed[j] += 1
            if completed[j] == total:
                jobs_done.value += 1
                cond.notify_all()

    def before_clean():
        # the LAST sweep of a job (made once all its updates are complete) is held back until every job is quiescent: what a
        # finished job's sweep does to jobs still running is outside the property (DESIGN 9); earlier sweeps run unhindered
        with cond:
            if completed[j] >= total:
                cond.wait_for(lambda: jobs_done.value >= sc["njobs"], 60)
    try:
        pio = _make_job_pio(d, sc["fmt"], {"body_start": body_start, "body_end": body_end, "completed": done_one, "before_clean": before_clean})
        proc = _tile_job(pio, paths, sc["parallel"][j - 1])
        barrier.wait(90)
        if j != 1:
            with cond:                                        # job start placed while the first job is inside a critical section
                cond.wait_for(lambda: entered.value == 1, 30)
        proc.tile(pio, parallel=sc["parallel"][j - 1], cli_progress=False)
    except BaseException as e:  # noqa
        err = "%s: %s" % (type(e).__name__, str(e)[:200])
    with cond:
        if completed[j] < total:                              # a failed job must not leave the others waiting
            completed[j] = total
            jobs_done.value += 1
        cond.notify_all()
    with open(os.path.join(evdir, "job-%d.json" % j), "w") as f:
        json.dump({"error": err}, f)
    os._exit(0)


def job_scenario(fmt, parallel, idx):
    """Two separately launched MultiTanProcessor.tile() jobs (two segments each, every segment overlapping both modelled
    tiles) into one pyramid; parallel[j] = 1: serial route, > 1: worker processes."""
    return {"name": "tiling-jobs/%s/%s" % ("+".join("serial" if n == 1 else "%dworkers" % n for n in parallel), fmt), "fmt": fmt, "mode": "f32",
            "jobs": True, "njobs": len(parallel), "parallel": list(parallel), "idx": idx, "style": None, "entry": "MultiTanProcessor.tile",
            "cfg": mkcfg([2] * 4, [[1, 2]] * 4, [[JOB_REG[p][1], JOB_REG[p][2]] for p in range(1, 5)]), "deadline": 90}


def _l1_run_jobs(sc, d):
    import multiprocessing as mp
    ctx = mp.get_context("fork")
    os.makedirs(d, exist_ok=True)
    t0 = time.time()
    cal = _calibrate_jobs(sc["fmt"], d)
    order = cal["order"]                                      # the modelled tiles in the order a segment visits them
    cfg = mkcfg([2] * 4, [order] * 4, [[JOB_REG[p][order[0]], JOB_REG[p][order[1]]] for p in range(1, 5)])
    pyr, evdir = os.path.join(d, "pyr"), os.path.join(d, "ev")
    os.makedirs(evdir, exist_ok=True)
    paths = {}
    for p in range(1, 5):
        path = os.path.join(d, "segment-%d.fits" % p)
        _write_segment(path, _paint({order[0]: rid(p, 1), order[1]: rid(p, 2)}, JOB_REG[p], cal["tile_flip"]), cal["input_flip"])
        paths.setdefault((p - 1) // 2 + 1, []).append(path)
    njobs = sc["njobs"]
    sh = (ctx.Value("i", 0), ctx.Condition(), ctx.Array("i", NPOS + 1, lock=False), ctx.Value("i", 0, lock=False), ctx.Barrier(njobs),
          ctx.Value("i", 0, lock=False), ctx.Array("i", njobs + 1, lock=False), ctx.Value("i", 0, lock=False))
    ws = []
    for j in range(1, njobs + 1):
        w = ctx.Process(target=_l1_job, args=(j, sc, pyr, sh, cal, paths[j], evdir))
        w.start()
        ws.append(w)
    stuck, errors = [], {}
    deadline = time.time() + sc.get("deadline", 90)
    for j, w in enumerate(ws, 1):
        w.join(max(0.1, deadline - time.time()))
        if w.is_alive():
            stuck.append("job %d" % j)
            os.system("pkill -KILL -P %d >/dev/null 2>&1" % w.pid)
            w.kill()
            w.join()
        rep = os.path.join(evdir, "job-%d.json" % j)
        if os.path.exists(rep):
            e = json.load(open(rep))["error"]
            if e:
                errors["job %d" % j] = e
        elif ("job %d" % j) not in stuck:
            errors["job %d" % j] = "job exited without a report"
    events = []
    for fn in os.listdir(evdir):
        if fn.endswith(".ndjson"):
            events += [json.loads(ln) for ln in open(os.path.join(evdir, fn)) if ln.strip()]
    events.sort(key=lambda e: e["t"])
    from toasty.pyramid import PyramidIO
    pio = PyramidIO(pyr, default_format=sc["fmt"])
    locks_left = sorted(fn for _r, _d, fns in os.walk(pyr) for fn in fns if fn.endswith(".lock"))
    return {"sc": sc["name"], "idx": sc["idx"], "events": events, "errors": errors, "stuck": stuck, "overlap": bool(sh[3].value),
            "tiles": read_final(pio, sc), "locks_left": locks_left, "wall": round(time.time() - t0, 2), "cfg": cfg, "calibration": cal}


def _l1_manager(scs, base, out):
    res = []
    for sc in scs:
        try:
            res.append((_l1_run_jobs if sc.get("jobs") else _l1_run)(sc, os.path.join(base, "s%d" % sc["idx"])))
        except BaseException as e:  # noqa
            res.append({"sc": sc["name"], "idx": sc["idx"], "machinery": "%s: %s" % (type(e).__name__, e)})
    with open(out, "w") as f:
        json.dump(res, f)
    os._exit(0)


def coverage_monitor(cfg, tiles):
    """Necessary for every serial order: a pixel covered by some update holds one of the covering contributions
    (so a pixel covered by exactly one update holds that one); an uncovered pixel keeps its initial value."""
    bad = []
    for t in range(1, NPOS + 1):
        px = tiles[t - 1]["px"]
        for x in range(1, NPIX + 1):
            cover = [rid(p, i) for p in range(1, RP + 1) for i in range(1, cfg["nupd"][p - 1] + 1)
                     if cfg["pos"][p - 1][i - 1] == t and x in cfg["reg"][p - 1][i - 1]]
            init = PRE if x in cfg["init"][t - 1] else 0
            if px[x - 1] == JUNK:
                bad.append(("corrupt", t, x, px[x - 1], cover))
            elif cover and px[x - 1] not in cover:
                bad.append(("lost", t, x, px[x - 1], cover))
            elif not cover and px[x - 1] != init:
                bad.append(("clobbered", t, x, px[x - 1], [init]))
    return bad


class Once(object):
    """ctx.violation once per finding key (the first failing recording is the replay object); later ones are counted."""

    def __init__(self, ctx):
        self.ctx = ctx
        self.n = {}

    def violation(self, key, what, replay):
        self.n[key] = self.n.get(key, 0) + 1
        if self.n[key] == 1:
            self.ctx.violation(key, what, replay)
        return True


def judge_recording(ctx, layer, key_prefix, sc, rec, accepted, consumed):
    """Property monitors on one recording of the real code.  Returns True if a violation was reported."""
    cfg = sc["cfg"]
    info = {"scenario": sc["name"], "format": sc["fmt"], "mode": sc["mode"], "cfg": cfg, "events": rec["events"][:60], "final": rec["tiles"],
            "schedule": rec.get("schedule")}
    hit = False
    if rec.get("overlap"):
        hit |= bool(ctx.violation(key_prefix + "mutual-exclusion", "%s: two update_image bodies were inside the same tile at once (%s)" % (layer, sc["name"]), info))
    if rec.get("partial_read"):
        hit |= bool(ctx.violation(key_prefix + "partial-read", "%s: read_image ran on a tile that another updater had opened for writing, while holding the update lock (%s)" % (layer, sc["name"]), info))
    junk_reads = [e for e in rec["events"] if e["ev"] == "read" and JUNK in e["px"]]
    if junk_reads and not hit:
        hit |= bool(ctx.violation(key_prefix + "partial-read", "%s: update_image handed out a partially written tile: %s (%s)" % (layer, junk_reads[0], sc["name"]), info))
    bad = coverage_monitor(cfg, rec["tiles"])
    if bad:
        kind, t, x, got, cover = bad[0]
        hit |= bool(ctx.violation(key_prefix + "lost-update", "%s: final tile %d pixel %d holds %s, must hold one of %s - a contribution was %s (%s)"
                                  % (layer, t, x, got, cover, kind, sc["name"]), info))
    if rec.get("errors"):
        hit |= bool(ctx.violation(key_prefix + "updater-raised", "%s: an updater failed under concurrency: %s (%s)" % (layer, rec["errors"], sc["name"]), info))
    if rec.get("stuck"):
        hit |= bool(ctx.violation(key_prefix + "updater-stuck", "%s: updaters %s never finished (%s)" % (layer, rec["stuck"], sc["name"]), info))
    if not accepted and not hit:
        n = len(rec["events"])
        at = rec["events"][consumed] if consumed < n else {"ev": "final", "tiles": rec["tiles"]}
        if layer == "real processes" or at["ev"] == "final":
            hit |= bool(ctx.violation(key_prefix + "not-serializable", "%s: TLC finds no serial order of the updates that explains the recording; stuck at event %d %s (%s)"
                                      % (layer, consumed + 1, at, sc["name"]), info))
    return hit


# ------------------------------------------------------------------------------------------------
# layer 2: thread-level, SoftFileLock / read_image / Image.save as sync points of simmp.Sched
# ------------------------------------------------------------------------------------------------

class _VirtualTime(object):
    """The clock filelock's acquire loop sees inside the thread-level layer.  Every attempt is a sync point, so sleeping
    between attempts is pointless; and because a holder may be stalled arbitrarily long between two of its steps, each
    failed poll stands for (at least) one second of waiting: sleep() advances the virtual clock instead of blocking."""

    def __init__(self):
        self.offset = 0.0

    def __getattr__(self, name):
        return getattr(time, name)

    def sleep(self, s):
        self.offset += max(float(s), 1.0)

    def perf_counter(self):
        return time.perf_counter() + self.offset

    def monotonic(self):
        return time.monotonic() + self.offset

    def time(self):
        return time.time() + self.offset


class MachineryInHarness(Exception):
    pass


class Harness(object):
    GATE_PC = {"try": None, "read": "locked", "modify": "read", "wbegin": "modified", "wend": "writing", "release": "written"}

    def __init__(self, sc, d):
        from lib import simmp
        self.S = simmp.Sched()
        self.sc = sc
        self.d = d
        self._canon = {}
        ensure_spellings(sc, d)
        # the updaters' own PyramidIO objects; those "constructed before the directory held tiles" are made now
        self.pios = {p: make_pio(sc, p, d) for p in range(1, RP + 1) if sc.get("obj") and sc["cfg"]["nupd"][p - 1] > 0 and guess_before(sc, p)}
        self.pio = prepare_dir(sc, d)
        self.info = {}
        self.events = []
        self.holder = {}          # lock file -> actor name
        self.writing = set()      # tile paths opened for writing by Image.save and not yet written
        self.inside = {}          # position -> set of actors inside their body
        self.overlap = False
        self.partial_read = False
        self.gates_seen = set()
        self._tile_cache = {}
        self.lock_files = set()
        self.tile_paths = {self.canon(self.pio.tile_path(real_pos(t), format=sc["fmt"], makedirs=False)) for t in range(1, NPOS + 1)}

    def canon(self, path):
        """One name per file, however the updater's object spells the directory."""
        path = os.fspath(path)
        if path not in self._canon:
            self._canon[path] = os.path.realpath(path)
        return self._canon[path]

    # -- actor side
    def gate(self, kind, *payload):
        S = self.S
        if S.me() is None or S.killed:
            return
        self.gates_seen.add(kind)
        S.sync((kind,) + payload, lambda: {"ok": lambda: None})

    def log(self, ev, **kw):
        me = self.S.me()
        st = self.info[me]
        rec = {"ev": ev, "p": st["p"], "i": st["i"]}
        rec.update(kw)
        self.events.append(rec)

    def updater(self, p):
        from toasty.pyramid import PyramidIO
        sc, cfg, mode = self.sc, self.sc["cfg"], self.sc["mode"]
        name = "p%d" % p
        st = self.info[name]
        pio = self.pios.get(p) or make_pio(sc, p, self.d)
        if sc.get("caller") == "toast":
            from toasty.toast import ToastSampler, generate_tiles
            if pio.get_default_format() != sc["fmt"]:
                raise MachineryInHarness("the sampling job's PyramidIO has default format %r, the scenario's tiles are %r"
                                         % (pio.get_default_format(), sc["fmt"]))
            tiles = {tuple(tl.pos): tl for tl in generate_tiles(POS_XY[1][0])}
            flip = pio.get_default_vertical_parity_sign() == 1
            for i in range(1, cfg["nupd"][p - 1] + 1):
                st.update(i=i, tried=False, buf=None)
                t = cfg["pos"][p - 1][i - 1]
                arr = lifted(mode, [rid(p, i) if j in cfg["reg"][p - 1][i - 1] else 0 for j in range(1, NPIX + 1)])

                def sampler(lon, lat, arr=arr):
                    self.gate("sample")
                    return arr[::-1] if flip else arr
                ToastSampler(pio, sampler, False).visit_callback(real_pos(t), tiles[POS_XY[t]])
            return
        for i in range(1, cfg["nupd"][p - 1] + 1):
            st.update(i=i, tried=False, buf=None)
            t = cfg["pos"][p - 1][i - 1]
            with pio.update_image(real_pos(t), masked_mode=mode_of(mode), default="masked", **update_kwargs(sc, p, pio)) as basis:
                who = self.inside.setdefault(t, set())
                who.add(name)
                if len(who) >= 2:
                    self.overlap = True
                st["buf"] = project(basis.asarray(), mode)
                self.log("read", px=st["buf"])
                self.gate("modify")
                apply_contribution(basis, mode, rid(p, i), cfg["reg"][p - 1][i - 1], sc["style"][p - 1][i - 1])
                st["buf"] = project(basis.asarray(), mode)
                self.log("modify", px=st["buf"])
                who.discard(name)
        st["i"] = cfg["nupd"][p - 1]

    # -- instrumentation
    def installed(self):
        import contextlib
        import filelock
        import filelock._api as fapi
        from toasty.pyramid import PyramidIO
        from toasty.image import Image
        H = self

        @contextlib.contextmanager
        def cm():
            o_acq, o_rel = filelock.SoftFileLock._acquire, filelock.SoftFileLock._release
            o_read, o_save = PyramidIO.read_image, Image.save
            o_time = getattr(fapi, "time", None)
            o_unlink, o_remove = os.unlink, os.remove

            def gated_delete(orig):
                # deleting a lock file is a lock-affecting step of its own (unless it is the release itself doing it)
                def delete(path, *a, **k):
                    me = H.S.me()
                    if me is not None and not H.S.killed and not H.info[me].get("in_release"):
                        sp = os.fspath(path)
                        if isinstance(sp, str) and (sp.endswith(".lock") or H.canon(sp) in H.lock_files):
                            H.gate("unlink-lock", sp)
                        elif isinstance(sp, str) and H.canon(sp) in H.tile_paths:
                            H.log("wbegin")           # write_image of a completely masked buffer: the tile file is removed
                    return orig(path, *a, **k)
                return delete

            def _acquire(self):
                me = H.S.me()
                if me is None:
                    return o_acq(self)
                H.lock_files.add(H.canon(self.lock_file))
                H.gate("try", self.lock_file)
                o_acq(self)
                ok = bool(self.is_locked)
                if not H.S.killed:
                    H.info[me]["tried"] = True
                    if ok:
                        H.holder[H.canon(self.lock_file)] = me
                        H.info[me]["holding"] = self.lock_file
                    H.log("try", ok=ok)

            def _release(self):
                me = H.S.me()
                if me is None:
                    return o_rel(self)
                H.gate("release")
                H.info[me]["in_release"] = True
                try:
                    o_rel(self)
                finally:
                    H.info[me]["in_release"] = False
                if H.holder.get(H.canon(self.lock_file)) == me:
                    del H.holder[H.canon(self.lock_file)]
                H.info[me]["holding"] = None
                if not H.S.killed:
                    H.log("release")

            def read_image(self, pos, *a, **k):
                me = H.S.me()
                if me is None:
                    return o_read(self, pos, *a, **k)
                H.gate("read")
                fmt = k.get("format")
                path = H.canon(self.tile_path(pos, format=fmt, makedirs=False))
                if path in H.writing and H.info[me].get("holding"):
                    H.partial_read = True
                return o_read(self, pos, *a, **k)

            def save(self, path_or_stream, *a, **k):
                me = H.S.me()
                if me is None or not isinstance(path_or_stream, str):
                    return o_save(self, path_or_stream, *a, **k)
                H.gate("wbegin", path_or_stream)
                # what np.save / PIL / fits.writeto(overwrite=True) do first: the destination exists and is empty.
                # (A new inode, as fits.writeto does: the buffer being saved may be memory-mapped from the old file.)
                try:
                    o_unlink(path_or_stream)
                except OSError:
                    pass
                open(path_or_stream, "wb").close()
                H.writing.add(H.canon(path_or_stream))
                if not H.S.killed:
                    H.log("wbegin")
                H.gate("wend", path_or_stream)
                try:
                    return o_save(self, path_or_stream, *a, **k)
                finally:
                    H.writing.discard(H.canon(path_or_stream))
                    if not H.S.killed:
                        H.log("wend")
            filelock.SoftFileLock._acquire, filelock.SoftFileLock._release = _acquire, _release
            PyramidIO.read_image, Image.save = read_image, save
            os.unlink, os.remove = gated_delete(o_unlink), gated_delete(o_remove)
            if o_time is not None:
                fapi.time = _VirtualTime()
            try:
                yield
            finally:
                try:
                    H.S.kill_all()
                finally:
                    filelock.SoftFileLock._acquire, filelock.SoftFileLock._release = o_acq, o_rel
                    PyramidIO.read_image, Image.save = o_read, o_save
                    os.unlink, os.remove = o_unlink, o_remove
                    if o_time is not None:
                        fapi.time = o_time
        return cm()

    # -- scheduler side
    def spawn_all(self):
        self.procs = [p for p in range(1, RP + 1) if self.sc["cfg"]["nupd"][p - 1] > 0]
        for p in self.procs:
            name = "p%d" % p
            self.info[name] = {"p": p, "i": 1, "tried": False, "holding": None, "buf": None}
            self.S.spawn(name, (lambda q: (lambda: self.updater(q)))(p))
        for p in self.procs:
            self.S.step("p%d" % p)                 # the spawn gate

    def waiting(self):
        """[(actor, gate kind, payload)] for the actors blocked at a gate."""
        out = []
        for p in self.procs:
            op = self.S.pending("p%d" % p)
            if op is not None and op[0] != "done":
                out.append(("p%d" % p, op[0], op[1:]))
        return out

    def failed(self):
        return {n: a.get("exc") for n, a in self.S.actors.items() if a.get("exc") is not None}

    def tile_state(self, t):
        path = self.pio.tile_path(real_pos(t), format=self.sc["fmt"], makedirs=False)
        if self.canon(path) in self.writing:
            return {"st": "partial", "px": [0] * NPIX}
        try:
            st = os.stat(path)
        except OSError:
            return {"st": "absent", "px": [0] * NPIX}
        key = (path, st.st_ino, st.st_size, st.st_mtime_ns)
        if self._tile_cache.get(t, (None,))[0] != key:      # re-read the file only when it has changed
            try:
                img = self.pio.read_image(real_pos(t), format=self.sc["fmt"])
                val = tile_record(project(img.asarray(), self.sc["mode"]))
            except Exception:  # noqa
                val = {"st": "partial", "px": [0] * NPIX}
            self._tile_cache[t] = (key, val)
        return dict(self._tile_cache[t][1])

    def projection(self):
        pc, upd, buf = [], [], []
        for p in range(1, RP + 1):
            name = "p%d" % p
            if name not in self.info:
                pc.append("done")
                upd.append(1)
                buf.append(None)
                continue
            st = self.info[name]
            op = self.S.pending(name)
            kind = op[0] if op else "done"
            if kind == "done":
                pc.append("done")
            elif kind == "try":
                pc.append("trying" if st["tried"] else "start")
            else:
                pc.append(self.GATE_PC.get(kind, "?" + kind))
            upd.append(st["i"])
            buf.append(st["buf"])
        hold = []
        for t in range(1, NPOS + 1):
            lp = self.canon(self.pio.tile_path(real_pos(t), makedirs=False) + ".lock")
            owner = self.holder.get(lp)
            hold.append(int(owner[1:]) if (owner and os.path.exists(lp)) else (0 if not os.path.exists(lp) else -1))
        return {"pc": pc, "upd": upd, "buf": buf, "tile": [self.tile_state(t) for t in range(1, NPOS + 1)], "hold": hold}

    def recording(self, schedule=None):
        for e in self.failed().values():
            if isinstance(e, MachineryInHarness):
                raise e
        errors = {n: "%s: %s" % (type(e).__name__, str(e)[:160]) for n, e in self.failed().items()}
        return {"events": list(self.events), "tiles": read_final(self.pio, self.sc), "overlap": self.overlap,
                "partial_read": self.partial_read, "errors": errors, "schedule": schedule}


ACT_GATE = {"TryAcquire": "try", "TryFail": "try", "Read": "read", "Modify": "modify", "WriteBegin": "wbegin", "WriteEnd": "wend",
            "Release": "release"}


def sim_configs():
    kinds = [("npy", "f32"), ("fits", "f32"), ("png", "rgba"), ("npy", "f64")]
    # the updaters' PyramidIO objects differ (default format given / another / guessed before or after the tiles were there,
    # scheme spelled out, directory spelled differently)
    objs = [
        [O("given"), O("other1", "slash", "kw"), O("guess-before", "symlink")],
        [O("guess-after", "dotdot"), O("given", "dot", "pos"), O("other2")],
        [O("given"), O("other1", "dslash"), O("given", "symlink", "kw"), O("guess-before")],
        [O("other2", "symlink", "pos"), O("guess-after")],
    ]
    objs = [o + [None] * (RP - len(o)) for o in objs]
    dflt = [dflt_of(o, kinds[k][0]) for k, o in enumerate(objs)]
    c = [
        mkcfg([2, 2, 2], [[1, 1]] * 3, [[[1], [1, 4]], [[2], [2, 4]], [[3], [3, 4]]], fmt=[0, 1, 0], dflt=dflt[0]),
        mkcfg([2, 2, 2], [[1, 2], [2, 1], [1, 1]], [[[1, 2], [1, 4]], [[2, 3], [3]], [[3], [1, 2, 3, 4]]], init=((4,), ()), fmt=[0, 0, 1], dflt=dflt[1]),
        mkcfg([1, 1, 1, 1], [[1]] * 4, [[[1, 2]], [[2, 3]], [[3, 4]], [[4, 1]]], init=((1, 2, 3, 4), ()), dflt=dflt[2]),
        mkcfg([3, 3], [[1, 1, 1]] * 2, [[[1], [1, 2], [3]], [[1, 2, 3, 4], [4], [2]]], fmt=[1, 0], dflt=dflt[3]),
    ]
    return [{"name": "sim%d" % k, "fmt": kinds[k][0], "mode": kinds[k][1], "cfg": cfg, "idx": k, "obj": objs[k],
             "style": [["full", "slice", "full"], ["slice", "full", "slice"], ["full", "full", "slice"], ["slice", "slice", "full"]]}
            for k, cfg in enumerate(c)]


def split_behaviours(recs):
    behs, cur = [], None
    for r in recs:
        if r["lvl"] <= 1:
            cur = None
            continue
        if r["lvl"] == 2 or cur is None or r["lvl"] != cur[-1]["lvl"] + 1:
            if r["lvl"] != 2:
                cur = None
                continue
            cur = [r]
            behs.append(cur)
        else:
            cur.append(r)
    return behs


def same_buf(spec_buf, real_buf, pcs):
    for p in range(RP):
        if pcs[p] in ("read", "modified", "writing", "written") and real_buf[p] is not None and list(spec_buf[p]) != list(real_buf[p]):
            return False
    return True


def replay_behaviour(ctx, sc, beh, d):
    """2a: step a TLC behaviour through real update_image calls.  Returns (status, detail, steps)."""
    H = Harness(sc, d)
    with H.installed():
        H.spawn_all()
        for k, r in enumerate(beh):
            name = "p%d" % r["p"]
            want = ACT_GATE.get(r["a"])
            op = H.S.pending(name)
            if want is None or op is None or op[0] != want:
                return "drift", "step %d: the spec takes %s(%d) but that updater is at %s" % (k + 1, r["a"], r["p"], op and op[0]), k
            H.S.step(name)
            real = H.projection()
            diffs = []
            if real["pc"] != list(r["pc"]):
                diffs.append("pc %s, spec %s" % (real["pc"], r["pc"]))
            if real["upd"] != list(r["upd"]) and not diffs:
                diffs.append("update index %s, spec %s" % (real["upd"], r["upd"]))
            if real["hold"] != list(r["hold"]):
                diffs.append("lock holders %s, spec %s" % (real["hold"], r["hold"]))
            if real["tile"] != [{"st": x["st"], "px": list(x["px"])} for x in r["tile"]]:
                diffs.append("tile files %s, spec %s" % (real["tile"], r["tile"]))
            if not same_buf(r["buf"], real["buf"], real["pc"]):
                diffs.append("buffers %s, spec %s" % (real["buf"], r["buf"]))
            if diffs:
                return "drift", "after step %d %s(%d): %s" % (k + 1, r["a"], r["p"], "; ".join(diffs)), k
            if H.failed():
                return "drift", "after step %d %s(%d): updater raised %r" % (k + 1, r["a"], r["p"], H.failed()), k
        return "ok", None, len(beh)


def explore_run(sc, d, chooser, fail_bound=None):
    """2b: one run of the real code under `chooser(H, allowed, step_no) -> index`; returns the recording and, per step,
    the allowed choices (for the DFS)."""
    H = Harness(sc, d)
    fails = {}
    schedule, alts = [], []
    with H.installed():
        H.spawn_all()
        n = 0
        while n < 400:
            w = H.waiting()
            if not w:
                break
            allowed = []
            for name, kind, payload in w:
                if kind == "try" and fail_bound is not None and os.path.exists(payload[0]) and fails.get(name, 0) >= fail_bound:
                    continue
                allowed.append(name)
            if not allowed:
                allowed = [x[0] for x in w if x[1] != "try"] or [w[0][0]]
            idx = chooser(H, allowed, n)
            name = allowed[idx]
            kind = [x for x in w if x[0] == name][0]
            if kind[1] == "try" and os.path.exists(kind[2][0]):
                fails[name] = fails.get(name, 0) + 1
            alts.append(list(allowed))
            schedule.append(name)
            H.S.step(name)
            n += 1
        rec = H.recording(schedule)
        rec["gates"] = sorted(H.gates_seen)
        rec["unfinished"] = bool(H.waiting())
    return rec, alts


def stall_chooser(stall_gate, polls, holder="p1", waiter="p2"):
    """Schedule policy "stall the lock holder": run `holder` up to (not through) `stall_gate`, then let `waiter` take up to
    `polls` steps (with the lock honoured these are all failed attempts, each advancing the virtual clock by >= 1 s),
    then let everything finish."""
    st = {"phase": 0, "n": 0}

    def choose(H, allowed, n):
        pend = {name: kind for name, kind, _p in H.waiting()}
        if st["phase"] == 0:
            if pend.get(holder) == stall_gate or holder not in allowed:
                st["phase"] = 1
            else:
                return allowed.index(holder)
        if st["phase"] == 1:
            if waiter in allowed and st["n"] < polls:
                st["n"] += 1
                return allowed.index(waiter)
            st["phase"] = 2
        return 0
    return choose


def uses_softfilelock(ctx):
    """Does update_image go through filelock.SoftFileLock (the precondition of layer 2)?"""
    sc = {"name": "probe", "fmt": "npy", "mode": "f32", "cfg": mkcfg([2], [[1, 2]], [[[1], [2]]], init=((3,), ())),
          "style": [["full"] * RU] * RP, "idx": 0}        # one update of an existing tile, one of a fresh tile
    rec, _ = explore_run(sc, ctx.mkdtemp("probe"), lambda H, allowed, n: 0)
    return rec


# ------------------------------------------------------------------------------------------------

TRACE_CFG = """SPECIFICATION TraceSpec
CONSTANTS
 MaxP = %d
 MaxU = %d
 NPix = 4
 NPos = 2
 Cfgs = {}
INVARIANT Consumed
INVARIANT TraceSafe
POSTCONDITION Report
CHECK_DEADLOCK FALSE
""" % (RP, RU)

L1_HIDDEN = ["try", "wbegin", "wend", "release"]


def validate_traces(ctx, items):
    """items: [(cfg, hidden, events, final tiles)] -> [(accepted, consumed)] by one TLC run over TileLockTrace."""
    if not items:
        return []
    path = os.path.join(ctx.scratch, "traces-%d.ndjson" % len(os.listdir(ctx.scratch)))
    with open(path, "w") as f:
        for cfg, hidden, events, tiles in items:
            evs = [{k: v for k, v in e.items() if k != "t"} for e in events] + [{"ev": "final", "p": 0, "i": 0, "tiles": tiles}]
            f.write(json.dumps({"cfg": cfg, "hidden": hidden, "events": evs}) + "\n")
    mod = tla.module("MCTileLockTrace", ["TileLockTrace"], ["ASSUME \\A t \\in DOMAIN Traces : TLCSet(t, 0)"])
    r = ctx.tlc("MCTileLockTrace", extra={"MCTileLockTrace.tla": mod}, cfg_text=TRACE_CFG, env={"TRACES": path}, workers=1, timeout=1800)
    rows = [json.loads(json.loads(ln)[len("CONSUMED "):]) for ln in r.printed if ln.startswith('"CONSUMED ')]
    if len(rows) != 1 or len(rows[0]) != len(items):
        ctx.machinery("trace validation reported %d result rows for %d traces" % (len(rows[0]) if rows else 0, len(items)))
    return [(got == total, got) for got, total in rows[0]]


def run(ctx):
    repo.setup(ctx)
    import multiprocessing as mp
    import warnings
    import toasty.pyramid  # noqa
    import toasty.image  # noqa
    import filelock
    warnings.simplefilter("ignore")
    rng = ctx.rng
    quick = ctx.quick
    ctx.rule = ("layer 1: scenario = (format, pixel mode, region/position family, 2-4 forked processes x 1-3 updates; per-updater PyramidIO "
                "objects differing in default format / scheme spelling / directory spelling / moment of construction; fork history), each recording "
                "validated by TLC; layer 2a: TLC-simulated behaviours of TileLock stepped through the real update_image; layer 2b: schedules "
                "of the real code (exhaustive for 2 x 1 with bounded failed attempts, seeded random beyond), each full trace validated by TLC. "
                "distinct = distinct (scenario, observed event order) / behaviour; non-trivial = at least two updaters contend for one tile")
    ctx.note("filelock_version", getattr(filelock, "__version__", "?"))

    # ---- import everything the formats need once, before forking (children inherit the loaded modules)
    for fmt, mode in (("fits", "f32"), ("png", "rgba"), ("npy", "f64")):
        wsc = {"fmt": fmt, "mode": mode, "cfg": mkcfg([1], [[1]], [[[1]]], init=((1, 4), ()))}
        wpio = prepare_dir(wsc, ctx.mkdtemp("warm"))
        if read_final(wpio, wsc)[0]["px"] != [PRE, 0, 0, PRE]:
            ctx.machinery("a %s tile written through PyramidIO does not read back as written (lifting broken)" % fmt)

    # ---- solo sanity (no concurrency): the interface must work at all, else nothing below means anything
    solo = {"name": "solo", "fmt": "npy", "mode": "f32", "cfg": mkcfg([3], [[1, 1, 2]], [[[1], [1, 4], [2]]], init=((3,), ())),
            "style": [["full", "slice", "full"]] * RP, "idx": 999}
    srec = _l1_run(solo, ctx.mkdtemp("solo"))
    ctx.count(3)
    if srec.get("errors") or srec.get("stuck"):
        ctx.machinery("a single process cannot use update_image as documented: %s" % (srec.get("errors") or srec.get("stuck"),))
    if coverage_monitor(solo["cfg"], srec["tiles"]):
        ctx.violation("C10:update_image:sequential-lost-update", "three updates by one process, one after another: final tiles %s lack a contribution"
                      % (srec["tiles"],), {"cfg": solo["cfg"], "events": srec["events"], "final": srec["tiles"]})

    # ---- opt-in (./check C10 --tier quick --foreign-job, or C10_FOREIGN_JOB=1): a separately started tiling job on the same
    # pyramid finishes (MultiTanProcessor.tile ends with pio.clean_lockfiles) while an updater of another job holds a tile lock
    foreign = None
    if "--foreign-job" in getattr(ctx, "extra_args", []) or os.environ.get("C10_FOREIGN_JOB") == "1":
        fsc = foreign_job_scenario(ctx.mkdtemp("fj"))
        foreign = (fsc, _l1_run(fsc, ctx.mkdtemp("fjrun")))
        ctx.count(2)
        ctx.note("foreign_job", {"overlap": foreign[1]["overlap"], "final": foreign[1]["tiles"], "wall": foreign[1]["wall"]})

    # ---- layer 1 managers are forked first (before this process has threads)
    scs = l1_scenarios(rng, quick)
    base = ctx.mkdtemp("l1")
    nman = 2
    fork = mp.get_context("fork")
    managers = []
    for m in range(nman):
        out = os.path.join(base, "res-%d.json" % m)
        w = fork.Process(target=_l1_manager, args=(scs[m::nman], base, out))
        w.start()
        managers.append((w, out))

    # ---- TLC: the specification's own theorems, and the behaviours for the replay
    bg = Background()
    inv = "\n".join("INVARIANT " + i for i in SAFETY)
    mcs = mc_configs(quick)
    bg.start("mc", lambda: ctx.tlc("MCTileLock", extra={"MCTileLock.tla": mc_module("MCTileLock", mcs)},
                                   cfg_text=MC_CFG % ("Spec", 3, 2, inv), workers=4 if quick else 8, timeout=3000))
    live = [mkcfg([2, 1, 1], [[1, 1], [1, 1], [2, 1]], [[[1], [1, 4]], [[2], [2, 4]], [[3], [3, 4]]], fmt=[0, 1, 0], maxp=3, maxu=2)]
    if not quick:
        live.append(mkcfg([2, 2, 2], [[1, 1]] * 3, [[[1], [1, 4]], [[2], [2, 4]], [[3], [3, 4]]], maxp=3, maxu=2))
    bg.start("live", lambda: ctx.tlc("MCTileLockLive", extra={"MCTileLockLive.tla": mc_module("MCTileLockLive", live)},
                                     cfg_text=MC_CFG % ("FairSpec", 3, 2, "INVARIANT Mutex\nPROPERTY Termination"), workers=2, timeout=3000))
    for km in ("proc", "fmt", "env", "dflt", "owner"):
        neg = [mkcfg([1, 1], [[1, 1]] * 2, [[[1], [1]], [[2], [2]]], keymode=km, fmt=[0, 1], env=[1, 0], maxp=3, maxu=2)]
        if km == "dflt":        # two PyramidIO objects with different default formats, both naming the file's format in the call
            neg = [mkcfg([1, 1], [[1, 1]] * 2, [[[1], [1]], [[2], [2]]], keymode=km, dflt=[0, 2], maxp=3, maxu=2)]
        if km == "owner":       # a process updates, THEN forks two updaters: they share the identity it memoised
            neg = [mkcfg([1, 1, 1], [[2], [1], [1]], [[[1]], [[1]], [[2]]], keymode=km, parent=1, maxp=3, maxu=2)]
        bg.start("neg-" + km, (lambda neg=neg, km=km: ctx.tlc("MCTileLockNeg", extra={"MCTileLockNeg.tla": mc_module("MCTileLockNeg", neg)},
                                                              cfg_text=MC_CFG % ("Spec", 3, 2, "INVARIANT NoLostUpdate"), workers=1, timeout=600,
                                                              expect_violation=True, count=False)))
    if not quick:       # bigger bounds: 4 processes x 2 updates, 3 processes x 3 updates
        big4 = [mkcfg([2, 2, 2, 2], [[1, 1], [1, 1], [1, 2], [2, 1]], [[[1], [1, 4]], [[2], [2, 4]], [[3], [3, 4]], [[4], [1, 2]]], init=((), (2,)), maxp=4, maxu=2),
                mkcfg([2, 2, 2, 2], [[1, 1]] * 4, [[[1, 2], [2]], [[2, 3], [3]], [[3, 4], [4]], [[4, 1], [1, 2, 3, 4]]], fmt=[0, 1, 0, 1], maxp=4, maxu=2)]
        big3 = [mkcfg([3, 3, 3], [[1, 1, 1], [1, 1, 2], [1, 2, 1]], [[[1], [1, 4], [2]], [[2], [2, 4], []], [[3], [3, 4], [1, 2, 3, 4]]], init=((), (2,)), maxp=3, maxu=3),
                mkcfg([3, 3, 3], [[1, 1, 1]] * 3, [[[1], [1, 2], [1, 2, 3]], [[2], [2, 3], [2, 3, 4]], [[3], [3, 4], [3, 4, 1]]], maxp=3, maxu=3)]
        bg.start("mc4x2", lambda: ctx.tlc("MCTileLock4x2", extra={"MCTileLock4x2.tla": mc_module("MCTileLock4x2", big4)},
                                          cfg_text=MC_CFG % ("Spec", 4, 2, inv), workers=6, timeout=6000))
        bg.start("mc3x3", lambda: ctx.tlc("MCTileLock3x3", extra={"MCTileLock3x3.tla": mc_module("MCTileLock3x3", big3)},
                                          cfg_text=MC_CFG % ("Spec", 3, 3, inv), workers=6, timeout=6000))
        ctx.note("mc_bound_thorough", "also 4 processes x 2 updates and 3 processes x 3 updates (2 configurations each), all interleavings")
    for inv_name in ("Mutex", "NoLostUpdate"):
        neg = [mkcfg([1, 1], [[1, 1]] * 2, [[[1], [1]], [[2], [2]]], keymode="steal", maxp=3, maxu=2)]
        bg.start("neg-steal-" + inv_name, (lambda neg=neg, inv_name=inv_name: ctx.tlc(
            "MCTileLockNeg", extra={"MCTileLockNeg.tla": mc_module("MCTileLockNeg", neg)}, cfg_text=MC_CFG % ("Spec", 3, 2, "INVARIANT " + inv_name),
            workers=1, timeout=600, expect_violation=True, count=False)))
    sims = sim_configs()
    nsim = 30 if quick else 2000
    bg.start("sim", lambda: ctx.tlc("MCTileLockSim", extra={"MCTileLockSim.tla": mc_module("MCTileLockSim", [s["cfg"] for s in sims], [EMIT])},
                                    cfg_text=MC_CFG % ("Spec", RP, RU, "INVARIANT Emit\nINVARIANT Mutex\nINVARIANT NoLostUpdate"),
                                    simulate=nsim, depth=400, workers=1, timeout=3000, count=False))

    # ---- layer 2 (thread level; runs while the real processes of layer 1 and the TLC runs are busy): only if update_image
    # goes through SoftFileLock
    probe = uses_softfilelock(ctx)
    layer2 = all(g in probe["gates"] for g in ("try", "release"))
    ctx.note("layer2", "on" if layer2 else "skipped: update_image does not reach filelock.SoftFileLock._acquire/_release (gates seen: %s)" % probe["gates"])
    traces = []      # (kind, sc, rec, hidden)
    ndrift_steps = 0
    if layer2:
        if not all(g in probe["gates"] for g in ("read", "modify", "wbegin", "wend")):
            ctx.drift("update_image reaches SoftFileLock but not read_image / Image.save (gates seen: %s)" % probe["gates"])
        # 2b exhaustive: 2 processes x 1 update on one tile, at most one failed attempt each
        # (the two updaters' PyramidIO objects differ: default format npy / png, the second one names the format in the call)
        dfs_obj = [O("given"), O("other2", "slash"), None, None]
        dfs_sc = {"name": "dfs-2x1", "fmt": "npy", "mode": "f32", "obj": dfs_obj,
                  "cfg": mkcfg([1, 1], [[1]] * 2, [[[1, 4]], [[2, 4]]], init=((3,), ()), fmt=[0, 1], dflt=dflt_of(dfs_obj, "npy")),
                  "style": [["full"] * RU, ["slice"] * RU] + [["full"] * RU] * 2, "idx": 0}
        t_2b = time.time()
        fb = 1 if quick else 3
        stack, nruns, cap = [[]], 0, (150 if quick else 2000)
        explored_all = True
        while stack:
            if nruns >= cap:
                explored_all = False
                break
            prefix = stack.pop()

            def chooser(H, allowed, n, prefix=prefix):
                if n < len(prefix):
                    return allowed.index(prefix[n]) if prefix[n] in allowed else 0
                return 0
            rec, alts = explore_run(dfs_sc, ctx.mkdtemp("dfs"), chooser, fail_bound=fb)
            nruns += 1
            sched = rec["schedule"]
            for k in range(len(prefix), len(sched)):
                for alt in alts[k]:
                    if alt != sched[k]:
                        stack.append(sched[:k] + [alt])
            traces.append(("thread-level schedule", dfs_sc, rec, []))
            ctx.count(2)
        ctx.note("dfs_2x1", {"schedules": nruns, "complete": explored_all, "failed_attempts_per_updater_at_most": fb})
        # 2b exhaustive: one updater with two updates of the tile, one with one (anything an updater does to the lock between
        # or after its updates meets a live holder here)
        obj21 = [O("guess-before", "symlink"), O("guess-after", scheme="kw"), None, None]      # default guessed: png before, npy after
        dfs21 = dict(dfs_sc, name="dfs-2+1", obj=obj21, cfg=mkcfg([2, 1], [[1, 1], [1]], [[[1, 4], [3]], [[2, 4]]], fmt=[0, 1], dflt=dflt_of(obj21, "npy")))
        stack, n21, cap21 = [[]], 0, (120 if quick else 3000)
        while stack and n21 < cap21:
            prefix = stack.pop()

            def chooser(H, allowed, n, prefix=prefix):
                if n < len(prefix):
                    return allowed.index(prefix[n]) if prefix[n] in allowed else 0
                return 0
            rec, alts = explore_run(dfs21, ctx.mkdtemp("dfs21"), chooser, fail_bound=0 if quick else 1)
            n21 += 1
            sched = rec["schedule"]
            for k in range(len(prefix), len(sched)):
                for alt in alts[k]:
                    if alt != sched[k]:
                        stack.append(sched[:k] + [alt])
            traces.append(("thread-level schedule", dfs21, rec, []))
            ctx.count(3)
        ctx.note("dfs_2+1", {"schedules": n21, "complete": not stack})
        # 2b exhaustive, the in-tree caller: two ToastSampler jobs on one FRESH tile (sampler call, lock, read, save begin/end
        # are the sync points), then three jobs at random
        tdfs = toast_scenario("npy", "f32", 2, 0)
        tdfs["cfg"] = mkcfg([1, 1], [[1]] * 2, [[[1, 4]], [[2, 4]]])
        tdfs["name"] = "dfs-toast-sampler-fresh-2x1"
        tdfs["obj"] = [O("given"), O("guess-after", "symlink", "pos"), None, None]
        stack, truns = [[]], 0
        while stack and truns < cap:
            prefix = stack.pop()

            def chooser(H, allowed, n, prefix=prefix):
                if n < len(prefix):
                    return allowed.index(prefix[n]) if prefix[n] in allowed else 0
                return 0
            rec, alts = explore_run(tdfs, ctx.mkdtemp("tdfs"), chooser, fail_bound=fb if not quick else 0)
            truns += 1
            sched = rec["schedule"]
            for k in range(len(prefix), len(sched)):
                for alt in alts[k]:
                    if alt != sched[k]:
                        stack.append(sched[:k] + [alt])
            traces.append(("thread-level schedule", tdfs, rec, ["read", "modify"]))
            ctx.count(2)
        ctx.note("dfs_toast_sampler_2x1", {"schedules": truns, "complete": not stack})
        # ... and the same for every pair of coverage classes (every pixel / part / nothing defined), fresh and existing tile:
        # all interleavings, hence both entering orders
        pairs = [("full", "partA", False), ("full", "partA", True), ("full", "none", False), ("partA", "none", True)]
        if not quick:
            pairs = [(a, b, e) for a, b in (("full", "partA"), ("full", "full"), ("full", "none"), ("partA", "partB"), ("partA", "none"),
                                            ("none", "none")) for e in (False, True)]
        ncov = 0
        for k, (ca, cb, existing) in enumerate(pairs):
            fmt, mode = [("npy", "f32"), ("fits", "f32"), ("npy", "f64")][k % 3]
            csc = coverage_scenario(fmt, mode, (ca, cb), existing, 0)
            csc["name"] = "dfs-" + csc["name"]
            stack, cruns = [[]], 0
            while stack and cruns < (40 if quick else 400):
                prefix = stack.pop()

                def chooser(H, allowed, n, prefix=prefix):
                    if n < len(prefix):
                        return allowed.index(prefix[n]) if prefix[n] in allowed else 0
                    return 0
                rec, alts = explore_run(csc, ctx.mkdtemp("cdfs"), chooser, fail_bound=0 if quick else 1)
                cruns += 1
                sched = rec["schedule"]
                for j in range(len(prefix), len(sched)):
                    for alt in alts[j]:
                        if alt != sched[j]:
                            stack.append(sched[:j] + [alt])
                traces.append(("thread-level schedule", csc, rec, ["read", "modify"]))
                ctx.count(2)
            ncov += cruns
        ctx.note("dfs_toast_sampler_coverage_pairs", {"pairs": len(pairs), "schedules": ncov})
        for k in range(6 if quick else 200):
            fmt, mode = [("npy", "f32"), ("fits", "f32"), ("png", "rgba")][k % 3]
            sc = toast_scenario(fmt, mode, 3, k)
            sc["name"] = "rand-" + sc["name"]
            r2 = __import__("random").Random(ctx.seed * 7919 + k)
            rec, _ = explore_run(sc, ctx.mkdtemp("trnd"), lambda H, allowed, n, r2=r2: r2.randrange(len(allowed)))
            traces.append(("thread-level schedule", sc, rec, ["read", "modify"]))
            ctx.count(6)
        # 2b policy "stall the lock holder": the holder stops before one of its steps while the waiter polls 40 times
        # (>= 40 s of virtual time): whatever the waiter does about a lock it cannot get, exclusion must survive
        nstall = 0
        for gate_name in ("modify", "wbegin", "wend", "release"):
            for fmt, mode in (("npy", "f32"), ("fits", "f32"), ("png", "rgba")) if (not quick or gate_name == "modify") else (("npy", "f32"),):
                sobj = [O("other1", "dot"), O("given"), None, None]
                sc = {"name": "stall-holder-before-%s/%s" % (gate_name, fmt), "fmt": fmt, "mode": mode, "obj": sobj,
                      "cfg": mkcfg([1, 2], [[1], [1, 1]], [[[1, 4]], [[2, 4], [3]]], init=((3,), ()), fmt=[0, 1], dflt=dflt_of(sobj, fmt)),
                      "style": [["full"] * RU, ["slice"] * RU] + [["full"] * RU] * 2, "idx": 0}
                rec, _ = explore_run(sc, ctx.mkdtemp("stall"), stall_chooser(gate_name, 40))
                traces.append(("thread-level schedule", sc, rec, []))
                ctx.count(3)
                nstall += 1
        ctx.note("stall_holder_schedules", {"runs": nstall, "waiter_polls": 40, "virtual_seconds_per_failed_poll": ">= 1"})
        # 2b random: bigger instances
        rsc = [dict(s, name="rand-" + s["name"]) for s in sims]
        for k in range(12 if quick else 600):
            sc = rsc[k % len(rsc)]
            r2 = __import__("random").Random(ctx.seed * 1000 + k)
            rec, _ = explore_run(sc, ctx.mkdtemp("rnd"), lambda H, allowed, n, r2=r2: r2.randrange(len(allowed)))
            traces.append(("thread-level schedule", sc, rec, []))
            ctx.count(sum(sc["cfg"]["nupd"]))
        ctx.note("schedule_exploration_wall", round(time.time() - t_2b, 1))
        # 2a
        t_2a = time.time()
        behs = split_behaviours(bg.wait("sim").json_lines("S"))
        if not behs:
            ctx.machinery("TLC simulation emitted no behaviours")
        complete = sum(1 for b in behs if all(x == "done" for x in b[-1]["pc"]))
        done = 0
        seen_drift = set()
        for b in behs:
            sc = sims[b[0]["ci"] - 1]
            status, detail, steps = replay_behaviour(ctx, sc, b, ctx.mkdtemp("rp"))
            ctx.count(sum(sc["cfg"]["nupd"]))
            if status == "ok":
                ctx.trace_ok()
                done += 1
                ctx.distinct(("beh", b[0]["ci"], tuple((r["a"], r["p"]) for r in b)))
            else:
                ndrift_steps += 1
                shape = " ".join(w for w in detail.split() if not w[:1].isdigit())[:70]
                if shape not in seen_drift:
                    seen_drift.add(shape)
                    ctx.drift("replay of a TLC behaviour (%s, %s) diverges: %s" % (sc["name"], sc["fmt"], detail))
        ctx.note("replayed_behaviours", {"ok": done, "diverged": ndrift_steps, "steps": sum(len(b) for b in behs), "run_to_completion": complete,
                                         "with_failed_attempts": sum(1 for b in behs if any(r["a"] == "TryFail" for r in b)),
                                         "wall": round(time.time() - t_2a, 1)})
        if behs:
            b = behs[0]
            ctx.sample({"behaviour": [[r["a"], r["p"]] for r in b[:24]], "config": sims[b[0]["ci"] - 1]["cfg"]})
    else:
        ctx.drift("update_image no longer uses filelock.SoftFileLock: the thread-level layer is skipped, real processes decide")

    # ---- collect layer 1
    t_l1 = time.time()
    l1 = []
    for w, out in managers:
        w.join(900)
        if w.is_alive():
            w.kill()
            bg.join()
            ctx.machinery("layer-1 manager process did not finish")
        if not os.path.exists(out):
            bg.join()
            ctx.machinery("layer-1 manager process died (exit code %s)" % w.exitcode)
        l1 += json.load(open(out))
    l1.sort(key=lambda r: r["idx"])
    for r in l1:
        if "machinery" in r:
            bg.join()
            ctx.machinery("layer-1 scenario %s: %s" % (r["sc"], r["machinery"]))
    t_bg = time.time()
    bg.join()
    ctx.note("phase_wall", {"layer1_wait": round(t_bg - t_l1, 1), "tlc_wait": round(time.time() - t_bg, 1)})
    for km in ("proc", "fmt", "env", "dflt", "owner"):
        if bg.results["neg-" + km].violated != "NoLostUpdate":
            ctx.machinery("the specification does not refute the lock-key design %r (got %r)" % (km, bg.results["neg-" + km].violated))
    for inv_name in ("Mutex", "NoLostUpdate"):
        if bg.results["neg-steal-" + inv_name].violated != inv_name:
            ctx.machinery("the specification does not refute 'finite lock timeout + takeover' on %s (got %r)"
                          % (inv_name, bg.results["neg-steal-" + inv_name].violated))
    ctx.note("refuted_designs", ["lock key per process", "lock key per format argument", "lock class (exclusion domain) chosen from the updater's environment",
                                  "lock key from the PyramidIO object's default format instead of the file updated",
                                  "lock owned by an identity memoised per memory image (shared by the children of a process that has updated before forking)",
                                  "finite lock timeout + takeover (StealLock)"])
    ctx.note("mc_configs", len(mcs))
    ctx.note("mc_bound", "3 processes x 2 updates, 4 abstract pixels, 2 tiles; all interleavings")
    ctx.exhaustive = True

    for sc, rec in zip(scs, l1):
        if rec.get("cfg"):
            sc["cfg"] = rec["cfg"]                            # tiling jobs: the visiting order is found by calibration
        traces.append(("real processes", sc, rec, L1_HIDDEN + (["read", "modify"] if sc.get("caller") else [])))
        ctx.count(sum(sc["cfg"]["nupd"]))
    if foreign:
        traces.append(("real processes", foreign[0], foreign[1], L1_HIDDEN))

    # ---- code -> spec: every recording validated by TLC, then judged
    verdicts = validate_traces(ctx, [(sc["cfg"], hidden, rec["events"], rec["tiles"]) for _k, sc, rec, hidden in traces])
    nacc = 0
    rejected_quiet = 0
    once = Once(ctx)
    for (kind, sc, rec, hidden), (acc, consumed) in zip(traces, verdicts):
        entry = sc.get("entry") or ("ToastSampler" if sc.get("caller") == "toast" else "update_image")
        prefix = ("C10:%s:" % entry) if kind == "real processes" else ("C10:%s:schedule:" % entry)
        if rec.get("unfinished"):
            rec.setdefault("stuck", ["schedule did not finish in 400 steps"])
        hit = judge_recording(once, kind, prefix, sc, rec, acc, consumed)
        if acc:
            nacc += 1
            ctx.trace_ok()
            users = {t: {p for p in range(RP) for i in range(sc["cfg"]["nupd"][p]) if sc["cfg"]["pos"][p][i] == t} for t in (1, 2)}
            contend = any(len(u) >= 2 for u in users.values())
            if contend:
                ctx.distinct((kind, sc["name"], tuple((e["ev"], e["p"], e["i"]) for e in rec["events"])))
        elif not hit:
            rejected_quiet += 1
            if rejected_quiet <= 3:
                n = len(rec["events"])
                at = rec["events"][consumed] if consumed < n else "final"
                ctx.drift("%s %s: the recorded step order is not a behaviour of TileLock (stuck at event %d: %s) although no property sentence failed"
                          % (kind, sc["name"], consumed + 1, at))
    ctx.note("recordings", {"validated": len(traces), "accepted": nacc, "layer1": len(l1)})
    if once.n:
        ctx.note("failing_recordings_per_key", once.n)
    ctx.note("layer1_wall", [r["wall"] for r in l1])
    for r in l1[:2]:
        ctx.sample({"scenario": r["sc"], "events": [[e["ev"], e["p"], e["i"], e["px"]] for e in r["events"][:10]], "final": r["tiles"]})
    left = [r["sc"] for r in l1 if r["locks_left"]]
    if left:
        ctx.note("lock_files_left_before_clean_lockfiles", left[:5])
    ctx.assume("the file system gives atomic exclusive create (O_CREAT|O_EXCL) and unlink; no updater crashes while holding the lock "
               "(a stale lock file blocks later updaters: clean_lockfiles is for that)")
    ctx.assume("'the same tile' = the same tile FILE: the updaters' PyramidIO objects name the same directory (in any spelling), use the same "
               "path scheme and address the same stored format (by their default or by the format argument); they may differ in anything else")
    ctx.assume("thread-level runs stand for processes: SoftFileLock's exclusion is by file existence, identical for threads and processes; "
               "Image.save is taken to open its destination for writing before the data is there (the harness truncates at that point)")
