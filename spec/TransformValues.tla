--------------------------- MODULE TransformValues ---------------------------
(* Growth specification G10 (DESIGN.md section 7).                                                   *)
(*                                                                                                    *)
(* Transcribes the per-pixel value maps and the tile-set rule of toasty/transform.py                  *)
(*   f16x3_to_rgb -> _float_to_rgb -> _float_to_rgb_do_one   (route "rgb",  output png, mode RGB)     *)
(*                   _float_to_rgba -> _float_to_rgba_do_one (route "rgba", output png, mode RGBA)    *)
(*   u8_to_rgb    -> _u8_to_rgb_do_one                       (route "u8",   output jpg, mode RGB)     *)
(* and toasty/pyramid.py guess_base_layer_level (the TOAST depth FitsTiler._tile_toast derives from   *)
(* the pixel scale of every input).  The hand-over of positions to workers is WorkQueue.tla's         *)
(* (C03): here it is the assumption "each position of generate_pos(depth) is handed to do_one once".  *)
(*                                                                                                    *)
(* Exact arithmetic.  A pixel value is  clip * p / q  (q > 0; p any integer), NaN, +inf or -inf.      *)
(* The stretch of f16x3_to_rgb is  SqrtStretch() + ManualInterval(0, clip)  evaluated with astropy's   *)
(* default clip=True:  u = min(1, max(0, v / clip)),  s = sqrt(u),  then _do_one zeroes the non-finite *)
(* results, multiplies by 255, clips to [0, 255] and truncates to uint8.  floor(255 sqrt(p/q)) is the  *)
(* greatest k with k*k*q <= 65025*p, which TLC decides in integers.                                   *)
EXTENDS Integers, Sequences, FiniteSets

CONSTANTS Nums,      \* set of <<p, q>> pairs: the numeric channel values clip * p / q used by the model
          Bytes,     \* set of 0..255 values used for the u8 route
          MaxDepth   \* tile-set part: positions <<n, x, y>> with n <= MaxDepth

NaN  == <<"nan", 0, 1>>
PInf == <<"pinf", 1, 1>>
NInf == <<"ninf", -1, 1>>
Num(pq) == <<"num", pq[1], pq[2]>>
Chan == {Num(pq) : pq \in Nums} \cup {NaN, PInf, NInf}

IsNum(c) == c[1] = "num"

\* ---- ManualInterval(0, clip)(v, clip=True): (v - 0) / (clip - 0), clipped into [0, 1]; NaN stays NaN.
\* np.clip sends +inf to 1 and -inf to 0.  Result: "nan" or a rational <<a, b>> in [0, 1].
Unit(c) == CASE c = NaN  -> <<"nan", 0, 1>>
             [] c = PInf -> <<"u", 1, 1>>
             [] c = NInf -> <<"u", 0, 1>>
             [] OTHER    -> IF c[2] <= 0 THEN <<"u", 0, 1>> ELSE IF c[2] >= c[3] THEN <<"u", 1, 1>> ELSE <<"u", c[2], c[3]>>

\* ---- SqrtStretch, * 255, clip, astype(uint8): floor(255 * sqrt(a / b)) for 0 <= a/b <= 1.
Floor255Sqrt(a, b) == CHOOSE k \in 0..255 : k * k * b <= 65025 * a /\ (k = 255 \/ (k + 1) * (k + 1) * b > 65025 * a)

\* the mapped value of one channel is finite exactly when the input is not NaN (as built: see InfSaturates)
MappedFinite(c) == c # NaN
ChanByte(c) == LET u == Unit(c) IN IF u[1] = "nan" THEN 0 ELSE Floor255Sqrt(u[2], u[3])

\* ---- one pixel.  px is a sequence of 1 (two-dimensional float tile) or 3 (F16x3 tile) channel values.
Valid(px) == \A i \in DOMAIN px : MappedFinite(px[i])
Rgb(px) == IF ~Valid(px) THEN <<0, 0, 0>>
           ELSE IF Len(px) = 1 THEN <<ChanByte(px[1]), ChanByte(px[1]), ChanByte(px[1])>>
           ELSE <<ChanByte(px[1]), ChanByte(px[2]), ChanByte(px[3])>>
Rgba(px) == Rgb(px) \o <<IF Valid(px) THEN 255 ELSE 0>>
U8Rgb(b) == <<b, b, b>>            \* before the JPEG encoder

\* ---- tile set: do_one runs for every position of generate_pos(depth) = all levels 0 .. depth; a position
\* whose input tile (npy) is missing is skipped; everything is written into pio_out (= pio when not given).
Pos == UNION {{<<n, x, y>> : x \in 0..(2^n - 1), y \in 0..(2^n - 1)} : n \in 0..MaxDepth}
Written(inSet, d) == {p \in inSet : p[1] <= d}
OutFormat(route) == CASE route = "rgb" -> "png" [] route = "rgba" -> "png" [] route = "u8" -> "jpg"
OutAfter(prevOut, inSet, d) == prevOut \cup Written(inSet, d)      \* as built: nothing is ever removed (G02: TransformLeavesStale)

\* ---- guess_base_layer_level.  side = (21.095 arcmin) * p / q  is the linear pixel size (square root of the
\* projected pixel area).  level = 1; ts = 21.095'; while ts > side: level += 1; ts /= 2.
RECURSIVE LevelFrom(_, _, _, _)
LevelFrom(level, tsDen, p, q) ==            \* ts = 1 / tsDen (units of 21.095'), side = p / q:  ts > side  <=>  q > p * tsDen
    IF q > p * tsDen /\ level < 21 THEN LevelFrom(level + 1, 2 * tsDen, p, q) ELSE level
Level(p, q) == LevelFrom(1, 1, p, q)
\* FitsTiler._tile_toast: the deepest guess over the inputs that have a WCS, at least 1
StartLevel(sides) == LET ls == {Level(s[1], s[2]) : s \in sides} \cup {1} IN CHOOSE m \in ls : \A l \in ls : l <= m

-----------------------------------------------------------------------------
\* State space: one pixel case and one route at a time; Next moves to any other, so that the theorems below are
\* evaluated as invariants on every case and the pair theorems (monotonicity) as action properties.
VARIABLES px, route
vars == <<px, route>>
Pixels == {<<c>> : c \in Chan} \cup {<<a, b, c>> : a \in Chan, b \in Chan, c \in Chan}
Init == px \in Pixels /\ route \in {"rgb", "rgba"}
Next == /\ px' \in Pixels /\ Len(px') = Len(px)
        /\ Cardinality({i \in DOMAIN px : px'[i] # px[i]}) <= 1      \* neighbours differ in one channel (enough for T_Monotone)
        /\ route' \in {"rgb", "rgba"}
Spec == Init /\ [][Next]_vars

Le(c, d) == \* numeric order of two channel values (NaN unordered)
    CASE c = NaN \/ d = NaN -> FALSE
      [] c = NInf \/ d = PInf -> TRUE
      [] c = PInf \/ d = NInf -> c = d
      [] OTHER -> c[2] * d[3] <= d[2] * c[3]

T_Range == \A i \in 1..3 : Rgb(px)[i] \in 0..255
T_Ends == \A i \in DOMAIN px : IsNum(px[i]) =>
            /\ (px[i][2] <= 0 => ChanByte(px[i]) = 0)
            /\ (px[i][2] >= px[i][3] => ChanByte(px[i]) = 255)
T_SqrtBracket == \A i \in DOMAIN px : IsNum(px[i]) /\ px[i][2] > 0 /\ px[i][2] < px[i][3] =>
            LET k == ChanByte(px[i]) IN k * k * px[i][3] <= 65025 * px[i][2] /\ (k + 1) * (k + 1) * px[i][3] > 65025 * px[i][2]
T_PerfectSquares == \A i \in DOMAIN px : IsNum(px[i]) => \A a \in 0..16 :
            (px[i][2] * 256 = a * a * px[i][3]) => ChanByte(px[i]) = (255 * a) \div 16
T_UndefinedIsBlack == (\E i \in DOMAIN px : px[i] = NaN) => Rgb(px) = <<0, 0, 0>> /\ Rgba(px)[4] = 0
T_DefinedIsOpaque == (\A i \in DOMAIN px : px[i] # NaN) => Rgba(px)[4] = 255
T_AlphaIsBinary == Rgba(px)[4] \in {0, 255}
T_GrayReplicates == Len(px) = 1 => Rgb(px)[1] = Rgb(px)[2] /\ Rgb(px)[2] = Rgb(px)[3]
T_ChannelsIndependent == Len(px) = 3 /\ Valid(px) => \A i \in 1..3 : Rgb(px)[i] = ChanByte(px[i])
T_RgbaExtendsRgb == SubSeq(Rgba(px), 1, 3) = Rgb(px)
\* monotone: raising one channel of a valid pixel never lowers its byte (action property over pairs of cases)
T_Monotone == [][Len(px) = Len(px') /\ Valid(px) /\ Valid(px') =>
                 \A i \in DOMAIN px : Le(px[i], px'[i]) => ChanByte(px[i]) <= ChanByte(px'[i])]_vars

\* named as-built deviation: the finiteness test runs after ManualInterval has clipped, so an infinite pixel is
\* not undefined: +inf saturates to 255, -inf goes to 0, alpha 255.  The ideal is refuted (negative control).
InfSaturates == \A i \in DOMAIN px : (px[i] = PInf => ChanByte(px[i]) = 255) /\ (px[i] = NInf => ChanByte(px[i]) = 0)
Ideal_NonFiniteIsUndefined == (\E i \in DOMAIN px : ~IsNum(px[i])) => Rgba(px)[4] = 0

\* tile-set theorems (ASSUME-checked over every input set of the bounded pyramid by MC module)
TS_OnlyVisitedLevels(inSet, d) == \A p \in Written(inSet, d) : p[1] <= d /\ p \in inSet
TS_Idempotent(prev, inSet, d) == OutAfter(OutAfter(prev, inSet, d), inSet, d) = OutAfter(prev, inSet, d)
TS_DeeperCoversShallower(prev, inSet, d) == d < MaxDepth => OutAfter(prev, inSet, d) \subseteq OutAfter(prev, inSet, d + 1)

\* level theorems (ASSUME-checked over the case list by the MC module)
L_AtLeastOne(p, q) == Level(p, q) >= 1
L_CoarseIsOne(p, q) == p >= q => Level(p, q) = 1
L_Least(p, q) == LET l == Level(p, q) IN
                   l < 21 => /\ q <= p * 2^(l - 1)                       \* 21.095' / 2^(l-1) <= side
                             /\ (l > 1 => q > p * 2^(l - 2))              \* and the level above is still coarser than the image
L_HalvingAddsOne(p, q) == p < q /\ Level(p, q) < 20 => Level(p, 2 * q) = Level(p, q) + 1
L_Monotone(p1, q1, p2, q2) == p1 * q2 <= p2 * q1 => Level(p1, q1) >= Level(p2, q2)
=============================================================================
