------------------------------- MODULE Wtml -------------------------------
(***************************************************************************)
(* C17 - the WTML and the returned data-set description match the files    *)
(* on disk.                                                                *)
(*                                                                         *)
(* Transcribes                                                             *)
(*   toasty/pyramid.py   PyramidIO.__init__ (the two naming schemes and    *)
(*                       the matching template string), tile_path,         *)
(*                       _tile_path_LsYsYX, _tile_path_LXY, get_path_scheme *)
(*   toasty/builder.py   Builder.__init__ (file_type = "." + format,       *)
(*                       url = scheme + file_type), tile_levels            *)
(*   toasty/fits_tiler.py FitsTiler.tile: fresh / "already exists ->       *)
(*                       reuse" / override (rmtree, then fresh)            *)
(*   toasty/__init__.py  tile_fits returns (out_dir, tiler.builder)        *)
(*                                                                         *)
(* A file name is a sequence of one-character strings, so that "distinct   *)
(* positions give distinct paths" is a statement about the strings a WWT   *)
(* client requests (a scheme that writes L1X1 11 and L1X11 1 without a     *)
(* separator has distinct token lists but equal names).  A URL template is *)
(* such a sequence in which the placeholders "{1}" (level), "{2}" (x) and  *)
(* "{3}" (y) are single tokens; this is the WWT client's meaning of the    *)
(* placeholders and is fixed.                                              *)
(*                                                                         *)
(* Part 1: Path, Template, Expand, FileType, TileLevels and the theorems.  *)
(* Part 2: Judge - the property's sentences as predicates over an          *)
(*         observation of a real output directory (code -> spec).          *)
(* The tile_fits history machine (spec -> code) is WtmlHistory.tla.        *)
(***************************************************************************)
EXTENDS Integers, Sequences, FiniteSets, TLC

---------------------------------------------------------------------------
(* Part 1 - naming *)

DigitChar == <<"0", "1", "2", "3", "4", "5", "6", "7", "8", "9">>
Digits    == {DigitChar[i] : i \in 1..10}
DigitVal(c) == (CHOOSE i \in 1..10 : DigitChar[i] = c) - 1

RECURSIVE Dec(_)
Dec(n) == IF n < 10 THEN <<DigitChar[n + 1]>>
          ELSE Dec(n \div 10) \o <<DigitChar[(n % 10) + 1]>>

Schemes == {"L/Y/YX", "LXY"}

(* pyramid.py: self._scheme, with the "." + format that Builder appends *)
Template(s, ext) ==
    IF s = "L/Y/YX" THEN <<"{1}", "/", "{3}", "/", "{3}", "_", "{2}", ".">> \o ext
                    ELSE <<"L", "{1}", "X", "{2}", "Y", "{3}", ".">> \o ext

(* pyramid.py: _tile_path_LsYsYX / _tile_path_LXY, relative to the base directory; p = <<level, x, y>> *)
Path(s, p, ext) ==
    IF s = "L/Y/YX"
    THEN Dec(p[1]) \o <<"/">> \o Dec(p[3]) \o <<"/">> \o Dec(p[3]) \o <<"_">> \o Dec(p[2]) \o <<".">> \o ext
    ELSE <<"L">> \o Dec(p[1]) \o <<"X">> \o Dec(p[2]) \o <<"Y">> \o Dec(p[3]) \o <<".">> \o ext

(* what a WWT client does with the Url attribute *)
Subst(t, p) == IF t = "{1}" THEN Dec(p[1])
               ELSE IF t = "{2}" THEN Dec(p[2])
               ELSE IF t = "{3}" THEN Dec(p[3])
               ELSE <<t>>

RECURSIVE Expand(_, _)
Expand(T, p) == IF T = <<>> THEN <<>> ELSE Subst(Head(T), p) \o Expand(Tail(T), p)

HasDot(cs)  == \E i \in 1..Len(cs) : cs[i] = "."
LastDot(cs) == CHOOSE i \in 1..Len(cs) : cs[i] = "." /\ \A j \in (i + 1)..Len(cs) : cs[j] # "."
(* the recorded FileType of a template / the extension of a file name, both with the leading dot *)
DotExt(cs)  == IF HasDot(cs) THEN SubSeq(cs, LastDot(cs), Len(cs)) ELSE <<>>
Stem(cs)    == IF HasDot(cs) THEN SubSeq(cs, 1, LastDot(cs) - 1) ELSE cs
FileType(ext) == <<".">> \o ext

(* the numbers written in a name, left to right (maximal digit runs) *)
RECURSIVE NumsR(_, _, _)
NumsR(cs, cur, acc) ==
    IF cs = <<>> THEN (IF cur >= 0 THEN Append(acc, cur) ELSE acc)
    ELSE IF Head(cs) \in Digits
         THEN NumsR(Tail(cs), (IF cur < 0 THEN 0 ELSE cur) * 10 + DigitVal(Head(cs)), acc)
         ELSE NumsR(Tail(cs), -1, IF cur >= 0 THEN Append(acc, cur) ELSE acc)
Nums(cs) == NumsR(cs, -1, <<>>)

(* reading a position back from a name of the scheme *)
Unpath(s, cs) == LET n == Nums(Stem(cs)) IN
    IF s = "L/Y/YX" THEN <<n[1], n[4], n[2]>> ELSE <<n[1], n[2], n[3]>>

Pow2(n) == 2 ^ n
(* levels beyond 30 do not exist in WWT (and 2^31 overflows TLC's integers) *)
ValidPos(p) == p[1] >= 0 /\ p[1] <= 30 /\ p[2] >= 0 /\ p[3] >= 0 /\ p[2] < Pow2(p[1]) /\ p[3] < Pow2(p[1])
Level(D)     == {<<D, x, y>> : x \in 0..(Pow2(D) - 1), y \in 0..(Pow2(D) - 1)}
Positions(D) == UNION {Level(l) : l \in 0..D}

MaxOf(S) == CHOOSE m \in S : \A k \in S : k <= m
(* the depth of the deepest populated layer *)
Deepest(P) == IF P = {} THEN 0 ELSE MaxOf({p[1] : p \in P})

(* ---- theorems (checked by TLC for a set of positions PS and extensions ES) ---- *)

(* substituting (level, x, y) into the recorded template yields exactly the path of that position *)
ExpandIsPath(PS, ES) == \A s \in Schemes : \A e \in ES : \A p \in PS :
                            Expand(Template(s, e), p) = Path(s, p, e)
(* distinct positions give distinct paths (as strings), per scheme *)
(* (stated through cardinalities: |image| = |domain| is \A p, q : Expand(T, p) = Expand(T, q) => p = q without the *)
(* quadratic number of expansions)                                                                                *)
Injective(T, PS) == Cardinality({Expand(T, p) : p \in PS}) = Cardinality(PS)
PathInjective(PS, ES) == \A s \in Schemes : \A e \in ES :
                            Cardinality({Path(s, p, e) : p \in PS}) = Cardinality(PS)
(* ... because the position can be read back from the name *)
RoundTrip(PS, ES) == \A s \in Schemes : \A e \in ES : \A p \in PS : Unpath(s, Path(s, p, e)) = p
(* the recorded file type is the extension of every tile *)
FileTypeIsExtension(PS, ES) == \A s \in Schemes : \A e \in ES :
                            /\ DotExt(Template(s, e)) = FileType(e)
                            /\ \A p \in PS : DotExt(Path(s, p, e)) = FileType(e)
(* negative control: a scheme that drops the separator between x and y is not injective *)
NoSeparator(e) == <<"L", "{1}", "X", "{2}", "{3}", ".">> \o e

NamingTheorems(PS, ES) == /\ ExpandIsPath(PS, ES)
                          /\ PathInjective(PS, ES)
                          /\ RoundTrip(PS, ES)
                          /\ FileTypeIsExtension(PS, ES)

---------------------------------------------------------------------------
(* Part 2 - the property's sentences over an observed output directory.    *)
(* obs = [url: template tokens, ftype: chars, levels: Nat,                 *)
(*        files: set of names (tile files found on disk),                  *)
(*        writes: set of <<pos, name>> (where the tile of pos was saved)]  *)

(* candidate positions of a file: every way of picking level, x, y among the numbers in its name.  (Numbers are     *)
(* maximal digit runs: a template that juxtaposes two placeholders without a separator is reported as not          *)
(* addressing its files - such a template is not injective anyway, see NoSeparator.)                               *)
Cands(f) == LET n == Nums(Stem(f)) IN
    {<<n[a], n[b], n[c]>> : a \in DOMAIN n, b \in DOMAIN n, c \in DOMAIN n}
(* the positions at which a client expanding the template would request this file *)
Addr(T, f) == {p \in Cands(f) : ValidPos(p) /\ Expand(T, p) = f}

Judge(obs) ==
    LET T      == obs.url
        addr   == [f \in obs.files |-> Addr(T, f)]
        pop    == UNION {addr[f] : f \in obs.files}
        stray  == {f \in obs.files : addr[f] = {}}
        wrong  == {w \in obs.writes : Expand(T, w[1]) # w[2]}
        clash  == {w \in obs.writes : \E v \in obs.writes : v[1] # w[1] /\ v[2] = w[2]}
        badext == {f \in obs.files : DotExt(f) # obs.ftype}
    IN [ stray   |-> stray,          \* files no position of the template reaches
         wrong   |-> wrong,          \* tiles saved somewhere else than where the template points
         clash   |-> clash,          \* two positions saved under one name
         badext  |-> badext,         \* tiles whose extension is not the recorded FileType
         ftype_t |-> DotExt(T) = obs.ftype,
         deepest |-> Deepest(pop),
         levels_ok |-> (obs.files # {} => obs.levels = Deepest(pop)) ]

=============================================================================
