--------------------------- MODULE CascadeHistory ---------------------------
(* Histories over ONE pyramid directory (properties C14 and C02): cascades    *)
(* in stages, leaf data that grows between cascades, one Builder object used   *)
(* for several cascades, a Builder restored from index_rel.wtml.               *)
(*                                                                             *)
(* Cascade.tla explores ONE cascade from the leaf level under every admissible *)
(* merge order and shows that the order does not matter (DoneRight).  Here a   *)
(* whole cascade is therefore one step (CascadeDown: levels k-1 .. 0, each     *)
(* position by TileMerge!MergeTile on the tiles AS STORED at that moment), and *)
(* what is explored is the sequence of operations on the directory:            *)
(*   Cascade(k, "api")     merge.cascade_images(pio, k, averaging_merger), also *)
(*                         `toasty cascade --start k`                           *)
(*   Cascade(k, "builder") Builder.cascade() with imgset.tile_levels = k: the   *)
(*                         same, then the root tile's DATAMIN / DATAMAX are      *)
(*                         copied into the Builder's imageset (builder.py)      *)
(*   WriteMore             further leaf data reaches the directory: new leaves  *)
(*                         (PyramidIO.write_image) and wider versions of leaves  *)
(*                         that are there already (PyramidIO.update_image);      *)
(*                         c.first is the first batch, c.final what the leaf     *)
(*                         files hold in the end                                 *)
(*   WriteIndex            Builder.write_index_rel_wtml(): the imageset's range  *)
(*                         goes into index_rel.wtml                              *)
(*   NewBuilder("fresh")   a new Builder(pio): default imageset, range (0, 0)    *)
(*   NewBuilder("restored") a new Builder whose imageset is the one recorded in  *)
(*                         index_rel.wtml (FitsTiler's reuse route)              *)
(* A cascade may start at any level k whose tiles are current, i.e. k = Depth   *)
(* or every position of level k has been merged since the leaves last changed   *)
(* (`done`): that is the staged history cascade(D); cascade(k), k < D.           *)
(*                                                                             *)
(* The variables of Cascade.tla are reused with their meaning: c the case with  *)
(* the CURRENT leaves, fin = Final(c), pyr the directory, done the positions     *)
(* merged since the leaves last changed.  Cascade.tla's theorems DoneRight,      *)
(* ExistenceRule, NeverStoredUndefined, RangeRule, LeafRangeRule are invariants  *)
(* of this machine as they stand: whatever the history, every current tile is    *)
(* the display-sentence tile of the current leaves and records the range of the  *)
(* FINITE LEAF values beneath it - in particular a tile rebuilt by a later stage *)
(* from averaged tiles still carries the leaves' range, not the range of the     *)
(* averaged pixels it was built from.  New here: BuilderRule / IndexRule (C14's  *)
(* last clause): after Builder.cascade the imageset's range, and the range       *)
(* written to the WTML after it, is the root's = the range of all current        *)
(* leaves - whatever the Builder carried before.                                 *)
EXTENDS Cascade

CONSTANT MaxOps     \* bound on the length of the explored histories

VARIABLES hist,     \* the operations so far, each with the observables the harness compares after it
          bld,      \* the data range in the current Builder's imageset; Unset for a default imageset
          idx,      \* the data range in index_rel.wtml; NoRange while the file does not exist
          pending   \* TRUE while the second batch of leaf data has not been written yet
hvars == <<c, fin, pyr, done, hist, bld, idx, pending>>

Unset == <<0, 0>>      \* wwt_data_formats ImageSet(): data_min = data_max = 0

\* ---- cases: Cascade.tla's record with two more fields
\*   c.first   leaf map of the first batch (DOMAIN c.first \subseteq DOMAIN c.final)
\*   c.final   leaf map once everything has been written (= c.first when there is no second batch)
WithLeaves(x, lv) == [x EXCEPT !.leaves = lv]
HistCaseOK(x) == /\ DOMAIN x.first \subseteq DOMAIN x.final
                 /\ DomainOK(WithLeaves(x, x.first)) /\ DomainOK(WithLeaves(x, x.final))
                 /\ ~x.keepu /\ x.live = Level(Depth)

\* ---- one whole cascade from level k: levels k-1, k-2, .. 0, every position from its four stored children
RECURSIVE CascadeDown(_, _)
CascadeDown(dir, n) ==
    IF n < 0 THEN dir
    ELSE LET merged == [p \in UpTo(Depth) |->
                           IF p[1] = n
                           THEN MergeTile(c.mode, c.bottomup, c.ranged,
                                          <<dir[Kid(p, 0)], dir[Kid(p, 1)], dir[Kid(p, 2)], dir[Kid(p, 3)]>>, dir[p])
                           ELSE dir[p]]
         IN CascadeDown(merged, n - 1)

LevelCurrent(k) == k = Depth \/ Level(k) \subseteq done
HasTiles(k) == \E p \in Level(k) : pyr[p].ex
Levels(S) == {p[1] : p \in S}
\* what the harness looks at after a step
\* (batch: 1 while only the first batch of leaf data has been written, 2 afterwards)
Step(op, k, how, b, i, dn, pend) ==
    [op |-> op, k |-> k, how |-> how, bld |-> b, idx |-> i,
     current |-> {n \in 0..(Depth - 1) : Level(n) \subseteq dn}, batch |-> IF pend THEN 1 ELSE 2]

HInit == /\ \E x \in Cases : /\ c = WithLeaves(x, x.first)
                             /\ pending = (x.first # x.final)
         /\ fin = Final(c)
         /\ pyr = InitPyr(c)
         /\ done = {}
         /\ hist = <<>>
         /\ bld = Unset
         /\ idx = NoRange

LastOp == IF hist = <<>> THEN [op |-> "", how |-> "", k |-> 0] ELSE hist[Len(hist)]
\* The explored language (a bound, like MaxOps): a SESSION is a cascade from the leaf level, then further stages from
\* strictly shallower levels (cascade(D); cascade(k), k < D; ...), the index written or not after any Builder cascade.
\* A history is one session, or: a session of one cascade, the second batch of leaf data, the same Builder / a fresh
\* one / one restored from the index, and a second session.
SessionStart == IF \E i \in DOMAIN hist : hist[i].op = "write"       \* (WriteMore happens at most once)
                THEN (CHOOSE i \in DOMAIN hist : hist[i].op = "write") + 1 ELSE 1
SessionCascades == {i \in SessionStart..Len(hist) : hist[i].op = "cascade"}
LastStage == IF SessionCascades = {} THEN Depth + 1 ELSE hist[SetMax(SessionCascades)].k

CascadeFrom(k, how) ==
    /\ Len(hist) < MaxOps
    /\ k < LastStage
    /\ LevelCurrent(k) /\ HasTiles(k)           \* (an empty start level is refused: Cascade.tla, Refused)
    /\ LET d == CascadeDown(pyr, k - 1)
       IN /\ how = "builder" => (c.ranged /\ d[Root].ex /\ d[Root].rng # NoRange)   \* Builder.cascade reads the root's cards
          /\ pyr' = d
          /\ done' = done \cup UpTo(k - 1)
          /\ bld' = IF how = "builder" THEN d[Root].rng ELSE bld
          /\ hist' = Append(hist, Step("cascade", k, how, bld', idx, done', pending))
    /\ UNCHANGED <<c, fin, idx, pending>>

WriteMore ==
    /\ Len(hist) < MaxOps
    /\ pending
    /\ Cardinality(SessionCascades) = 1 /\ LastOp.op \in {"cascade", "index"}
    /\ c' = WithLeaves(c, c.final)
    /\ fin' = Final(c')
    /\ pyr' = [p \in UpTo(Depth) |-> IF p[1] = Depth THEN FlipTile(c.bottomup, LeafTile(c', p)) ELSE pyr[p]]
    /\ done' = {}
    /\ pending' = FALSE
    /\ hist' = Append(hist, Step("write", Depth, "", bld, idx, done', FALSE))
    /\ UNCHANGED <<bld, idx>>

\* the index is written right after a Builder cascade (what every toasty workflow does)
WriteIndex ==
    /\ Len(hist) < MaxOps
    /\ LastOp.op = "cascade" /\ LastOp.how = "builder"
    /\ idx' = bld
    /\ hist' = Append(hist, Step("index", 0, "", bld, idx', done, pending))
    /\ UNCHANGED <<c, fin, pyr, done, bld, pending>>

NewBuilder(kind) ==
    /\ Len(hist) < MaxOps
    /\ c.ranged /\ LastOp.op = "write"            \* a new session after new data arrived
    /\ kind = "restored" => idx # NoRange
    /\ bld' = IF kind = "restored" THEN idx ELSE Unset
    /\ hist' = Append(hist, Step("builder", 0, kind, bld', idx, done, pending))
    /\ UNCHANGED <<c, fin, pyr, done, idx, pending>>

HNext == \/ \E k \in 1..Depth : \E how \in {"api", "builder"} : CascadeFrom(k, how)
         \/ WriteMore
         \/ WriteIndex
         \/ \E kind \in {"fresh", "restored"} : NewBuilder(kind)
HSpec == HInit /\ [][HNext]_hvars

\* ---------------------------------------------------------------- theorems (TLC: INVARIANTs)
HistCase == (hist = <<>>) => (HistCaseOK(c) /\ c.stale \subseteq UpTo(Depth - 1))
\* (Cascade.tla's DoneRight, ExistenceRule, NeverStoredUndefined, RangeRule, LeafRangeRule, NoRangeUnlessRanged are
\*  listed in the cfg as they stand)
\* C14, last clause: the range the Builder carries after its cascade, and the one the WTML gets, describe the
\* full-resolution data that is in the directory now
AllLeafValues == ValuesBelow(Root)
BuilderRule == (InDomain /\ LastOp.op = "cascade" /\ LastOp.how = "builder") => bld = RangeOf(AllLeafValues)
IndexRule == (InDomain /\ LastOp.op = "index") => idx = RangeOf(AllLeafValues)
=============================================================================
