---- MODULE WalkParStartSim ----
(* WalkParStart with a `lastAct` history variable and a JSON emitter (mechanism M2: replay of TLC behaviours into the  *)
(* real _walk_parallel, worker-creation phase included).  Of the two admissible outcomes of a refused start only the   *)
(* one the code implements is simulated: the OSError propagates, the flag is left alone (StartFailsRaise(FALSE)).       *)
EXTENDS WalkParStart, Json
VARIABLE lastAct
SimInit == SInit /\ lastAct = <<"Init", 0>>
A(act, name, who) == act /\ lastAct' = <<name, who>>
SimNext == \/ A(StartOK, "StartOK", NextK) \/ A(StartFailsRaise(FALSE), "StartFails", NextK)
           \/ A(Keep(FlushReady), "FlushReady", 0) \/ A(Disp(DGet), "DGet", 0) \/ A(Disp(DTimeout) /\ (dpc' # dpc), "DTimeoutRaise", 0)
           \/ A(Disp(DTimeout) /\ (dpc' = dpc), "DTimeout", 0) \/ A(Disp(DClose), "DClose", 0)
           \/ A(Disp(DJoinThread), "DJoinThread", 0) \/ A(Disp(DSetEv), "DSetEv", 0) \/ A(Disp(DJoinW), "DJoinW", 0)
           \/ \E w \in Workers : \/ A(Wrk(w, WAcquire(w)), "WAcquire", w) \/ A(Wrk(w, WLockTimeout(w)), "WLockTimeout", w)
                                 \/ A(Wrk(w, WRecv(w)), "WRecv", w) \/ A(Wrk(w, WPollTimeout(w)), "WPollTimeout", w)
                                 \/ A(Wrk(w, WCheckDone(w)), "WCheckDone", w) \/ A(Wrk(w, WCbStart(w)), "WCbStart", w)
                                 \/ A(Wrk(w, WCbEnd(w)), "WCbEnd", w) \/ A(Wrk(w, WPut(w)), "WPut", w) \/ A(Wrk(w, FlushDone(w)), "FlushDone", w)
SimSpec == SimInit /\ [][SimNext]_<<svars, lastAct>>
Emit == PrintT(<<"TR", ToJson([lvl |-> TLCGet("level"), act |-> lastAct[1], who |-> lastAct[2],
          acc |-> acc, apex |-> apex, faults |-> faults, failAt |-> failAt, ops |-> ops,
          dpc |-> dpc, djoin |-> djoin, rqBuf |-> rqBuf, rqPipe |-> rqPipe, rlock |-> rlock,
          dqBuf |-> dqBuf, dqPipe |-> dqPipe, dqSem |-> dqSem, wpc |-> wpc, witem |-> witem, doneEv |-> doneEv,
          started |-> started, ended |-> ended, nborn |-> Cardinality(born), phase |-> phase])>>)
====
