SPECIFICATION Spec
CONSTANTS
 Configs <- MCConfigs
 BigConfigs <- MCBigConfigs
INVARIANT Partition
INVARIANT ChunkShape
INVARIANT BoxIsChunk
INVARIANT SamplerIsChunk
INVARIANT NoHoles
INVARIANT GridByAxes
INVARIANT SeamsCovered
INVARIANT SeamIsLocalTie
CHECK_DEADLOCK FALSE
