SPECIFICATION Spec
CONSTANTS
 Configs <- MCConfigs
INVARIANT Partition
INVARIANT ChunkShape
INVARIANT BoxIsChunk
INVARIANT SamplerIsChunk
INVARIANT NoHoles
CHECK_DEADLOCK FALSE
