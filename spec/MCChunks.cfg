SPECIFICATION Spec
CONSTANTS
 Configs <- MCConfigs
INVARIANT Partition
INVARIANT ChunkShape
INVARIANT BoxIsChunk
INVARIANT SamplerIsChunk
INVARIANT NoHoles
INVARIANT SeamsCovered
INVARIANT SeamIsLocalTie
CHECK_DEADLOCK FALSE
