------------------------------ MODULE ImageLoad ------------------------------
(* G05 - one load of one file by one ImageLoader, over every                 *)
(*   file       (format x stored pixel layout x tiny content x ICC profile), *)
(*   option set (crop, black_to_transparent, colorspace_processing),         *)
(*   entry      load_path / load_stream / load_pil,                          *)
(*   suffix     the file NAME's suffix (load_path picks the reader from it). *)
(* One state = one configuration; a step changes one coordinate.             *)
EXTENDS ImageModes

CONSTANTS Files, Crops, Entries, Suffixes

VARIABLES file, crop, b2t, cp, entry, suffix
vars == <<file, crop, b2t, cp, entry, suffix>>

O == Opts(crop, b2t, cp)
\* foreign suffixes are explored with load_path and the default options only
\* (a FITS file that reaches PIL - load_stream, load_pil, or a name without a FITS suffix - is decoded by PIL's own
\* FITS reader; that path is outside this model)
Relevant(f, c, b, p, e, s) == /\ s # NaturalSuffix(f.fmt) => (e = "path" /\ c = <<>> /\ ~b /\ p = "srgb")
                              /\ f.fmt = "fits" => (e = "path" /\ Detect(s) # "pil")
                              \* without a profile colorspace_processing = "none" is explored without crops only
                              /\ (f.icc = "none" /\ p = "none") => c = <<>>
Init == /\ file \in Files /\ crop \in Crops /\ b2t \in BOOLEAN /\ cp \in {"srgb", "none"} /\ entry \in Entries
        /\ suffix \in (IF entry = "path" /\ crop = <<>> /\ ~b2t /\ cp = "srgb" THEN Suffixes ELSE {NaturalSuffix(file.fmt)})
        /\ Relevant(file, crop, b2t, cp, entry, suffix)
\* a step changes one coordinate (the file: its content within the format, or its format for the same layout and size)
Next == /\ \/ file' \in {g \in Files : g.fmt = file.fmt \/ (g.kind = file.kind /\ g.w = file.w /\ g.h = file.h)}
              /\ UNCHANGED <<crop, b2t, cp, entry, suffix>>
           \/ crop' \in Crops /\ UNCHANGED <<file, b2t, cp, entry, suffix>>
           \/ b2t' \in BOOLEAN /\ UNCHANGED <<file, crop, cp, entry, suffix>>
           \/ cp' \in {"srgb", "none"} /\ UNCHANGED <<file, crop, b2t, entry, suffix>>
           \/ entry' \in Entries /\ UNCHANGED <<file, crop, b2t, cp, suffix>>
           \/ suffix' \in Suffixes /\ UNCHANGED <<file, crop, b2t, cp, entry>>
        /\ Relevant(file', crop', b2t', cp', entry', suffix')
Spec == Init /\ [][Next]_vars

R == Load(O, file, entry, suffix)
Natural == suffix = NaturalSuffix(file.fmt)
ViaPil == Natural /\ file.fmt \in {"png", "jpg", "tiff"}                 \* the loads that go through load_pil
ViaArray == Natural /\ entry = "path" /\ file.fmt \in {"npy", "fits"}
Without(o, what) == CASE what = "crop" -> [o EXCEPT !.crop = <<>>] [] what = "b2t" -> [o EXCEPT !.b2t = FALSE]
                      [] OTHER -> [o EXCEPT !.cp = "none"]
Base(what) == Load(Without(O, what), file, entry, suffix)
HasAlpha(kind) == kind \in {"RGBA", "LA"}
FileAlpha(k) == Alpha(file.kind, file.px[k])

-----------------------------------------------------------------------------
(* The contract.                                                             *)
\* no options: a file in one of the eight modes' own layouts loads with identical pixels and mode
PlainLoadIsIdentity == (ViaPil /\ O = DefaultOpts /\ file.kind \in StdPil /\ file.icc = "none") =>
    R.ok /\ R.mode = ModeOfPil(file.kind) /\ R.w = file.w /\ R.h = file.h /\ R.px = file.px /\ R.q = file.q /\ ~R.conv
ArrayLoadIsIdentity == (ViaArray /\ file.kind \in Modes) =>
    R.ok /\ R.mode = file.kind /\ R.w = file.w /\ R.h = file.h /\ R.px = file.px /\ R.dflt = file.fmt
\* an array whose dtype / shape is none of the eight modes is refused
ForeignArrayRefused == (ViaArray /\ file.kind \notin Modes) => ~R.ok
\* the loaded image's default format: the array formats remember theirs, every bitmap (jpg and tiff too) says "png"
LoadedDefaultFormat == R.ok => R.dflt = (IF entry = "path" /\ Detect(suffix) # "pil" THEN file.fmt ELSE "png")

\* crop removes exactly the requested border: the result is the crop-less result minus top / right / bottom / left
CropExact == (ViaPil /\ crop # <<>> /\ CropFits(file, crop)) =>
    LET b == Base("crop") IN
    /\ R.ok /\ b.ok /\ R.mode = b.mode /\ R.q = b.q /\ R.conv = b.conv
    /\ R.w = file.w - crop[2] - crop[4] /\ R.h = file.h - crop[1] - crop[3]
    /\ \A y \in 0..(R.h - 1), x \in 0..(R.w - 1) : R.px[y * R.w + x + 1] = b.px[(y + crop[1]) * b.w + (x + crop[4]) + 1]
\* a crop that does not fit is refused (one that removes everything yields an EMPTY image, as built)
CropTooLargeRaises == (ViaPil /\ crop # <<>> /\ ~CropFits(file, crop)) => ~R.ok
CropAllYieldsEmpty == (ViaPil /\ crop # <<>> /\ CropFits(file, crop) /\ (crop[2] + crop[4] = file.w \/ crop[1] + crop[3] = file.h)) =>
    R.ok /\ R.px = <<>>
ZeroCropIsNoCrop == (ViaPil /\ crop = <<0, 0, 0, 0>>) => R = Base("crop")

\* black_to_transparent: the result is RGBA; exactly the pure-black pixels become transparent (and colourless);
\* every other pixel keeps its colour and the alpha the file gave it (255 when the file has no alpha)
B2TExact == (ViaPil /\ b2t /\ R.ok /\ file.kind # "F" /\ ~R.conv) =>
    LET p == IF crop = <<>> THEN PilOf(file) ELSE CropPil(PilOf(file), crop) IN
    /\ R.mode = "RGBA" /\ R.w = p.w /\ R.h = p.h
    /\ \A k \in DOMAIN R.px :
          LET col == Colour(p.pm, p.px[k]) IN
          IF IsBlack(col) THEN R.px[k] = <<0, 0, 0, 0>>
          ELSE R.px[k] = col \o <<Alpha(p.pm, p.px[k])>>
\* ... so the undefined pixels of the result are the black ones and the ones that were transparent already
B2TMask == (ViaPil /\ b2t /\ R.ok /\ file.kind # "F") =>       \* (also when the colours are converted afterwards)
    LET p == IF crop = <<>> THEN PilOf(file) ELSE CropPil(PilOf(file), crop) IN
    MaskOf(R) = {k \in DOMAIN p.px : IsBlack(Colour(p.pm, p.px[k])) \/ Alpha(p.pm, p.px[k]) = 0}
\* without the option an RGB file stays RGB and an RGBA file keeps every alpha
NoB2TKeepsMode == (ViaPil /\ ~b2t /\ R.ok /\ file.kind \in StdPil) => R.mode = ModeOfPil(file.kind)

\* colour processing is the LAST step (transparency is decided on the file's own colours) and touches nothing else
ColourLast == ViaPil => LET b == Base("cp") IN
    /\ R.ok = b.ok
    /\ R.ok => /\ R.mode = b.mode /\ R.w = b.w /\ R.h = b.h /\ R.q = b.q
               /\ R.conv = (cp # "none" /\ file.icc = "odd")
               /\ R.px = (IF R.conv THEN [k \in DOMAIN b.px |-> Darken(b.px[k])] ELSE b.px)
               /\ \A k \in DOMAIN R.px : Alpha(R.mode, R.px[k]) = Alpha(b.mode, b.px[k])            \* alpha is never touched
NoProfileNoConversion == (R.ok /\ (file.icc = "none" \/ cp = "none")) => ~R.conv

\* the three entry points agree for the formats PIL reads
EntryIndependent == ViaPil => \A e \in Entries : Load(O, file, e, suffix) = R
\* the reader is picked from the NAME; content that does not match it is refused, never mis-read
WrongSuffixRefused == (entry = "path" /\ Detect(suffix) # Detect(NaturalSuffix(file.fmt))) => ~R.ok
SniffedByContent == (entry = "path" /\ Detect(suffix) = "pil" /\ file.fmt \in {"png", "jpg", "tiff"}) =>
    R = Load(O, file, "path", NaturalSuffix(file.fmt))
FitsSuffixesAgree == (entry = "path" /\ file.fmt = "fits" /\ suffix \in FitsSuffixes) => R = Load(O, file, "path", ".fits")
\* every successful load yields one of the eight modes
LoadedModeIsAMode == R.ok => R.mode \in Modes /\ Len(R.px) = R.w * R.h

\* AS BUILT (deviation OptionsIgnoredForArrays): .npy and FITS files bypass load_pil, so every option is ignored
OptionsIgnoredForArrays == ViaArray => R = Load(DefaultOpts, file, entry, suffix)
\* AS BUILT (deviation GrayAlphaDropped): a layout PIL knows but ImageMode does not is flattened to RGB - its alpha
\* channel is lost unless black_to_transparent happens to be on
GrayAlphaDropped == (ViaPil /\ ~b2t /\ R.ok /\ file.kind = "LA") => R.mode = "RGB" /\ MaskOf(R) = {}
\* AS BUILT (deviation StreamCannotLoadArrays): load_stream / load_pil hand everything to PIL
StreamCannotLoadNpy == (entry # "path" /\ file.fmt = "npy") => ~R.ok
\* AS BUILT (deviation NpySuffixCaseSensitive)
UpperCaseNpyRefused == (entry = "path" /\ file.fmt = "npy" /\ suffix = ".NPY") => ~R.ok

-----------------------------------------------------------------------------
(* Negative controls (TLC must refute each).                                 *)
\* "crop applies to every file the loader can read"
CropAppliesToEveryFile == (R.ok /\ crop # <<>> /\ crop # <<0, 0, 0, 0>>) => (R.w < file.w \/ R.h < file.h)
\* "a file's transparency survives loading"
AlphaSurvivesLoad == (ViaPil /\ R.ok /\ HasAlpha(file.kind) /\ crop = <<>>) => {k \in DOMAIN file.px : FileAlpha(k) = 0} \subseteq MaskOf(R)
\* "black_to_transparent yields transparency wherever the file is black, whatever the file"
B2TAppliesToEveryFile == (R.ok /\ b2t) => R.mode = "RGBA"
\* "a crop that leaves no pixel is refused"
EmptyCropRefused == (R.ok /\ Natural) => R.w > 0 /\ R.h > 0
=============================================================================
