SPECIFICATION Spec
CONSTANTS
 T = 2
 Depth = 1
 Cases <- MCCases
 Window = 2
INVARIANT CaseOK
INVARIANT InDomain
INVARIANT DoneRight
INVARIANT RestUntouched
INVARIANT ExistenceRule
INVARIANT ExistsIffDataBelow
INVARIANT ExistsOnlyAboveData
INVARIANT VanishedOnlyByReduction
INVARIANT MayOnlyColour
INVARIANT StaleReplaced
INVARIANT NeverStoredUndefined
INVARIANT RangeRule
INVARIANT LeafRangeRule
INVARIANT NoRangeUnlessRanged
INVARIANT Progress
INVARIANT SerialAdmitted
INVARIANT MergeCommutes
CHECK_DEADLOCK FALSE
