SPECIFICATION Spec
CONSTANTS
 Sizes <- MCSizes
 SmallSizes <- MCSmallSizes
INVARIANT TypeOK
INVARIANT BoxInside
INVARIANT FullAxis
INVARIANT Centred
INVARIANT AspectWithinRounding
INVARIANT ExactAspectUncropped
INVARIANT Idempotent96x45
INVARIANT OutWithinThumb
INVARIANT ShrunkNearExact
INVARIANT SmallNotUpscaled
INVARIANT NonEmpty
INVARIANT WidthOneYieldsEmpty
INVARIANT WidthTieOnly16
INVARIANT NoHeightTie
INVARIANT RefusalOK
INVARIANT AlphaDropped
PROPERTY WidenKeepsCrop
PROPERTY HeightenKeepsCrop
PROPERTY ModeIsNotGeometry
PROPERTY DoubleKeepsOutput
CHECK_DEADLOCK FALSE
