--------------------------- MODULE CollectionCalls ---------------------------
(* Histories of LOAD CALLS in ONE PROCESS (toasty/collection.py: load,         *)
(* SimpleFitsCollection, CollectionLoader.load_paths, toasty.tile_fits, the    *)
(* command-line entry point called in-process), over a few path names on disk. *)
(*                                                                             *)
(* The property speaks about "loading a collection": every load, whatever the  *)
(* process did before, delivers for the file at every list position the HDU    *)
(* and the WCS solution selected FOR THAT LOAD, read from the file AS IT IS ON  *)
(* DISK at the time of the load.  The code as it is keeps nothing between two  *)
(* loads (Memo = "none": _scan_hdus opens the file and _load parses the header *)
(* with the key of this call).  A process-wide memo of the parsed geometry is a*)
(* legitimate design only when its key holds everything the parse depends on:  *)
(*   Memo = "all"            (path, HDU, WCS key, stat stamp)   passes         *)
(*   Memo = "path-hdu-stat"  the WCS key left out               refuted by TLC *)
(*   Memo = "path-hdu-key"   the stat stamp left out (a file rewritten in      *)
(*                           place is not parsed again)         refuted by TLC *)
(*                                                                             *)
(* disk    path name -> [file: which physical content (index of FileSeq) the   *)
(*         path holds now, gen: how many times it was rewritten (its stat      *)
(*         stamp: size / mtime)]; initially name p holds content p             *)
(* memo    what the process remembers: a set of [k: memo key, g: geometry]     *)
(* oplog   the operations so far: "load" (names = the path list of the call,   *)
(*         cont = what those paths held at that moment, hs / ks = the          *)
(*         selection of THIS call, out = what was delivered) and "rewrite"     *)
(*         (names = <<p>>, cont = <<q>>: path p rewritten in place with the    *)
(*         contents q: same path, new mtime / size)                            *)
EXTENDS Collection

CONSTANTS NPaths,        \* path names 1..NPaths
          MaxCalls,      \* loads per history
          MaxRewrites,   \* rewrites per history
          RewriteTo,     \* the contents a path may be rewritten with (indices of FileSeq)
          Memo

VARIABLES disk, memo, oplog
cvars == <<lay, hs, ks, dout, iout, disk, memo, oplog>>

Names == 1..NPaths
LoadsIn(l) == {n \in DOMAIN l : l[n].op = "load"}
NLoads == Cardinality(LoadsIn(oplog))
NRewrites == Cardinality({n \in DOMAIN oplog : oplog[n].op = "rewrite"})

MemoKey(name, hdu, key, gen) ==
    CASE Memo = "path-hdu-stat" -> <<name, hdu, " ", gen>>
      [] Memo = "path-hdu-key" -> <<name, hdu, key, 0>>
      [] OTHER -> <<name, hdu, key, gen>>

\* one load: the items are produced in list order; with a memo, item i may be served from what an earlier load - or an
\* earlier item of this load - left behind
RECURSIVE Run(_, _, _, _)
Run(want, names, i, acc) ==
    IF i > Len(want) THEN acc
    ELSE LET w == want[i]
             mk == MemoKey(names[i], w.hdu, w.key, disk[names[i]].gen)
             hit == {e \in acc.memo : e.k = mk}
             served == Memo # "none" /\ hit # {}
             g == IF served THEN (CHOOSE e \in hit : TRUE).g ELSE [file |-> w.file, key |-> w.key]
             item == [path |-> i, file |-> g.file, hdu |-> w.hdu, key |-> g.key]
             m2 == IF Memo = "none" \/ served THEN acc.memo ELSE acc.memo \cup {[k |-> mk, g |-> g]}
         IN Run(want, names, i + 1, [out |-> Append(acc.out, item), memo |-> m2])

CInit == /\ lay = <<>> /\ hs = None /\ ks = None /\ dout = <<>> /\ iout = <<>>
         /\ disk = [p \in Names |-> [file |-> p, gen |-> 0]]
         /\ memo = {} /\ oplog = <<>>

Load == /\ NLoads < MaxCalls
        /\ \E names \in UNION {[1..n -> Names] : n \in 1..MaxFiles} :
             LET cont == [i \in DOMAIN names |-> disk[names[i]].file]
                 files == Files(cont) IN
             \E h \in HduSpecs(files) : \E k \in KeySpecs(files, h) :
                LET want == [i \in DOMAIN names |-> ScanOne(cont, h, k, i)]
                    r == Run(want, names, 1, [out |-> <<>>, memo |-> memo]) IN
                /\ oplog' = Append(oplog, [op |-> "load", names |-> names, cont |-> cont, hs |-> h, ks |-> k, out |-> r.out])
                /\ memo' = r.memo
        /\ UNCHANGED <<lay, hs, ks, dout, iout, disk>>

Loaded(p) == \E n \in LoadsIn(oplog) : \E i \in DOMAIN oplog[n].names : oplog[n].names[i] = p
\* a path that was loaded before is rewritten in place (a rewrite of a path nobody looked at is another initial disk)
Rewrite == /\ NRewrites < MaxRewrites /\ NLoads < MaxCalls
           /\ oplog # <<>> /\ oplog[Len(oplog)].op = "load"
           /\ \E p \in Names : \E q \in RewriteTo :
                /\ Loaded(p) /\ q # disk[p].file /\ HasImage(FileSeq[q])
                /\ disk' = [disk EXCEPT ![p] = [file |-> q, gen |-> @.gen + 1]]
                /\ oplog' = Append(oplog, [op |-> "rewrite", names |-> <<p>>, cont |-> <<q>>, hs |-> None, ks |-> None, out |-> <<>>])
           /\ UNCHANGED <<lay, hs, ks, dout, iout, memo>>

CNext == Load \/ Rewrite
CSpec == CInit /\ [][CNext]_cvars
CDone == NLoads = MaxCalls

\* ------------------------------------------------------------------ the property, for every load of the history
Want(c, i) == ScanOne(c.cont, c.hs, c.ks, i)
\* "a single HDU index or WCS key applies to every file, a list supplies the index or key for the file at the same list
\* position, no selection means the first HDU holding image data" - of THIS call, read from the file as it is NOW
EachLoadExact == \A n \in LoadsIn(oplog) : LET c == oplog[n] IN
    /\ Len(c.out) = Len(c.names)
    /\ \A i \in DOMAIN c.out :
         /\ c.out[i].path = i
         /\ c.out[i].file = c.cont[i]
         /\ c.out[i].hdu = SelectHdu(c.hs, i, FileSeq[c.cont[i]])
         /\ c.out[i].key = SelectKey(c.ks, i)
\* every load delivers what the same call delivers as the first thing a fresh process does
NoMemoryOfEarlierLoads == \A n \in LoadsIn(oplog) : LET c == oplog[n] IN
    c.out = [i \in DOMAIN c.names |-> Want(c, i)]
LoadsInScope == \A n \in LoadsIn(oplog) : InScope(Files(oplog[n].cont), oplog[n].hs, oplog[n].ks)

\* ------------------------------------------------------------------ how a load relates to what happened before it
\* the same path, contents and HDU were asked for before - by an earlier load or at an earlier position of this load -
\* with ANOTHER WCS key
OtherKeyBefore(n) == LET c == oplog[n] IN \E i \in DOMAIN c.names :
    \/ \E m \in LoadsIn(oplog) : m < n /\ \E j \in DOMAIN oplog[m].names :
          /\ oplog[m].names[j] = c.names[i] /\ oplog[m].cont[j] = c.cont[i]
          /\ Want(oplog[m], j).hdu = Want(c, i).hdu /\ Want(oplog[m], j).key # Want(c, i).key
    \/ \E j \in 1..(i - 1) : /\ c.names[j] = c.names[i]
                             /\ Want(c, j).hdu = Want(c, i).hdu /\ Want(c, j).key # Want(c, i).key
\* a path of this load was loaded before, when it held other contents
RewrittenBefore(n) == LET c == oplog[n] IN \E i \in DOMAIN c.names :
    \E m \in LoadsIn(oplog) : m < n /\ \E j \in DOMAIN oplog[m].names :
        oplog[m].names[j] = c.names[i] /\ oplog[m].cont[j] # c.cont[i]
\* the same path was asked for before with another HDU (index written differently or guessed)
OtherHduBefore(n) == LET c == oplog[n] IN \E i \in DOMAIN c.names :
    \E m \in LoadsIn(oplog) : m < n /\ \E j \in DOMAIN oplog[m].names :
        oplog[m].names[j] = c.names[i] /\ Want(oplog[m], j).hdu # Want(c, i).hdu
=============================================================================
