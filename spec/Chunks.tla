-------------------------------- MODULE Chunks --------------------------------
(* Chunked plate-carree maps: toasty/jpeg2000.py ChunkedJPEG2000Reader.n_chunks / chunk_spec (the chunk grid)   *)
(* and toasty/samplers.py ChunkedPlateCarreeSampler._chunk_bounds / filter / sampler (planetary layout: the     *)
(* left edge of column 0 is lon = -pi, the top edge of row 0 is lat = +pi/2).                                   *)
(*                                                                                                        *)
(* A configuration is <<W, H, tw, th>>: map of W x H pixels cut into chunks of tw x th (the last column/row of   *)
(* chunks may be narrower).  Angles are integers: one map column = one map row = 4 units, so 2*pi = 4W in       *)
(* longitude and pi/2 = 2H in latitude; every pixel edge and pixel centre is an even unit, the test directions   *)
(* are odd units (never on an edge, never a rounding tie).                                                   *)
EXTENDS Integers, Sequences, FiniteSets, TLC

CONSTANTS Configs,      \* small configurations: all theorems
          BigConfigs    \* large maps (hundreds of pixels): the per-axis form of the partition theorem only
VARIABLES c, i          \* configuration, chunk index

W(cf) == cf[1]   H(cf) == cf[2]   TW(cf) == cf[3]   TH(cf) == cf[4]
CeilDiv(a, b) == (a + b - 1) \div b
Min2(a, b) == IF a < b THEN a ELSE b

\* ------------------------------------------------------------------ the chunk grid (chunk_spec as written)
PerRow(cf)  == CeilDiv(W(cf), TW(cf))                      \* chunks_per_row
NChunks(cf) == CeilDiv(H(cf), TH(cf)) * PerRow(cf)
\* returns <<x0, y0, width, height>>
ChunkSpec(cf, k) ==
    LET icol == k \div PerRow(cf)                          \* (named icol in the code: it is the chunk ROW)
        irow == k % PerRow(cf)
        x0 == TW(cf) * irow
        x1 == Min2(TW(cf) * (irow + 1), W(cf))
        y0 == TH(cf) * icol
        y1 == Min2(TH(cf) * (icol + 1), H(cf))
    IN <<x0, y0, x1 - x0, y1 - y0>>
InChunk(cf, k, x, y) ==
    LET s == ChunkSpec(cf, k) IN s[1] <= x /\ x < s[1] + s[3] /\ s[2] <= y /\ y < s[2] + s[4]
ChunkOf(cf, x, y) == (y \div TH(cf)) * PerRow(cf) + x \div TW(cf)

\* ------------------------------------------------------------------ angles
Period(cf) == 4 * W(cf)
Pole(cf)   == 2 * H(cf)
\* the map pixel a direction (k, j) falls in (k, j odd; any branch of k)
ColOf(cf, k) == ((k + 2 * W(cf)) % Period(cf)) \div 4
RowOf(cf, j) == (Pole(cf) - j) \div 4
\* _chunk_bounds: <<lon_l, lon_r, lat_d, lat_u>> (pixel edges)
Bounds(cf, k) ==
    LET s == ChunkSpec(cf, k)
    IN <<4 * s[1] - 2 * W(cf), 4 * (s[1] + s[3]) - 2 * W(cf), Pole(cf) - 4 * (s[2] + s[4]), Pole(cf) - 4 * s[2]>>
\* the same as fractions of pi for the harness: lon = num/W * pi, lat = num/(2H) * pi
BoundsPi(cf, k) ==
    LET s == ChunkSpec(cf, k)
    IN [lon_l |-> <<2 * s[1] - W(cf), W(cf)>>, lon_r |-> <<2 * (s[1] + s[3]) - W(cf), W(cf)>>,
        lat_d |-> <<H(cf) - 2 * (s[2] + s[4]), 2 * H(cf)>>, lat_u |-> <<H(cf) - 2 * s[2], 2 * H(cf)>>]
InBox(cf, k, lon, lat) ==
    LET b == Bounds(cf, k)
    IN b[3] < lat /\ lat < b[4] /\ \E t \in -1..1 : b[1] < lon + t * Period(cf) /\ lon + t * Period(cf) < b[2]
\* the chunk sampler as written: lon -> [-pi, pi), ix = round((lon - lon0) * dx), lon0 = lon_l + half a pixel,
\* iy = round((lat0 - lat) * dy); the pixel is used when 0 <= ix < cw and 0 <= iy < ch.
RoundDiv(a, b) == LET qq == (2 * a + b) \div (2 * b)  tie == (2 * a + b) % (2 * b) = 0
                  IN IF tie /\ qq % 2 = 1 THEN qq - 1 ELSE qq          \* np.round: ties to even
NormLon(cf, k) == ((k + 2 * W(cf)) % Period(cf)) - 2 * W(cf)
CodeIx(cf, ch, k) == RoundDiv(NormLon(cf, k) - (Bounds(cf, ch)[1] + 2), 4)
CodeIy(cf, ch, j) == RoundDiv((Bounds(cf, ch)[4] - 2) - j, 4)
CodeUses(cf, ch, k, j) ==
    LET s == ChunkSpec(cf, ch)
    IN 0 <= CodeIx(cf, ch, k) /\ CodeIx(cf, ch, k) < s[3] /\ 0 <= CodeIy(cf, ch, j) /\ CodeIy(cf, ch, j) < s[4]

OddLons(cf) == {k \in (-Period(cf))..Period(cf) : k % 2 = 1}       \* two turns: both branches of every direction
OddLats(cf) == {j \in (-Pole(cf))..Pole(cf) : j % 2 = 1}

\* ------------------------------------------------------------------ state space
\* i = -2: a configuration has been chosen;  i = -1: its whole-grid theorems;  i >= 0: one of its chunks
\* (the whole-grid theorems sit one step after the initial state so that TLC's workers share them)
Init == (c \in Configs /\ i = -2) \/ (c \in BigConfigs /\ i = -3)      \* i = -3: a large map, no successors
Next == \/ i = -2 /\ i' = -1 /\ c' = c
        \/ i = -1 /\ i' \in 0..(NChunks(c) - 1) /\ c' = c
Spec == Init /\ [][Next]_<<c, i>>

\* ------------------------------------------------------------------ theorems
\* the chunks partition the pixel grid: every map pixel lies in exactly one chunk (and it is ChunkOf)
Partition == i = -1 =>
    \A x \in 0..(W(c) - 1), y \in 0..(H(c) - 1) :
        /\ ChunkOf(c, x, y) \in 0..(NChunks(c) - 1)
        /\ \A k \in 0..(NChunks(c) - 1) : InChunk(c, k, x, y) <=> k = ChunkOf(c, x, y)
\* every chunk is a non-empty rectangle inside the map, at most tw x th
ChunkShape == i >= 0 =>
              LET s == ChunkSpec(c, i)
              IN /\ 0 <= s[1] /\ 0 <= s[2] /\ 1 <= s[3] /\ s[3] <= TW(c) /\ 1 <= s[4] /\ s[4] <= TH(c)
                 /\ s[1] + s[3] <= W(c) /\ s[2] + s[4] <= H(c)
\* the chunk's lat/lon box contains exactly the directions whose map pixel lies in the chunk
BoxIsChunk == i >= 0 => \A k \in OddLons(c), j \in OddLats(c) :
                  InBox(c, i, k, j) <=> InChunk(c, i, ColOf(c, k), RowOf(c, j))
\* the chunk sampler uses exactly those directions, and reads the chunk-local pixel that is the map pixel
SamplerIsChunk == i >= 0 => \A k \in OddLons(c), j \in OddLats(c) :
                  /\ CodeUses(c, i, k, j) <=> InChunk(c, i, ColOf(c, k), RowOf(c, j))
                  /\ CodeUses(c, i, k, j) =>
                        /\ ChunkSpec(c, i)[1] + CodeIx(c, i, k) = ColOf(c, k)
                        /\ ChunkSpec(c, i)[2] + CodeIy(c, i, j) = RowOf(c, j)
\* hence: every direction is used by exactly one chunk - sampling all chunks leaves no hole and no overlap
NoHoles == i = -1 =>
    \A k \in OddLons(c), j \in OddLats(c) :
        Cardinality({ch \in 0..(NChunks(c) - 1) : CodeUses(c, ch, k, j)}) = 1
\* ------------------------------------------------------------------ directions ON cell edges (even units)
\* TOAST pixel centres do fall exactly on map meridians (the tile diagonals, lon = +-45, +-135 deg), so a chunk seam
\* can pass through pixel centres.  The whole-map sampler (plate_carree_planet_sampler) gives such a direction the
\* pixel  GlobalCol / GlobalRow  (same arithmetic as CodeIx/CodeIy with the map as the only chunk, then clipped).
Clip(x, lo, hi) == IF x < lo THEN lo ELSE IF x > hi THEN hi ELSE x
GlobalCol(cf, k) == Clip(RoundDiv(NormLon(cf, k) - (2 - 2 * W(cf)), 4), 0, W(cf) - 1)
GlobalRow(cf, j) == Clip(RoundDiv((Pole(cf) - 2) - j, 4), 0, H(cf) - 1)
AllLons(cf) == (-Period(cf))..Period(cf)
AllLats(cf) == (-Pole(cf))..Pole(cf)
\* Design theorem: "index the pixel in the whole map, then hand it to the chunk that owns that pixel" leaves no
\* direction without a chunk - also on seams - and agrees with the containment semantics off the edges.
SeamsCovered == i = -1 =>
    \A k \in AllLons(c), j \in AllLats(c) :
        /\ Cardinality({ch \in 0..(NChunks(c) - 1) : InChunk(c, ch, GlobalCol(c, k), GlobalRow(c, j))}) = 1
        /\ (k % 2 = 1 /\ j % 2 = 1) => (GlobalCol(c, k) = ColOf(c, k) /\ GlobalRow(c, j) = RowOf(c, j))
\* Observation about the per-chunk arithmetic (CodeIx / CodeIy): on every interior seam the index is an exact
\* rounding tie in BOTH neighbouring chunks (cw - 1/2 in the one, -1/2 in the other).  In exact arithmetic
\* ties-to-even resolves them consistently; evaluated in floating point either may fall on the outer side, and the
\* direction is then used by no chunk.  (An invariant: TLC confirms the tie for every seam of every configuration.)
IsTie(a, b) == (2 * a + b) % (2 * b) = 0
SeamIsLocalTie == i >= 0 =>
    LET b == Bounds(c, i)
    IN /\ b[2] < 2 * W(c) => /\ IsTie(b[2] - (b[1] + 2), 4)                                  \* this chunk, at its east seam
                             /\ \A n \in 0..(NChunks(c) - 1) :
                                   Bounds(c, n)[1] = b[2] => IsTie(b[2] - (Bounds(c, n)[1] + 2), 4)   \* its east neighbour
       /\ b[3] > -Pole(c) => IsTie((b[4] - 2) - b[3], 4)                                      \* at its south seam
\* ------------------------------------------------------------------ the partition, axis by axis
\* chunk_spec cuts each axis independently into [t*k, min(t*(k+1), L)); the grid is the product of the two cuts, so
\* the 2-D Partition theorem is the conjunction of two 1-D ones - cheap enough for maps of any size.
AxisCuts(L, t) == [k \in 0..(CeilDiv(L, t) - 1) |-> <<t * k, Min2(t * (k + 1), L)>>]
AxisPartition(L, t) ==
    LET cuts == AxisCuts(L, t)  n == CeilDiv(L, t)
    IN /\ cuts[0][1] = 0 /\ cuts[n - 1][2] = L
       /\ \A k \in 0..(n - 1) : cuts[k][1] < cuts[k][2] /\ (k + 1 < n => cuts[k][2] = cuts[k + 1][1])
       /\ \A x \in 0..(L - 1) : cuts[x \div t][1] <= x /\ x < cuts[x \div t][2]
SpecIsProduct(cf) ==
    LET cx == AxisCuts(W(cf), TW(cf))  cy == AxisCuts(H(cf), TH(cf))
    IN \A k \in 0..(NChunks(cf) - 1) :
         LET a == cx[k % PerRow(cf)]  b == cy[k \div PerRow(cf)]
         IN ChunkSpec(cf, k) = <<a[1], b[1], a[2] - a[1], b[2] - b[1]>>
GridByAxes == i \in {-3, -1} => (AxisPartition(W(c), TW(c)) /\ AxisPartition(H(c), TH(c)) /\ SpecIsProduct(c))
=============================================================================
