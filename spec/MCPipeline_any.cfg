SPECIFICATION Spec
CONSTANTS
 Ids <- MCIds
 Kind <- MCKind
 Feed <- MCFeed
 Careful = FALSE
 RejectAtRefresh = "recorded"
 ListingOrder <- MCFree
INVARIANT TypeOK TodoHasCandidate OutputWasFetched PublishedInStore RejectsApart OnlyRejectsFlagged
INVARIANT OnlyActionablePublished DirsExist OnlyOffered Idempotent
PROPERTY Flow
CHECK_DEADLOCK FALSE
