SPECIFICATION Spec
INVARIANT DetectsAMode
INVARIANT DetectInvertsArrayKind
INVARIANT TablesAgree
INVARIANT FewAxesPromoted
INVARIANT FromPilStrict
INVARIANT LoaderNeverRefuses
INVARIANT BufferCanMask
INVARIANT AsPilRefusesF16x3
INVARIANT EveryModeHasALosslessHome
INVARIANT Emit
CHECK_DEADLOCK FALSE
