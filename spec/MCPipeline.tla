----------------------------- MODULE MCPipeline -----------------------------
(* Hand-runnable model of spec/Pipeline.tla (growth specification G01).                                  *)
(*   tlc -config MCPipeline.cfg         MCPipeline.tla   careful operator, refresh records its rejects:   *)
(*                                                       every sentence holds, liveness included          *)
(*   tlc -config MCPipeline_any.cfg     MCPipeline.tla   any operator: the core sentences hold            *)
(*   tlc -config MCPipeline_aborts.cfg  MCPipeline.tla   refresh_impl as written: RejectFlagged REFUTED   *)
(* (with two actionable images, Careful = FALSE and ListingOrder <- MCFixed, OkPublished is REFUTED as   *)
(* well: checks/g01.py generates that model and replays TLC's counterexample on the real code)            *)
(* checks/g01.py generates the same module for the id sets of each tier and adds                          *)
(* INVARIANT EmitState to dump every state with all its transitions.                                    *)
EXTENDS Pipeline, Json

MCIds == {"imgA", "imgB", "imgC"}
MCKind == [imgA |-> "ok", imgB |-> "nofetch", imgC |-> "nosave"]
MCFeed == <<"imgA", "imgC", "imgB">>
MCFree == <<>>
MCFixed == MCFeed      \* a fixed listing order (any permutation of MCIds)

\* TLC's evaluation of the sentences in a state (the harness looks for the states where one is FALSE)
Sentences == [TodoHasCandidate |-> TodoHasCandidate, OutputWasFetched |-> OutputWasFetched,
              PublishedInStore |-> PublishedInStore, RejectsApart |-> RejectsApart,
              OnlyRejectsFlagged |-> OnlyRejectsFlagged, Idempotent |-> Idempotent,
              ExclusiveCache |-> ExclusiveCache, ExclusiveOutput |-> ExclusiveOutput, NoRework |-> NoRework,
              PublishedNotRequeued |-> PublishedNotRequeued, NeverWedged |-> NeverWedged]
\* a state as the harness reads it: one line per distinct state, with every command line that can be typed in it,
\* the outcome of that command and the state it leads to (EmitState is an always-true INVARIANT)
Plain(S) == [offered |-> S.offered, area |-> S.area, dirs |-> S.dirs, store |-> S.store]
EmitState == PrintT(<<"S", ToJson([s |-> Plain(State), sent |-> Sentences,
                                   succ |-> {[c |-> c, out |-> Result(State, c).out, t |-> Plain(Result(State, c).s)] :
                                             c \in Allowed(State)}])>>)
\* how TLC prints the states of a counterexample (cfg: ALIAS TraceAlias): the harness reads them back as JSON
TraceAlias == [json |-> ToJson(Plain(State))]
=============================================================================
