---------------------------- MODULE WtmlFormats ----------------------------
(***************************************************************************)
(* C17, first sentence, for the workflows a caller assembles through the   *)
(* Python API: a Builder over a PyramidIO whose tile format is chosen      *)
(* INDEPENDENTLY of the format the input carries itself.                   *)
(*                                                                         *)
(* Transcribes                                                             *)
(*   toasty/builder.py  Builder.__init__ (FileType / Url from the          *)
(*                      PyramidIO), tile_base_as_study, prepare_ /         *)
(*                      execute_study_tiling, toast_base (relays `format`  *)
(*                      to sample_layer), cascade (reads the root tile of  *)
(*                      a FITS pyramid), write_index_rel_wtml              *)
(*   toasty/study.py    tile_study_image, StudyTiling.tile_image: the base *)
(*                      layer goes through pio.write_image(pos, buffer),   *)
(*                      i.e. is saved in the PYRAMID's format although the *)
(*                      buffer carries the image's own _default_format     *)
(*   toasty/toast.py    sample_layer / ToastSampler: write_image(pos, img, *)
(*                      format=<the caller's format or None>)              *)
(*   toasty/merge.py    cascade_images: children are read and parents      *)
(*                      written in the pyramid's format, level by level    *)
(*   toasty/pyramid.py  PyramidIO.write_image (format or default format)   *)
(* The base layer of a study is StudyTiling!Rects (reused, not restated);  *)
(* names, templates and the judge are Wtml's.                              *)
(*                                                                         *)
(* A configuration fixes the naming scheme, the pyramid's format, the      *)
(* input kind (what format it carries itself, which formats can hold its   *)
(* pixels), the entry point and the size.  The machine writes the base     *)
(* layer, cascades one level per step, writes the index; the property's    *)
(* sentences are invariants of the indexed state.  Three knobs give the    *)
(* refuted negative controls: which format the base layer is saved in,     *)
(* which one the Builder records, and what becomes of a caller's explicit  *)
(* `format=` that is not the pyramid's.                                    *)
(***************************************************************************)
EXTENDS Wtml

CONSTANTS Formats,        \* the tile formats, as character sequences
          StudyKinds,     \* names of the image kinds tiled as studies
          ToastKinds,     \* names of the sampler kinds tiled as all-sky TOAST
          Own,            \* Own[k]: the format an input of kind k carries itself (Image.default_format)
          Storable,       \* Storable[k]: the formats that can hold the pixels of kind k (a float image is no PNG)
          StudySizes,     \* set of <<width, height>>
          ToastDepths,    \* set of depths of the sampled layer
          BaseWrites,     \* the base layer is saved in the format of "pyramid" (as built) | "image" (its own)
          Recorded,       \* FileType / Url name the format of "pyramid" (as built) | "image"
          Request         \* toast_base(..., format=R) with R not the pyramid's format is
                          \*   "refused"  - rejected before anything is written (intended: the format belongs to the pyramid)
                          \*   "honoured" - tiles saved as R, index and cascade keep the pyramid's format

ST == INSTANCE StudyTiling WITH TS <- 256, MaxW <- 1, MaxH <- 1, MaxLen <- 1, SubMode <- "none", SubLens <- {}, c <- 0

StudyRoutes == {"base", "prepare", "direct"}      \* Builder.tile_base_as_study | prepare_ + execute_study_tiling |
                                                  \* study.tile_study_image(image, pio) with the tiling applied to the Builder
None == <<>>
FitsExt == <<"f", "i", "t", "s">>
Range(s) == {s[i] : i \in DOMAIN s}

Configs ==
    {[scheme |-> s, fmt |-> f, kind |-> k, route |-> r, w |-> z[1], h |-> z[2], depth |-> 0, req |-> None] :
        s \in Schemes, f \in Formats, k \in StudyKinds, r \in StudyRoutes, z \in StudySizes}
    \cup
    {[scheme |-> s, fmt |-> f, kind |-> k, route |-> "toast", w |-> 0, h |-> 0, depth |-> d, req |-> q] :
        s \in Schemes, f \in Formats, k \in ToastKinds, d \in ToastDepths, q \in {None} \cup Formats}
(* the pyramid's format (and a requested one) must be able to hold the pixels: inputs outside this are refused by the *)
(* image library, loudly, before any index exists                                                                  *)
Admissible(g) == g.fmt \in Storable[g.kind] /\ (g.req = None \/ g.req \in Storable[g.kind])

BaseLevel(g)     == IF g.route = "toast" THEN g.depth ELSE ST!Tiling(g.w, g.h).lev
BasePositions(g) == IF g.route = "toast" THEN Level(g.depth)
                    ELSE {r.pos : r \in Range(ST!Rects(ST!Tiling(g.w, g.h)))}
Parent(p) == <<p[1] - 1, p[2] \div 2, p[3] \div 2>>

NoIndex == [url |-> <<>>, ftype |-> <<>>, levels |-> 0]

VARIABLES cfg,      \* the configuration
          stage,    \* "new" -> "base" -> "indexed";  "refused" / "raised": the call failed loudly, no index
          tiles,    \* set of <<position, extension>>: the tile files in the directory
          lvl,      \* the level the cascade reads next
          wtml      \* what index_rel.wtml records (NoIndex: there is none)
vars == <<cfg, stage, tiles, lvl, wtml>>

Init == /\ cfg \in {g \in Configs : Admissible(g)}
        /\ stage = "new" /\ tiles = {} /\ lvl = BaseLevel(cfg) /\ wtml = NoIndex

Mismatched == cfg.req # None /\ cfg.req # cfg.fmt
BaseExt == IF cfg.req # None THEN cfg.req
           ELSE IF BaseWrites = "pyramid" THEN cfg.fmt ELSE Own[cfg.kind]
RecExt  == IF Recorded = "pyramid" THEN cfg.fmt ELSE Own[cfg.kind]

(* tile_study_image / tile_image / sample_layer: one write_image per base position *)
TileBase ==
    /\ stage = "new"
    /\ IF Mismatched /\ Request = "refused"
       THEN stage' = "refused" /\ UNCHANGED <<tiles>>
       ELSE stage' = "base" /\ tiles' = {<<p, BaseExt>> : p \in BasePositions(cfg)}
    /\ UNCHANGED <<cfg, lvl, wtml>>

(* cascade_images, one level: a parent is written (in the pyramid's format) for every position that has a child tile *)
(* IN THE PYRAMID'S FORMAT; tiles of another extension are not seen                                                  *)
CascadeLevel ==
    /\ stage = "base" /\ lvl > 0
    /\ LET kids == {t[1] : t \in {u \in tiles : u[1][1] = lvl /\ u[2] = cfg.fmt}}
       IN tiles' = tiles \cup {<<Parent(p), cfg.fmt>> : p \in kids}
    /\ lvl' = lvl - 1
    /\ UNCHANGED <<cfg, stage, wtml>>

(* Builder.cascade of a FITS pyramid opens the root tile for DATAMIN / DATAMAX: without one it raises *)
RootMissing == cfg.fmt = FitsExt /\ <<<<0, 0, 0>>, FitsExt>> \notin tiles

WriteIndex ==
    /\ stage = "base" /\ lvl = 0
    /\ IF RootMissing
       THEN stage' = "raised" /\ UNCHANGED wtml
       ELSE /\ stage' = "indexed"
            /\ wtml' = [url |-> Template(cfg.scheme, RecExt), ftype |-> FileType(RecExt), levels |-> BaseLevel(cfg)]
    /\ UNCHANGED <<cfg, tiles, lvl>>

Next == TileBase \/ CascadeLevel \/ WriteIndex
Spec == Init /\ [][Next]_vars

---------------------------------------------------------------------------
Indexed   == stage = "indexed"
Names     == {Path(cfg.scheme, t[1], t[2]) : t \in tiles}
PopOnDisk == {t[1] : t \in tiles}

(* the property's sentences, for whatever index exists *)
TemplateAddressesFiles == Indexed => Names = {Expand(wtml.url, p) : p \in PopOnDisk}
LevelsIsDeepest == Indexed => wtml.levels = Deepest(PopOnDisk)
FileTypeIsExt   == Indexed => \A f \in Names : DotExt(f) = wtml.ftype
JudgeAgrees == Indexed =>
    LET j == Judge([url |-> wtml.url, ftype |-> wtml.ftype, levels |-> wtml.levels, files |-> Names,
                    writes |-> {<<t[1], Path(cfg.scheme, t[1], t[2])>> : t \in tiles}])
    IN j.stray = {} /\ j.wrong = {} /\ j.clash = {} /\ j.badext = {} /\ j.ftype_t /\ j.levels_ok
(* a request for the pyramid's own format (or none) is never refused *)
RefusedOnlyMismatched == stage = "refused" => Mismatched
(* the cascade stays inside the pyramid *)
TilesValid == \A t \in tiles : ValidPos(t[1]) /\ t[1][1] <= BaseLevel(cfg)
=============================================================================
