---------------------------- MODULE ImageFamilies ----------------------------
(* G05 - the families of tiny abstract images and files offered to the       *)
(* machines of ImageRoundTrip / ImageLoad / ImageLoaderHistory (INPUTS: what  *)
(* happens to them comes from ImageModes).  Every family cycles through a    *)
(* palette that holds the values the code treats specially: pure black and   *)
(* the nearest non-black colours, alpha 0 / partial / opaque, NaN (also in    *)
(* one channel only), +-inf, exact zero (the integer "undefined"), negative   *)
(* integers, integers beyond 255 / 65535 / 2^24.                              *)
EXTENDS ImageModes

Palette(m) ==
    CASE m = "RGB" -> << <<0, 0, 0>>, <<200, 100, 50>>, <<1, 0, 0>>, <<255, 255, 255>>, <<0, 0, 1>>, <<10, 20, 30>>, <<0, 255, 0>> >>
      [] m = "RGBA" -> << <<0, 0, 0, 255>>, <<200, 100, 50, 128>>, <<10, 20, 30, 0>>, <<0, 0, 0, 0>>, <<255, 255, 255, 255>>,
                          <<1, 0, 0, 7>>, <<0, 0, 0, 128>>, <<0, 0, 1, 255>> >>
      [] m = "F32" -> << <<NaN>>, <<0>>, <<3>>, <<PInf>>, <<-2>>, <<NInf>>, <<33554432>>, <<1>> >>          \* 1.5, -1.0, 2^24, 0.5
      [] m = "F64" -> << <<NaN>>, <<0>>, <<3>>, <<33554434>>, <<PInf>>, <<-5>>, <<1>> >>                    \* 2^24 + 1: not a float32
      [] m = "F16x3" -> << <<NaN, NaN, NaN>>, <<0, 0, 0>>, <<2, 4, 6>>, <<NaN, 2, 2>>, <<1025, -3, 131008>>, <<PInf, 0, NInf>>, <<1, 1, NaN>> >>
      [] m = "U8" -> << <<0>>, <<1>>, <<200>>, <<255>>, <<7>> >>
      [] m = "I16" -> << <<0>>, <<1>>, <<-5>>, <<300>>, <<32767>>, <<-32768>> >>
      [] m = "I32" -> << <<0>>, <<300>>, <<-5>>, <<70000>>, <<16777217>>, <<-70000>> >>
      [] OTHER -> << <<0>> >>
Cyc(pal, n, off) == [k \in 1..n |-> pal[((k - 1 + off) % Len(pal)) + 1]]
MkImg(m, w, h, off) == Img(m, w, h, Cyc(Palette(m), w * h, off), ClassDefaultFormat)
ImageFamily(modes, dims, offs) == {MkImg(m, d[1], d[2], off) : m \in modes, d \in dims, off \in offs}

\* stored pixel layouts of files made by OTHER software (the harness writes them with PIL / numpy / astropy directly)
FilePalette(fmt, kind) ==
    IF kind \in Modes THEN
        (IF fmt = "jpg" THEN << <<0, 0, 0>>, <<200, 100, 50>>, <<255, 255, 255>>, <<10, 20, 30>>, <<0, 255, 0>> >>      \* no near-black: JPEG would blur it
         ELSE Palette(kind))
    ELSE CASE kind = "L" -> (IF fmt = "jpg" THEN << <<0>>, <<200>>, <<255>>, <<90>> >> ELSE << <<0>>, <<1>>, <<200>>, <<255>>, <<3>> >>)
           [] kind = "LA" -> << <<0, 255>>, <<1, 0>>, <<200, 128>>, <<255, 255>>, <<0, 0>>, <<0, 128>>, <<3, 255>> >>
           [] kind = "P" -> << <<0, 0, 0>>, <<1, 0, 0>>, <<200, 100, 50>>, <<255, 255, 255>>, <<0, 0, 1>> >>
           [] kind = "I;16" -> << <<0>>, <<1>>, <<300>>, <<65535>>, <<255>>, <<256>> >>
           [] kind = "F" -> Palette("F32")
           [] kind = "u2" -> << <<0>>, <<65535>>, <<7>> >>
           [] kind = "i8" -> << <<0>>, <<5>>, <<-7>> >>
           [] kind = "f2" -> << <<0>>, <<3>>, <<NaN>> >>
           [] OTHER -> << <<0>> >>
MkFile(fmt, kind, w, h, off, icc) == [fmt |-> fmt, kind |-> kind, w |-> w, h |-> h, px |-> Cyc(FilePalette(fmt, kind), w * h, off),
                                      q |-> IF fmt = "jpg" THEN "approx" ELSE "exact", icc |-> icc]
\* <<fmt, kind, icc>>: every layout the loader can meet in the formats modelled
FileKinds == {<<"png", k, "none">> : k \in {"RGB", "RGBA", "L", "LA", "P", "I;16"}}
             \cup {<<"png", "RGB", "odd">>, <<"png", "RGBA", "odd">>, <<"png", "RGB", "srgb">>}
             \cup {<<"jpg", "RGB", "none">>, <<"jpg", "L", "none">>, <<"jpg", "RGB", "odd">>}
             \cup {<<"tiff", k, "none">> : k \in {"RGB", "RGBA", "F", "L"}} \cup {<<"tiff", "RGB", "odd">>}
             \cup {<<"npy", k, "none">> : k \in Modes \cup {"u2", "i8", "f2"}}
             \cup {<<"fits", k, "none">> : k \in (Modes \ {"F16x3"}) \cup {"u2", "i8"}}
FileFamily(kinds, dims, offs) == {MkFile(t[1], t[2], d[1], d[2], off, t[3]) : t \in kinds, d \in dims, off \in offs}
PilFromFile(f) == PilOf(f)
=============================================================================
