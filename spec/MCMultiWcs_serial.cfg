SPECIFICATION SpecSerial
CONSTANTS
 TS = 2
 Cases <- MCCases
 Caps <- MCCaps
 SlackSet <- MCSlackSome
 NWorkers = 1
 UseLock = TRUE
 ReleaseUnlinks = TRUE
INVARIANT TargetCovers
INVARIANT BoxesOK
INVARIANT ChunksOK
INVARIANT VisitsOK
INVARIANT SlackContributesNothing
INVARIANT DeviationsAreTheOnlyCauses
INVARIANT FieldsOK
INVARIANT TilesAreTilingOfMosaic
INVARIANT LastWins
INVARIANT PopulatedExact
INVARIANT CellValues
INVARIANT OrderIndependent
INVARIANT NTodoIsVisits
INVARIANT SerialNoLocks
PROPERTY NeverOverwritten
CHECK_DEADLOCK FALSE
