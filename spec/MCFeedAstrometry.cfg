\* stand-alone run of the astrometry mapping (quick case sets, theorems one by one); checks/g08.py generates the cfgs it uses
SPECIFICATION Spec
CONSTANTS
 Flavours <- MCFlavours
 FetchSet <- MCFetchSet
 DimSet <- QDims
 RefPixSet <- QRefPix
 RefValSet <- QRefVal
 ScaleSet <- QScales
 RotSet <- QRots
 FrameSet <- QFrames
 DefaultCase <- MCDefaultCase
INVARIANT UnitRotation
INVARIANT RefPixelAtRefValue
INVARIANT StepsAsStated
INVARIANT CornersPreserved
INVARIANT StepsAsBuilt
INVARIANT HandednessFlipped
INVARIANT RescalingPreservesCorners
INVARIANT SimilarityAccepted
INVARIANT AcceptedNearSquare
INVARIANT MirrorRule
INVARIANT TiledIffLarge
INVARIANT ClientRefAtRefPixel
INVARIANT ClientReadsHeaders
INVARIANT EndToEnd
INVARIANT RotationIsMinusAvm
INVARIANT FrameAndFetchIrrelevant
INVARIANT FlavoursAgree
INVARIANT FetchRule
CHECK_DEADLOCK FALSE
