-------------------------------- MODULE Mask --------------------------------
(* Maskable buffers and tile persistence (property C15).                     *)
(*                                                                           *)
(* Transcribes, from toasty/image.py:                                        *)
(*   ImageMode.make_maskable_buffer, Image.clear,                            *)
(*   Image.fill_into_maskable_buffer, Image.update_into_maskable_buffer,     *)
(*   Image.is_completely_masked, Image.save / ImageLoader.load_path          *)
(* and from toasty/pyramid.py:                                               *)
(*   PyramidIO.write_image (incl. the unlink of a fully masked tile),        *)
(*   PyramidIO.read_image (default = "none" | "masked").                     *)
(*                                                                           *)
(* Abstraction.  A tile / buffer / source image is a function from the H*W   *)
(* pixel positions (flattened row-major, 1..N) to 0..V: 0 = UNDEFINED,       *)
(* 1..V = distinct defined values (ordered: only the integer class uses the  *)
(* order).  What "undefined" is concretely belongs to the mode class:        *)
(*   RGB    source has no undefined pixel; its buffer is RGBA (alpha 0)      *)
(*   RGBA   alpha = 0 (whatever the colour channels hold)                    *)
(*   Float  NaN                         (modes F32, F64)                     *)
(*   F16x3  NaN in ANY of the three channels                                 *)
(*   Int    0, and defined values are positive (modes U8, I16, I32)          *)
(* The harness owns that projection (a per-mode value map with several       *)
(* concrete representatives of "undefined"); the model owns everything else. *)
(*                                                                           *)
(* Two machines share this module (each freezes the other's variables):      *)
(*   BufSpec   one maskable buffer under Clear / Fill / Update calls.  A call *)
(*             is one step; the sentences of C15 about buffers are predicates *)
(*             over (state, call, state after the call) and the invariant     *)
(*             EveryCallObeysC15 asserts them, in every reachable state, for  *)
(*             every call enabled there (i.e. for every step of the machine). *)
(*   FileSpec  one tile position of one PyramidIO under Write / Read calls.   *)
(*             A call is two steps (Call, Return) and the sentences are       *)
(*             action properties over the Return step, which still sees the   *)
(*             call's arguments.                                              *)
(*   PairSpec  TWO tile positions of one PyramidIO with up to two live        *)
(*             buffers (results of read_image(default = "masked") or bodies   *)
(*             of update_image contexts, possibly nested, possibly for the    *)
(*             same position) under Open / Mutate (fill, update, direct       *)
(*             assignment through the array, clear) / Close; what happens to  *)
(*             one live buffer never shows in the other, and a position is    *)
(*             persisted with exactly what was put into ITS buffer.           *)
EXTENDS Integers, Sequences, FiniteSets, SequencesExt, TLC

CONSTANTS H, W,          \* buffer / image grid
          V,             \* number of defined abstract values
          Classes,       \* mode classes explored by BufSpec
          ImgForms,      \* forms allowed for the image-side indexers (subset of {"slice", "rev"})
          SrcTiles,      \* the source images offered to Fill / Update
          PriorTiles,    \* contents of a buffer obtained by reading a tile (update_image: basis = read_image(...))
          ExploreFrom,   \* calls are explored from these contents only (Tiles: from everything reachable)
          FancySel,      \* the pointwise (integer-array) indexers offered to Fill and Update
          ListSel,       \* the rectangles written with an integer list on one buffer axis offered to Fill and Update
          Formats,       \* storage formats explored by FileSpec
          FileTiles,     \* the tiles offered to Write
          PairModes,     \* modes explored by PairSpec
          PairSrc        \* the source images PairSpec fills / updates live buffers from

AllClasses == {"RGB", "RGBA", "Float", "F16x3", "Int"}
N == H * W
Undef == 0
Pix == 0..V
Tiles == [1..N -> Pix]
AllU == TLCEval([p \in 1..N |-> Undef])
IsAllU(t) == \A p \in 1..N : t[p] = Undef
Flat(y, x) == y * W + x + 1
Larger(a, b) == IF a >= b THEN a ELSE b

ASSUME Classes \subseteq AllClasses /\ ImgForms \subseteq {"slice", "rev"}
ASSUME SrcTiles \subseteq Tiles /\ PriorTiles \subseteq Tiles /\ FileTiles \subseteq Tiles /\ PairSrc \subseteq Tiles

-----------------------------------------------------------------------------
(* Indexers.  (TLCEval is the identity; it makes TLC tabulate a function     *)
(* once instead of re-evaluating its body at every application.)             *)
(* One axis indexer is one of the two slice forms of the code     *)
(* base; it denotes a sequence of indices along an axis of length n.         *)
(*   Sl(a, b)   slice(a, b)                         a, a+1, ..., b-1         *)
(*   Rv(hi, n)  slice(hi, hi-n, -1), with the stop written None when it      *)
(*              would be -1 (study.py / multi_wcs.py: flipped tile rows)     *)
Sl(a, b) == [k |-> "slice", a |-> a, b |-> b]
Rv(hi, n) == [k |-> "rev", a |-> hi, b |-> n]
Expand(ix) == TLCEval(IF ix.k = "slice" THEN [j \in 1..(ix.b - ix.a) |-> ix.a + j - 1]
                      ELSE [j \in 1..ix.b |-> ix.a - j + 1])
AxisIdx(n, forms) ==
    {Sl(0, 0)}
    \cup (IF "slice" \in forms THEN {Sl(ab[1], ab[2]) : ab \in {c \in (0..(n - 1)) \X (1..n) : c[1] < c[2]}} ELSE {})
    \cup (IF "rev" \in forms THEN {Rv(hl[1], hl[2]) : hl \in {c \in (0..(n - 1)) \X (1..n) : c[2] <= c[1] + 1}} ELSE {})
\* a (buffer-axis, image-axis) pair must address equally many indices
AxisPairs(n) == {bi \in AxisIdx(n, {"slice", "rev"}) \X AxisIdx(n, ImgForms) : Len(Expand(bi[1])) = Len(Expand(bi[2]))}

\* A full indexer quadruple as handed to fill/update(buffer, iy_idx, ix_idx, by_idx, bx_idx):
\* k = "rect" (the outer product of rows and columns: four slices, or a list on one axis) or "fancy" (four equally long integer
\* arrays addressing point k of the buffer from point k of the image; samplers.py plate_carree_planet).
\* f records the written form of by, bx, iy, ix; the four fields are the index sequences they denote.
RectOf(y, x) == [k |-> "rect", f |-> <<y[1].k, x[1].k, y[2].k, x[2].k>>,
                 by |-> Expand(y[1]), bx |-> Expand(x[1]), iy |-> Expand(y[2]), ix |-> Expand(x[2])]
Rects == {RectOf(y, x) : y \in AxisPairs(H), x \in AxisPairs(W)}

LISTS == <<"list", "list", "list", "list">>
\* a pointwise indexer: distinct buffer points in row-major order (as np.indices(...)[ok] yields them), each fed from
\* any image point.  The harness enumerates / samples them; IsFancy is what TLC accepts.
IsFancy(A) == /\ A.k = "fancy" /\ A.f = LISTS
              /\ Len(A.by) = Len(A.bx) /\ Len(A.iy) = Len(A.by) /\ Len(A.ix) = Len(A.by)
              /\ \A j \in DOMAIN A.by : A.by[j] \in 0..(H - 1) /\ A.bx[j] \in 0..(W - 1)
                                        /\ A.iy[j] \in 0..(H - 1) /\ A.ix[j] \in 0..(W - 1)
              /\ \A i, j \in DOMAIN A.by : i < j => Flat(A.by[i], A.bx[i]) < Flat(A.by[j], A.bx[j])

\* A rectangle written with an integer list / array on ONE buffer axis and a slice on the other: numpy addresses the outer
\* product of the list and the slice, exactly as with two slices (k = "rect") - but b[by_idx, bx_idx] is then a COPY of the
\* buffer's pixels, not a view of them.  A list denotes any sequence of indices (unordered, with gaps; on the buffer side
\* without repeats: no buffer pixel is addressed twice).  The image side is written with slices, or likewise with a list on
\* one axis (then any image row / column may feed several buffer rows / columns).
\* The harness enumerates / samples them; IsListRect is what TLC accepts.
AxisSeqOK(form, s, n) == /\ \A j \in DOMAIN s : s[j] \in 0..(n - 1)
                         /\ form = "slice" => \A j \in 1..(Len(s) - 1) : s[j + 1] = s[j] + 1
                         /\ form = "rev" => Len(s) > 0 /\ \A j \in 1..(Len(s) - 1) : s[j + 1] = s[j] - 1
IsListRect(A) == /\ A.k = "rect"
                 /\ {A.f[1], A.f[2]} \in {{"list", "slice"}, {"list", "rev"}}          \* exactly one buffer axis is a list
                 /\ A.f[3] \in ImgForms \cup {"list"} /\ A.f[4] \in ImgForms \cup {"list"} /\ {A.f[3], A.f[4]} # {"list"}
                 /\ Len(A.by) = Len(A.iy) /\ Len(A.bx) = Len(A.ix)
                 /\ AxisSeqOK(A.f[1], A.by, H) /\ AxisSeqOK(A.f[2], A.bx, W)
                 /\ AxisSeqOK(A.f[3], A.iy, H) /\ AxisSeqOK(A.f[4], A.ix, W)
                 /\ \A i, j \in DOMAIN A.by : i # j => A.by[i] # A.by[j]
                 /\ \A i, j \in DOMAIN A.bx : i # j => A.bx[i] # A.bx[j]

\* What numpy pairs up: element k of b[by, bx] with element k of i[iy, ix], as <<buffer position, image position>>
Pairs(A) == TLCEval(IF A.k = "rect"
            THEN [k \in 1..(Len(A.by) * Len(A.bx)) |->
                    LET i == ((k - 1) \div Len(A.bx)) + 1
                        j == ((k - 1) % Len(A.bx)) + 1
                    IN <<Flat(A.by[i], A.bx[j]), Flat(A.iy[i], A.ix[j])>>]
            ELSE [k \in 1..Len(A.by) |-> <<Flat(A.by[k], A.bx[k]), Flat(A.iy[k], A.ix[k])>>])

RectSeq == SetToSeq(Rects)
\* fill and update accept all of them ("slice or other indexer"): the slice rectangles 1..NRect, then the list
\* rectangles, then the pointwise quadruples
IdxSeq == RectSeq \o SetToSeq(ListSel) \o SetToSeq(FancySel)
NRect == Len(RectSeq)
PairsOf == TLCEval([j \in 1..Len(IdxSeq) |-> Pairs(IdxSeq[j])])
AddrOf(pr) == {pr[k][1] : k \in DOMAIN pr}                                         \* the addressed buffer pixels
ImgPos(pr, p) == pr[CHOOSE k \in DOMAIN pr : pr[k][1] = p][2]                      \* the image pixel laid over p
\* the same two per indexer id, tabulated once (ImgOver[j][p] = 0: p is not addressed)
AddrSetOf == TLCEval([j \in 1..Len(IdxSeq) |-> TLCEval(AddrOf(PairsOf[j]))])
ImgOver == TLCEval([j \in 1..Len(IdxSeq) |-> TLCEval([p \in 1..N |-> IF p \in AddrSetOf[j] THEN ImgPos(PairsOf[j], p) ELSE 0])])

\* structural theorems about the indexer families (checked by TLC when the module is loaded)
ASSUME \A A \in FancySel : IsFancy(A)
ASSUME \A A \in ListSel : IsListRect(A)
ASSUME \A j \in 1..Len(IdxSeq) : LET A == IdxSeq[j] pr == PairsOf[j] IN
          /\ Len(A.by) = Len(A.iy) /\ Len(A.bx) = Len(A.ix)
          /\ \A k \in DOMAIN pr : pr[k][1] \in 1..N /\ pr[k][2] \in 1..N
          /\ Cardinality(AddrOf(pr)) = Len(pr)                       \* no buffer pixel is addressed twice
          /\ A.k = "rect" => AddrOf(pr) = {Flat(y, x) : y \in {A.by[i] : i \in DOMAIN A.by}, x \in {A.bx[i] : i \in DOMAIN A.bx}}

-----------------------------------------------------------------------------
(* The buffer operations, shaped like the code.                              *)
SrcOK(c, s) == c = "RGB" => \A p \in 1..N : s[p] # Undef        \* an RGB image has no undefined pixel
SrcSeqOf == TLCEval([c \in AllClasses |-> SetToSeq({s \in SrcTiles : SrcOK(c, s)})])

\* The paired elements of b[by_idx, bx_idx] and i[iy_idx, ix_idx] are processed in turn; LastOver(pr, p) is the
\* last pair that touches buffer pixel p (0: none does) - with a store, the one whose value stays
LastOver(pr, p) == LET ks == {k \in DOMAIN pr : pr[k][1] = p} IN IF ks = {} THEN 0 ELSE Max(ks)

ClearOp(c, b) == AllU                                           \* fill(0) resp. fill(nan)

\* fill:  b.fill(0 | nan) ; b[by_idx, bx_idx] = i[iy_idx, ix_idx]   (RGB: into the colour channels, alpha := 255)
FillOp(c, b, pr, s) == TLCEval([p \in 1..N |-> LET k == LastOver(pr, p) IN IF k = 0 THEN Undef ELSE s[pr[k][2]]])

\* update: per pixel of sub_b = b[by_idx, bx_idx], sub_i = i[iy_idx, ix_idx] (no indexer family addresses a buffer pixel
\* twice: structural theorem above).  With slices sub_b is a view of the buffer; with a list / integer array on an axis
\* numpy hands out a copy, and what that copy holds after the operation is what the buffer is to hold at
\* [by_idx, bx_idx]: the sentences of C15 speak of the caller's buffer, however its rectangle is written.
\*   RGB              sub_b[..., :3] = sub_i ; sub_b[..., 3] = 255
\*   RGBA             np.putmask(sub_b, alpha(sub_i) != 0, sub_i)
\*   F32 / F64        np.putmask(sub_b, ~isnan(sub_i), sub_i)
\*   F16x3            np.putmask(sub_b, ~any(isnan(sub_i), axis = 2), sub_i)
\*   U8 / I16 / I32   np.maximum(sub_b, sub_i, out = sub_b)
UpdPix(c, old, new) == IF c = "Int" THEN Larger(old, new)
                       ELSE IF c = "RGB" \/ new # Undef THEN new ELSE old
UpdateOp(c, b, pr, s) == TLCEval([p \in 1..N |-> LET k == LastOver(pr, p) IN
                                                  IF k = 0 THEN b[p] ELSE UpdPix(c, b[p], s[pr[k][2]])])

-----------------------------------------------------------------------------
(* Modes, formats, the tile file.                                            *)
Modes == {"RGB", "RGBA", "F32", "F64", "F16x3", "U8", "I16", "I32"}
ClassOf(m) == CASE m = "RGB" -> "RGB" [] m = "RGBA" -> "RGBA" [] m \in {"F32", "F64"} -> "Float"
                [] m = "F16x3" -> "F16x3" [] OTHER -> "Int"
BufMode(m) == IF m = "RGB" THEN "RGBA" ELSE m                    \* make_maskable_buffer
\* modes in which a fully undefined tile can be told from data (is_completely_masked can be TRUE)
Maskable == {"RGBA", "F32", "F64", "F16x3"}
Masked(m, t) == m \in Maskable /\ IsAllU(t)                     \* Image.is_completely_masked
\* lossless formats and the modes each can hold (measured; DESIGN 5/C15)
CanHold == [png |-> {"RGB", "RGBA"}, npy |-> Modes, fits |-> Modes \ {"F16x3"}]
TilesOf(m) == {t \in FileTiles : SrcOK(ClassOf(m), t)}

Absent == [mode |-> "none", px |-> AllU]
NoGot == [kind |-> "unset", mode |-> "none", px |-> AllU, sz |-> "tile"]
GotNone == [kind |-> "none", mode |-> "none", px |-> AllU, sz |-> "tile"]
GotFile(f) == [kind |-> "image", mode |-> f.mode, px |-> f.px, sz |-> "tile"]
\* default = "masked": a full-size (256 x 256) cleared maskable buffer of the requested mode
GotMasked(m) == [kind |-> "image", mode |-> BufMode(m), px |-> AllU, sz |-> "full"]

-----------------------------------------------------------------------------
VARIABLES cls, buf,                \* BufSpec: mode class, buffer contents
          fmt, file, got, fcall,   \* FileSpec: pyramid format, the tile file, result of the last read, pending call
          lenv,                    \* FileSpec: how OTHER ImageLoader objects of the process were last configured
          sib,                     \* FileSpec: the same position stored in ANOTHER format in the same directory
          pmode, pfile, phand      \* PairSpec (with fmt): image mode, the two tile files, the two live buffers
bvars == <<cls, buf>>
fvars == <<fmt, file, got, fcall, lenv, sib>>
pvars == <<pmode, pfile, phand>>
vars == <<cls, buf, fmt, file, got, fcall, lenv, sib, pmode, pfile, phand>>

NoF == [op |-> "none", mode |-> "none", px |-> AllU]
Positions == {1, 2}
Handles == {1, 2}
Closed == [pos |-> 0, px |-> AllU]                          \* no live buffer in this slot
BufFrozen == cls = "RGBA" /\ buf = AllU
OneFileFrozen == file = Absent /\ got = NoGot /\ fcall = NoF /\ lenv = "fresh" /\ sib = Absent
PairFrozen == pmode = "none" /\ pfile = [p \in Positions |-> Absent] /\ phand = [k \in Handles |-> Closed]
FileFrozen == fmt = "none" /\ OneFileFrozen /\ PairFrozen

\* ---- the buffer machine
\* a call: ix = index into IdxSeq, src = index into SrcSeqOf[cls]
ClearCall == [op |-> "clear", ix |-> 0, src |-> 0]
FillCall(j, k) == [op |-> "fill", ix |-> j, src |-> k]
UpdateCall(j, k) == [op |-> "update", ix |-> j, src |-> k]
\* update is offered every indexer fill is offered (the docstrings of both say "slice or other indexer")
ForEveryCall(c, P(_)) == /\ P(ClearCall)
                         /\ \A j \in 1..Len(IdxSeq), k \in 1..Len(SrcSeqOf[c]) : P(FillCall(j, k))
                         /\ \A j \in 1..Len(IdxSeq), k \in 1..Len(SrcSeqOf[c]) : P(UpdateCall(j, k))
Apply(c, b, cl) == CASE cl.op = "clear" -> ClearOp(c, b)
                     [] cl.op = "fill" -> FillOp(c, b, PairsOf[cl.ix], SrcSeqOf[c][cl.src])
                     [] cl.op = "update" -> UpdateOp(c, b, PairsOf[cl.ix], SrcSeqOf[c][cl.src])
BInit == cls \in Classes /\ buf = AllU /\ FileFrozen          \* make_maskable_buffer(...).clear()
BNext == /\ \/ buf' \in PriorTiles                              \* a buffer read from a tile file takes its place
            \/ buf \in ExploreFrom /\ buf' = Apply(cls, buf, ClearCall)
            \/ buf \in ExploreFrom /\ \E j \in 1..Len(IdxSeq), k \in 1..Len(SrcSeqOf[cls]) : buf' = Apply(cls, buf, FillCall(j, k))
            \/ buf \in ExploreFrom /\ \E j \in 1..Len(IdxSeq), k \in 1..Len(SrcSeqOf[cls]) : buf' = Apply(cls, buf, UpdateCall(j, k))
         /\ UNCHANGED cls /\ UNCHANGED fvars /\ UNCHANGED pvars
BufSpec == BInit /\ [][BNext]_vars

\* ---- the tile-file machine
\* lenv: the process also loads INPUT images through ImageLoader objects configured from command-line options
\* (ImageLoader.create_from_args); "fresh" = none yet, "all" = the last one was given every option (black-to-transparent,
\* no colourspace processing, a crop, a Photoshop layer), "dflt" = the last one was given the defaults.  Tiles are read
\* through loaders of their own (read_image makes one per call): what other loaders were told must not matter.
LoaderConfigs == {"all", "dflt"}
\* sib: a directory may hold the position in a second format as well (write_image / read_image with an explicit format =
\* argument: a pyramid being redone in another format).  The two files are two tiles: storing, masking or reading one
\* never touches the other.  The sibling is an RGBA tile (every lossless format holds RGBA), present or not.
\* (The directory's NAME is not modelled: a tile file is a function of position and format only.  The replay rotates the
\* histories over base directories whose names contain glob / regex / format metacharacters, relative and absolute.)
SibTile == [mode |-> "RGBA", px |-> TLCEval([p \in 1..N |-> IF p = 1 THEN 1 ELSE IF p = N THEN 2 ELSE Undef])]
SibOps == {"writesib", "masksib", "readsib"}
FInit == /\ fmt \in Formats /\ file = Absent /\ got = NoGot /\ fcall = NoF /\ lenv = "fresh" /\ sib = Absent
         /\ BufFrozen /\ PairFrozen
FCall == /\ fcall.op = "none"
         /\ \/ fcall' = [op |-> "readnone", mode |-> "none", px |-> AllU]
            \/ \E m \in Modes : fcall' = [op |-> "readmasked", mode |-> m, px |-> AllU]
            \/ \E m \in CanHold[fmt] : \E t \in TilesOf(m) : fcall' = [op |-> "write", mode |-> m, px |-> t]
            \/ \E o \in LoaderConfigs : fcall' = [op |-> "configure", mode |-> o, px |-> AllU]
            \/ \E o \in SibOps : fcall' = [op |-> o, mode |-> "none", px |-> AllU]
         /\ got' = NoGot /\ UNCHANGED <<fmt, file, lenv, sib>>
\* write_image: a completely masked image is not saved and the path is unlinked; anything else is saved
FileAfter(f, cl) == IF cl.op # "write" THEN f
                    ELSE IF Masked(cl.mode, cl.px) THEN Absent ELSE [mode |-> cl.mode, px |-> cl.px]
SibAfter(sb, cl) == CASE cl.op = "writesib" -> SibTile [] cl.op = "masksib" -> Absent [] OTHER -> sb
\* read_image: the loader's image, or on ENOENT None / a cleared maskable buffer
GotAfter(f, cl) == CASE cl.op \in {"write", "configure", "writesib", "masksib"} -> NoGot
                     [] cl.op = "readsib" -> IF sib = Absent THEN GotNone ELSE GotFile(sib)
                     [] cl.op = "readnone" -> IF f = Absent THEN GotNone ELSE GotFile(f)
                     [] cl.op = "readmasked" -> IF f = Absent THEN GotMasked(cl.mode) ELSE GotFile(f)
FRet == /\ fcall.op # "none"
        /\ file' = FileAfter(file, fcall) /\ got' = GotAfter(file, fcall) /\ fcall' = NoF /\ UNCHANGED fmt
        /\ lenv' = IF fcall.op = "configure" THEN fcall.mode ELSE lenv
        \* writesib stores SibTile, masksib writes an all-undefined RGBA image, both with format = the sibling format
        /\ sib' = SibAfter(sib, fcall)
FNext == (FCall \/ FRet) /\ UNCHANGED bvars /\ UNCHANGED pvars
FileSpec == FInit /\ [][FNext]_vars

\* ---- two tile positions, two live buffers, one PyramidIO
\* A live buffer is what read_image(pos, default = "masked", masked_mode = pmode) returned, or what an update_image
\* context yielded: the stored tile, or a cleared maskable buffer when the tile is missing.  It is then filled / updated
\* from source images (whole-tile indexers) and finally persisted: write_image(pos, buffer) resp. leaving the context.
\* Contexts may be nested, closed in any order, and both buffers may belong to the same position.
PairSrcSeq == SetToSeq({s \in PairSrc : SrcOK(ClassOf(pmode), s)})
WholePairs == TLCEval([i \in 1..N |-> <<i, i>>])
PInit == /\ fmt \in Formats /\ pmode \in PairModes \cap CanHold[fmt]
         /\ pfile = [p \in Positions |-> Absent] /\ phand = [k \in Handles |-> Closed]
         /\ BufFrozen /\ OneFileFrozen
Persisted(px) == IF Masked(BufMode(pmode), px) THEN Absent ELSE [mode |-> BufMode(pmode), px |-> px]   \* write_image
OpenTo(k, p) == [phand EXCEPT ![k] = [pos |-> p, px |-> IF pfile[p] = Absent THEN AllU ELSE pfile[p].px]]
\* "set": the pixels are assigned directly through the array the buffer hands out (buf.asarray()[...] = pixels), not
\* through fill / update; "clear": buf.clear()
MutTo(k, op, s) == [phand EXCEPT ![k].px = CASE op = "fill" -> FillOp(ClassOf(pmode), @, WholePairs, s)
                                             [] op = "update" -> UpdateOp(ClassOf(pmode), @, WholePairs, s)
                                             [] op = "set" -> s
                                             [] op = "clear" -> ClearOp(ClassOf(pmode), @)]
CloseFiles(k) == [pfile EXCEPT ![phand[k].pos] = Persisted(phand[k].px)]
CloseHands(k) == [phand EXCEPT ![k] = Closed]
POpen(k, p) == phand[k] = Closed /\ phand' = OpenTo(k, p) /\ UNCHANGED pfile
PMutate(k, op, s) == phand[k] # Closed /\ phand' = MutTo(k, op, s) /\ UNCHANGED pfile
PClose(k) == phand[k] # Closed /\ pfile' = CloseFiles(k) /\ phand' = CloseHands(k)
PNext == /\ \/ \E k \in Handles, p \in Positions : POpen(k, p)
            \/ \E k \in Handles, op \in {"fill", "update", "set"}, i \in 1..Len(PairSrcSeq) : PMutate(k, op, PairSrcSeq[i])
            \/ \E k \in Handles : PMutate(k, "clear", AllU)
            \/ \E k \in Handles : PClose(k)
         /\ UNCHANGED <<fmt, pmode>> /\ UNCHANGED bvars /\ UNCHANGED <<file, got, fcall, lenv, sib>>
PairSpec == PInit /\ [][PNext]_vars

-----------------------------------------------------------------------------
(* The sentences of C15.                                                     *)
BTypeOK == buf \in Tiles /\ cls \in AllClasses

\* In the sentences: c = mode class, b = buffer before the call cl, b2 = buffer after it.
Addressed(cl) == AddrSetOf[cl.ix]                              \* the buffer pixels the call addresses
SrcOver(c, cl, p) == SrcSeqOf[c][cl.src][ImgOver[cl.ix][p]]    \* the source value laid over an addressed pixel p

\* "Filling a maskable buffer from an image defines exactly the addressed rectangle and marks everything else undefined"
FillDefinesExactlyTheRectangle(c, b, cl, b2) == cl.op = "fill" =>
    /\ \A p \in 1..N : p \notin Addressed(cl) => b2[p] = Undef
    /\ \A p \in Addressed(cl) : b2[p] = SrcOver(c, cl, p)
    /\ (\A q \in 1..N : SrcSeqOf[c][cl.src][q] # Undef) => {p \in 1..N : b2[p] # Undef} = Addressed(cl)

\* "updating a buffer never changes a pixel outside the addressed rectangle or one whose source value is undefined"
UpdateLeavesTheRestAlone(c, b, cl, b2) == cl.op = "update" =>
    \A p \in 1..N : (p \notin Addressed(cl) \/ SrcOver(c, cl, p) = Undef) => b2[p] = b[p]

\* "gives every addressed pixel that was undefined the source value"
UpdateDefinesUndefinedPixels(c, b, cl, b2) == cl.op = "update" =>
    \A p \in Addressed(cl) : b[p] = Undef => b2[p] = SrcOver(c, cl, p)

\* "for colour and floating-point data lets a defined source pixel always replace the old value"
UpdateReplacesColourAndFloat(c, b, cl, b2) == (cl.op = "update" /\ c # "Int") =>
    \A p \in Addressed(cl) : SrcOver(c, cl, p) # Undef => b2[p] = SrcOver(c, cl, p)

\* "for integer data, where zero means undefined, the larger of the two non-negative values is kept"
UpdateKeepsLargerInteger(c, b, cl, b2) == (cl.op = "update" /\ c = "Int") =>
    \A p \in Addressed(cl) : b2[p] = Larger(b[p], SrcOver(c, cl, p))

\* the title: a pixel is undefined after an update only if it was undefined and received nothing defined
UndefinedStaysUndefined(c, b, cl, b2) == cl.op = "update" =>
    \A p \in 1..N : b2[p] = Undef => b[p] = Undef /\ (p \notin Addressed(cl) \/ SrcOver(c, cl, p) = Undef)

ClearUndefinesEverything(c, b, cl, b2) == cl.op = "clear" => IsAllU(b2)

C15Buffer(c, b, cl, b2) ==
    /\ FillDefinesExactlyTheRectangle(c, b, cl, b2)
    /\ UpdateLeavesTheRestAlone(c, b, cl, b2)
    /\ UpdateDefinesUndefinedPixels(c, b, cl, b2)
    /\ UpdateReplacesColourAndFloat(c, b, cl, b2)
    /\ UpdateKeepsLargerInteger(c, b, cl, b2)
    /\ UndefinedStaysUndefined(c, b, cl, b2)
    /\ ClearUndefinesEverything(c, b, cl, b2)
    /\ b2 \in Tiles

\* every step the buffer machine can take from the current state satisfies the sentences
EveryCallObeysC15 == buf \in ExploreFrom =>
    ForEveryCall(cls, LAMBDA cl : C15Buffer(cls, buf, cl, Apply(cls, buf, cl)))

FTypeOK == /\ file.mode \in Modes \cup {"none"} /\ file.px \in Tiles
           /\ file.mode # "none" => file.mode \in CanHold[fmt] /\ file.px \in TilesOf(file.mode)
           /\ fcall.op \in {"none", "write", "readnone", "readmasked", "configure"} \cup SibOps
           /\ lenv \in LoaderConfigs \cup {"fresh"} /\ sib \in {Absent, SibTile}

FReturns(o) == fcall.op = o /\ fcall'.op = "none"
FReads == FReturns("readnone") \/ FReturns("readmasked")

\* "A tile whose pixels are all undefined is never stored" (for the modes that can represent such a tile)
AllUndefinedNeverStored == file.mode \in Maskable => ~IsAllU(file.px)

\* "... and any earlier file at that position is removed" - whatever the file held before
StaleFileRemoved == [][(FReturns("write") /\ Masked(fcall.mode, fcall.px)) => file' = Absent]_vars

\* "a missing tile reads back as absent or as an all-undefined tile on request"
MissingReadsAbsentOrMasked == [][(FReads /\ file = Absent) =>
    /\ fcall.op = "readnone" => got'.kind = "none"
    /\ fcall.op = "readmasked" => got'.kind = "image" /\ got'.mode = BufMode(fcall.mode) /\ IsAllU(got'.px)]_vars

\* "every other tile reads back with identical pixels and mode in each lossless format able to hold its mode"
OtherTilesStoredAsWritten == [][(FReturns("write") /\ ~Masked(fcall.mode, fcall.px)) =>
    file' = [mode |-> fcall.mode, px |-> fcall.px]]_vars
StoredTileReadsBackIdentical == [][(FReads /\ file # Absent) =>
    got'.kind = "image" /\ got'.mode = file.mode /\ got'.px = file.px /\ got'.sz = "tile"]_vars
ReadsDoNotTouchTheFile == [][FReads => file' = file]_vars
\* ... "identical pixels and mode" whatever other loaders of the process were configured with: configuring one changes
\* no tile, and the three read-back properties above hold in every lenv (they do not mention it)
OtherLoadersDoNotMatter == [][FReturns("configure") => file' = file /\ got' = NoGot]_vars
\* the same position in another format is another tile: "any earlier file at that position is removed" and "every other
\* tile reads back with identical pixels and mode" hold for each format's file on its own
OtherFormatUntouched == [][/\ (fcall.op \in {"write", "readnone", "readmasked", "configure"} /\ fcall'.op = "none") => sib' = sib
                           /\ (fcall.op \in SibOps /\ fcall'.op = "none") => file' = file]_vars
SiblingReadsBackIdentical == [][FReturns("readsib") =>
    IF sib = Absent THEN got'.kind = "none" ELSE got'.kind = "image" /\ got'.mode = sib.mode /\ got'.px = sib.px]_vars
SiblingMaskedIsRemoved == [][FReturns("masksib") => sib' = Absent]_vars

\* ---- two positions, two live buffers
PTypeOK == /\ \A p \in Positions : pfile[p].px \in Tiles /\ pfile[p].mode \in {"none", BufMode(pmode)}
           /\ \A k \in Handles : phand[k].px \in Tiles /\ phand[k].pos \in Positions \cup {0}

\* the buffers handed out are independent: no step changes the pixels of both, and a step that opens, mutates or
\* persists one buffer leaves the other exactly as it was ("never changes a pixel outside the addressed rectangle")
LiveBuffersAreIndependent == [][phand'[1] = phand[1] \/ phand'[2] = phand[2]]_vars

\* "a missing tile reads back ... as an all-undefined tile on request" - every time, whatever else is alive
MissingTileOpensAllUndefined == [][\A k \in Handles :
    (phand[k] = Closed /\ phand'[k] # Closed /\ pfile[phand'[k].pos] = Absent) => IsAllU(phand'[k].px)]_vars

\* a position is persisted with what is in ITS buffer when that buffer is closed; no other step touches a tile file
PositionStoredFromItsOwnBuffer == [][
    /\ \A k \in Handles : (phand[k] # Closed /\ phand'[k] = Closed) =>
           /\ pfile'[phand[k].pos] = Persisted(phand[k].px)
           /\ \A p \in Positions \ {phand[k].pos} : pfile'[p] = pfile[p]
    /\ (\A k \in Handles : ~(phand[k] # Closed /\ phand'[k] = Closed)) => pfile' = pfile]_vars

PairAllUndefinedNeverStored == \A p \in Positions : pfile[p].mode \in Maskable => ~IsAllU(pfile[p].px)
=============================================================================
