--------------------------- MODULE WalkParStart ---------------------------
(* The worker-creation phase of Pyramid._walk_parallel (toasty/pyramid.py), which WalkPar.tla folds into its  *)
(* Init (there all NW workers exist and are idle), and the environment's power to REFUSE a worker.           *)
(*                                                                                                           *)
(*   for _ in range(parallel):                                                                               *)
(*       w = mp.Process(target=_mp_walk_worker, ...); w.daemon = True; w.start(); workers.append(w)          *)
(*                                                                                                           *)
(* runs after the ready queue has been seeded and before the dispatch loop.  A worker runs from the moment   *)
(* its start() has succeeded (StartOK), i.e. while later workers are still being created, and the feeder     *)
(* thread of the ready queue runs from the first put.  Process.start() is fork(): the operating system may   *)
(* refuse it (OSError EAGAIN at a process limit, ENOMEM) - environment action StartFails, for the k-th start,*)
(* k = failAt (0 = every start succeeds).                                                                    *)
(*                                                                                                           *)
(* The property (C01) admits two outcomes of a refused start:                                                *)
(*   StartFailsRaise  the walk raises.  The workers created before are told nothing (the code as it is:      *)
(*                    the OSError simply propagates) or are told to wind down (flag raised); either way they *)
(*                    go on taking what the ready queue holds, and nothing is dispatched any more;           *)
(*   StartFailsCope   the walk carries on with the workers it has got (at least one) and returns when every  *)
(*                    operation has been carried out.                                                        *)
(* In both, what WalkPar states keeps holding: a callback at most once per tile, only for operations, a      *)
(* parent only after its live children (AtMostOnce, OnlyOps, ChildrenFirst, ChildrenFirstStep), and a normal *)
(* return only when everything has been done exactly once and every worker is gone (DoneOK).  What is NOT    *)
(* an outcome: carrying the operations out a second time elsewhere while the workers created before the      *)
(* refusal are still consuming the seeds.                                                                    *)
EXTENDS WalkPar
CONSTANTS StartFaults        \* subset of 0..NW: the values failAt may take
VARIABLES failAt,            \* frozen per behaviour: which start is refused (0: none)
          born,              \* workers whose start() succeeded
          phase              \* "starting" | "running" (dispatch loop and shutdown) | "failed"
sx == <<failAt, born, phase>>
svars == <<vars, failAt, born, phase>>

SInit == /\ Init
         /\ failAt \in StartFaults
         /\ born = {}
         \* "Nothing to do" returns before any worker is created
         /\ phase = (IF ops = {} THEN "running" ELSE "starting")

NextK == Cardinality(born) + 1
StartOK == /\ phase = "starting" /\ NextK # failAt
           /\ born' = born \cup {NextK}
           /\ phase' = (IF NextK = NW THEN "running" ELSE "starting")
           /\ UNCHANGED <<vars, failAt>>
StartFailsRaise(setev) ==
    /\ phase = "starting" /\ NextK = failAt
    /\ phase' = "failed" /\ dpc' = "raised" /\ doneEv' = (doneEv \/ setev)
    /\ UNCHANGED <<frozen, djoin, readiness, rqBuf, rqPipe, rlock, dqBuf, dqPipe, dqSem, wpc, witem, started, ended, failAt, born>>
StartFailsCope ==
    /\ phase = "starting" /\ NextK = failAt /\ born # {}
    /\ phase' = "running"
    /\ wpc' = [w \in Workers |-> IF w \in born THEN wpc[w] ELSE "exited"]         \* never created: nothing to join
    /\ UNCHANGED <<frozen, dpc, djoin, readiness, rqBuf, rqPipe, rlock, dqBuf, dqPipe, dqSem, witem, doneEv, started, ended, failAt, born>>
StartFails == (\E b \in BOOLEAN : StartFailsRaise(b)) \/ StartFailsCope

\* WalkPar's actions, each in the phase / for the workers it can happen in
Keep(A) == A /\ UNCHANGED sx
Disp(A) == phase = "running" /\ Keep(A)
Wrk(w, A) == w \in born /\ Keep(A)
SNext == \/ StartOK \/ StartFails
         \/ Keep(FlushReady)
         \/ Disp(DGet) \/ Disp(DTimeout) \/ Disp(DClose) \/ Disp(DJoinThread) \/ Disp(DSetEv) \/ Disp(DJoinW)
         \/ \E w \in Workers : Wrk(w, WNext(w))
SFair == /\ WF_svars(StartOK) /\ WF_svars(StartFails) /\ WF_svars(Keep(FlushReady))
         /\ WF_svars(Disp(DGet)) /\ WF_svars(Disp(DTimeout)) /\ WF_svars(Disp(DClose)) /\ WF_svars(Disp(DJoinThread))
         /\ WF_svars(Disp(DSetEv)) /\ WF_svars(Disp(DJoinW))
         /\ \A w \in Workers : /\ WF_svars(Wrk(w, WAcquire(w))) /\ WF_svars(Wrk(w, WRecv(w))) /\ WF_svars(Wrk(w, WPollTimeout(w)))
                               /\ WF_svars(Wrk(w, WCheckDone(w))) /\ WF_svars(Wrk(w, WCbStart(w))) /\ WF_svars(Wrk(w, WCbEnd(w)))
                               /\ WF_svars(Wrk(w, WPut(w))) /\ WF_svars(Wrk(w, FlushDone(w)))
SSpec == SInit /\ [][SNext]_svars /\ SFair

\* ------------------------------------------------------------------ properties
\* (OnlyOps, AtMostOnce, ChildrenFirst, ChildrenFirstStep, DoneOK, NoLossAtSet, PopSafe, NoDoubleRelease, NeverSwallowed
\*  and Termination are WalkPar's, checked over SSpec)
BornOK == /\ born = 1..Cardinality(born)
          /\ (phase = "starting" => Cardinality(born) < NW)
          /\ \A w \in Workers \ born : wpc[w] \in {"idle", "exited"} /\ witem[w] = NoItem
\* the walk raises only because a callback failed or a worker was refused
SRaisedOnlyOnFault == dpc = "raised" => (Dead # {} \/ phase = "failed")
StartFailureSeen == phase = "failed" => failAt = Cardinality(born) + 1
\* it returns when nothing is refused and no callback fails; a refusal ends the walk one way or the other
ReturnsWhenNothingFails == (faults = {} /\ failAt = 0) => <>(dpc = "returned")
RefusalEnds == (failAt # 0 /\ ops # {}) => <>(phase = "failed" \/ dpc \in {"returned", "raised"})
=============================================================================
