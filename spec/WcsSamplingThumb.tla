------------------------- MODULE WcsSamplingThumb -------------------------
(* G11, second part - the geometry of toasty.image.Image.make_thumbnail_bitmap:                            *)
(*   refusal for the non-RGB modes; THUMB_SHAPE = (96, 45);                                                *)
(*   width / height > 96/45 :  target_width = int(round(height * 96/45)), dx = (width - target_width) // 2, *)
(*                              crop_box = (dx, 0, dx + target_width, height)                               *)
(*   otherwise              :  target_height = int(round(width / (96/45))), dy = (height - target_height) // 2, *)
(*                              crop_box = (0, dy, width, dy + target_height)                               *)
(*   thumb = aspil().crop(crop_box); thumb.thumbnail((96, 45)); thumb.convert("RGB")                       *)
(* and of PIL.Image.Image.thumbnail's size rule (preserve_aspect_ratio / round_aspect: only ever shrinks;  *)
(* the side that is not pinned is the floor or ceiling whose aspect is nearer the crop's).                 *)
(* All in integers: round() is Python's round-half-even of an exact rational (height * 32/15 is never a    *)
(* tie; width * 15/32 is one for width = 16 (mod 32), where the float quotient is exactly x.5 - checked    *)
(* by the harness for every such width it uses).  Boxes are (left, upper, right, lower), PIL's convention. *)
(*                                                                                                         *)
(* As-built deviations (each with its refuted ideal): ShrunkOnePixelShort (see ShrunkNearExact), SmallNotUpscaled (an image whose crop fits into      *)
(* 96 x 45 is returned at the crop's size, not at 96 x 45), WidthOneYieldsEmpty (width 1: target_height =  *)
(* round(0.47) = 0, an empty (1, 0) bitmap that cannot be saved as JPEG), TinyNotIdempotent,               *)
(* AlphaDroppedNotComposited (RGBA -> RGB keeps the colour stored under transparent pixels: there is no    *)
(* background).                                                                                            *)
EXTENDS Integers, Sequences, FiniteSets, TLC

CONSTANTS Sizes,        \* set of <<width, height>> explored for the RGB / RGBA modes
          SmallSizes    \* ... for the refused modes
VARIABLES w, h, mode
vars == <<w, h, mode>>

TW == 96
TH == 45
Modes == {"RGB", "RGBA", "U8", "I16", "I32", "F32", "F64", "F16x3"}
Refused(m) == m \notin {"RGB", "RGBA"}            \* raise Exception("cannot thumbnail-ify non-RGB Image")

Abs(a) == IF a < 0 THEN 0 - a ELSE a
Max(a, b) == IF a >= b THEN a ELSE b
\* Python round(a / b), b > 0: nearest, ties to even
RoundHalfEven(a, b) == LET q == (2 * a + b) \div (2 * b)
                           tie == (2 * a + b) % (2 * b) = 0
                       IN IF tie /\ q % 2 = 1 THEN q - 1 ELSE q
IsTie(a, b) == (2 * a + b) % (2 * b) = 0

\* ------------------------------------------------------------------ make_thumbnail_bitmap
Wide(ww, hh) == ww * TH > hh * TW                                   \* width / height > 96 / 45
CropBox(ww, hh) ==
    IF Wide(ww, hh)
    THEN LET tw == RoundHalfEven(hh * TW, TH)  dx == (ww - tw) \div 2 IN <<dx, 0, dx + tw, hh>>
    ELSE LET th == RoundHalfEven(ww * TH, TW)  dy == (hh - th) \div 2 IN <<0, dy, ww, dy + th>>
BoxW(b) == b[3] - b[1]
BoxH(b) == b[4] - b[2]

\* ------------------------------------------------------------------ PIL: Image.thumbnail((96, 45)) applied to a cw x ch bitmap
Ceil(a, b) == IF a % b = 0 THEN a \div b ELSE a \div b + 1
\* x = round_aspect(45 * aspect, key = |aspect - n / 45|):  |cw/ch - n/45| = |45 cw - n ch| / (45 ch)
RoundAspectX(cw, ch) ==
    LET f == (TH * cw) \div ch  cl == Ceil(TH * cw, ch)
        pick == IF Abs(TH * cw - f * ch) <= Abs(TH * cw - cl * ch) THEN f ELSE cl          \* min(): the first of equals
    IN Max(pick, 1)
\* y = round_aspect(96 / aspect, key = 0 if n = 0 else |aspect - 96 / n|):  |cw/ch - 96/n| = |cw n - 96 ch| / (ch n)
RoundAspectY(cw, ch) ==
    LET f == (TW * ch) \div cw  cl == Ceil(TW * ch, cw)
        pick == IF f = 0 THEN f ELSE IF Abs(cw * f - TW * ch) * cl <= Abs(cw * cl - TW * ch) * f THEN f ELSE cl
    IN Max(pick, 1)
AspectTie(cw, ch) ==       \* the two candidates are equally good: floating point would decide
    IF TW * ch >= TH * cw
    THEN LET f == (TH * cw) \div ch  cl == Ceil(TH * cw, ch) IN f # cl /\ Abs(TH * cw - f * ch) = Abs(TH * cw - cl * ch)
    ELSE LET f == (TW * ch) \div cw  cl == Ceil(TW * ch, cw) IN f # cl /\ f # 0 /\ Abs(cw * f - TW * ch) * cl = Abs(cw * cl - TW * ch) * f
Fits(cw, ch) == TW >= cw /\ TH >= ch
ThumbSize(cw, ch) ==
    IF Fits(cw, ch) THEN <<cw, ch>>                                  \* never enlarged (also the empty crop)
    ELSE IF TW * ch >= TH * cw THEN <<RoundAspectX(cw, ch), TH>>     \* 96 / 45 >= aspect
    ELSE <<TW, RoundAspectY(cw, ch)>>
OutSize(ww, hh) == LET b == CropBox(ww, hh) IN ThumbSize(BoxW(b), BoxH(b))
\* where the two candidates of round_aspect are exactly equally good (e.g. 191 x 90: 45 * 191/90 = 95.5) floating point
\* decides between them: both sizes are admissible, the harness accepts either
ThumbSizes(cw, ch) ==
    IF Fits(cw, ch) \/ ~AspectTie(cw, ch) THEN {ThumbSize(cw, ch)}
    ELSE IF TW * ch >= TH * cw THEN {<<Max((TH * cw) \div ch, 1), TH>>, <<Ceil(TH * cw, ch), TH>>}
    ELSE {<<TW, Max((TW * ch) \div cw, 1)>>, <<TW, Ceil(TW * ch, cw)>>}
OutSizes(ww, hh) == LET b == CropBox(ww, hh) IN ThumbSizes(BoxW(b), BoxH(b))
Resized(ww, hh) == LET b == CropBox(ww, hh) IN ~Fits(BoxW(b), BoxH(b))
\* convert("RGB"): the alpha channel is dropped, the stored colour stays
Convert(px) == <<px[1], px[2], px[3]>>

\* ------------------------------------------------------------------ state space: the size / mode table
SizesOf(m) == IF Refused(m) THEN SmallSizes ELSE Sizes
Init == mode \in Modes /\ \E s \in SizesOf(mode) : w = s[1] /\ h = s[2]
Widen == <<w + 1, h>> \in SizesOf(mode) /\ w' = w + 1 /\ UNCHANGED <<h, mode>>
Heighten == <<w, h + 1>> \in SizesOf(mode) /\ h' = h + 1 /\ UNCHANGED <<w, mode>>
Double == <<2 * w, 2 * h>> \in SizesOf(mode) /\ w' = 2 * w /\ h' = 2 * h /\ UNCHANGED mode
Remode == mode' \in Modes /\ <<w, h>> \in SizesOf(mode') /\ UNCHANGED <<w, h>>
Next == Widen \/ Heighten \/ Double \/ Remode
Spec == Init /\ [][Next]_vars

B == CropBox(w, h)
O == OutSize(w, h)
Os == OutSizes(w, h)
\* ------------------------------------------------------------------ theorems
TypeOK == w >= 1 /\ h >= 1 /\ mode \in Modes
BoxInside == 0 <= B[1] /\ B[1] <= B[3] /\ B[3] <= w /\ 0 <= B[2] /\ B[2] <= B[4] /\ B[4] <= h
FullAxis == IF Wide(w, h) THEN B[2] = 0 /\ B[4] = h ELSE B[1] = 0 /\ B[3] = w
\* centred within one pixel (the odd pixel goes to the right / bottom margin)
Centred == /\ (w - B[3]) - B[1] \in {0, 1} /\ (h - B[4]) - B[2] \in {0, 1}
\* aspect within rounding of 96 / 45 = 32 / 15:  |cw - ch * 32/15| <= 1/2 (wide)  or  |ch - cw * 15/32| <= 1/2
AspectWithinRounding == IF Wide(w, h) THEN 2 * Abs(15 * BoxW(B) - 32 * BoxH(B)) <= 15 ELSE 2 * Abs(32 * BoxH(B) - 15 * BoxW(B)) <= 32
\* an image of the thumbnail's aspect is not cropped; 96 x 45 is a fixed point
ExactAspectUncropped == (15 * w = 32 * h) => B = <<0, 0, w, h>>
Idempotent96x45 == (w = TW /\ h = TH) => (B = <<0, 0, TW, TH>> /\ O = <<TW, TH>>)
\* output: never larger than 96 x 45; exactly 96 x 45 whenever the crop had to shrink; the crop's own size otherwise
OutWithinThumb == O \in Os /\ \A o \in Os : o[1] <= TW /\ o[2] <= TH
\* (as built: ShrunkOnePixelShort - the rounded crop's aspect can differ enough from 96/45 for PIL to prefer 95 x 45 or 96 x 44,
\* e.g. 144 x 300 -> crop 144 x 68 -> 95 x 45)
ShrunkNearExact == Resized(w, h) => \A o \in Os : ((o[2] = TH /\ o[1] \in {TW - 1, TW}) \/ (o[1] = TW /\ o[2] \in {TH - 1, TH}))
SmallNotUpscaled == ~Resized(w, h) => O = <<BoxW(B), BoxH(B)>>
NonEmpty == (w >= 2) => (BoxW(B) >= 1 /\ BoxH(B) >= 1 /\ O[1] >= 1 /\ O[2] >= 1)
WidthOneYieldsEmpty == (w = 1) => (BoxH(B) = 0 /\ O = <<1, 0>>)
\* the crop box never depends on how floating point breaks a tie: height * 32/15 is never one, width * 15/32 is one exactly
\* for width = 16 (mod 32), where the float quotient is exactly x.5 (harness) and Python rounds it to even
WidthTieOnly16 == IsTie(w * TH, TW) <=> w % 32 = 16
NoHeightTie == Wide(w, h) => ~IsTie(h * TW, TH)
RefusalOK == Refused(mode) <=> mode \in {"U8", "I16", "I32", "F32", "F64", "F16x3"}
AlphaDropped == (mode = "RGBA") => \A a \in {0, 128, 255} : Convert(<<200, 100, 50, a>>) = <<200, 100, 50>>
\* action properties: widening a wide image / heightening a tall one moves the box but keeps its size and the output;
\* the mode changes nothing geometric; doubling a large image changes nothing in the output
WidenKeepsCrop == [][(Widen /\ Wide(w, h)) => (BoxW(CropBox(w', h')) = BoxW(B) /\ BoxH(CropBox(w', h')) = BoxH(B) /\ OutSize(w', h') = O)]_vars
HeightenKeepsCrop == [][(Heighten /\ ~Wide(w, h)) => (BoxW(CropBox(w', h')) = BoxW(B) /\ BoxH(CropBox(w', h')) = BoxH(B) /\ OutSize(w', h') = O)]_vars
ModeIsNotGeometry == [][Remode => (CropBox(w', h') = B /\ OutSize(w', h') = O)]_vars
DoubleKeepsOutput == [][(Double /\ Resized(w, h)) => OutSize(w', h') = O]_vars

\* ------------------------------------------------------------------ ideal statements the code does not keep (TLC refutes each)
IdealShrunkIsExact == Resized(w, h) => O = <<TW, TH>>
IdealAlways96x45 == O = <<TW, TH>>                                   \* "WWT thumbnails are 96 pixels wide and 45 pixels tall"
IdealNeverEmpty == O[1] >= 1 /\ O[2] >= 1
IdealIdempotent == (O[1] >= 1 /\ O[2] >= 1) => (CropBox(O[1], O[2]) = <<0, 0, O[1], O[2]>> /\ OutSize(O[1], O[2]) = O)
IdealTransparentIsBackground == (mode = "RGBA") => \E bg \in {<<0, 0, 0>>, <<255, 255, 255>>} : Convert(<<200, 100, 50, 0>>) = bg
Ideals == [IdealAlways96x45 |-> IdealAlways96x45, IdealShrunkIsExact |-> IdealShrunkIsExact, IdealNeverEmpty |-> IdealNeverEmpty, IdealIdempotent |-> IdealIdempotent,
           IdealTransparentIsBackground |-> IdealTransparentIsBackground]

Report == [w |-> w, h |-> h, mode |-> mode, refused |-> Refused(mode), box |-> B, out |-> O, outs |-> Os, resized |-> Resized(w, h),
           tie |-> (~Wide(w, h) /\ IsTie(w * TH, TW)), outmode |-> "RGB", ideals |-> Ideals]
=============================================================================
