SPECIFICATION AllSpec
CONSTANTS
 CmdSeq <- BuiltinCmdSeq
 Commands <- BuiltinCommands
 MaxCmds = 4
 Scripts = {}
INVARIANT TypeOK
INVARIANT NoCarryOver
INVARIANT ReadsBack
INVARIANT OrderCheckIsCentreCheck
INVARIANT NameLastWriter
INVARIANT WrittenNamesAgree
INVARIANT ThumbUrlSetBySuccess
INVARIANT ThumbOkMeansJpeg
INVARIANT RestoreGivesWritten
INVARIANT RestoredReadsBack
INVARIANT WtmlKindRule
PROPERTY RefusedChangesNothing
CHECK_DEADLOCK FALSE
