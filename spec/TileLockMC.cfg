SPECIFICATION Spec
CONSTANTS
 MaxP = 3
 MaxU = 2
 NPix = 4
 NPos = 2
 Cfgs <- MCCfgs
INVARIANT TypeOK
INVARIANT Mutex
INVARIANT NoPartialRead
INVARIANT NoLostUpdate
INVARIANT SerialPrefix
INVARIANT EveryContribution
INVARIANT LocksFreeAtEnd
INVARIANT LockHolderOK
CHECK_DEADLOCK FALSE
