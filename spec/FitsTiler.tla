----------------------------- MODULE FitsTiler -----------------------------
(* G04 (DESIGN.md section 7) - the FITS auto-tiler as a state machine over the *)
(* output directories it may touch and a SEQUENCE of calls.                   *)
(*                                                                           *)
(* Transcribes                                                                *)
(*   toasty/__init__.py     tile_fits (collection.load -> FitsTiler -> tile; returns (out_dir, builder))        *)
(*   toasty/fits_tiler.py   FitsTiler.__init__ (AUTO_DETECT -> _fits_covers_large_area), FitsTiler.tile          *)
(*                          (out_dir derivation, PyramidIO/Builder, isdir / override / reuse,                     *)
(*                          _restore_builder_from_wtml, the three routes, write_index_rel_wtml), _tile_tan,       *)
(*                          _tile_toast, _tile_hips (only as far as "Java is required")                           *)
(*   toasty/collection.py   SimpleFitsCollection._scan_hdus / _load / export_simple (which HDU, which WCS key,    *)
(*                          blankval; WHEN an impossible selection is noticed)                                    *)
(*   toasty/multi_tan.py    MultiTanProcessor.compute_global_pixelization (global size of a common TAN grid)     *)
(*   toasty/pyramid.py      guess_base_layer_level; PyramidIO.write_image (an entirely undefined tile is not stored) *)
(*   toasty/builder.py      Builder.__init__ / set_name / toast_base / cascade (DATAMIN, DATAMAX of the root tile) *)
(*   toasty/study.py        StudyTiling.apply_to_imageset (SkyImage for a one-tile study, Tan otherwise)          *)
(* Earlier specifications are reused, not restated: the study tiling of the   *)
(* global mosaic is StudyTiling!Tiling / SubTiling / Rects, the Url template  *)
(* and "deepest populated level" are Wtml!Template / FileType / Deepest.      *)
(*                                                                           *)
(* INPUT DATA (constants; the harness builds the FITS files from the same     *)
(* tables).  A file is a sequence of HDUs (numbered from 0); an image HDU has *)
(* w x h pixels made of four quadrants of constant value q = <<tl, tr, bl,    *)
(* br>> (display orientation, row 0 on top) and a list of WCS solutions.  A   *)
(* WCS solution: the grid it lies on and the integer lattice position (ox,   *)
(* oy) of the image's top-left pixel on that grid, the pixel scale in 1/1000  *)
(* arcmin, whether WWT can express it (`tan`: TAN projection with square      *)
(* pixels), CRVAL, and the sky position (unit vector * 10^4, or <<>> where    *)
(* the projection is undefined) of the pixel coordinates <<x, y>> with x, y   *)
(* in {0, w, h} - measured on the file with astropy, not with toasty.         *)
(*                                                                           *)
(* AS-BUILT DEVIATIONS kept from the code, each a named action or a named     *)
(* operator with the ideal statement as a refuted negative control:           *)
(*   ReuseServesEarlier   a call that finds its directory is served the tiles *)
(*                        of the call that built it, whatever it asked for    *)
(*   ReusePartial         ... and a default description when an earlier call  *)
(*                        failed after creating the directory                 *)
(*   FailAfterRemove / HipsUnavailable   override removes the directory       *)
(*                        BEFORE the selection / the route is known to work   *)
(*   FailLate             the TOAST route positions the data set from the     *)
(*                        last input's WCS AFTER tiling; a route whose tiles  *)
(*                        are all undefined fails in Builder.cascade          *)
(*   CornersAsBuilt       _fits_covers_large_area feeds shape[0] (rows) as x  *)
(*   StemAsBuilt          split(".gz")[0] / rfind(".") on the whole path      *)
(*   tile() returns None instead of self on the reuse path                    *)
EXTENDS Integers, Sequences, FiniteSets, TLC

CONSTANTS Files,           \* set of file ids (strings)
          PathOf,          \* [Files -> path as a sequence of characters]
          Hdus,            \* [Files -> sequence of HDU records]
          Marker,          \* the pixel value the caller may name as `blankval`
          CmdTable,        \* sequence of call records: the calls under exploration
          MaxCalls,        \* exploration bound: number of calls in a history
          OverrideClears   \* TRUE: override removes the old directory first (as built); FALSE: negative control

ST == INSTANCE StudyTiling WITH TS <- 256, MaxW <- 1, MaxH <- 1, MaxLen <- 1, SubMode <- "none", SubLens <- {}, c <- 0
W == INSTANCE Wtml

Range(s) == {s[i] : i \in DOMAIN s}
SetMax(S) == CHOOSE x \in S : \A y \in S : y <= x
SetMin(S) == CHOOSE x \in S : \A y \in S : x <= y
Pow2(n) == 2 ^ n

\* ============================================================================ characters and paths
Str(s) == s          \* strings of the model are sequences of one-character strings
TILED == <<"_", "t", "i", "l", "e", "d">>
HIPS_SFX == <<"_", "H", "i", "P", "S">>
TOAST_SFX == <<"_", "T", "O", "A", "S", "T">>
GZ == <<".", "g", "z">>
FitsExt == <<"f", "i", "t", "s">>

Occurs(s, pat, i) == i + Len(pat) - 1 <= Len(s) /\ SubSeq(s, i, i + Len(pat) - 1) = pat
\* Python str.find, 1-based, 0 = not found
Find(s, pat) == IF \E i \in 1..Len(s) : Occurs(s, pat, i)
                THEN SetMin({i \in 1..Len(s) : Occurs(s, pat, i)}) ELSE 0
\* Python str.rfind of one character, 1-based, 0 = not found
RFind(s, ch) == IF \E i \in 1..Len(s) : s[i] = ch THEN SetMax({i \in 1..Len(s) : s[i] = ch}) ELSE 0
EndsWith(s, suf) == Len(s) >= Len(suf) /\ SubSeq(s, Len(s) - Len(suf) + 1, Len(s)) = suf

\* ---- FitsTiler.tile as built:  first = path.split(".gz")[0];  out_dir = first[: first.rfind(".")] + "_tiled" (+ suffix)
BeforeGz(p) == LET i == Find(p, GZ) IN IF i = 0 THEN p ELSE SubSeq(p, 1, i - 1)
CutAtLastDot(s) == LET r == RFind(s, ".") IN
                   IF r = 0 THEN SubSeq(s, 1, Len(s) - 1)       \* rfind = -1: s[:-1] drops the last character
                   ELSE SubSeq(s, 1, r - 1)
StemAsBuilt(p) == CutAtLastDot(BeforeGz(p))
Suffix(m) == IF m = "HIPS" THEN HIPS_SFX ELSE IF m = "TOAST" THEN TOAST_SFX ELSE <<>>
Derived(p, m) == StemAsBuilt(p) \o TILED \o Suffix(m)

\* ---- what the documentation promises: "a sensible default next to the first input file"
DirPart(p) == SubSeq(p, 1, RFind(p, "/"))                       \* with the trailing slash; empty for a bare name
Base(p) == SubSeq(p, RFind(p, "/") + 1, Len(p))
StripGz(b) == IF EndsWith(b, GZ) THEN SubSeq(b, 1, Len(b) - 3) ELSE b
StripExt(b) == LET r == RFind(b, ".") IN IF r <= 1 THEN b ELSE SubSeq(b, 1, r - 1)
StemIdeal(p) == DirPart(p) \o StripExt(StripGz(Base(p)))
DerivedIdeal(p, m) == StemIdeal(p) \o TILED \o Suffix(m)
\* the paths on which the code keeps the promise: ".gz" occurs only as the final suffix, and the base name (without
\* it) has an extension
RegularPath(p) == /\ (Find(p, GZ) = 0 \/ Find(p, GZ) = Len(p) - 2)
                  /\ RFind(StripGz(Base(p)), ".") > 1
\* Builder.set_name(out_dir.split("/")[-1])
NameOf(dir) == Base(dir)

\* ============================================================================ the collection: which HDU, which WCS
Hdu(f, j) == Hdus[f][j + 1]
NHdus(f) == Len(Hdus[f])
\* _scan_hdus with hdu_index = None: `for hdu_index, hdu in enumerate(hdul): if <image>: break` (falls off with the last)
GuessHdu(f) == IF \E j \in 0..(NHdus(f) - 1) : Hdu(f, j).img
               THEN SetMin({j \in 0..(NHdus(f) - 1) : Hdu(f, j).img}) ELSE NHdus(f) - 1

Idx(c) == 1..Len(c.files)
HduAt(c, i) == CASE c.hdu.form = "one" -> c.hdu.v[1]
                 [] c.hdu.form = "each" -> c.hdu.v[i]
                 [] OTHER -> GuessHdu(c.files[i])
BadHduAt(c, i) == HduAt(c, i) >= NHdus(c.files[i])                                      \* hdul[hdu_index]: IndexError
KeysOf(h) == {h.wcs[n].key : n \in DOMAIN h.wcs}
BadKeyAt(c, i) == ~BadHduAt(c, i) /\ c.key \notin KeysOf(Hdu(c.files[i], HduAt(c, i)))  \* WCS(header, key=...): KeyError
BadHdu(c) == \E i \in Idx(c) : BadHduAt(c, i)
BadSel(c) == \E i \in Idx(c) : BadHduAt(c, i) \/ BadKeyAt(c, i)
WcsOf(h, key) == h.wcs[CHOOSE n \in DOMAIN h.wcs : h.wcs[n].key = key]
\* one selected image: where it comes from and what it is
Item(c, i) == LET f == c.files[i]
                  j == HduAt(c, i)
                  h == Hdu(f, j)
              IN [f |-> f, j |-> j, key |-> c.key, w |-> h.w, h |-> h.h, q |-> h.q, g |-> WcsOf(h, c.key)]
Sel(c) == [i \in Idx(c) |-> Item(c, i)]
SelId(c) == [i \in Idx(c) |-> <<c.files[i], HduAt(c, i), c.key>>]
\* what this model covers: every selected HDU holds an image, the images of a list lie on one grid and do not overlap
\* (mixed grids go through reproject; C09 / C20 cover overlap and the selection semantics themselves)
Disjoint(a, b) == \/ a.g.ox + a.w <= b.g.ox \/ b.g.ox + b.w <= a.g.ox
                  \/ a.g.oy + a.h <= b.g.oy \/ b.g.oy + b.h <= a.g.oy
Modelled(c) == BadSel(c) \/ LET s == Sel(c) IN
                   /\ \A i \in Idx(c) : Hdu(c.files[i], HduAt(c, i)).img
                   /\ \A i, k \in Idx(c) : i < k => (s[i].g.grid = s[k].g.grid /\ Disjoint(s[i], s[k]))

\* ============================================================================ angular extent and the tiling method
\* _fits_covers_large_area as built: pixel_to_world(x, y) is handed shape[0] (the number of ROWS) as x and shape[1] as y
CornersAsBuilt(it) == {<<0, 0>>, <<it.h, 0>>, <<it.h, it.w>>, <<0, it.w>>}
\* ... and the corners of the image
CornersTrue(it) == {<<0, 0>>, <<it.w, 0>>, <<it.w, it.h>>, <<0, it.h>>}
Vec(g, xy) == g.pts[CHOOSE n \in DOMAIN g.pts : g.pts[n].xy = xy].v
\* corners where the projection is undefined yield NaN separations, which never exceed the running maximum
SkyPts(s, C(_)) == (UNION {{Vec(s[i].g, xy) : xy \in C(s[i])} : i \in DOMAIN s}) \ {<<>>}
Dot(u, v) == u[1] * v[1] + u[2] * v[2] + u[3] * v[3]
Cos20 == 93969262                \* 10^8 * cos(20 deg): separation > 20 deg  <=>  dot product of the 10^4-vectors < Cos20
Large(s, C(_)) == LET P == SkyPts(s, C) IN \E u \in P : \E v \in P : Dot(u, v) < Cos20
AutoMethod(s) == IF Large(s, CornersAsBuilt) THEN "TOAST" ELSE "TAN"
AutoMethodIdeal(s) == IF Large(s, CornersTrue) THEN "TOAST" ELSE "TAN"
\* FitsTiler.__init__ (defined when the selection can be scanned, or the method is explicit)
Chosen(c) == IF c.method = "AUTO" THEN AutoMethod(Sel(c)) ELSE c.method

\* ============================================================================ what a route writes
NoRange == <<>>
ValRange(V) == IF V = {} THEN NoRange ELSE <<SetMin(V), SetMax(V)>>
Visible(v, blank) == ~(blank /\ v = Marker)              \* collection._load: data[data == blankval] = nan
\* the four quadrants of an image, as half-open pixel rectangles of the image (row 0 on top)
Quads(it) == LET hw == it.w \div 2
                 hh == it.h \div 2
             IN <<[x0 |-> 0, x1 |-> hw, y0 |-> 0, y1 |-> hh, v |-> it.q[1]], [x0 |-> hw, x1 |-> it.w, y0 |-> 0, y1 |-> hh, v |-> it.q[2]],
                  [x0 |-> 0, x1 |-> hw, y0 |-> hh, y1 |-> it.h, v |-> it.q[3]], [x0 |-> hw, x1 |-> it.w, y0 |-> hh, y1 |-> it.h, v |-> it.q[4]]>>
SelVals(s, blank) == {v \in {s[i].q[n] : i \in DOMAIN s, n \in 1..4} : Visible(v, blank)}

\* ---- the TAN route: multi_tan.compute_global_pixelization + tile + Builder.cascade
\* (all crx / cry arithmetic is on the integer lattice of the common grid: ox = crxmin, ox + w - 1 = crxmax)
\* StudyTiling!Tiling in closed form (TilingAgrees: the two are the same)
Depth(w, h) == SetMin({k \in 0..20 : 256 * Pow2(k) >= w /\ 256 * Pow2(k) >= h})
Tiling(w, h) == LET p == 256 * Pow2(Depth(w, h))
                IN [p2 |-> p, lev |-> Depth(w, h), x |-> [p2 |-> p, g0 |-> (p - w) \div 2, len |-> w], y |-> [p2 |-> p, g0 |-> (p - h) \div 2, len |-> h]]
TanGeom(s) == LET gx0 == SetMin({s[i].g.ox : i \in DOMAIN s})
                  gy0 == SetMin({s[i].g.oy : i \in DOMAIN s})
                  gw == SetMax({s[i].g.ox + s[i].w : i \in DOMAIN s}) - gx0
                  gh == SetMax({s[i].g.oy + s[i].h : i \in DOMAIN s}) - gy0
              IN [gx0 |-> gx0, gy0 |-> gy0, t |-> Tiling(gw, gh)]
\* the tiles of the deepest level that receive any pixel of input i (StudyTiling: compute_for_subimage, generate_populated_positions)
Touched(s, i) == LET G == TanGeom(s)
                     sub == ST!SubTiling(G.t, s[i].g.ox - G.gx0, s[i].g.oy - G.gy0, s[i].w, s[i].h)
                     r == ST!Rects(sub)
                 IN {r[n].pos : n \in DOMAIN r}
\* the values stored in leaf <<lev, tx, ty>>: every visible quadrant that overlaps the tile's 256 x 256 pixels
TanLeafVals(s, blank, tx, ty) ==
    LET G == TanGeom(s)
    IN {v \in SelVals(s, blank) :
          \E i \in DOMAIN s : \E n \in 1..4 :
              LET qd == Quads(s[i])[n]
                  X0 == G.t.x.g0 + s[i].g.ox - G.gx0
                  Y0 == G.t.y.g0 + s[i].g.oy - G.gy0
              IN /\ qd.v = v
                 /\ X0 + qd.x0 < 256 * tx + 256 /\ 256 * tx < X0 + qd.x1
                 /\ Y0 + qd.y0 < 256 * ty + 256 /\ 256 * ty < Y0 + qd.y1}
Tile(pos, vals) == [pos |-> pos, vals |-> vals]
\* a leaf all of whose pixels are undefined is not stored; every ancestor of a stored leaf is (merge.cascade_images)
Ancestors(leaves, lev) == {Tile(<<l, t.pos[2] \div Pow2(lev - l), t.pos[3] \div Pow2(lev - l)>>, {}) : t \in leaves, l \in 0..(lev - 1)}
TanTiles(s, blank) == LET lev == TanGeom(s).t.lev
                          leaves == {t \in {Tile(<<lev, tx, ty>>, TanLeafVals(s, blank, tx, ty)) : tx \in 0..(Pow2(lev) - 1), ty \in 0..(Pow2(lev) - 1)} : t.vals # {}}
                      IN leaves \cup Ancestors(leaves, lev)
TanProj(lev) == IF lev = 0 THEN "SkyImage" ELSE "Tan"         \* StudyTiling.apply_to_imageset

\* ---- the TOAST route: guess_base_layer_level, toast_base per image, cascade, apply_wcs_info(last image)
\* level = 1; size = 21.095'; while size > side: level += 1; size /= 2      (side in 1/1000 arcmin)
\* (21095 <= side * 2^(lv-1) without overflowing TLC's integers)
GuessLevel(side) == SetMin({lv \in 1..16 : (21095 + Pow2(lv - 1) - 1) \div Pow2(lv - 1) <= side})
ToastStart(s) == SetMax({1} \cup {GuessLevel(s[i].g.scale) : i \in DOMAIN s})
\* which TOAST tiles an image covers is the subject of C04 - C07: here a populated level l is the abstract tile
\* <<l, -1, -1>>, the leaf level carrying the values found on it
ToastTiles(s, blank) == LET lev == ToastStart(s)
                            V == SelVals(s, blank)
                        IN IF V = {} THEN {} ELSE {Tile(<<l, -1, -1>>, IF l = lev THEN V ELSE {}) : l \in 0..lev}

\* ============================================================================ descriptions and directories
Url == W!Template("L/Y/YX", FitsExt)
FileType == W!FileType(FitsExt)
NoDesc == [proj |-> "none", levels |-> 0, rng |-> NoRange, crval |-> <<0, 0>>, name |-> <<>>, url |-> <<>>, ftype |-> <<>>]
\* Builder(PyramidIO(out_dir, default_format = "fits")).set_name(...): what a caller gets when nothing is recorded
DefaultDesc(dir) == [proj |-> "SkyImage", levels |-> 0, rng |-> <<0, 0>>, crval |-> <<0, 0>>, name |-> NameOf(dir), url |-> Url, ftype |-> FileType]
Desc(proj, levels, rng, crval, dir) == [proj |-> proj, levels |-> levels, rng |-> rng, crval |-> crval, name |-> NameOf(dir), url |-> Url, ftype |-> FileType]

NoBy == [method |-> "none", sel |-> <<>>, blank |-> FALSE]
\* what a call asks for (ghost: recorded in the directory it builds)
Req(c) == [method |-> IF c.method = "AUTO" /\ BadSel(c) THEN "none" ELSE Chosen(c), sel |-> IF BadSel(c) THEN <<>> ELSE SelId(c), blank |-> c.blank]
\* a directory: its tile files, the layout they were produced in, the root tile's DATAMIN / DATAMAX, index_rel.wtml
\* (ghosts: `by` = what the call that completed the directory asked for; `wk` = a call of the table that wrote the tiles,
\* 0 = nobody - the representative Canon[k] of the calls that differ from k in `override` only)
Absent == [ex |-> FALSE, tiles |-> {}, lay |-> "none", rng |-> NoRange, wtml |-> FALSE, wt |-> NoDesc, by |-> NoBy, wk |-> 0]
PosOf(tiles) == {t.pos : t \in tiles}
LeafVals(tiles) == UNION {t.vals : t \in tiles}
HasRoot(d) == \E t \in d.tiles : t.pos[1] = 0

\* ============================================================================ one call, statically: Plan
\* Everything about a call that does not depend on the directories: where it goes, when it can fail, what it would write
\* into an empty directory.
\*   early   the call raises before it looks at any directory: AUTO_DETECT scans the collection in __init__;
\*           out_dir = None scans the HDU lists (export_simple) to find the first path
\*   route   what happens once the directory is absent or has been removed:
\*             "pre"   raises before any tile is written (impossible selection noticed only now; HiPS without Java;
\*                     a TAN route whose WCS WWT cannot express: compute_global_pixelization -> set_position_from_wcs)
\*             "late"  raises after the tiles were written and before index_rel.wtml is (TOAST: apply_wcs_info of the
\*                     last image; either route: no tile at all, Builder.cascade opens the root tile)
\*             "ok"
\* The part that does not depend on out_dir / override (many calls share it):
AnalyseCore(c) ==
    LET bad == BadSel(c)
        m == IF c.method = "AUTO" /\ bad THEN "none" ELSE Chosen(c)
        tiling == ~bad /\ m \in {"TAN", "TOAST"}
        s == Sel(c)
        tanok == \A i \in DOMAIN s : s[i].g.tan
        tiles == IF ~tiling THEN {} ELSE IF m = "TAN" THEN (IF tanok THEN TanTiles(s, c.blank) ELSE {}) ELSE ToastTiles(s, c.blank)
        route == IF ~tiling THEN "pre"
                 ELSE IF m = "TAN" THEN (IF ~tanok THEN "pre" ELSE IF tiles = {} THEN "late" ELSE "ok")
                 ELSE (IF tiles = {} \/ ~s[Len(s)].g.tan THEN "late" ELSE "ok")
        lev == IF ~tiling THEN 0 ELSE IF m = "TAN" THEN (IF tanok THEN TanGeom(s).t.lev ELSE 0) ELSE ToastStart(s)
    IN [badsel |-> bad, badhdu |-> BadHdu(c), method |-> m, route |-> route, tiles |-> tiles,
        lay |-> IF m = "TOAST" THEN "toast" ELSE "study", rng |-> ValRange(LeafVals(tiles)), lev |-> lev,
        proj |-> IF m = "TOAST" THEN "Toast" ELSE TanProj(lev),
        crval |-> IF route # "ok" THEN <<0, 0>> ELSE IF m = "TAN" THEN s[1].g.crval ELSE s[Len(s)].g.crval,
        req |-> Req(c), first |-> PathOf[c.files[1]],
        \* for the state-independent theorems
        selset |-> IF bad THEN {} ELSE Range(SelId(c)),
        large |-> IF bad THEN FALSE ELSE Large(s, CornersAsBuilt), largetrue |-> IF bad THEN FALSE ELSE Large(s, CornersTrue)]
\* ... and the rest
Finish(a, c) ==
    LET early == (c.method = "AUTO" /\ a.badsel) \/ (c.out = <<>> /\ a.badhdu)
        m == IF early THEN "none" ELSE a.method
        dir == IF early THEN <<>> ELSE IF c.out # <<>> THEN c.out ELSE Derived(a.first, m)
        route == IF early THEN "pre" ELSE a.route
    IN [early |-> early, method |-> m, dir |-> dir, route |-> route, tiles |-> IF early THEN {} ELSE a.tiles,
        lay |-> IF m = "TOAST" THEN "toast" ELSE "study", rng |-> IF early THEN NoRange ELSE a.rng,
        desc |-> IF route # "ok" THEN NoDesc ELSE Desc(a.proj, a.lev, a.rng, a.crval, dir),
        req |-> a.req, hips |-> (m = "HIPS"),
        badsel |-> a.badsel, selset |-> a.selset, large |-> a.large, largetrue |-> a.largetrue]
Analyse(c) == Finish(AnalyseCore(c), c)
CoreOf(c) == [files |-> c.files, hdu |-> c.hdu, key |-> c.key, blank |-> c.blank, method |-> c.method]
Cmds == DOMAIN CmdTable
\* Plan = [k \in Cmds |-> Analyse(CmdTable[k])] and DirIds = the directories it names are CONSTANTS: the MC module tabulates
\* them AFTER the data tables (TLC evaluates constant definitions in module order, the data of an extending module last),
\* sharing AnalyseCore between the calls that differ in out_dir / override only.  PlanIsAnalyse is checked on the
\* state-independent table.
CONSTANTS Plan, DirIds,
          Canon        \* [Cmds -> Cmds]: one representative per class of calls that differ in `override` only (CanonOK; like every state-independent theorem it takes a parameter, because TLC evaluates
                       \* every parameterless constant definition at start-up, before the tables of the MC module are tabulated)
CanonOK(K) == \A k \in K : /\ Canon[k] \in Cmds /\ Canon[Canon[k]] = Canon[k]
                           /\ [CmdTable[Canon[k]] EXCEPT !.override = FALSE] = [CmdTable[k] EXCEPT !.override = FALSE]
PlanIsAnalyse(K) == /\ \A k \in K : Plan[k] = Analyse(CmdTable[k])
                    /\ DirIds = {Plan[k].dir : k \in Cmds} \ {<<>>}

\* ============================================================================ one call on the directories: Apply
\* tiles written into a directory that still holds tiles (only when OverrideClears = FALSE): update_image merges
MergeTiles(old, new) == {Tile(p, UNION {t.vals : t \in {u \in old \cup new : u.pos = p}}) : p \in PosOf(old) \cup PosOf(new)}
Written(old, p, complete, k) ==
    LET tiles == MergeTiles(old.tiles, p.tiles)
    IN [ex |-> TRUE, tiles |-> tiles, lay |-> p.lay,
        rng |-> IF \E t \in tiles : t.pos[1] = 0 THEN ValRange(LeafVals(tiles)) ELSE NoRange,
        wtml |-> IF complete THEN TRUE ELSE old.wtml, wt |-> IF complete THEN p.desc ELSE old.wt,
        by |-> IF complete THEN p.req ELSE old.by, wk |-> Canon[k]]
\* a raising call returns nothing
Raised(kind, act, p) == [ok |-> FALSE, kind |-> kind, act |-> act, dir |-> p.dir, method |-> p.method, desc |-> NoDesc, self |-> FALSE]
\* which branch of FitsTiler.tile call k takes on directories D (the name of the action)
ActOf(k, D) ==
    LET p == Plan[k] IN
    IF p.early THEN "FailEarly"
    ELSE LET old == D[p.dir] IN
         IF old.ex /\ ~CmdTable[k].override
         THEN (IF ~old.wtml THEN "ReusePartial" ELSE IF old.by = p.req THEN "ReuseSame" ELSE "ReuseServesEarlier")
         ELSE CASE p.route = "pre" -> (IF p.hips THEN "HipsUnavailable" ELSE IF old.ex THEN "FailAfterRemove" ELSE "FailBeforeTiling")
                [] p.route = "late" -> "FailLate"
                [] OTHER -> (IF old.ex THEN "TileOverride" ELSE "TileFresh")
Apply(k, D) ==
    LET p == Plan[k]
        act == ActOf(k, D)
    IN IF act = "FailEarly" THEN [dirs |-> D, ret |-> Raised("early", act, p)]
       ELSE LET old == D[p.dir]
                cleared == IF old.ex /\ OverrideClears THEN Absent ELSE old       \* shutil.rmtree(out_dir)
                kind == IF old.ex THEN "override" ELSE "fresh"
            IN CASE act \in {"ReusePartial", "ReuseSame", "ReuseServesEarlier"} ->
                      \* "Tile directory already exists -- reusing": _restore_builder_from_wtml; tile() returns None here
                      [dirs |-> D,
                       ret |-> [ok |-> TRUE, kind |-> "reuse", act |-> act, dir |-> p.dir, method |-> p.method,
                                desc |-> IF old.wtml THEN old.wt ELSE DefaultDesc(p.dir), self |-> FALSE]]
                 [] act \in {"HipsUnavailable", "FailAfterRemove", "FailBeforeTiling"} ->
                      [dirs |-> [D EXCEPT ![p.dir] = cleared], ret |-> Raised(kind, act, p)]
                 [] act = "FailLate" ->
                      [dirs |-> [D EXCEPT ![p.dir] = Written(cleared, p, FALSE, k)], ret |-> Raised(kind, act, p)]
                 [] OTHER ->
                      [dirs |-> [D EXCEPT ![p.dir] = Written(cleared, p, TRUE, k)],
                       ret |-> [ok |-> TRUE, kind |-> kind, act |-> act, dir |-> p.dir, method |-> p.method, desc |-> p.desc, self |-> TRUE]]

\* ============================================================================ state machine
VARIABLES dirs,    \* DirIds -> directory
          ret,     \* what the last call handed back (or that it raised)
          last,    \* index of the last call in CmdTable (0: none yet)
          ncalls   \* number of calls so far (TLC does not tabulate constant definitions that use an operator
                   \* with a parameter or bound identifier named like a variable: keep the variables' names apart)
vars == <<dirs, ret, last, ncalls>>
NoRet == [ok |-> FALSE, kind |-> "none", act |-> "Init", dir |-> <<>>, method |-> "none", desc |-> NoDesc, self |-> FALSE]
Init == dirs = [d \in DirIds |-> Absent] /\ ret = NoRet /\ last = 0 /\ ncalls = 0

Do(k) == /\ ncalls < MaxCalls
         /\ LET r == Apply(k, dirs) IN dirs' = r.dirs /\ ret' = r.ret
         /\ last' = k /\ ncalls' = ncalls + 1
\* the named actions: the same step, told apart by what it turns out to be
Named(k, names) == ActOf(k, dirs) \in names /\ Do(k)
TileFresh(k) == Named(k, {"TileFresh"})
TileOverride(k) == Named(k, {"TileOverride"})
ReuseSame(k) == Named(k, {"ReuseSame"})
ReuseServesEarlier(k) == Named(k, {"ReuseServesEarlier"})        \* as built: the later call is served the earlier tiles
ReusePartial(k) == Named(k, {"ReusePartial"})                    \* as built: ... of a call that failed half-way
FailEarly(k) == Named(k, {"FailEarly"})
FailBeforeTiling(k) == Named(k, {"FailBeforeTiling"})
FailAfterRemove(k) == Named(k, {"FailAfterRemove"})              \* as built: the old directory is gone, nothing replaces it
HipsUnavailable(k) == Named(k, {"HipsUnavailable"})
FailLate(k) == Named(k, {"FailLate"})                            \* as built: tiles without index_rel.wtml stay behind
Call(k) == \/ TileFresh(k) \/ TileOverride(k) \/ ReuseSame(k) \/ ReuseServesEarlier(k) \/ ReusePartial(k)
           \/ FailEarly(k) \/ FailBeforeTiling(k) \/ FailAfterRemove(k) \/ HipsUnavailable(k) \/ FailLate(k)
Next == \E k \in Cmds : Call(k)
Spec == Init /\ [][Next]_vars

\* ============================================================================ theorems
\* ---- what "the description describes tiles that exist on disk" means
Describes(desc, d) == /\ d.ex /\ HasRoot(d)
                      /\ desc.levels = W!Deepest(PosOf(d.tiles))
                      /\ \A l \in 0..desc.levels : \E t \in d.tiles : t.pos[1] = l           \* a client walking down finds tiles
                      /\ desc.url = Url /\ desc.ftype = FileType                             \* every tile is a .fits file
                      /\ (desc.proj = "Toast") = (d.lay = "toast")
                      /\ (desc.proj = "SkyImage" => desc.levels = 0)
                      /\ desc.rng = d.rng /\ desc.rng = ValRange(LeafVals(d.tiles))

TypeOK == /\ \A d \in DirIds : dirs[d].ex \in BOOLEAN /\ dirs[d].wtml \in BOOLEAN /\ (dirs[d].wtml => dirs[d].ex)
          /\ ncalls \in 0..MaxCalls /\ last \in {0} \cup Cmds
\* (1) every directory that carries an index_rel.wtml is described by it: its tiles are exactly those of the call
\*     recorded as its builder, nothing older is left
CompleteIsConsistent == \A d \in DirIds : dirs[d].wtml =>
                            /\ Describes(dirs[d].wt, dirs[d])
                            /\ LET k == dirs[d].wk IN k \in Cmds /\ Plan[k].req = dirs[d].by /\ Plan[k].route = "ok" /\ Plan[k].dir = d
                                                      /\ dirs[d].tiles = Plan[k].tiles /\ dirs[d].wt = Plan[k].desc
\* (2) a directory without index_rel.wtml was left by a call that raised after creating it; it holds at most that call's tiles
PartialIsLeftover == \A d \in DirIds : (dirs[d].ex /\ ~dirs[d].wtml) =>
                         LET k == dirs[d].wk IN k \in Cmds /\ Plan[k].route = "late" /\ Plan[k].dir = d /\ dirs[d].tiles = Plan[k].tiles
\* (3) no two directories are confused: a directory's recorded name is its own
NamesAreOwn == \A d \in DirIds : dirs[d].wtml => dirs[d].wt.name = NameOf(d)

\* ---- theorems about one more call from the current state (for every call of the table)
After(k) == Apply(k, dirs)
\* (4) the returned builder describes tiles that exist on disk - as built: whenever the directory carries its WTML
ReturnedDescribesDiskAsBuilt(k) == LET r == After(k) IN
    (r.ret.ok /\ r.dirs[r.ret.dir].wtml) => /\ Describes(r.ret.desc, r.dirs[r.ret.dir])
                                            /\ r.ret.desc = r.dirs[r.ret.dir].wt
\* (5) with override (and on a fresh directory) the directory reflects the current call only
CurrentCallOnly(k) == LET r == After(k) IN
    (r.ret.ok /\ r.ret.kind \in {"fresh", "override"}) =>
        LET d == r.dirs[r.ret.dir] IN /\ d.tiles = Plan[k].tiles /\ d.by = Plan[k].req /\ d.wt = Plan[k].desc /\ d.lay = Plan[k].lay
                                      /\ r.ret.desc = Plan[k].desc
\* (6) the method is a function of the request and of the collection's (as-built) angular extent only: the same for
\*     every state of the directories; an explicit request is honoured; AUTO_DETECT picks TOAST iff the extent is large;
\*     and a call that tiles produces that method's layout
MethodIsFunction(k) == LET r == After(k)
                           c == CmdTable[k] IN
    /\ r.ret.method = Plan[k].method
    /\ (c.method # "AUTO" /\ ~Plan[k].early) => r.ret.method = c.method
    /\ (c.method = "AUTO" /\ ~Plan[k].badsel) => r.ret.method = (IF Plan[k].large THEN "TOAST" ELSE "TAN")
    /\ (r.ret.ok /\ r.ret.kind # "reuse") => ((r.ret.desc.proj = "Toast") = (r.ret.method = "TOAST"))
\* (7) repeated identical calls are idempotent: a call that returned, repeated at once, returns the same description,
\*     changes no directory, and no longer tiles anything unless override is set
Idempotent(k) == LET r == After(k)
                     r2 == Apply(k, r.dirs) IN
    r.ret.ok => /\ r2.ret.ok /\ r2.dirs = r.dirs /\ r2.ret.desc = r.ret.desc /\ r2.ret.dir = r.ret.dir
                /\ (~CmdTable[k].override => r2.ret.kind = "reuse")
\* (8) a call touches no directory but its own; a call that raises leaves its own directory untouched, absent, or
\*     without index_rel.wtml - and untouched when the call did not ask for override and the directory existed
OwnDirectoryOnly(k) == LET r == After(k) IN
    /\ \A d \in DirIds : d # Plan[k].dir => r.dirs[d] = dirs[d]
    /\ ~r.ret.ok => \/ r.dirs = dirs
                    \/ ~r.dirs[Plan[k].dir].ex
                    \/ ~r.dirs[Plan[k].dir].wtml
    /\ (~r.ret.ok /\ r.ret.kind = "early") => r.dirs = dirs
    /\ r.ret.kind = "reuse" => r.dirs = dirs
\* (9) the weaker theorem behind the documented reuse: the caller is served the description of the call that BUILT the
\*     directory - which is its own request exactly when the action is not ReuseServesEarlier / ReusePartial
ServedIsBuilder(k) == LET r == After(k) IN
    (r.ret.ok /\ r.dirs[r.ret.dir].wtml) =>
        /\ LET b == r.dirs[r.ret.dir].wk IN b \in Cmds /\ Plan[b].req = r.dirs[r.ret.dir].by /\ Plan[b].dir = r.ret.dir /\ r.ret.desc = Plan[b].desc
        /\ (r.ret.act \in {"TileFresh", "TileOverride", "ReuseSame"}) = (r.dirs[r.ret.dir].by = Plan[k].req)
\* (10) out_dir: an explicit directory is used as given; a derived one depends on the first path and the method only
OutDirRule(k) == LET c == CmdTable[k] IN
    ~Plan[k].early => /\ (c.out # <<>> => Plan[k].dir = c.out)
                      /\ (c.out = <<>> => Plan[k].dir = Derived(PathOf[c.files[1]], Plan[k].method))
StepTheorems == \A k \in Cmds : /\ ReturnedDescribesDiskAsBuilt(k) /\ CurrentCallOnly(k) /\ MethodIsFunction(k)
                                /\ Idempotent(k) /\ OwnDirectoryOnly(k) /\ ServedIsBuilder(k) /\ OutDirRule(k)

\* ---- the same, about the call that led to the current state (used with the history-carrying specs)
RetAgrees == (ret.ok /\ dirs[ret.dir].wtml) => (ret.desc = dirs[ret.dir].wt /\ Describes(ret.desc, dirs[ret.dir]))

\* ---- state-independent theorems (ASSUMEd by the MC module over K = the calls of its table: TLC evaluates them once;
\*      they take a parameter because TLC evaluates every parameterless constant definition at start-up)
\* the method does not depend on blankval, on the pixel data, on override / out_dir, or on the order of the files
MethodIgnoresTheRest(K) == \A k1, k2 \in K :
    (~Plan[k1].early /\ ~Plan[k2].early /\ CmdTable[k1].method = CmdTable[k2].method /\ ~Plan[k1].badsel /\ ~Plan[k2].badsel
       /\ Plan[k1].selset = Plan[k2].selset) => Plan[k1].method = Plan[k2].method
\* a larger collection is never "smaller": adding inputs cannot turn TOAST into TAN
AutoMonotone(K) == \A k1, k2 \in K :
    (CmdTable[k1].method = "AUTO" /\ CmdTable[k2].method = "AUTO" /\ ~Plan[k1].badsel /\ ~Plan[k2].badsel
       /\ Plan[k1].selset \subseteq Plan[k2].selset /\ Plan[k1].method = "TOAST") => Plan[k2].method = "TOAST"
\* the tiles the quadrant arithmetic populates are those StudyTiling says the inputs touch (nothing masked)
TouchedAgrees(K) == \A k \in K :
    LET c == CmdTable[k] IN
    (Plan[k].method = "TAN" /\ Plan[k].route # "pre" /\ ~BadSel(c) /\ (~c.blank \/ Marker \notin SelVals(Sel(c), FALSE))) =>
        {t.pos : t \in {u \in Plan[k].tiles : u.pos[1] = TanGeom(Sel(c)).t.lev}} = UNION {Touched(Sel(c), i) : i \in Idx(c)}
TilingAgrees(K) == \A k \in K :
    LET c == CmdTable[k] IN
    (~BadSel(c)) => LET t == TanGeom(Sel(c)).t IN t = ST!Tiling(t.x.len, t.y.len)
\* derived directories: on regular paths the code keeps the documented promise; the three methods get three
\* different directories next to the input
DerivedNames(paths) == \A p \in paths :
    /\ RegularPath(p) => \A m \in {"TAN", "TOAST", "HIPS"} : Derived(p, m) = DerivedIdeal(p, m) /\ DirPart(Derived(p, m)) = DirPart(p)
    /\ Cardinality({Derived(p, m) : m \in {"TAN", "TOAST", "HIPS"}}) = 3

\* ============================================================================ statements the code does NOT keep
\* (negative controls: TLC must refute each; the counterexample is a shortest history / a witness input)
\* the returned builder ALWAYS describes tiles that exist on disk
ReturnedDescribesDisk == ret.ok => Describes(ret.desc, dirs[ret.dir])
\* the caller is served what it asked for
ServedIsRequested == ret.ok => (last # 0 /\ dirs[ret.dir].by = Plan[last].req)
\* the projection handed back is that of the method chosen for this call
ServedProjectionIsChosen == ret.ok => ((ret.desc.proj = "Toast") = (ret.method = "TOAST"))
\* a call that raises leaves every directory as it was
FailedCallChangesNothing == \A k \in Cmds : LET r == After(k) IN ~r.ret.ok => r.dirs = dirs
\* a directory that exists can be served: it has its index_rel.wtml
NoPartialDirectory == \A d \in DirIds : dirs[d].ex => dirs[d].wtml
\* FitsTiler.tile() returns self
TileReturnsSelf == ret.ok => ret.self
\* AUTO_DETECT measures the image
AutoUsesTrueExtent(K) == \A k \in K :
    (CmdTable[k].method = "AUTO" /\ ~Plan[k].badsel) => Plan[k].method = (IF Plan[k].largetrue THEN "TOAST" ELSE "TAN")
\* the derived directory is next to the first input, named after it
DerivedNamesIdeal(paths) == \A p \in paths : \A m \in {"TAN", "TOAST", "HIPS"} : Derived(p, m) = DerivedIdeal(p, m)
=============================================================================
