------------------------------ MODULE Pipeline ------------------------------
(* The toasty ingest pipeline as a whole (growth specification G01, DESIGN.md section 7).              *)
(*                                                                                                     *)
(* The life cycle of an image id across the areas of a pipeline work directory                         *)
(*     candidates/  cache_todo/  cache_done/  rejects/  processed/  approved/  published/              *)
(* and the destination store (per image: its data files, index.wtml, skip.flag), as a state machine    *)
(* whose actions are the `toasty pipeline` commands.  Each command is the fold of its PER-IMAGE step   *)
(* over the images it visits, in the order in which it visits them; a step that raises ends the run.   *)
(*                                                                                                     *)
(* Transcribes                                                                                         *)
(*   toasty/pipeline/cli.py       refresh_impl   -> RefreshOne / RefreshRun                            *)
(*                                fetch_impl     -> FetchRun        (one explicit id per invocation)   *)
(*                                approve_impl   -> ApproveRun      (one explicit id per invocation)   *)
(*   toasty/pipeline/__init__.py  PipelineManager.process_todos -> ProcessOne / ProcessRun             *)
(*                                PipelineManager.publish       -> PublishOne / PublishRun             *)
(*                                PipelineManager.ignore_rejects-> IgnoreRun                           *)
(*   docs/cli/pipeline-process-todos.rst "to reprocess an image, move its data folder from cache_done  *)
(*                                back to cache_todo"           -> RequeueRun (a manual `mv`)          *)
(*   the image source (ImageSource.query_candidates)            -> offered, Feed, AppearRun            *)
(*                                                                                                     *)
(* publish is ONE atomic step per image here: all files, index.wtml last, then the rename.  What       *)
(* happens inside that step when it is interrupted is the subject of spec/Publish.tla (property C18);  *)
(* PublishOne is its fault-free run  Start; NextImage; (BeginPut; EndPut)*; Rename.                     *)
(*                                                                                                     *)
(* WHAT IS TRANSCRIBED FROM THE CODE (every operator named *One / *Run, Allowed with Careful = FALSE): *)
(*   - refresh asks the STORE, not the work directory: a candidate offered by the source is skipped    *)
(*     iff the store has <id>/index.wtml or <id>/skip.flag; otherwise candidates/<id> is (re)written,  *)
(*     also when the image was already fetched, processed or approved.  Nothing ever deletes           *)
(*     candidates/<id> of an actionable image: the record of a published image stays fetchable.        *)
(*   - a directory is moved with os.rename; onto an existing non-empty directory that raises, the run  *)
(*     dies there and the images later in its listing are not visited (ProcessOne, PublishOne,         *)
(*     ApproveRun).  cache directories hold the downloaded image, output directories hold tiles:       *)
(*     they are never empty.                                                                           *)
(*   - process-todos / publish / ignore-rejects list cache_todo / approved / rejects without creating  *)
(*     them: on a work directory where no earlier command created the directory they raise.            *)
(*   - RejectAtRefresh: CandidateInput.save() may raise NotActionableError (its docstring; the astropix *)
(*     source does).  "recorded" is the evident intention of refresh_impl's handler (touch rejects/<id>,*)
(*     go on with the next candidate); "aborts" is what the handler does as written                    *)
(*     (open(os.path.join(rej_dir, uniq_id, "wb")) - the mode ended up inside the path - raises        *)
(*     FileNotFoundError, the run dies).  checks/g01.py observes which one the tree implements.        *)
(*                                                                                                     *)
(* WHAT IS MY READING OF THE INTENDED WORKFLOW (docs/pipeline.rst "Pipeline operations follow this     *)
(* general scheme", docs/cli/pipeline-*.rst):                                                          *)
(*   - Careful = TRUE: the operator fetches an image once, re-queues an image only while it is in the  *)
(*     processed state ("review the results, correct any issues"), and does not approve an image that  *)
(*     is queued for (re)processing.  The documentation describes this order of work; no command       *)
(*     enforces it.                                                                                    *)
(*   - the sentences under "Sentences that need the careful operator" and the liveness sentences.      *)
(*     TLC proves them for Careful = TRUE and REFUTES them for Careful = FALSE (and liveness for       *)
(*     RejectAtRefresh = "aborts"); checks/g01.py reports the refutations as observations, each with   *)
(*     the command sequence replayed on the real code - not as violations: the documentation does not  *)
(*     promise them.                                                                                   *)
(* OBSERVATIONS on the real code that came out of this specification (checks/g01.py reports them, with the  *)
(* command sequences, as observations - none is promised otherwise by the documentation):               *)
(*   1. RejectAtRefresh = "aborts" is what the tree does: one candidate whose save() raises             *)
(*      NotActionableError makes every refresh die; the candidates after it in the feed are never       *)
(*      recorded, the image never reaches rejects/ and so never gets a skip.flag (OkPublished and       *)
(*      RejectFlagged refuted).                                                                         *)
(*   2. nothing removes candidates/<id> once the image is fetched (not even publication), and fetch does *)
(*      not look at cache_done/: a second `fetch <id>` (or `fetch "*"`) queues the image again;          *)
(*      process-todos reprocesses it and then dies in os.rename onto cache_done/<id>; once approved      *)
(*      again, publish uploads it and dies in os.rename onto published/<id> - on every later run, and    *)
(*      the images listed after it are never reached (ExclusiveCache, ExclusiveOutput, NoRework,        *)
(*      PublishedNotRequeued, NeverWedged refuted for Careful = FALSE; OkPublished refuted for a fixed  *)
(*      listing order).  The documented re-queue of an image that is already approved or published ends *)
(*      the same way.                                                                                   *)
(*   3. process-todos / publish / ignore-rejects raise FileNotFoundError while no earlier command has   *)
(*      created cache_todo/ / approved/ / rejects/ ("nothing to do" is an error on a fresh work dir).   *)
(*   4. ignore_rejects hands one BytesIO to every put_item: every skip.flag after the first of a run is *)
(*      empty (harmless: refresh only tests for existence).                                             *)
(*                                                                                                     *)
(* Not modelled: glob arguments of fetch / approve (several ids in one invocation = several            *)
(* invocations, except that a missing id ends the invocation), deleting files from rejects/ by hand,    *)
(* two commands running at the same time, crashes (Publish.tla), the Azure store.                      *)
EXTENDS Naturals, Sequences, FiniteSets, TLC

CONSTANTS Ids,              \* the image ids the source will ever offer
          Kind,             \* Kind[i]: "ok" | "nofetch" (fetch_candidate raises NotActionableError) | "nosave" (save raises it)
          Feed,             \* the order in which query_candidates() yields the ids (a sequence without repetition)
          Careful,          \* operator discipline, see above
          RejectAtRefresh,  \* "recorded" | "aborts", see above
          ListingOrder      \* <<>>: os.listdir returns the entries of cache_todo/ and approved/ in any order, anew in every
                            \* run; a permutation of Ids: always in that order (a file system lists an unchanged
                            \* directory the same way every time - the adversary of the liveness sentences)

Areas == {"candidates", "cache_todo", "cache_done", "rejects", "processed", "approved", "published"}
Items == {"data", "index", "flag"}     \* <id>/<every file but index.wtml>, <id>/index.wtml, <id>/skip.flag
NoId == "-"

Range(s) == {s[k] : k \in DOMAIN s}
Perms(S) == {s \in [1..Cardinality(S) -> S] : Range(s) = S}
ASSUME /\ Range(Feed) = Ids /\ Len(Feed) = Cardinality(Ids)
       /\ \A i \in Ids : Kind[i] \in {"ok", "nofetch", "nosave"}
       /\ Careful \in BOOLEAN /\ RejectAtRefresh \in {"recorded", "aborts"}
       /\ NoId \notin Ids
       /\ ListingOrder = <<>> \/ (Range(ListingOrder) = Ids /\ Len(ListingOrder) = Cardinality(Ids))

VARIABLES offered,   \* the ids the source yields today (it only grows: a feed of new images)
          area,      \* area[a] = the ids that have an entry in <workdir>/<a>/
          dirs,      \* the areas whose directory exists
          store      \* store[i] \subseteq Items
vars == <<offered, area, dirs, store>>
State == [offered |-> offered, area |-> area, dirs |-> dirs, store |-> store]

\* a run = the per-image step folded over the images in visiting order
Fold(Step(_, _), r0, seq) ==
    LET f[k \in 0..Len(seq)] == IF k = 0 THEN r0 ELSE Step(f[k - 1], seq[k]) IN f[Len(seq)]
Listings(S) == IF ListingOrder = <<>> THEN Perms(S) ELSE {SelectSeq(ListingOrder, LAMBDA i : i \in S)}
Begin(S) == [area |-> S.area, store |-> S.store, failed |-> FALSE]
Outcome(r) == IF r.failed THEN "error" ELSE "ok"

\* ---- refresh_impl: for cand in src.query_candidates() ------------------------------------------
RefreshOne(r, i) ==
    IF r.failed THEN r
    ELSE IF "index" \in r.store[i] THEN r                                \* check_exists(id, 'index.wtml'): already done
    ELSE IF "flag" \in r.store[i] THEN r                                 \* check_exists(id, 'skip.flag'): ignored
    ELSE IF Kind[i] # "nosave"
         THEN [r EXCEPT !.area["candidates"] = @ \cup {i}]               \* open(cand_path, 'wb'); cand.save(f)
    ELSE IF RejectAtRefresh = "recorded"                                 \* except NotActionableError: os.remove(cand_path)
         THEN [r EXCEPT !.area["candidates"] = @ \ {i}, !.area["rejects"] = @ \cup {i}]
         ELSE [r EXCEPT !.area["candidates"] = @ \ {i}, !.failed = TRUE]
RefreshRun(S) ==
    LET r == Fold(RefreshOne, Begin(S), SelectSeq(Feed, LAMBDA i : i \in S.offered))
    IN [s |-> [S EXCEPT !.area = r.area, !.dirs = @ \cup {"candidates", "rejects"}], out |-> Outcome(r)]

\* ---- fetch_impl with one explicit id -----------------------------------------------------------
FetchRun(S, i) ==
    LET d == S.dirs \cup {"candidates", "rejects"} IN
    IF i \notin S.area["candidates"]
    THEN [s |-> [S EXCEPT !.dirs = d], out |-> "error"]                   \* die('no such candidate ID')
    ELSE IF Kind[i] = "ok"                                                \* cache_todo/<id>/ created and filled
    THEN [s |-> [S EXCEPT !.dirs = d \cup {"cache_todo"}, !.area["cache_todo"] = @ \cup {i}], out |-> "ok"]
    ELSE [s |-> [S EXCEPT !.dirs = d \cup {"cache_todo"},                 \* NotActionableError: candidates/<id> -> rejects/<id>,
                          !.area["candidates"] = @ \ {i},                 \* the still empty cache directory removed
                          !.area["rejects"] = @ \cup {i}], out |-> "ok"]

\* ---- PipelineManager.process_todos: for uniq_id in os.listdir(cache_todo) ------------------------
ProcessOne(r, i) ==
    IF r.failed THEN r
    ELSE LET r1 == [r EXCEPT !.area["processed"] = @ \cup {i}]           \* src.process(...); write_index_rel_wtml()
         IN IF i \in r.area["cache_done"]
            THEN [r1 EXCEPT !.failed = TRUE]                              \* os.rename onto a non-empty directory raises
            ELSE [r1 EXCEPT !.area["cache_todo"] = @ \ {i}, !.area["cache_done"] = @ \cup {i}]
ProcessRun(S, order) ==
    LET d == S.dirs \cup {"cache_done", "processed"} IN                  \* _ensure_dir before the listing
    IF "cache_todo" \notin S.dirs
    THEN [s |-> [S EXCEPT !.dirs = d], out |-> "error"]                   \* os.listdir: FileNotFoundError
    ELSE LET r == Fold(ProcessOne, Begin(S), order)
         IN [s |-> [S EXCEPT !.area = r.area, !.dirs = d], out |-> Outcome(r)]

\* ---- approve_impl with one explicit id -----------------------------------------------------------
ApproveRun(S, i) ==
    LET d == S.dirs \cup {"processed", "approved"} IN
    IF i \notin S.area["processed"]
    THEN [s |-> [S EXCEPT !.dirs = d], out |-> "error"]                   \* die('no such processed candidate ID')
    ELSE IF i \in S.area["approved"]
    THEN [s |-> [S EXCEPT !.dirs = d], out |-> "error"]                   \* index.wtml written, os.rename raises
    ELSE [s |-> [S EXCEPT !.dirs = d, !.area["processed"] = @ \ {i}, !.area["approved"] = @ \cup {i}], out |-> "ok"]

\* ---- PipelineManager.publish: for uniq_id in os.listdir(approved) (Publish.tla without faults) ---
PublishOne(r, i) ==
    IF r.failed THEN r
    ELSE LET r1 == [r EXCEPT !.store[i] = @ \cup {"data", "index"}]      \* put_item per file, index.wtml last
         IN IF i \in r.area["published"]
            THEN [r1 EXCEPT !.failed = TRUE]                              \* os.rename onto a non-empty directory raises
            ELSE [r1 EXCEPT !.area["approved"] = @ \ {i}, !.area["published"] = @ \cup {i}]
PublishRun(S, order) ==
    LET d == S.dirs \cup {"published"} IN
    IF "approved" \notin S.dirs
    THEN [s |-> [S EXCEPT !.dirs = d], out |-> "error"]
    ELSE LET r == Fold(PublishOne, Begin(S), order)
         IN [s |-> [S EXCEPT !.area = r.area, !.store = r.store, !.dirs = d], out |-> Outcome(r)]

\* ---- PipelineManager.ignore_rejects: for uniq_id in os.listdir(rejects) ----------------------------
IgnoreRun(S) ==
    IF "rejects" \notin S.dirs
    THEN [s |-> S, out |-> "error"]
    ELSE [s |-> [S EXCEPT !.store = [i \in Ids |-> IF i \in S.area["rejects"] THEN @[i] \cup {"flag"} ELSE @[i]]],
          out |-> "ok"]

\* ---- by hand: mv cache_done/<id> cache_todo/<id>; the source publishes a new image -----------------
RequeueRun(S, i) == [s |-> [S EXCEPT !.area["cache_done"] = @ \ {i}, !.area["cache_todo"] = @ \cup {i}], out |-> "ok"]
AppearRun(S, i) == [s |-> [S EXCEPT !.offered = @ \cup {i}], out |-> "ok"]

\* ---- command lines ----------------------------------------------------------------------------------
C(c, i, o) == [cmd |-> c, id |-> i, order |-> o]
Result(S, c) ==
    CASE c.cmd = "refresh" -> RefreshRun(S)
      [] c.cmd = "fetch" -> FetchRun(S, c.id)
      [] c.cmd = "process-todos" -> ProcessRun(S, c.order)
      [] c.cmd = "approve" -> ApproveRun(S, c.id)
      [] c.cmd = "publish" -> PublishRun(S, c.order)
      [] c.cmd = "ignore-rejects" -> IgnoreRun(S)
      [] c.cmd = "requeue" -> RequeueRun(S, c.id)
      [] c.cmd = "appear" -> AppearRun(S, c.id)

\* what can be typed in state S (the two listings are chosen by the operating system)
Allowed(S) ==
         {C("refresh", NoId, <<>>), C("ignore-rejects", NoId, <<>>)}
    \cup {C("fetch", i, <<>>) : i \in {j \in Ids : Careful => j \notin S.area["cache_todo"] \cup S.area["cache_done"]}}
    \cup {C("process-todos", NoId, o) : o \in Listings(S.area["cache_todo"])}
    \cup {C("approve", i, <<>>) : i \in {j \in Ids : Careful => j \notin S.area["cache_todo"]}}
    \cup {C("publish", NoId, o) : o \in Listings(S.area["approved"])}
    \cup {C("requeue", i, <<>>) : i \in {j \in S.area["cache_done"] \ S.area["cache_todo"] :
                                          Careful => j \in S.area["processed"] \ (S.area["approved"] \cup S.area["published"])}}
    \cup {C("appear", i, <<>>) : i \in Ids \ S.offered}

Init == /\ offered = {}
        /\ area = [a \in Areas |-> {}]
        /\ dirs = {}
        /\ store = [i \in Ids |-> {}]

Do(c) == /\ c \in Allowed(State)
         /\ LET n == Result(State, c).s
            IN offered' = n.offered /\ area' = n.area /\ dirs' = n.dirs /\ store' = n.store
Next == \E c \in Allowed(State) : Do(c)

Refresh == Do(C("refresh", NoId, <<>>))
Fetch(i) == Do(C("fetch", i, <<>>))
ProcessTodos == \E o \in Listings(area["cache_todo"]) : Do(C("process-todos", NoId, o))
Approve(i) == Do(C("approve", i, <<>>))
Publish == \E o \in Listings(area["approved"]) : Do(C("publish", NoId, o))
IgnoreRejects == Do(C("ignore-rejects", NoId, <<>>))

\* the operator keeps working: every command that stays useful is eventually typed (approve: strong fairness,
\* because a careful operator may not approve while the image is queued for reprocessing).  Fairness of
\* process-todos / publish is fairness of the COMMAND, whatever listing it meets: with ListingOrder = <<>> that is
\* angelic (some listing that makes progress is eventually met), so the liveness sentences are also checked with
\* a fixed ListingOrder - the same order in every run - which is the adversary a real file system provides.
Fairness == /\ WF_vars(Refresh) /\ WF_vars(ProcessTodos) /\ WF_vars(Publish) /\ WF_vars(IgnoreRejects)
            /\ \A i \in Ids : WF_vars(Fetch(i)) /\ SF_vars(Approve(i))
Spec == Init /\ [][Next]_vars /\ Fairness

\* =====================================================================================================
\* Sentences that hold for EVERY interleaving of commands (Careful = FALSE), transcribed code
Todo == area["cache_todo"]
Done == area["cache_done"]
Output == area["processed"] \cup area["approved"] \cup area["published"]

TypeOK == /\ offered \subseteq Ids /\ dirs \subseteq Areas
          /\ area \in [Areas -> SUBSET Ids] /\ store \in [Ids -> SUBSET Items]
\* process-todos can always open the candidate record of what it finds in cache_todo
TodoHasCandidate == Todo \subseteq area["candidates"]
\* nothing is processed, approved or published that was not fetched
OutputWasFetched == Output \subseteq (Todo \cup Done)
\* "published" means: index.wtml and all files are in the store
PublishedInStore == \A i \in area["published"] : {"data", "index"} \subseteq store[i]
\* rejected images are exactly apart: never cached, never processed; an actionable image is never rejected or flagged
RejectsApart == /\ \A i \in area["rejects"] : Kind[i] # "ok"
                /\ area["rejects"] \cap (Todo \cup Done \cup Output) = {}
OnlyRejectsFlagged == \A i \in Ids : "flag" \in store[i] => (i \in area["rejects"] /\ Kind[i] # "ok")
OnlyActionablePublished == \A i \in Ids : store[i] \cap {"data", "index"} # {} => Kind[i] = "ok"
DirsExist == \A a \in Areas : area[a] # {} => a \in dirs
OnlyOffered == \A a \in Areas : area[a] \subseteq offered

\* how an id moves (action property): nothing is approved before it was processed, published before it was approved,
\* processed without being queued; the store only grows; index.wtml comes from approved/, skip.flag from rejects/;
\* NoComeback: refresh never records an image as a candidate whose index.wtml or skip.flag is in the store
FlowStep == \A i \in Ids :
    /\ (i \in area'["approved"] /\ i \notin area["approved"]) => (i \in area["processed"] /\ i \notin area'["processed"])
    /\ (i \in area'["published"] /\ i \notin area["published"])
          => (i \in area["approved"] /\ i \notin area'["approved"] /\ {"data", "index"} \subseteq store'[i])
    /\ (i \in area'["processed"] /\ i \notin area["processed"]) => i \in area["cache_todo"]
    /\ (i \in area'["cache_todo"] /\ i \notin area["cache_todo"]) => (i \in area["candidates"] \/ i \in area["cache_done"])
    /\ (i \in area'["candidates"] /\ i \notin area["candidates"]) => store[i] \cap {"index", "flag"} = {}
    /\ ("index" \in store'[i] /\ "index" \notin store[i]) => i \in area["approved"]
    /\ ("flag" \in store'[i] /\ "flag" \notin store[i]) => i \in area["rejects"]
    /\ store[i] \subseteq store'[i]
    /\ (i \in area["published"] => i \in area'["published"])
Flow == [][FlowStep]_vars

\* re-running refresh / process-todos / publish / ignore-rejects right after a run that succeeded changes nothing
Relisted(c, S) == IF c.cmd = "process-todos" THEN {C(c.cmd, NoId, o) : o \in Listings(S.area["cache_todo"])}
                  ELSE IF c.cmd = "publish" THEN {C(c.cmd, NoId, o) : o \in Listings(S.area["approved"])}
                  ELSE {c}
Idempotent == \A c \in Allowed(State) :
    (c.cmd \in {"refresh", "process-todos", "publish", "ignore-rejects"} /\ Result(State, c).out = "ok")
        => LET S1 == Result(State, c).s
           IN \A c2 \in Relisted(c, S1) : Result(S1, c2).s = S1 /\ Result(S1, c2).out = "ok"

\* =====================================================================================================
\* Sentences that need the careful operator (my reading of the intended workflow; refuted for Careful = FALSE)
\* an id is never in two exclusive areas at once
ExclusiveCache == Todo \cap Done = {}
ExclusiveOutput == /\ area["processed"] \cap area["approved"] = {}
                   /\ area["processed"] \cap area["published"] = {}
                   /\ area["approved"] \cap area["published"] = {}
\* no image is processed again once it is approved / published; no published image is fetched again
NoRework == (area["approved"] \cup area["published"]) \cap Todo = {}
PublishedNotRequeued == \A i \in Ids : "index" \in store[i] => i \notin Todo
\* process-todos and publish never die once their directory exists
NeverWedged == \A c \in Allowed(State) :
    /\ (c.cmd = "process-todos" /\ "cache_todo" \in dirs) => Result(State, c).out = "ok"
    /\ (c.cmd = "publish" /\ "approved" \in dirs) => Result(State, c).out = "ok"

\* liveness: every actionable image the source offers gets published, every other one gets its skip.flag
OkPublished == \A i \in Ids : Kind[i] = "ok" => ((i \in offered) ~> (i \in area["published"]))
RejectFlagged == \A i \in Ids : Kind[i] # "ok" => ((i \in offered) ~> ("flag" \in store[i]))
\* (and it stays so: FlowStep says that published/ and the store only grow)
=============================================================================
