----------------------------- MODULE ToastQuery -----------------------------
(* The query of a point lookup as the caller writes it.                       *)
(*                                                                            *)
(* toast_tile_for_point / toast_pixel_for_point (toasty/toast.py) take the    *)
(* point as two "numbers".  The point asked about is the exact real value of  *)
(* those numbers, whatever number format they are written in (a Python int,   *)
(* a numpy integer or floating scalar of any width, a 0-d array ...), and it  *)
(* need not be a lattice point.  This module adds to ToastLookup              *)
(*  - the points that are no lattice points: such a point lies strictly       *)
(*    inside exactly one unit square u of the finest level (Units), and at    *)
(*    every depth exactly one tile holds it (T_UnitCell, T_InteriorPoint:     *)
(*    the closed form used for lookups deeper than TLC's lattice);            *)
(*  - the format of the query as a variable of the lookup machine: a format   *)
(*    is named by the refinement g of its grid (its numerals are the lattice  *)
(*    points whose coordinates are multiples of Step(g): a narrow format has  *)
(*    a coarse grid), a numeral denotes itself exactly, and what the lookup   *)
(*    owes (LookupHolds, NeverStuck, LookupNested of ToastLookup) speaks of   *)
(*    the point denoted alone - at every depth, also at depths finer than     *)
(*    the grid of the format the point happened to be written in.             *)
EXTENDS ToastLookup

\* ---------------------------------------------------------------- points strictly inside a finest cell
\* the tile at pos holds the unit square u (by arithmetic on the position; T_CellPos ties it to the tile's own corners)
InCellPos(u, pos) == LET s == Step(pos[1]) IN /\ pos[2] * s <= u[1] /\ u[1] < (pos[2] + 1) * s
                                              /\ pos[3] * s <= u[2] /\ u[2] < (pos[3] + 1) * s
T_CellPos == \A d \in 1..MaxDepth : LET ts == {TileAt(p) : p \in Positions(d)} IN
               \A t \in ts : \A u \in Units : InCell(u, t) <=> InCellPos(u, t.pos)
UnitHolders(u, d) == {pos \in Positions(d) : InCellPos(u, pos)}
UnitCell(u, d) == <<d, u[1] \div Step(d), u[2] \div Step(d)>>
T_UnitCell == \A u \in Units : \A d \in 1..MaxDepth : UnitHolders(u, d) = {UnitCell(u, d)}
T_UnitNested == \A u \in Units : \A d \in 1..MaxDepth : d > 1 =>
                  LET c == UnitCell(u, d)  a == UnitCell(u, d - 1) IN c[2] \div 2 = a[2] /\ c[3] \div 2 = a[3]
\* a lattice point with two odd coordinates lies strictly inside a cell of every depth < R: one tile holds it, the unit cell's
T_InteriorPoint == \A p \in Lattice : (p[1] % 2 = 1 /\ p[2] % 2 = 1) =>
                     \A d \in 1..MaxDepth : d < R => Admissible(p, d) = {UnitCell(p, d)}

\* ---------------------------------------------------------------- the format the query is written in
Formats == 0..R
Numerals(g) == {p \in Lattice : p[1] % Step(g) = 0 /\ p[2] % Step(g) = 0}
\* the answer owed to a query: a function of the point denoted, not of the format
Answer(g, p, d) == Admissible(p, d)
T_SpellingFree == \A g \in Formats : \A h \in Formats : g < h =>
                    \A p \in Numerals(g) \cap Numerals(h) : \A d \in 1..MaxDepth : Answer(g, p, d) = Answer(h, p, d)
\* every format can write points that the finer formats can write too (so the harness can spell one point several ways)
T_FormatsNest == \A g \in Formats : \A h \in Formats : g <= h => Numerals(g) \subseteq Numerals(h)

VARIABLE fmt
qvars == <<qp, cur, fmt>>
QInit == LInit /\ fmt \in Formats /\ qp \in Numerals(fmt)
QNext == Descend /\ UNCHANGED fmt
QSpec == QInit /\ [][QNext]_qvars
\* checked on QSpec: LookupHolds, NeverStuck, LookupNested of ToastLookup - none of them mentions fmt, and they hold at every depth,
\* also at the depths cur[1] > fmt where the grid of the format the point was written in no longer separates the tiles
=============================================================================
