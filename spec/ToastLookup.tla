----------------------------- MODULE ToastLookup -----------------------------
(* toast_tile_for_point as a state machine on the lattice of ToastLattice.tla. *)
EXTENDS ToastLattice
\* ---------------------------------------------------------------- point lookup as a state machine (toast_tile_for_point)
\* state: the query point and the tile reached so far; Descend moves to a child whose closed cell holds the point
\* (the code scores the four children by half-space tests and takes one with score 0: any child holding the point)
VARIABLES qp, cur
lvars == <<qp, cur>>
LInit == qp \in Lattice /\ cur \in Admissible(qp, 1)
Descend == /\ cur[1] < MaxDepth
           /\ \E i \in 1..4 : LET ch == Div4(TileAt(cur))[i] IN Holds(qp, ch) /\ cur' = ch.pos
           /\ UNCHANGED qp
LSpec == LInit /\ [][Descend]_lvars
\* the tile returned at every depth holds the point; results for increasing depths are nested; the descent never gets stuck
LookupHolds == cur \in Admissible(qp, cur[1])
LookupNested == [][cur'[1] = cur[1] + 1 /\ cur'[2] \div 2 = cur[2] /\ cur'[3] \div 2 = cur[3]]_lvars
NeverStuck == cur[1] < MaxDepth => \E i \in 1..4 : Holds(qp, Div4(TileAt(cur))[i])
=============================================================================
