\* Stand-alone run of the FITS auto-tiler machine on the instance of FitsTilerData.tla:
\*   tlc -config MCFitsTiler.cfg MCFitsTiler.tla
\* every history of at most 3 calls of the table, the state invariants in every state and the theorems about one more
\* call (StepTheorems) from every history of fewer than 2 calls.  (checks/g04.py generates its own cfgs.)
SPECIFICATION AllSpec
CONSTANTS
 MaxCalls = 3
 OverrideClears = TRUE
 StepBound = 2
INVARIANT TypeOK
INVARIANT CompleteIsConsistent
INVARIANT PartialIsLeftover
INVARIANT NamesAreOwn
INVARIANT StepTheoremsBounded
VIEW ViewAll
CHECK_DEADLOCK FALSE
