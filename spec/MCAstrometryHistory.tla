------------------------ MODULE MCAstrometryHistory ------------------------
(* Wrapper of AstrometryHistory.tla for checks/g09.py.  The command alphabet is a sequence CmdSeq (generated: *)
(* inputs only); Emit prints, for every state, the indices of the commands issued so far, the outcome of the  *)
(* last one and the expected Builder, directory and restored Builder: the harness replays the history on a    *)
(* real Builder and compares after every command.                                                            *)
EXTENDS AstrometryHistory, Json

CONSTANT CmdSeq            \* the command alphabet, numbered
MCCommands == {CmdSeq[i] : i \in DOMAIN CmdSeq}
IdxOf(cmd) == CHOOSE i \in DOMAIN CmdSeq : CmdSeq[i] = cmd
Ideals == [OrderAlwaysDetected |-> OrderAlwaysDetected, DescriptionSurvivesPrepare |-> DescriptionSurvivesPrepare,
           NoCarryOverAtAll |-> NoCarryOverAtAll, PlaceNameSynced |-> PlaceNameSynced, ThumbUrlValid |-> ThumbUrlValid,
           RestoreIsIdentity |-> RestoreIsIdentity]
Report == [hist |-> [i \in DOMAIN hist |-> IdxOf(hist[i])], act |-> act, bld |-> bld, dsk |-> dsk, rst |-> rst,
           rfresh |-> gh.rfresh, wfresh |-> gh.wfresh, ideal |-> Ideals]
Emit == PrintT(<<"H", ToJson(Report)>>)
=============================================================================
