------------------------------ MODULE ReduceEnv ------------------------------
(* The reduction of Reduce.tla placed in its ENVIRONMENT: two things around a  *)
(* reduction that the caller / the deployment chooses, that the property does  *)
(* not mention, and on which therefore nothing may depend:                     *)
(*                                                                             *)
(*   pol  what the caller's walk callback RETURNS.  Pyramid.walk documents the *)
(*        callback as function(Pos) -> None; _walk_serial and _mp_walk_worker  *)
(*        call it as a statement.  A policy gives, for every position the      *)
(*        callback is called for, the class of the value it hands back.        *)
(*   opt  whether the interpreter evaluates `assert` statements (python -O /   *)
(*        PYTHONOPTIMIZE strip them).  PyramidReductionIterator.__next__ /     *)
(*        set_data do their bookkeeping (_ensure_levels, the one pop per tile, *)
(*        the slot store) between asserts.  In Reduce.tla the asserts are the  *)
(*        ghost variable `ok`: written, never read.                            *)
(*                                                                             *)
(* env = <<pol, opt>> is frozen in Init and read by no action: the history     *)
(* `out`, the callbacks (OpsSeen, LeavesSeen) and the three counts (final) are *)
(* those of Reduce.tla under every environment.  TLC checks AssertsHold /      *)
(* DoneOK / StackShape for every (configuration, environment) explored and     *)
(* emits, with the terminal history, the value class the callback is to return *)
(* at each item; the harness replays pol in the real serial and two-worker     *)
(* walks and opt = TRUE in an interpreter started with -O.                     *)
EXTENDS Reduce
CONSTANTS EnvOf(_, _, _)     \* (kind, acc, apex) -> the set of <<pol, opt>> this configuration is explored under

VARIABLE env
varsEnv == <<vars, env>>

Policies == {"none", "falsy", "truthy", "mixed", "array", "big"}
Classes == {"none", "falsy", "truthy", "array", "big"}
\* the class of value returned for position p: "falsy" = false in a boolean context but not None (0, False, "", [],
\* numpy zeros), "truthy" = true in a boolean context, "array" = a value with no truth value at all (numpy array of
\* several elements), "big" = a value larger than a pipe buffer
RetClass(pol, p) == IF pol = "mixed" THEN (IF (p[2] + p[3]) % 2 = 0 THEN "truthy" ELSE "falsy") ELSE pol

InitEnv == Init /\ env \in EnvOf(kind, acc, apex)
NextEnv == Next /\ UNCHANGED env
SpecEnv == InitEnv /\ [][NextEnv]_varsEnv

EnvTypeOK == env[1] \in Policies /\ env[2] \in BOOLEAN
\* what the callback returns at each item of the history that gets one (walk: live non-leaf tiles; visit_leaves: leaves)
Rets == [i \in DOMAIN out |-> IF ~out[i].val.wk THEN "none" ELSE RetClass(env[1], out[i].pos)]
\* the value the walk's client hands to set_data is the liveness of the children, whatever was returned
EnvBlind == \A i \in DOMAIN out : Rets[i] \in Classes /\ (out[i].val.wk = (out[i].leaf \/ \E k \in Kids(out[i].pos) : k \in live))
=============================================================================
