---------------------------- MODULE LeafDelivery ----------------------------
(* The tiles that ARRIVE at the leaf callback of a parallel visit of a        *)
(* filtered TOAST pyramid (C05: the pixel grid of the tile that arrives).     *)
(*                                                                            *)
(* Pyramid.new_toast_filtered(depth, filter)[.subpyramid(apex)]               *)
(*        .visit_leaves(callback, parallel = NW > 1)                          *)
(* walks generate_tiles_filtered (toast.py: _postfix_corner with the tile     *)
(* filter; Pyramid.subpyramid adds the position filter of                     *)
(* _make_position_filter) through the reduction iterator and hands every      *)
(* leaf (pos.n = depth) to a bounded multiprocessing.Queue as (pos, tile);    *)
(* the queue's feeder thread serialises an item some time AFTER put() has     *)
(* returned - the generator may have moved on by 0 .. Cap leaves by then -    *)
(* and a worker process computes the tile's pixel grid from what it receives. *)
(*                                                                            *)
(* Part 1 (constant level): the filtered post-order generator, transcribed,   *)
(* delivers exactly the positions all of whose ancestors pass the filter,     *)
(* each once, each as the canonical lattice tile of its position, and         *)
(* Sub(K) of each is the centres K levels deeper (T_LeafTiles).               *)
(* Part 2 (state machine): generator advance / put / feeder flush / worker    *)
(* get over values.  What arrives is the tile as it was when it was           *)
(* generated, whatever the feeder's lag: ArrivedIsItsTile,                    *)
(* ArrivedGridIsCentres.  `lag` records, per item in delivery order, how many *)
(* leaves the generator had produced beyond the item when the feeder          *)
(* serialised it; the reachable lag vectors are the schedule classes the      *)
(* conformance harness drives the real code through.                          *)
EXTENDS ToastLattice
CONSTANTS Configs,   \* sequence of [depth |-> d, acc |-> set of accepted positions (the tile filter),
                     \*              apex |-> <<n, x, y>> (<<0, 0, 0>>: no sub-pyramid), lags |-> explore the dispatch of this one]
          Cap        \* capacity of the ready queue (the code: 2 * parallel)

\* ---------------------------------------------------------------- the filtered generator
Up(p, m) == <<m, p[2] \div 2^(p[1] - m), p[3] \div 2^(p[1] - m)>>
Ancestors(p) == {Up(p, m) : m \in 0..p[1]}
\* _make_position_filter(apex): everything deeper than the apex, and the apex's own line of ancestors
PosFilter(apex, pos) == pos[1] > apex[1] \/ pos \in Ancestors(apex)
\* the effective tile filter of the pyramid: position filter AND user filter
Accept(cf, pos) == PosFilter(cf.apex, pos) /\ pos \in cf.acc
\* _postfix_corner(tile, depth, filter, bottom_only = False)
RECURSIVE PostF(_, _)
PostF(cf, t) ==
    IF t.pos[1] > cf.depth THEN <<>>
    ELSE IF t.pos[1] > 1 /\ ~Accept(cf, t.pos) THEN <<>>
    ELSE LET d == Div4(t) IN PostF(cf, d[1]) \o PostF(cf, d[2]) \o PostF(cf, d[3]) \o PostF(cf, d[4]) \o <<t>>
\* generate_tiles_filtered
GenF(cf) == LET part(i) == IF Accept(cf, Level1[i].pos) THEN PostF(cf, Level1[i]) ELSE <<>>
            IN part(1) \o part(2) \o part(3) \o part(4)
\* the reduction iterator's leaves, in dispatch order
Leaves(cf) == SelectSeq(GenF(cf), LAMBDA t : t.pos[1] = cf.depth)

\* canonical description of the delivered set: a leaf position arrives iff its whole line of ancestors passes the filter
Passes(cf, p) == \A m \in 1..p[1] : Accept(cf, Up(p, m))
LeafSet(cf) == {p \in Positions(cf.depth) : Passes(cf, p)}

GridIsCentres(t) ==
    t.pos[1] + K + 1 <= R =>
        LET g == Sub(t.c[1], t.c[2], t.c[3], t.c[4], t.inc, K) IN
        \A r \in 0..(2^K - 1), c \in 0..(2^K - 1) :
            g[<<r, c>>] = Centre(t.pos[1] + K, (2^K) * t.pos[2] + c, (2^K) * t.pos[3] + r)

LS == [k \in DOMAIN Configs |-> Leaves(Configs[k])]

T_LeafTiles == \A k \in DOMAIN Configs :
    LET ls == LS[k] IN
    /\ {ls[i].pos : i \in DOMAIN ls} = LeafSet(Configs[k])
    /\ Cardinality(LeafSet(Configs[k])) = Len(ls)
    /\ \A i \in DOMAIN ls : ls[i] = TileAt(ls[i].pos) /\ GridIsCentres(ls[i])

\* ---------------------------------------------------------------- dispatch through the queue
VARIABLES cfg,        \* which configuration (frozen)
          produced,   \* leaves the generator has yielded so far
          nput,       \* leaves handed to the queue so far (produced or produced - 1)
          buf,        \* put, not yet serialised by the feeder
          pipe,       \* serialised, not yet received
          got,        \* received by a worker (in order of reception)
          lag         \* per flushed item: produced - index, at the moment of serialisation
dvars == <<cfg, produced, nput, buf, pipe, got, lag>>

NLeaves == Len(LS[cfg])
Item(i) == [idx |-> i, tile |-> LS[cfg][i]]

DInit == /\ cfg \in {k \in DOMAIN Configs : Configs[k].lags}
         /\ produced = 0 /\ nput = 0 /\ buf = <<>> /\ pipe = <<>> /\ got = <<>> /\ lag = <<>>
\* next(riter): the generator moves on to its next leaf (and is free to reuse whatever it likes)
Advance == /\ produced = nput /\ produced < NLeaves
           /\ produced' = produced + 1
           /\ UNCHANGED <<cfg, nput, buf, pipe, got, lag>>
\* ready_queue.put((pos, tile)): bounded by the items put and not yet received
Put == /\ produced = nput + 1 /\ Len(buf) + Len(pipe) < Cap
       /\ buf' = Append(buf, Item(produced)) /\ nput' = nput + 1
       /\ UNCHANGED <<cfg, produced, pipe, got, lag>>
\* the feeder thread serialises the oldest buffered item - now
Flush == /\ buf # <<>>
         /\ pipe' = Append(pipe, Head(buf)) /\ buf' = Tail(buf)
         /\ lag' = Append(lag, produced - Head(buf).idx)
         /\ UNCHANGED <<cfg, produced, nput, got>>
\* a worker receives the oldest serialised item and computes its grid
Get == /\ pipe # <<>>
       /\ got' = Append(got, Head(pipe)) /\ pipe' = Tail(pipe)
       /\ UNCHANGED <<cfg, produced, nput, buf, lag>>
DNext == Advance \/ Put \/ Flush \/ Get
DSpec == DInit /\ [][DNext]_dvars
Delivered == nput = NLeaves /\ buf = <<>> /\ pipe = <<>>

\* the property's sentence on what arrives: the tile is the lattice tile of the position it is delivered for, so the grid
\* computed from it is the centres K levels deeper
ArrivedOK(a) == a.tile = TileAt(LS[cfg][a.idx].pos) /\ GridIsCentres(a.tile)
AllArrivedOK == \A i \in DOMAIN got : ArrivedOK(got[i])
\* `got` only grows at its end, so every arrival is the last element in the state that follows its Get: checking the last
\* element in every reachable state is AllArrivedOK at a fraction of the cost
ArrivedIsItsTile == got # <<>> => LET a == got[Len(got)] IN a.tile = TileAt(LS[cfg][a.idx].pos)
ArrivedGridIsCentres == got # <<>> => GridIsCentres(got[Len(got)].tile)
DeliveredAllOK == Delivered => AllArrivedOK /\ Len(got) = NLeaves
LagBounded == \A i \in DOMAIN lag : lag[i] \in 0..Cap
=============================================================================
