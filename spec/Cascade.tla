------------------------------ MODULE Cascade ------------------------------
(* The cascade: building every tile above the start level of a tile pyramid  *)
(* from its four children (properties C02 and C14).  The constant-level part *)
(* (arithmetic, pixels, reduce rule, placement, one merge) is TileMerge.tla. *)
(*                                                                           *)
(* Transcribes, from toasty/merge.py:                                        *)
(*   SLICES_MATCHING_PARITY / SLICES_OPPOSITE_PARITY   (Slices)              *)
(*   TileMerger.walk_callback                           (MergeTile, Merge)   *)
(*   TileMerger._get_min_max_of_children                (KidsRange)          *)
(*   averaging_merger                                   (ReducePair)         *)
(* from toasty/image.py: Image.clear + update_into_maskable_buffer on a      *)
(* cleared buffer (Mosaic: a child's defined pixels are placed, everything   *)
(* else keeps the cleared value), is_completely_masked / PyramidIO.write_image*)
(* (a tile that is entirely undefined is not stored and an earlier file is   *)
(* removed), Image.save's DATAMIN / DATAMAX (LeafRange0, KidsRange);         *)
(* from toasty/pyramid.py: Pyramid.walk calls the callback for a position    *)
(* only after the callbacks of its children (what WalkPar.tla's ChildrenFirst*)
(* and Reduce.tla's post-order guarantee): action Merge(p) is enabled in ANY *)
(* order with that constraint.                                               *)
(*                                                                           *)
(* Two definitions of the result live side by side:                          *)
(*   - the machine (Init / Merge) works on tiles AS STORED (file rows), with  *)
(*     the code's two slice tables, one merge at a time, in any admissible   *)
(*     order, starting from a directory that may hold stale parent files;    *)
(*   - Final(c) is the property's sentence: in DISPLAY orientation (row 0 on  *)
(*     top) child (2x+i, 2y+j) occupies quadrant (row j, column i) of the     *)
(*     mosaic, a missing child is undefined, the parent is the 2x2 block      *)
(*     reduction; a bottom-up format stores the display rows reversed.        *)
(* The invariants say that every admissible order of the machine produces     *)
(* exactly Final(c) (serial = parallel, slice tables = display sentence,      *)
(* stale files replaced), the existence rule and the data-range rule.         *)
(*                                                                           *)
(* Abstraction.  A tile is a T x T matrix of pixels; a pixel is a sequence    *)
(* of channels (1 for Float / Int, 4 for Colour: r, g, b, alpha); a channel   *)
(* is a pair:                                                                 *)
(*   Float   <<num, den>>, the exact rational num/den in lowest terms,        *)
(*           <<0, 0>> : undefined (NaN), <<1, 0>> / <<-1, 0>> : +inf / -inf   *)
(*           (defined values).  Mean of the DEFINED members of a block;       *)
(*           undefined iff all four are, or the block holds both infinities.  *)
(*           The recorded data range is over the FINITE values only.          *)
(*   Int,    <<lo, hi>>, the integer interval of admissible stored values.    *)
(*   Colour  Undefined is stored as 0 (Colour: alpha = 0 and the colour       *)
(*           channels 0).  The mean is over the four STORED values, realised  *)
(*           in the integer type: both integer neighbours of the exact mean   *)
(*           are admitted (the statement fixes the type, not the rounding),   *)
(*           hence lo = floor(sum lo / 4), hi = ceiling(sum hi / 4).          *)
(* Domain (DomainOK): no negative integers (Int: any value >= 0, all-zero     *)
(* tiles and low counts included - integer data has no undefined value);      *)
(* Colour: channel values 0..255, alpha 0 means all channels zero.  FAINT     *)
(* alpha (a defined pixel whose alpha averages down to less than 1) is in the *)
(* domain: such an output pixel is undefined under truncation and defined     *)
(* under rounding up, its alpha interval is <<0, 1>> (TileMerge: MaybeUPx,    *)
(* PlacePx); a tile ALL of whose pixels are like that may be entirely         *)
(* undefined - the machine keeps it as a tile whose intervals admit "all      *)
(* zero", the emitted record flags it (may), and the harness accepts its file *)
(* being absent, or present with a defined pixel, never present and entirely  *)
(* undefined.  Float: a tile whose every block is undefined or holds both     *)
(* infinities reduces to an entirely undefined tile and does not exist,       *)
(* although its children hold defined pixels (the reduction itself made them  *)
(* undefined); the leaves beneath it are then cut off from its ancestors      *)
(* (Connected fails): C02's sentences hold as they stand, C14's range rule    *)
(* and ExistsIffDataBelow are stated for connected pyramids.                  *)
(* The result is a function of the case alone: neither the worker count nor   *)
(* the way workers are started (fork / spawn / forkserver: par_util           *)
(* resolve_parallelism, ParDecision.tla) is a parameter of Final(c).          *)
(* Leaf values are integers; the harness maps them to concrete pixel values.  *)
EXTENDS TileMerge

CONSTANTS Depth,    \* start level of the cascade (level of the leaves)
          Cases,    \* set of case records, see CaseOK
          Window    \* exploration bound: only the first Window ready positions (in walk order) may run next;
                    \* Window >= 4^(Depth-1) is no restriction at all (every children-first order is explored)

\* ---------------------------------------------------------------- cases
\* c.mode      mode class
\* c.bottomup  the format stores rows bottom-up (fits)
\* c.ranged    the format records a data range (fits)
\* c.leaves    function: subset of Level(Depth) -> T x T matrix (display orientation) of leaf pixel values: the
\*             FINAL contents of the leaf files.  However many times toasty wrote or updated a leaf before the
\*             cascade, its stored tile and recorded range are a function of these final pixels alone (LeafTile,
\*             LeafRange0, LeafRangeRule); the harness writes some leaves twice (write, then update_image)
\* c.keepu     TRUE: an entirely undefined leaf is nevertheless present as a file (written by a foreign tool,
\*             no range recorded); FALSE: leaves are written by toasty, which does not store such a tile
\* c.live      the leaves the walk treats as live (all of them without a tile filter); includes every stored leaf
\* c.stale     positions above the leaves that hold a file before the cascade starts
\* c.sv        pixel value of the (constant) stale files
\* c.id        harness bookkeeping
LeafMatrix(c, l) == Matrix(LAMBDA r, col : LeafPx(c.mode, c.leaves[l][r][col]), T)
\* Image.save without explicit range: the finite minimum / maximum of the array (Int: 0 is a value like any other)
\* the FINITE values of a leaf (neither undefined nor infinite; Float finite pixels and Int pixels have length 1)
FiniteValues(c, l) == {c.leaves[l][rc[1]][rc[2]][1] : rc \in {q \in Idx \X Idx : Len(c.leaves[l][q[1]][q[2]]) = 1}}
\* ... a leaf whose defined pixels are all infinite records no range
LeafRange0(c, l) == LET vs == FiniteValues(c, l)
                    IN IF ~c.ranged \/ vs = {} THEN NoRange ELSE <<SetMin(vs), SetMax(vs)>>
\* the leaf tile as the property sees it (display orientation)
LeafTile(c, l) ==
    IF l \notin DOMAIN c.leaves THEN Absent
    ELSE LET m == LeafMatrix(c, l)
         IN IF AllUndef(c.mode, m) /\ ~c.keepu THEN Absent ELSE Tile(m, LeafRange0(c, l))

Ops(c) == {p \in UpTo(Depth - 1) : \E l \in c.live : InSub(l, p)}

\* Final(c): every level from the leaves' display tiles by the display sentence, existence rule and range rule
MergeDisplay(c, kids) ==
    IF \A i \in 1..4 : ~kids[i].ex THEN Absent
    ELSE LET m == BlockReduce(c.mode, DisplayMosaic(c.mode, kids))
         IN IF AllUndef(c.mode, m) THEN Absent ELSE Tile(m, IF c.ranged THEN KidsRange(kids) ELSE NoRange)
RECURSIVE FinalAt(_, _)
FinalAt(c, n) ==
    IF n = Depth THEN [p \in Level(n) |-> LeafTile(c, p)]
    ELSE LET deeper == FinalAt(c, n + 1)
         IN [p \in Level(n) |-> MergeDisplay(c, <<deeper[Kid(p, 0)], deeper[Kid(p, 1)], deeper[Kid(p, 2)], deeper[Kid(p, 3)]>>)]
Final(c) == [p \in UpTo(Depth) |-> FinalAt(c, p[1])[p]]

StaleTile(c) == Tile(Matrix(LAMBDA r, col : LeafPx(c.mode, c.sv), T),
                     IF c.ranged THEN <<c.sv[1], c.sv[1]>> ELSE NoRange)

\* the directory before the cascade: the stored leaves (format row order) and the stale files
InitPyr(c) == [p \in UpTo(Depth) |-> IF p[1] = Depth THEN FlipTile(c.bottomup, LeafTile(c, p))
                                     ELSE IF p \in c.stale THEN StaleTile(c) ELSE Absent]

DomainOK(c) ==
    /\ c.mode \in Modes /\ c.bottomup \in BOOLEAN /\ c.ranged \in BOOLEAN /\ c.keepu \in BOOLEAN
    /\ DOMAIN c.leaves \subseteq Level(Depth) /\ DOMAIN c.leaves \subseteq c.live /\ c.live \subseteq Level(Depth)
    /\ \A l \in DOMAIN c.leaves : \A r \in Idx : \A col \in Idx :
          LET v == c.leaves[l][r][col] IN
          /\ (v = <<>>) => c.mode = "Float"
          /\ (v # <<>> /\ c.mode # "Float") => Len(v) = NCh(c.mode)
          /\ (v # <<>> /\ c.mode = "Float") => Len(v) = 1 \/ v = PosInf \/ v = NegInf
          /\ (v # <<>> /\ c.mode = "Int") => v[1] >= 0
          /\ (v # <<>> /\ c.mode = "Colour") => \A ch \in 1..Len(v) : v[ch] >= 0
          /\ (v # <<>> /\ c.mode = "Colour" /\ v[4] = 0) => v = <<0, 0, 0, 0>>
          /\ (v # <<>> /\ c.mode = "Colour" /\ v[4] # 0) => \A ch \in 1..3 : v[ch] <= 255 /\ v[4] <= 255
    /\ c.stale \subseteq UpTo(Depth - 1)

VARIABLES c,      \* the case (frozen)
          fin,    \* Final(c) (frozen; computed once)
          pyr,    \* the directory: position -> stored tile
          done    \* positions whose callback has completed
vars == <<c, fin, pyr, done>>

Stored(t) == FlipTile(c.bottomup, t)      \* display tile -> stored tile (and back: an involution)

\* Connected: no tile above the leaves vanishes only because +inf and -inf cancel in every one of its blocks (the
\* finite values of the leaves under such a tile are cut off from its ancestors).  Pyramids that are not connected
\* are explored like any other (C02's existence rule says such a tile does not exist, and an earlier file goes);
\* the theorems that speak about the leaves beneath a tile (RangeRule, ExistsIffDataBelow) are stated for connected ones.
Connected(mode, f) == \A p \in UpTo(Depth - 1) : (\E k \in Kids(p) : f[k].ex /\ ~AllUndef(mode, f[k].px)) => f[p].ex
Init == /\ \E x \in Cases : c = x /\ fin = Final(x)
        /\ pyr = InitPyr(c)
        /\ done = {}

\* the walk's guarantee: children's callbacks complete first (live children only; leaves have no callback)
ReadySet == LET ops == Ops(c) IN {p \in ops \ done : \A k \in Kids(p) : k \in ops => k \in done}
\* position of p in the walk (post-)order, in closed form: the sub-tree of p occupies a contiguous block that ends with p
RECURSIVE BlockStart(_)
BlockStart(p) == IF p[1] = 0 THEN 0 ELSE BlockStart(Parent(p)) + Slot(p) * Depth2Tiles(Depth - p[1])
WalkIndex(p) == BlockStart(p) + Depth2Tiles(Depth - p[1])
ASSUME \A p \in UpTo(Depth) : WalkIndex(p) = IndexOf(GeneratePos(Depth), p)
\* the positions that may run next: ready, and among the first Window ready ones in walk order
\* cascade_images refuses (raises, before touching anything) to start from a level that holds no stored tile: since a
\* childless parent is removed, a start level deeper than the data would otherwise erase the whole pyramid
Refused == Depth >= 1 /\ \A l \in Level(Depth) : ~InitPyr(c)[l].ex
Allowed == LET rs == ReadySet
           IN IF Refused THEN {}
              ELSE IF Cardinality(rs) <= Window THEN rs
              ELSE {p \in rs : Cardinality({q \in rs : WalkIndex(q) < WalkIndex(p)}) < Window}
Ready(p) == p \in Allowed
KidTiles(p) == <<pyr[Kid(p, 0)], pyr[Kid(p, 1)], pyr[Kid(p, 2)], pyr[Kid(p, 3)]>>
MergeStep(p) ==
            /\ pyr' = [pyr EXCEPT ![p] = MergeTile(c.mode, c.bottomup, c.ranged, KidTiles(p), pyr[p])]
            /\ done' = done \cup {p}
            /\ UNCHANGED <<c, fin>>
Merge(p) == Ready(p) /\ MergeStep(p)
Next == \E p \in Allowed : MergeStep(p)
Spec == Init /\ [][Next]_vars

Finished == Refused \/ done = Ops(c)

\* ---------------------------------------------------------------- theorems (TLC: INVARIANTs)
\* the case is inside the stated domain.  Stale files may sit anywhere the walk comes by - with or without a child
\* beneath them, chains of stale ancestors included: "exists exactly when at least one of its four children exists".
\* (A tile filter confines the walk to the ancestors of its live leaves; a stale file elsewhere is not part of the
\* pyramid being cascaded.)
CaseOK == /\ DomainOK(c)
          /\ c.stale \subseteq Ops(c)

\* C02, main sentence + "identical whether serial or parallel": whatever admissible order the merges ran in,
\* every completed position holds exactly the display-sentence tile in the format's row order - in every state,
\* so in particular all terminal states are the same state.
DoneRight == \A p \in done : pyr[p] = Stored(fin[p])
\* ... and nothing else was touched
RestUntouched == \A p \in UpTo(Depth) \ done :
                    pyr[p] = (IF p[1] = Depth THEN Stored(fin[p]) ELSE IF p \in c.stale THEN StaleTile(c) ELSE Absent)

\* C02, existence sentence, on the directory itself
ExistenceRule ==
    \A p \in done :
        pyr[p].ex <=> /\ \E k \in Kids(p) : pyr[k].ex
                      /\ ~AllUndef(c.mode, BlockReduce(c.mode, DisplayMosaic(c.mode,
                              [i \in 1..4 |-> Stored(pyr[Kid(p, i - 1)])])))
\* ... and its consequence over the leaves: a tile exists iff some leaf beneath it has a defined pixel
HasDefined(l) == l \in DOMAIN c.leaves /\ ~AllUndef(c.mode, LeafMatrix(c, l))
InDomain == Connected(c.mode, fin)
ExistsIffDataBelow == LET def == {l \in DOMAIN c.leaves : HasDefined(l)}
                      IN InDomain => \A p \in done : pyr[p].ex <=> \E l \in def : InSub(l, p)
\* ... and in general: a tile above the leaves exists only if a leaf beneath it has a defined pixel, and it is there
\* whenever the reduction of its children's mosaic leaves a defined pixel - in particular it is NOT there when the
\* reduction itself made every defined pixel undefined (VanishedHere: the children exist and hold defined pixels)
ExistsOnlyAboveData == LET def == {l \in DOMAIN c.leaves : HasDefined(l)}
                       IN \A p \in done : pyr[p].ex => \E l \in def : InSub(l, p)
VanishedHere(p) == ~pyr[p].ex /\ \E k \in Kids(p) : pyr[k].ex /\ ~AllUndef(c.mode, pyr[k].px)
VanishedOnlyByReduction ==
    \A p \in done : VanishedHere(p) =>
        /\ c.mode = "Float"
        /\ AllUndef(c.mode, BlockReduce(c.mode, Mosaic(c.mode, c.bottomup, KidTiles(p))))
        /\ ~AllUndef(c.mode, Mosaic(c.mode, c.bottomup, KidTiles(p)))
\* a tile that MAY be entirely undefined (colour, faint alpha) has nothing surely defined in it, and neither has any
\* tile that is surely there a possibly-undefined tile for its only content
MayFlag(t) == t.ex /\ AllMaybeUndef(c.mode, t.px)
MayOnlyColour == \A p \in done : MayFlag(pyr[p]) => c.mode = "Colour"
\* a stale file at a merged position has been replaced, or removed when nothing (defined) lies beneath it
StaleReplaced == \A p \in done \cap c.stale : pyr[p] = Stored(fin[p])
\* stored tiles above the leaves are never entirely undefined
NeverStoredUndefined == \A p \in done : pyr[p].ex => ~AllUndef(c.mode, pyr[p].px)

\* C14: the recorded range of every tile is the range of the defined leaf values beneath it
\* ... of the FINITE leaf values: undefined and infinite pixels do not count; a tile with no finite value beneath it
\* (all its data infinite) records no range
ValuesBelow(p) == UNION {FiniteValues(c, l) : l \in {q \in DOMAIN c.leaves : InSub(q, p)}}
RangeOf(S) == IF S = {} THEN NoRange ELSE <<SetMin(S), SetMax(S)>>
RangeRule == InDomain => \A p \in done : (c.ranged /\ pyr[p].ex) => pyr[p].rng = RangeOf(ValuesBelow(p))
LeafRangeRule == \A l \in Level(Depth) : (c.ranged /\ pyr[l].ex) => pyr[l].rng = RangeOf(ValuesBelow(l))
NoRangeUnlessRanged == ~c.ranged => \A p \in UpTo(Depth) : pyr[p].rng = NoRange

\* the walk never blocks before it is finished, and the serial (post-order) walk is one of the admitted orders
\* a refused cascade leaves the directory exactly as it found it, stale parent files included
RefusedLeavesDirectoryAlone == Refused => (done = {} /\ pyr = InitPyr(c))
Progress == ~Finished => Allowed # {}
SerialAdmitted ==
    done = {} =>
        LET seq == SelectSeq(GeneratePos(Depth), LAMBDA p : p \in Ops(c))
        IN \A i \in DOMAIN seq : \A k \in Kids(seq[i]) : k \in Ops(c) => \E j \in 1..(i - 1) : seq[j] = k

\* the two slice tables are the display sentence: slot 2j+i goes to (row j, column i), rows mirrored for bottom-up
SlicesAreDisplay ==
    \A b \in BOOLEAN : \A i \in 0..1 : \A j \in 0..1 :
        Slices(b)[2 * j + i + 1] = <<IF b THEN 1 - j ELSE j, i>>
ASSUME SlicesAreDisplay
\* one merge in stored orientation = the display sentence, for every merge that can run next (action form of DoneRight)
MergeCommutes ==
    \A p \in ReadySet :
        LET kids == KidTiles(p)
            viaFile == MergeTile(c.mode, c.bottomup, c.ranged, kids, Absent)
            viaDisplay == MergeDisplay(c, [i \in 1..4 |-> Stored(kids[i])])
        IN viaFile = Stored(viaDisplay)
=============================================================================
