---------------------------- MODULE PipelineHist ----------------------------
(* spec/Pipeline.tla with a history variable: `last` = the command line of the last step and its outcome,  *)
(* as a JSON string.  Used by checks/g01.py where a behaviour has to be read back as a command sequence:  *)
(* the counterexamples of the liveness sentences that TLC is expected to refute (any operator; refresh_impl *)
(* as written), which are then replayed on the real code.  Same actions, same fairness.                    *)
EXTENDS MCPipeline

VARIABLE last
hvars == <<offered, area, dirs, store, last>>

HInit == Init /\ last = "init"
HDo(c) == Do(c) /\ last' = ToJson([c |-> c, out |-> Result(State, c).out])
HNext == \E c \in Allowed(State) : HDo(c)

HRefresh == HDo(C("refresh", NoId, <<>>))
HFetch(i) == HDo(C("fetch", i, <<>>))
HProcessTodos == \E o \in Perms(area["cache_todo"]) : HDo(C("process-todos", NoId, o))
HApprove(i) == HDo(C("approve", i, <<>>))
HPublish == \E o \in Perms(area["approved"]) : HDo(C("publish", NoId, o))
HIgnoreRejects == HDo(C("ignore-rejects", NoId, <<>>))
\* fairness on the steps that change the pipeline state (not merely `last`), as in Pipeline!Fairness
Moves(A) == A /\ vars' # vars
HFairness == /\ WF_hvars(Moves(HRefresh)) /\ WF_hvars(Moves(HProcessTodos))
             /\ WF_hvars(Moves(HPublish)) /\ WF_hvars(Moves(HIgnoreRejects))
             /\ \A i \in Ids : WF_hvars(Moves(HFetch(i))) /\ SF_hvars(Moves(HApprove(i)))
HSpec == HInit /\ [][HNext]_hvars /\ HFairness
=============================================================================
