----------------------------- MODULE SparseLive -----------------------------
(* The live set of a filtered (sub-)pyramid computed by descending only through accepted tiles - no enumeration of     *)
(* whole levels - so that TLC can evaluate it for deep, sparse pyramids (depth 15-20, coordinates beyond 2^12 / 2^16). *)
(* WalkPar.tla EXTENDS this module and checks SparseAgrees (SLiveSet = LiveSet) in every state it explores.            *)
EXTENDS Quadtree
CONSTANT Depth
Passes(A, a, p) == (p[1] > a[1] \/ OnChain(p, a)) /\ p \in A
RECURSIVE SReachAt(_, _, _)
SReachAt(A, a, n) == IF n = 0 THEN {Root}
                     ELSE LET prev == SReachAt(A, a, n - 1) IN {k \in UNION {Kids(p) : p \in prev} : Passes(A, a, k)}
RECURSIVE SLiveAt(_, _, _)
SLiveAt(A, a, n) == IF n = Depth THEN {p \in SReachAt(A, a, n) : InSub(p, a)}
                    ELSE LET deeper == SLiveAt(A, a, n + 1) IN {p \in SReachAt(A, a, n) : InSub(p, a) /\ Kids(p) \cap deeper # {}}
SLiveSet(A, a) == UNION {SLiveAt(A, a, n) : n \in 0..Depth}
=============================================================================
