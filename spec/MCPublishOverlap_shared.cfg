SPECIFICATION Spec
CONSTANTS
 Order <- MCOrder
 Index = "index.wtml"
 NB <- MCNB
 Early <- MCEarly
 MaxCrash <- MCMaxCrash
 SharedTmp = TRUE
INVARIANT TypeOK
INVARIANT QIndexImpliesAll
INVARIANT QPublishedImpliesAll
CHECK_DEADLOCK FALSE
