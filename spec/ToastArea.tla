------------------------------ MODULE ToastArea ------------------------------
(* The AREA sentences of C04 below the depth to which the lattice can be      *)
(* enumerated: which tiles' areas must add up to which tile's area.           *)
(*                                                                            *)
(* ToastLattice!T_Partition / T_Nest say, unit square by unit square, that    *)
(* the tiles of a level partition the square and that four children tile      *)
(* their parent.  That form needs the whole lattice (2^R x 2^R units) and so  *)
(* stops at R = 5..6.  A tile's cell is a rectangle of the lattice, and for   *)
(* rectangles "the parts partition the whole" is arithmetic on the corner     *)
(* coordinates (contained, pairwise disjoint, lattice areas add up), which    *)
(* TLC can evaluate for single tiles at R = 20 and beyond.  NestsLocal is     *)
(* T_Nest in that form, for the children the code's _div4 produces (Div4 of   *)
(* ToastLattice); ChainNests iterates it k levels down.  T_RectIsUnits ties   *)
(* the two forms together where both can be evaluated (small R).              *)
(*                                                                            *)
(* The tiles are chosen on the lattice: the level-1 cross and the boundary    *)
(* of the square are, by the anchoring (ToastLattice!Anchor), the meridians   *)
(* lon = 0 / 90 / 180 / 270 - the lines where a longitude has two names       *)
(* (0 = 2 pi) or where the coordinate functions of the sphere have their      *)
(* kinks.  NearFoldSeq enumerates the tiles of a level within w tiles of      *)
(* those lines, in the row and in the column of a given offset.               *)
(*                                                                            *)
(* Code: toasty/toast.py toast_tile_area (observed), _div4 (through Div4).    *)
EXTENDS ToastLattice

\* ---------------------------------------------------------------- cells as rectangles
X0(t) == t.c[1].pt[1]
Y0(t) == t.c[1].pt[2]
X1(t) == t.c[3].pt[1]
Y1(t) == t.c[3].pt[2]
\* the cell of a canonical tile, by arithmetic on its position
CellOf(pos) == LET s == Step(pos[1]) IN <<pos[2] * s, pos[3] * s, (pos[2] + 1) * s, (pos[3] + 1) * s>>
CellIs(t) == <<X0(t), Y0(t), X1(t), Y1(t)>> = CellOf(t.pos)
\* ... and its four corner points are where a tile's corners are (ul, ur, lr, ll)
CornersSquare(t) == /\ t.c[2].pt = <<X1(t), Y0(t)>> /\ t.c[4].pt = <<X0(t), Y1(t)>>
                    /\ X0(t) < X1(t) /\ Y0(t) < Y1(t)
CellIn(d, t) == X0(t) <= X0(d) /\ X1(d) <= X1(t) /\ Y0(t) <= Y0(d) /\ Y1(d) <= Y1(t)
CellsDisjoint(d, e) == X1(d) <= X0(e) \/ X1(e) <= X0(d) \/ Y1(d) <= Y0(e) \/ Y1(e) <= Y0(d)
\* lattice area in units of u x u lattice squares (u divides the sides; keeps the numbers inside TLC's integers)
LArea(t, u) == ((X1(t) - X0(t)) \div u) * ((Y1(t) - Y0(t)) \div u)

\* four children tile their parent (T_Nest on rectangles): the children _div4 makes are the canonical tiles of the
\* four child positions, their cells lie inside the parent's, are pairwise disjoint and their lattice areas add up
NestsLocal(t) ==
    LET d == Div4(t)
        u == Step(t.pos[1] + 1)
    IN /\ t.pos[1] + 1 <= R
       /\ \A i \in 1..4 : CellIs(d[i]) /\ CornersSquare(d[i]) /\ CellIn(d[i], t)
       /\ {d[i].pos : i \in 1..4} = {<<t.pos[1] + 1, 2 * t.pos[2] + a, 2 * t.pos[3] + b>> : a, b \in {0, 1}}
       /\ \A i, j \in 1..4 : i < j => CellsDisjoint(d[i], d[j])
       /\ LArea(d[1], u) + LArea(d[2], u) + LArea(d[3], u) + LArea(d[4], u) = LArea(t, u)

\* the generations below a tile, through the code's _div4: Levels(t, k)[j + 1] = the 4^j tiles j levels down
NextLevel(cur) == LET d == [i \in 1..Len(cur) |-> Div4(cur[i])]
                  IN [i \in 1..(4 * Len(cur)) |-> d[((i - 1) \div 4) + 1][((i - 1) % 4) + 1]]
RECURSIVE LevelsFrom(_, _)
LevelsFrom(cur, k) == IF k = 0 THEN <<cur>> ELSE <<cur>> \o LevelsFrom(NextLevel(cur), k - 1)
Levels(t, k) == LevelsFrom(<<t>>, k)
\* every tile of the first k generations is tiled by its four children: by induction each generation partitions t
ChainNests(t, k) == LET lv == Levels(t, k - 1) IN \A j \in 1..k : \A i \in 1..Len(lv[j]) : NestsLocal(lv[j][i])

\* ---------------------------------------------------------------- choosing tiles on the lattice
OnFoldLine(q) == q[1] \in {0, H, S} \/ q[2] \in {0, H, S}
TouchesFold(t) == \E k \in 1..4 : OnFoldLine(t.c[k].pt)
\* tile coordinates of level n within w tiles of the lines 0, H, S
Band(n, w) == LET h == 2^(n - 1) IN [i \in 1..(4 * w) |-> IF i <= w THEN i - 1
                                                           ELSE IF i <= 3 * w THEN h - 2 * w + i - 1
                                                           ELSE 2 * h - 4 * w + i - 1]
\* the tiles of level n near the fold lines, in column `off` and in row `off` (a sequence: first those of the three
\* horizontal lines met by the column, then those of the three vertical lines met by the row)
NearFoldSeq(n, off, w) == LET b == Band(n, w) IN [i \in 1..(8 * w) |-> IF i <= 4 * w THEN <<n, off, b[i]>> ELSE <<n, b[i - 4 * w], off>>]
ValidPos(p) == p[1] \in 1..R /\ p[2] \in 0..(2^p[1] - 1) /\ p[3] \in 0..(2^p[1] - 1)

\* ---------------------------------------------------------------- theorems
\* where the lattice can be enumerated, the rectangle form says what the unit-square form says
T_RectIsUnits == \A p \in AllPos : p[1] < MaxDepth =>
                   LET t == TileAt(p) d == Div4(t) IN
                   /\ NestsLocal(t)
                   /\ \A u \in Units : InCell(u, t) <=> (Cardinality({i \in 1..4 : InCell(u, d[i])}) = 1)
T_ChainIsUnits == \A p \in AllPos : \A k \in 1..(MaxDepth - p[1]) :
                   LET t == TileAt(p) lv == Levels(t, k) IN
                   /\ ChainNests(t, k)
                   /\ \A j \in 1..(k + 1) : /\ Len(lv[j]) = 4^(j - 1)
                                            /\ \A u \in Units : InCell(u, t) <=> (Cardinality({i \in 1..Len(lv[j]) : InCell(u, lv[j][i])}) = 1)
\* the tiles with a coordinate in Band(n, 1) are exactly those with a corner on a fold line
T_BandTouches == \A n \in 2..MaxDepth : \A p \in Positions(n) :
                   TouchesFold(TileAt(p)) <=> (\E i \in 1..4 : p[2] = Band(n, 1)[i] \/ p[3] = Band(n, 1)[i])
\* a fold line stays on its meridian: a lattice point on one of the six lines is the midpoint of two points of the same
\* line (so its sphere point lies on the great circle through the line's anchored level-1 points); stated over the
\* corners of the tiles to MaxDepth
FoldLineSet == {<<ax, v>> : ax \in {1, 2}, v \in {0, H, S}}
OnLine(q, l) == q[l[1]] = l[2]
T_FoldLinesClosed == \A pos \in AllPos : \A k \in 1..4 : LET p == TileAt(pos).c[k] IN
                       \A l \in FoldLineSet : OnLine(p.pt, l) => \A q \in p.def : OnLine(q, l)
\* (every theorem above quantifies over AllPos / levels to MaxDepth only: a run that evaluates single deep tiles sets
\* MaxDepth = 1 and a large R, and TLC, which evaluates constant definitions eagerly, is done with them at once)

=============================================================================
