----------------------------- MODULE ImageModes -----------------------------
(* G05 (DESIGN.md section 7) - image modes, saving and loading.               *)
(*                                                                           *)
(* Transcribes, from toasty/image.py:                                        *)
(*   ImageMode, _array_to_mode / ImageMode.from_array_info (mode detection), *)
(*   ImageMode.make_maskable_buffer, ImageMode.try_as_pil,                   *)
(*   Image.from_pil / from_array / aspil / asarray / default_format / save,  *)
(*   SUPPORTED_FORMATS / _validate_format,                                   *)
(*   ImageLoader.create_from_args / load_pil / load_stream / load_path.      *)
(*                                                                           *)
(* This module is the operator library (no variables): the tables and the    *)
(* two functions Save and Load over ABSTRACT tiny images.  Three machines    *)
(* use it: ImageRoundTrip (save / load round trips over every mode, format,  *)
(* save mode, default format and route), ImageLoad (one load of one file     *)
(* under every option set, entry point and file name suffix) and             *)
(* ImageLoaderHistory (short histories of loader instances sharing PIL       *)
(* objects and the process-wide state).                                      *)
(*                                                                           *)
(* Abstraction.  An image is [mode, w, h, px, dflt, conv, q]: px is the       *)
(* row-major sequence of its w * h pixels; a pixel is a sequence of integers *)
(*   RGB <<r, g, b>>   RGBA <<r, g, b, a>>   (0..255)                        *)
(*   U8 / I16 / I32 <<v>>                     (the integer itself)           *)
(*   F32 / F64 <<c>>,  F16x3 <<c1, c2, c3>>   c a float CODE: the sentinels  *)
(*        NaN, PInf, NInf below, every other code c stands for c / 2         *)
(* "Undefined" per mode class is Mask.tla's (alpha 0 / NaN / any-NaN / 0).    *)
(* dflt = the image's default format; conv = its colours went through the    *)
(* ICC -> sRGB transform (an uninterpreted function of the colour that keeps  *)
(* alpha: px holds the colours BEFORE it; the harness applies littleCMS);    *)
(* q = how the pixel values are to be read: "exact", "approx" (they went     *)
(* through JPEG), "unspec" (they went through one of PIL's float -> byte      *)
(* conversions, which this model does not describe).                         *)
(* A file is [fmt, kind, w, h, px, q, icc]: kind = the stored pixel layout   *)
(* (a PIL mode for png / jpg / tiff, a mode name or a foreign dtype for      *)
(* npy / fits), icc in {"none", "odd", "srgb"}.                               *)
EXTENDS Integers, Sequences, FiniteSets, TLC

\* The mode-level tables of the C15 specification (Mask.tla: Modes, ClassOf, BufMode, CanHold) are restated here and
\* proved equal to Mask's by spec/ImageModesMask.tla (which EXTENDS Mask and INSTANCEs this module), so that this
\* library stays free of Mask's constants and variables.
Modes == {"RGB", "RGBA", "F32", "F64", "F16x3", "U8", "I16", "I32"}
ClassOf(m) == CASE m = "RGB" -> "RGB" [] m = "RGBA" -> "RGBA" [] m \in {"F32", "F64"} -> "Float"
                [] m = "F16x3" -> "F16x3" [] OTHER -> "Int"
BufMode(m) == IF m = "RGB" THEN "RGBA" ELSE m          \* ImageMode.make_maskable_buffer
SupportedFormats == {"jpg", "png", "npy", "fits"}        \* SUPPORTED_FORMATS (astropy present)
PilFormats == {"jpg", "png"}                             \* PIL_FORMATS
ClassDefaultFormat == "png"                              \* Image._default_format

NaN == -99999
PInf == 99998
NInf == -99998

Min2(a, b) == IF a <= b THEN a ELSE b
Max2(a, b) == IF a >= b THEN a ELSE b
Clip(v, lo, hi) == Max2(lo, Min2(v, hi))

-----------------------------------------------------------------------------
(* Mode detection.                                                           *)
\* _array_to_mode(array) / ImageMode.from_array_info(shape, dtype): nd axes, `planes` = shape[2], dt = dtype kind + size
ModeOfArray(nd, planes, dt) ==
    IF nd = 2 THEN CASE dt = "f4" -> "F32" [] dt = "f8" -> "F64" [] dt = "u1" -> "U8" [] dt = "i2" -> "I16"
                     [] dt = "i4" -> "I32" [] OTHER -> "none"
    ELSE IF nd = 3 THEN IF planes = 3 THEN (CASE dt = "f2" -> "F16x3" [] dt = "u1" -> "RGB" [] OTHER -> "none")
                        ELSE IF planes = 4 THEN (IF dt = "u1" THEN "RGBA" ELSE "none")
                        ELSE "none"
    ELSE "none"
\* Image.from_array first applies np.atleast_2d; ImageMode.from_array_info does not
EffNd(nd) == IF nd < 2 THEN 2 ELSE nd
FromArrayMode(nd, planes, dt) == ModeOfArray(EffNd(nd), IF nd = 3 THEN planes ELSE 0, dt)
FromArrayInfoMode(nd, planes, dt) == ModeOfArray(nd, IF nd = 3 THEN planes ELSE 0, dt)
\* the array a mode is stored in (make_maskable_buffer, asarray)
ArrayKind(m) == CASE m = "RGB" -> [nd |-> 3, planes |-> 3, dt |-> "u1"]
                  [] m = "RGBA" -> [nd |-> 3, planes |-> 4, dt |-> "u1"]
                  [] m = "F16x3" -> [nd |-> 3, planes |-> 3, dt |-> "f2"]
                  [] m = "F32" -> [nd |-> 2, planes |-> 0, dt |-> "f4"]
                  [] m = "F64" -> [nd |-> 2, planes |-> 0, dt |-> "f8"]
                  [] m = "U8" -> [nd |-> 2, planes |-> 0, dt |-> "u1"]
                  [] m = "I16" -> [nd |-> 2, planes |-> 0, dt |-> "i2"]
                  [] m = "I32" -> [nd |-> 2, planes |-> 0, dt |-> "i4"]
                  [] OTHER -> [nd |-> 2, planes |-> 0, dt |-> m]          \* a foreign dtype stored in an npy / fits file
\* Image.from_pil: ImageMode(pil_img.mode)  (the enum VALUES: "RGB", "RGBA", "F", "D", "F16x3", "U8", "I16", "I32")
ModeOfPil(pm) == CASE pm = "RGB" -> "RGB" [] pm = "RGBA" -> "RGBA" [] pm = "F" -> "F32" [] OTHER -> "none"
\* Image.aspil() of an array-backed image: try_as_pil() is None for F16x3 only; otherwise PIL.Image.fromarray decides
PilModeOf(m) == CASE m = "RGB" -> "RGB" [] m = "RGBA" -> "RGBA" [] m = "U8" -> "L" [] m \in {"I16", "I32"} -> "I"
                  [] m \in {"F32", "F64"} -> "F" [] OTHER -> "none"

\* the structural theorems of the tables (checked when the module is loaded)
ASSUME \A m \in Modes : LET k == ArrayKind(m) IN ModeOfArray(k.nd, k.planes, k.dt) = m       \* every mode is the mode of its own array
ASSUME \A m \in Modes : BufMode(m) \in Modes /\ BufMode(BufMode(m)) = BufMode(m)              \* promotion is idempotent
ASSUME \A m \in Modes : ClassOf(BufMode(m)) = (IF m = "RGB" THEN "RGBA" ELSE ClassOf(m))      \* only RGB changes class (gains alpha)
ASSUME \A m \in Modes : (ModeOfPil(PilModeOf(m)) = m) <=> m \in {"RGB", "RGBA", "F32"}        \* the modes PIL can carry unchanged

-----------------------------------------------------------------------------
(* Pixels.                                                                   *)
UndefPx(m, p) == CASE m = "RGB" -> FALSE
                   [] m = "RGBA" -> p[4] = 0
                   [] m \in {"F32", "F64"} -> p[1] = NaN
                   [] m = "F16x3" -> \E i \in 1..3 : p[i] = NaN
                   [] OTHER -> p[1] = 0
MaskOf(img) == {k \in DOMAIN img.px : UndefPx(img.mode, img.px[k])}

Img(mode, w, h, px, dflt) == [ok |-> TRUE, err |-> "", mode |-> mode, w |-> w, h |-> h, px |-> px, dflt |-> dflt,
                              conv |-> FALSE, q |-> "exact"]
Raised(e) == [ok |-> FALSE, err |-> e, mode |-> "none", w |-> 0, h |-> 0, px |-> <<>>, dflt |-> "", conv |-> FALSE, q |-> "exact"]
QRank(q) == CASE q = "exact" -> 0 [] q = "approx" -> 1 [] OTHER -> 2
Worse(a, b) == IF QRank(a) >= QRank(b) THEN a ELSE b

\* PIL's conversions between the pixel layouts that occur (Image.convert): colour, alpha
Gray(v) == <<v, v, v>>
Colour(pm, p) == CASE pm \in {"RGB", "RGBA", "P"} -> <<p[1], p[2], p[3]>>
                   [] pm \in {"L", "LA"} -> Gray(p[1])
                   [] pm \in {"I", "I;16"} -> Gray(Clip(p[1], 0, 255))
                   [] OTHER -> <<0, 0, 0>>                                  \* "F": not described (q becomes "unspec")
Alpha(pm, p) == CASE pm = "RGBA" -> p[4] [] pm = "LA" -> p[2] [] OTHER -> 255
ConvPx(pm, t, p) == IF t = pm THEN p
                    ELSE IF t = "RGB" THEN Colour(pm, p)
                    ELSE IF t = "RGBA" THEN Colour(pm, p) \o <<Alpha(pm, p)>>
                    ELSE p
ConvQ(pm, t, q) == IF t # pm /\ pm = "F" THEN "unspec" ELSE q
IsBlack(p) == p[1] = 0 /\ p[2] = 0 /\ p[3] = 0

-----------------------------------------------------------------------------
(* Image.save(path, format = freq, mode = smode).                            *)
NoFile == [fmt |-> "none", kind |-> "none", w |-> 0, h |-> 0, px |-> <<>>, q |-> "exact", icc |-> "none"]
SaveRaises(e) == [ok |-> FALSE, err |-> e, file |-> NoFile]
Wrote(f) == [ok |-> TRUE, err |-> "", file |-> f]
\* what PIL's PNG / JPEG writers accept (anything else: OSError, and PIL removes the file it created)
PilWritable(f, t) == IF f = "png" THEN t \in {"RGB", "RGBA", "L", "I"} ELSE t \in {"RGB", "L"}
\* PIL stores mode "I" in a PNG as 16-bit gray
StoredKind(t) == IF t = "I" THEN "I;16" ELSE t
StoredPx(t, p) == IF t = "I" THEN <<Clip(p[1], 0, 65535)>> ELSE p
EffFmt(img, freq) == IF freq = "default" THEN img.dflt ELSE freq

Save(img, freq, smode) ==
    IF freq # "default" /\ freq \notin SupportedFormats THEN SaveRaises("format")            \* _validate_format
    ELSE LET f == EffFmt(img, freq) IN
         IF f \in PilFormats THEN
             LET pm == PilModeOf(img.mode) IN                                                  \* self.aspil()
             IF pm = "none" THEN SaveRaises("mode")
             ELSE LET t == IF smode # "none" THEN smode ELSE IF f = "jpg" THEN "RGB" ELSE pm IN   \* convert(mode)
                  IF ~PilWritable(f, t) THEN SaveRaises("backend")
                  ELSE Wrote([fmt |-> f, kind |-> StoredKind(t), w |-> img.w, h |-> img.h,
                              px |-> [k \in DOMAIN img.px |-> StoredPx(t, ConvPx(pm, t, img.px[k]))],
                              q |-> IF f = "jpg" THEN Worse(ConvQ(pm, t, img.q), "approx") ELSE ConvQ(pm, t, img.q),
                              icc |-> "none"])
         ELSE IF f = "npy" THEN Wrote([fmt |-> "npy", kind |-> img.mode, w |-> img.w, h |-> img.h, px |-> img.px, q |-> img.q, icc |-> "none"])
         ELSE IF img.mode = "F16x3" THEN SaveRaises("backend")                                 \* FITS has no BITPIX for float16
         ELSE Wrote([fmt |-> "fits", kind |-> img.mode, w |-> img.w, h |-> img.h, px |-> img.px, q |-> img.q, icc |-> "none"])

\* the maskable-buffer route of the tiling code: buf = mode.make_maskable_buffer(h, w); img.fill_into_maskable_buffer(buf, whole, whole)
\* (Mask!FillOp with the whole-tile indexer: every pixel addressed; RGB gains alpha 255); the buffer is Image.from_array(arr)
FillWhole(img) == [img EXCEPT !.mode = BufMode(img.mode),
                              !.px = [k \in DOMAIN img.px |-> IF img.mode = "RGB" THEN img.px[k] \o <<255>> ELSE img.px[k]],
                              !.dflt = ClassDefaultFormat]

-----------------------------------------------------------------------------
(* ImageLoader.                                                              *)
\* options: crop = <<>> (None) or <<top, right, bottom, left>>; b2t = black_to_transparent; cp = colorspace_processing
DefaultOpts == [crop |-> <<>>, b2t |-> FALSE, cp |-> "srgb"]
Opts(crop, b2t, cp) == [crop |-> crop, b2t |-> b2t, cp |-> cp]

\* create_from_args: --crop is a comma-separated list of 1, 2 or 4 non-negative integers (Junk = not an integer)
Junk == 99999
CropParses(tok) == Len(tok) \in {1, 2, 4} /\ \A i \in DOMAIN tok : tok[i] # Junk /\ tok[i] >= 0
ParseCrop(tok) == IF Len(tok) = 1 THEN <<tok[1], tok[1], tok[1], tok[1]>>
                  ELSE IF Len(tok) = 2 THEN <<tok[1], tok[2], tok[1], tok[2]>>                 \* vertical, horizontal
                  ELSE tok

\* load_path picks the reader from the file NAME: ".npy" (case-sensitive), the FITS suffixes (case-insensitive), else PIL sniffs the content
FitsSuffixes == {".fits", ".FITS", ".fts", ".fits.gz", ".FTS.GZ"}
Detect(suffix) == IF suffix = ".npy" THEN "npy" ELSE IF suffix \in FitsSuffixes THEN "fits" ELSE "pil"
NaturalSuffix(f) == CASE f = "png" -> ".png" [] f = "jpg" -> ".jpg" [] f = "tiff" -> ".tiff" [] f = "npy" -> ".npy"
                      [] f = "fits" -> ".fits" [] OTHER -> ".dat"

PilOf(file) == [pm |-> file.kind, w |-> file.w, h |-> file.h, px |-> file.px, icc |-> file.icc, conv |-> FALSE, q |-> file.q]
StdPil == {"RGB", "RGBA", "F"}                         \* the PIL modes that are ImageMode values

CropFits(p, c) == c[2] + c[4] <= p.w /\ c[1] + c[3] <= p.h
\* pil_img.crop((left, upper, width - right, height - lower))
CropPil(p, c) == LET nw == p.w - c[2] - c[4]
                     nh == p.h - c[1] - c[3]
                 IN [p EXCEPT !.w = nw, !.h = nh,
                              !.px = [k \in 1..(nw * nh) |-> p.px[(((k - 1) \div nw) + c[1]) * p.w + (((k - 1) % nw) + c[4]) + 1]]]
ConvertPil(p, t) == [p EXCEPT !.pm = t, !.px = [k \in DOMAIN p.px |-> ConvPx(p.pm, t, p.px[k])], !.q = ConvQ(p.pm, t, p.q)]
\* a[i, ..., 3] *= nonblack
Blacken(p) == [p EXCEPT !.px = [k \in DOMAIN p.px |-> IF IsBlack(p.px[k]) THEN <<0, 0, 0, 0>> ELSE p.px[k]]]
\* ImageCms.applyTransform(pil_img, profile -> sRGB, inPlace = True): an "odd" profile changes the colours; the
\* object's profile becomes sRGB (PIL), for which the transform is the identity
\* The one thing the model knows about the transform of the "odd" profile the harness builds (gamma 3.0): it sends
\* exactly the colours whose channels are all below OddBlackBelow to pure black (which matters when a LATER load turns
\* black transparent).  px keeps the other colours as they were before the transform (conv says they went through it).
Converts(o, p) == o.cp # "none" /\ p.icc # "none"
OddBlackBelow == 14
DarkForOdd(p) == p[1] < OddBlackBelow /\ p[2] < OddBlackBelow /\ p[3] < OddBlackBelow
Darken(p) == IF DarkForOdd(p) THEN (IF Len(p) = 4 THEN <<0, 0, 0, p[4]>> ELSE <<0, 0, 0>>) ELSE p
ColourProcess(p) == [p EXCEPT !.conv = (p.conv \/ p.icc = "odd"), !.icc = "srgb",
                              !.px = IF p.icc = "odd" THEN [k \in DOMAIN p.px |-> Darken(p.px[k])] ELSE p.px]
FromPil(p) == [ok |-> TRUE, err |-> "", mode |-> ModeOfPil(p.pm), w |-> p.w, h |-> p.h, px |-> p.px, dflt |-> ClassDefaultFormat,
               conv |-> p.conv, q |-> p.q]

\* load_pil, in the order of the code: crop; unknown mode -> RGB (RGBA when black_to_transparent); black -> transparent;
\* colour processing; Image.from_pil
LoadPil(o, p) ==
    IF o.crop # <<>> /\ ~CropFits(p, o.crop) THEN Raised("backend")                            \* PIL: "Coordinate 'right' is less than 'left'"
    ELSE LET a == IF o.crop = <<>> THEN p ELSE CropPil(p, o.crop)
             b == IF a.pm \in StdPil THEN a ELSE ConvertPil(a, IF o.b2t THEN "RGBA" ELSE "RGB")
             c == IF o.b2t THEN Blacken(IF b.pm = "RGBA" THEN b ELSE ConvertPil(b, "RGBA")) ELSE b
             d == IF Converts(o, c) THEN ColourProcess(c) ELSE c
         IN FromPil(d)

\* What load_pil leaves in the PIL object it was HANDED (as built): crop() and convert() make new objects, but the
\* black -> transparent step swaps the pixel store of an RGBA argument (pil_img.im = new_img.im) and the colour
\* transform works in place on whatever object reached it.
ArgAfter(o, p) ==
    IF o.crop # <<>> \/ p.pm \notin StdPil THEN p
    ELSE IF o.b2t /\ p.pm # "RGBA" THEN p
    ELSE LET c == IF o.b2t THEN Blacken(p) ELSE p
         IN IF Converts(o, c) THEN ColourProcess(c) ELSE c

\* np.load / fits.open(...)[0].data -> Image.from_array(arr, default_format = "npy" | "fits")
LoadArray(file) == LET k == ArrayKind(file.kind)
                       m == FromArrayMode(k.nd, k.planes, k.dt)
                   IN IF m = "none" THEN Raised("mode") ELSE [Img(m, file.w, file.h, file.px, file.fmt) EXCEPT !.q = file.q]

\* entry = "path" (load_path), "stream" (load_stream(open(path, "rb"))), "pil" (load_pil(PIL.Image.open(path)))
Load(o, file, entry, suffix) ==
    LET route == IF entry = "path" THEN Detect(suffix) ELSE "pil" IN
    IF route \in {"npy", "fits"} THEN (IF file.fmt = route THEN LoadArray(file) ELSE Raised("backend"))
    ELSE IF file.fmt \notin {"png", "jpg", "tiff"} THEN Raised("backend")                      \* PIL cannot identify an npy file
    ELSE LoadPil(o, PilOf(file))

-----------------------------------------------------------------------------
(* The save / load table a user may rely on (what the theorems of            *)
(* ImageRoundTrip tie Save and Load to):                                     *)
(*   "exact"   lossless: pixels, mode and mask come back identical           *)
(*   "lossy"   documented loss: JPEG - colours approximate, alpha dropped     *)
(*   "raises"  the pair is refused and nothing is written                    *)
(*   "foreign" AS BUILT: the pair is written without complaint as a gray      *)
(*             bitmap and comes back as an RGB image (deviation SaveForeign) *)
Pair(m, f) == CASE f = "npy" -> "exact"
                [] f = "fits" -> IF m = "F16x3" THEN "raises" ELSE "exact"
                [] f = "png" -> IF m \in {"RGB", "RGBA"} THEN "exact" ELSE IF m \in {"F32", "F64", "F16x3"} THEN "raises" ELSE "foreign"
                [] f = "jpg" -> IF m \in {"RGB", "RGBA"} THEN "lossy" ELSE IF m = "F16x3" THEN "raises" ELSE "foreign"
                [] OTHER -> "raises"
\* the pairs the documentation names (png / jpg for bitmaps, npy for everything, fits for 2-d and bitmap arrays)
Documented(m, f) == Pair(m, f) \in {"exact", "lossy"}
\* (the lossless part of the table is exactly Mask.tla's CanHold - C15: "reads back with identical pixels and mode in
\* each lossless format able to hold its mode" - see ImageModesMask.tla)
LosslessHolds(f) == {m \in Modes : Pair(m, f) = "exact"}
\* every mode has a lossless home, and the buffer of every mode has one too
ASSUME \A m \in Modes : Pair(m, "npy") = "exact" /\ Pair(BufMode(m), "npy") = "exact"
=============================================================================
