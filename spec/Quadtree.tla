---------------------------- MODULE Quadtree ----------------------------
(* Tile positions of a WWT tile pyramid and the relations between them.     *)
(* A position is <<n, x, y>>: level n, column x, row y, 0 <= x, y < 2^n.    *)
(* Transcribed from toasty/pyramid.py: Pos, pos_parent, pos_children,       *)
(* is_subtile, _postfix_pos / generate_pos, depth2tiles, tiles_at_depth.    *)
EXTENDS Naturals, Sequences, FiniteSets

Root == <<0, 0, 0>>
Pow2(k) == 2^k
Level(n) == {<<n, x, y>> : x \in 0..(Pow2(n) - 1), y \in 0..(Pow2(n) - 1)}
UpTo(d) == UNION {Level(n) : n \in 0..d}

\* pos_children order: top-left, top-right, bottom-left, bottom-right
Kid(p, i) == <<p[1] + 1, 2 * p[2] + (i % 2), 2 * p[3] + (i \div 2)>>
KidSeq(p) == <<Kid(p, 0), Kid(p, 1), Kid(p, 2), Kid(p, 3)>>
Kids(p) == {Kid(p, i) : i \in 0..3}
\* pos_parent returns (parent, x_index, y_index)
Parent(p) == <<p[1] - 1, p[2] \div 2, p[3] \div 2>>
XIndex(p) == p[2] % 2
YIndex(p) == p[3] % 2
\* the slot / readiness-bit number of a child inside its parent: 2*iy + ix
Slot(p) == 2 * YIndex(p) + XIndex(p)

\* is_subtile as the code computes it: by repeated pos_parent
RECURSIVE IsSub(_, _)
IsSub(deeper, shallower) ==
    IF deeper[1] = shallower[1] THEN deeper[2] = shallower[2] /\ deeper[3] = shallower[3]
    ELSE IsSub(Parent(deeper), shallower)
\* ... and in closed form (shifting)
InSub(p, a) == /\ p[1] >= a[1]
               /\ p[2] \div Pow2(p[1] - a[1]) = a[2]
               /\ p[3] \div Pow2(p[1] - a[1]) = a[3]
RECURSIVE Anc(_, _)
Anc(p, n) == IF p[1] = n THEN p ELSE Anc(Parent(p), n)
OnChain(p, a) == p[1] <= a[1] /\ Anc(a, p[1]) = p

\* _postfix_pos(pos, depth): children first, then the position itself
RECURSIVE PostAll(_, _)
PostAll(p, d) == IF p[1] > d THEN <<>>
                 ELSE PostAll(Kid(p, 0), d) \o PostAll(Kid(p, 1), d) \o PostAll(Kid(p, 2), d)
                      \o PostAll(Kid(p, 3), d) \o <<p>>
GeneratePos(d) == PostAll(Root, d)

Depth2Tiles(d) == (4^(d + 1) - 1) \div 3
TilesAtDepth(d) == 4^d

Range(s) == {s[i] : i \in DOMAIN s}
NoDup(s) == \A i, j \in DOMAIN s : i # j => s[i] # s[j]
IndexOf(s, e) == CHOOSE i \in DOMAIN s : s[i] = e

\* ---- theorems about the relations (checked by TLC for every position up to a depth bound) ----
RelationsAgree(d) ==
    /\ \A p \in UpTo(d) : \A i \in 0..3 : Parent(Kid(p, i)) = p /\ Slot(Kid(p, i)) = i
    /\ \A p \in UpTo(d) \ {Root} : Kid(Parent(p), Slot(p)) = p
    /\ \A p \in UpTo(d) : \A a \in UpTo(p[1]) : IsSub(p, a) = InSub(p, a)
    /\ \A p \in UpTo(d) : \A a \in UpTo(p[1]) : InSub(p, a) <=> (p = a \/ (p[1] > a[1] /\ InSub(Parent(p), a)))
GeneratePosOK(d) ==
    LET g == GeneratePos(d) IN
    /\ Range(g) = UpTo(d) /\ NoDup(g) /\ Len(g) = Depth2Tiles(d)
    /\ \A p \in UpTo(d) : p[1] < d => \A k \in Kids(p) : IndexOf(g, k) < IndexOf(g, p)
    /\ \A n \in 0..d : Cardinality(Level(n)) = TilesAtDepth(n)
=============================================================================
