------------------------- MODULE MCPyramidLifecycle -------------------------
(* Wrapper of PyramidLifecycle.tla for checks/g02.py.                          *)
(*   AllSpec     every command sequence up to MaxCmds (PyramidLifecycle!Next):  *)
(*               the theorems, and the refutations of the "ideal" statements;  *)
(*   ScriptSpec  the prefix tree of given command sequences (Scripts), with    *)
(*               the history as a variable, so that every emitted state says   *)
(*               which commands led to it;                                     *)
(*   FreeSpec    the same with TLC choosing the commands (-simulate).          *)
(* Emit prints, for every state, the expected directory after the last command *)
(* of `hist`: the harness replays `hist` on a real directory and compares      *)
(* after every command.                                                        *)
EXTENDS PyramidLifecycle, Json

CONSTANT Scripts        \* set of sequences of commands

VARIABLES hist,         \* the commands issued so far
          act           \* name of the action of the last step

hvars == <<vars, hist, act>>

ActName(cmd) == IF cmd.op = "Cascade" THEN (IF ~CascadeAccepted(data, out, cmd.d) THEN "CascadeRefused" ELSE IF StaleAbove(data, cmd.d) THEN "CascadeRemovesOrphans" ELSE "CascadeClean")
                ELSE IF cmd.op = "Transform" THEN (IF StaleOut(out, data, cmd.d) THEN "TransformLeavesStale" ELSE "TransformClean")
                ELSE cmd.op
Step(cmd) == Do(cmd) /\ hist' = Append(hist, cmd) /\ act' = ActName(cmd)

HInit == Init /\ hist = <<>> /\ act = "Init"
ScriptNext == \E s \in Scripts : /\ Len(hist) < Len(s)
                                 /\ SubSeq(s, 1, Len(hist)) = hist
                                 /\ Step(s[Len(hist) + 1])
ScriptSpec == HInit /\ [][ScriptNext]_hvars
FreeNext == \E cmd \in Commands : Step(cmd)
FreeSpec == HInit /\ [][FreeNext]_hvars
\* every command sequence, without the history (states that differ only in how they were reached are one state)
AllNext == Next /\ UNCHANGED <<hist, act>>
AllSpec == HInit /\ [][AllNext]_hvars
\* ... remembering the last command only (for readable counterexamples of the refuted statements)
CmdStr(cmd) == ToString(<<cmd.op, cmd.d, cmd.reg, cmd.mode, cmd.src, cmd.fmt>>)
LastNext == \E cmd \in Commands : Do(cmd) /\ act' = CmdStr(cmd) /\ UNCHANGED hist
LastSpec == HInit /\ [][LastNext]_hvars
\* ... with the cfg's VIEW ViewVars two states that differ only in `act` are one state
ViewVars == vars

\* ---- emitter (always-true invariant)
Order == GeneratePos(MaxDepth)
DataSeq(dir) == LET s == SelectSeq(Order, LAMBDA p : dir[p].ex) IN [i \in DOMAIN s |-> [pos |-> s[i], px |-> dir[s[i]].px]]
LastCmd == hist[Len(hist)]
\* what the sampler of the last command returns for every leaf of its depth (the INPUT the harness feeds to the real code)
Feed == IF hist = <<>> \/ LastCmd.op # "Sample" THEN <<>>
        ELSE LET s == SelectSeq(Order, LAMBDA p : p[1] = LastCmd.d)
             IN [i \in DOMAIN s |-> [pos |-> s[i], px |-> SampledTile(LastCmd, s[i])]]
Record == [hist |-> hist, act |-> act,
           data |-> DataSeq(data), out |-> DataSeq(out),
           wtml |-> [ex |-> wtml.ex, levels |-> wtml.levels, ftype |-> wtml.ftype,
                     url |-> IF wtml.ex THEN W!Template("L/Y/YX", Ext(wtml.ftype)) ELSE <<>>],
           bld |-> [fmt |-> bld.fmt, levels |-> bld.levels],
           ghost |-> [base |-> base, cons |-> cons, fresh |-> fresh, removed |-> removed, rebased |-> rebased, pruned |-> pruned, cur |-> wtml.cur],
           \* existing tiles none of whose children exists, above the deepest level (the next cascade that visits one removes it)
           orphans |-> SelectSeq(Order, LAMBDA p : p[1] < MaxDepth /\ Orphan(p)),
           feed |-> Feed,
           \* truth values of the statements the code does not keep (a FALSE is TLC's witness that the statement is refuted)
           ideal |-> [NothingDeeperThanBase |-> NothingDeeperThanBase, NoStaleOutput |-> NoStaleOutput,
                      WtmlAlwaysDeepest |-> WtmlAlwaysDeepest, TransformCommutesWithMerge |-> TransformCommutesWithMerge]]
Emit == PrintT(<<"S", ToJson(Record)>>)
=============================================================================
