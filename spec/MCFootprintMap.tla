---- MODULE MCFootprintMap ----
(* Stand-alone model of FootprintMap (tlc -config MCFootprintMap.cfg MCFootprintMap.tla); checks/c07.py runs it and  *)
(* reads the lost tiles of the two wrong maps from Emit.                                                            *)
EXTENDS FootprintMap, Json
ASSUME Nested
Emit == (c.v # "same" /\ (c.a # 0 \/ c.o # 0)) =>
          PrintT(<<"F", ToJson([L |-> c.L, a |-> c.a, o |-> c.o, v |-> c.v, lost |-> LostDeepest,
                                foot |-> <<FootLo(c), FootHi(c)>>, box |-> <<BoxLo(c, Pix(c.L)), BoxHi(c, Pix(c.L))>>])>>)
====
