SPECIFICATION Spec
CONSTANTS
 Files <- MCFilesQuick
 Crops <- MCCropsQuick
 Entries <- MCEntries
 Suffixes <- MCSuffixes
INVARIANT PlainLoadIsIdentity
INVARIANT ArrayLoadIsIdentity
INVARIANT ForeignArrayRefused
INVARIANT LoadedDefaultFormat
INVARIANT CropExact
INVARIANT CropTooLargeRaises
INVARIANT CropAllYieldsEmpty
INVARIANT ZeroCropIsNoCrop
INVARIANT B2TExact
INVARIANT B2TMask
INVARIANT NoB2TKeepsMode
INVARIANT ColourLast
INVARIANT NoProfileNoConversion
INVARIANT EntryIndependent
INVARIANT WrongSuffixRefused
INVARIANT SniffedByContent
INVARIANT FitsSuffixesAgree
INVARIANT LoadedModeIsAMode
INVARIANT OptionsIgnoredForArrays
INVARIANT GrayAlphaDropped
INVARIANT StreamCannotLoadNpy
INVARIANT UpperCaseNpyRefused
CHECK_DEADLOCK FALSE
