---------------------------- MODULE PlateCarree ----------------------------
(* The all-sky plate-carree samplers of toasty/samplers.py                         *)
(*   plate_carree_sampler            layout "sky"       lon increases to the left,  0 at the centre      *)
(*   plate_carree_zeroright_sampler  layout "zeroright" lon increases to the left,  0 at the right edge  *)
(*   plate_carree_planet_sampler     layout "planet"    lon increases to the right, 0 at the centre      *)
(*   plate_carree_planet_zeroleft_sampler   "zeroleft"  lon increases to the right, 0 at the left edge   *)
(*   plate_carree_galactic_sampler   layout "sky" after an ICRS -> Galactic rotation (done outside TLC)  *)
(* Angles are integers.  For a map of nx columns and ny rows and a resolution g >= 1:                    *)
(*   one column = one row = Cell(g) = 4g units; 2*pi = nx*4g longitude units; pi/2 = ny*2g latitude units *)
(* so every cell edge AND every cell centre is an even unit; the test angles are the odd units (never on  *)
(* an edge, never a rounding tie) plus the two poles (which belong to the end rows only).                 *)
(*                                                                                                        *)
(* Three layers:  (1) the documented layout as a containment relation (InColumn / InRow) and the cell     *)
(* chosen by it (Col / Row / Sample) - this is what the real samplers are compared with;  (2) closed      *)
(* forms;  (3) CodeCol / CodeRow, a transcription of vec2pix (normalise, pixel-centre origin lon0/lat0,   *)
(* scale, round-half-even, clip) in exact arithmetic.  The invariants are the sentences of property C11   *)
(* plus (2) = (1) and (3) = (1).                                                                          *)
EXTENDS Integers, Sequences, FiniteSets, SequencesExt, TLC

CONSTANT Configs      \* set of records [v, nx, ny, g, mode, far]; far = wanted whole turns of the far-offset points (see Far)
                      \* (mode "wide": also cols, rows = the columns / rows whose centres are the test angles)
VARIABLE c

Layouts  == {"sky", "zeroright", "planet", "zeroleft"}
LeftInc  == {"sky", "zeroright"}          \* longitude increases to the left (sky seen from inside)
Centred  == {"sky", "planet"}             \* longitude 0 at the centre of the map

Cell(g)       == 4 * g
Half(g)       == 2 * g                    \* half a cell
Period(nx, g) == nx * Cell(g)             \* 2*pi
HalfP(nx, g)  == nx * Half(g)             \* pi
Pole(ny, g)   == ny * Half(g)             \* pi/2 in latitude units

Lesser(a, b) == IF a < b THEN a ELSE b
Greater(a, b) == IF a > b THEN a ELSE b
Clip(x, lo, hi) == Greater(lo, Lesser(hi, x))

\* ---------------------------------------------------------------- (1) the documented layout
\* West(v, ..., col): the smaller-longitude edge of a column (one representative modulo the period);
\* the column covers the open interval (West, West + Cell).
West(v, nx, g, col) ==
    CASE v = "sky"       -> HalfP(nx, g) - (col + 1) * Cell(g)      \* data[0,0] touches lon = +pi
      [] v = "zeroright" -> Period(nx, g) - (col + 1) * Cell(g)     \* right edge of the last column is lon 0
      [] v = "planet"    -> col * Cell(g) - HalfP(nx, g)            \* left edge of column 0 is lon = -pi
      [] v = "zeroleft"  -> col * Cell(g)                           \* left edge of column 0 is lon 0
InColumn(v, nx, g, col, k) ==
    LET r == (k - West(v, nx, g, col)) % Period(nx, g) IN r > 0 /\ r < Cell(g)
Col(v, nx, g, k) == CHOOSE col \in 0..(nx - 1) : InColumn(v, nx, g, col, k)

\* rows: latitude +90 at the top; row r covers [Pole - (r+1) Cell, Pole - r Cell] (closed: a pole belongs to its end row)
InRow(ny, g, r, j) == Pole(ny, g) - (r + 1) * Cell(g) <= j /\ j <= Pole(ny, g) - r * Cell(g)
Row(ny, g, j) == CHOOSE r \in 0..(ny - 1) : InRow(ny, g, r, j)

\* the value a sampler must return on the map  data[r, col] = r*nx + col
MapValue(nx, r, col) == r * nx + col
Sample(v, nx, ny, g, k, j) == MapValue(nx, Row(ny, g, j), Col(v, nx, g, k))

\* admissible test angles
LonOK(k) == k % 2 = 1
LatOK(ny, g, j) == \/ j = Pole(ny, g) \/ j = -Pole(ny, g)
                   \/ (j % 2 = 1 /\ -Pole(ny, g) < j /\ j < Pole(ny, g))

\* ---------------------------------------------------------------- (2) closed forms
XFromLeft(v, nx, g, k) ==      \* distance of longitude k from the left edge of the map, in 0..Period-1
    CASE v = "sky"       -> (HalfP(nx, g) - k) % Period(nx, g)
      [] v = "zeroright" -> (0 - k) % Period(nx, g)
      [] v = "planet"    -> (k + HalfP(nx, g)) % Period(nx, g)
      [] v = "zeroleft"  -> k % Period(nx, g)
ColF(v, nx, g, k) == XFromLeft(v, nx, g, k) \div Cell(g)
RowF(ny, g, j) == Lesser(ny - 1, (Pole(ny, g) - j) \div Cell(g))

\* ---------------------------------------------------------------- (3) vec2pix as written
\* np.round: nearest, ties to even.  a / b with b > 0.
RoundDiv(a, b) == LET q == (2 * a + b) \div (2 * b)
                      tie == (2 * a + b) % (2 * b) = 0
                  IN IF tie /\ q % 2 = 1 THEN q - 1 ELSE q
NormLon(v, nx, g, k) ==
    IF v \in Centred THEN ((k + HalfP(nx, g)) % Period(nx, g)) - HalfP(nx, g)     \* (lon + pi) % 2pi - pi
    ELSE k % Period(nx, g)                                                      \* lon % 2pi
Lon0(v, nx, g) ==
    CASE v = "sky"       -> HalfP(nx, g) - Half(g)          \* pi - 0.5/dx
      [] v = "zeroright" -> Period(nx, g) - Half(g)         \* 2pi - 0.5/dx
      [] v = "planet"    -> Half(g) - HalfP(nx, g)          \* -pi + 0.5/dx
      [] v = "zeroleft"  -> Half(g)                         \* 0.5/dx
CodeCol(v, nx, g, k) ==
    LET lon == NormLon(v, nx, g, k)
        num == IF v \in LeftInc THEN Lon0(v, nx, g) - lon ELSE lon - Lon0(v, nx, g)
    IN Clip(RoundDiv(num, Cell(g)), 0, nx - 1)
CodeRow(ny, g, j) == Clip(RoundDiv(Pole(ny, g) - Half(g) - j, Cell(g)), 0, ny - 1)

\* ---------------------------------------------------------------- test angles of a configuration
\* mode "full": every odd unit of three periods / every odd latitude unit, plus one period moved by +-far turns
\* mode "edge": the two units next to every cell edge and every cell centre (g is large there: a point 1/(4g) of
\*              a cell away from an edge must already resolve to the right cell)
\* mode "grid": the cell edges and cell centres themselves (every multiple of half a cell, the seam at the map edge and
\*              the poles included).  On an edge the property admits either adjacent cell: the expectation is a SET.
\* mode "wide": maps of up to 2^22 columns (or rows) - far too many cells to enumerate.  The test angles are the centres of
\*              the columns x.cols / rows x.rows named by the harness and the two units a quarter of a cell on either side of
\*              each, the longitudes on three turns.  A cell is an interval, so EVERY real angle between centre - quarter and
\*              centre + quarter lies in that cell, at least a quarter of a cell from its edges: the harness asks the samplers
\*              at the float32 / float16 / ... numbers that fall in that window (request arrays of other dtypes).
WideMode(x) == x.mode = "wide"
ColCentre(v, nx, g, col) == West(v, nx, g, col) + Half(g)
RowCentre(ny, g, r) == Pole(ny, g) - r * Cell(g) - Half(g)
LonBase(x) ==
    LET P == Period(x.nx, x.g)  H == HalfP(x.nx, x.g) IN
    IF WideMode(x) THEN {ColCentre(x.v, x.nx, x.g, col) + d + t * P : col \in x.cols, d \in {0 - x.g, 0, x.g}, t \in {-1, 0, 1}}
    ELSE IF x.mode = "full" THEN {k \in (0 - P - H)..(P + H) : LonOK(k)}
    ELSE IF x.mode = "grid" THEN {b * Half(x.g) : b \in (0 - 3 * x.nx)..(3 * x.nx)}
    ELSE {b * Half(x.g) + d : b \in (0 - 3 * x.nx)..(3 * x.nx), d \in {-1, 1}}
LonOne(x) == {k \in LonBase(x) : 0 - HalfP(x.nx, x.g) <= k /\ k <= HalfP(x.nx, x.g)}
\* whole turns of the far-offset points: the wanted number, reduced so that every intermediate value stays below 2^30
Far(x) == Greater(3, Lesser(x.far, 268435456 \div Period(x.nx, x.g)))
LonFar(x) == {k + s * Far(x) * Period(x.nx, x.g) : k \in LonOne(x), s \in {-1, 1}}
LonPts(x) == IF WideMode(x) THEN LonBase(x) ELSE LonBase(x) \cup LonFar(x)
LatPts(x) ==
    LET Q == Pole(x.ny, x.g) IN
    IF WideMode(x) THEN {RowCentre(x.ny, x.g, r) + d : r \in x.rows, d \in {0 - x.g, 0, x.g}} ELSE
    {Q, 0 - Q} \cup
    (IF x.mode = "full" THEN {j \in (0 - Q)..Q : LatOK(x.ny, x.g, j)}
     ELSE IF x.mode = "grid" THEN {Q - b * Half(x.g) : b \in 0..(2 * x.ny)}
     ELSE {j \in {Q - b * Half(x.g) + d : b \in 0..(2 * x.ny), d \in {-1, 1}} : LatOK(x.ny, x.g, j)})

\* ---------------------------------------------------------------- the sentences of the property
\* "the map pixel whose cell contains that point": exactly one column / row contains an admissible angle
Unique(x) ==
    /\ \A k \in LonPts(x) : Cardinality({col \in 0..(x.nx - 1) : InColumn(x.v, x.nx, x.g, col, k)}) = 1
    /\ \A j \in LatPts(x) : Cardinality({r \in 0..(x.ny - 1) : InRow(x.ny, x.g, r, j)}) = 1
\* "never indexes outside the map"
InRange(x) ==
    LET cf == TLCEval([k \in LonPts(x) |-> Col(x.v, x.nx, x.g, k)])     \* evaluated once per state (TLCEval forces the table)
        rf == TLCEval([j \in LatPts(x) |-> Row(x.ny, x.g, j)])
    IN /\ \A k \in LonPts(x) : cf[k] \in 0..(x.nx - 1)
       /\ \A j \in LatPts(x) : rf[j] \in 0..(x.ny - 1)
       /\ \A k \in LonPts(x), j \in LatPts(x) : MapValue(x.nx, rf[j], cf[k]) \in 0..(x.nx * x.ny - 1)
\* "periodic in longitude with period 2*pi"
Periodic(x) ==
    \A k \in LonBase(x) : \A t \in {0 - Far(x), -2, -1, 1, 2, Far(x)} :
        Col(x.v, x.nx, x.g, k + t * Period(x.nx, x.g)) = Col(x.v, x.nx, x.g, k)
\* "longitude increasing to the left / to the right": one cell further east is one column to the left / right (cyclically)
Direction(x) ==
    \A k \in LonBase(x) :
        Col(x.v, x.nx, x.g, k + Cell(x.g)) = (Col(x.v, x.nx, x.g, k) + (IF x.v \in LeftInc THEN -1 ELSE 1)) % x.nx
\* "0 at the centre / at the right edge / at the left edge": the columns just east (+1) and just west (-1) of longitude 0
ZeroAt(x) ==
    LET e == Col(x.v, x.nx, x.g, 1)  w == Col(x.v, x.nx, x.g, -1)  n == x.nx IN
    CASE x.v = "sky"       -> e = (n - 1) \div 2 /\ w = n \div 2          \* centre; east is to the left
      [] x.v = "planet"    -> e = n \div 2 /\ w = (n - 1) \div 2          \* centre; east is to the right
      [] x.v = "zeroright" -> e = n - 1 /\ w = 0                          \* right edge; wraps to the left edge
      [] x.v = "zeroleft"  -> e = 0 /\ w = n - 1                          \* left edge; wraps to the right edge
\* "latitude +90 at the top row", rows run monotonically down to -90 at the bottom row
TopRow(x) ==
    LET Q  == Pole(x.ny, x.g)
        js == SetToSortSeq(LatPts(x), <)                                  \* south to north
        rf == TLCEval([j \in LatPts(x) |-> Row(x.ny, x.g, j)])
    IN /\ rf[Q] = 0 /\ rf[0 - Q] = x.ny - 1
       /\ \A a \in 1..(Len(js) - 1) : rf[js[a]] >= rf[js[a + 1]]         \* going north never goes down the map
       /\ \A j \in LatPts(x) : (j # Q /\ (j - Cell(x.g)) \in LatPts(x)) => rf[j - Cell(x.g)] = rf[j] + 1
\* the planetary layouts are the mirror images of the sky layouts; zero-edge = centred shifted by half a turn (docstrings)
Mirror(x) ==
    \A k \in LonBase(x) :
        /\ Col("planet", x.nx, x.g, k) = x.nx - 1 - Col("sky", x.nx, x.g, k)
        /\ Col("zeroleft", x.nx, x.g, k) = x.nx - 1 - Col("zeroright", x.nx, x.g, k)
        /\ Col("zeroleft", x.nx, x.g, k) = Col("planet", x.nx, x.g, k - HalfP(x.nx, x.g))
        /\ Col("zeroright", x.nx, x.g, k) = Col("sky", x.nx, x.g, k - HalfP(x.nx, x.g))
ClosedForm(x) ==
    /\ \A k \in LonPts(x) : ColF(x.v, x.nx, x.g, k) = Col(x.v, x.nx, x.g, k)
    /\ \A j \in LatPts(x) : RowF(x.ny, x.g, j) = Row(x.ny, x.g, j)
\* the algorithm written in samplers.py computes the documented cell (exact arithmetic)
CodeShape(x) ==
    /\ \A k \in LonPts(x) : CodeCol(x.v, x.nx, x.g, k) = Col(x.v, x.nx, x.g, k)
    /\ \A j \in LatPts(x) : CodeRow(x.ny, x.g, j) = Row(x.ny, x.g, j)

\* ---------------------------------------------------------------- points on a cell edge: admissible sets
\* "points within a rounding tolerance of a cell boundary may resolve to either adjacent cell": closed containment
InColumnClosed(v, nx, g, col, k) == ((k - West(v, nx, g, col)) % Period(nx, g)) <= Cell(g)
AdmCols(v, nx, g, k) == {col \in 0..(nx - 1) : InColumnClosed(v, nx, g, col, k)}
AdmRows(ny, g, j) == {r \in 0..(ny - 1) : InRow(ny, g, r, j)}
AdmSample(v, nx, ny, g, k, j) == {MapValue(nx, r, col) : r \in AdmRows(ny, g, j), col \in AdmCols(v, nx, g, k)}
OnLonEdge(v, nx, g, k) == XFromLeft(v, nx, g, k) % Cell(g) = 0
OnLatEdge(ny, g, j) == (Pole(ny, g) - j) % Cell(g) = 0
\* the admissible cells of an even unit are exactly the cells of its two odd neighbours: one cell inside a cell, the two
\* cells sharing the edge on an edge (columns 0 and nx-1 of the same row at the seam), four at a corner, one row at a pole;
\* periodic; and the algorithm of samplers.py (round-half-even, clip) picks an admissible one
Boundary(x) ==
    LET Q == Pole(x.ny, x.g)  P == Period(x.nx, x.g) IN
    /\ \A k \in LonPts(x) :
          LET A == AdmCols(x.v, x.nx, x.g, k) IN
          /\ A = {Col(x.v, x.nx, x.g, k - 1), Col(x.v, x.nx, x.g, k + 1)}
          /\ Cardinality(A) = (IF OnLonEdge(x.v, x.nx, x.g, k) /\ x.nx > 1 THEN 2 ELSE 1)
          /\ (XFromLeft(x.v, x.nx, x.g, k) = 0) => A = {0, x.nx - 1}
          /\ \A t \in {-1, 1, Far(x)} : AdmCols(x.v, x.nx, x.g, k + t * P) = A
          /\ CodeCol(x.v, x.nx, x.g, k) \in A
    /\ \A j \in LatPts(x) :
          LET R == AdmRows(x.ny, x.g, j) IN
          /\ R = {Row(x.ny, x.g, i) : i \in {j - 1, j + 1} \cap ((0 - Q)..Q)}
          /\ Cardinality(R) = (IF OnLatEdge(x.ny, x.g, j) /\ j # Q /\ j # 0 - Q THEN 2 ELSE 1)
          /\ CodeRow(x.ny, x.g, j) \in R
    /\ \A k \in LonPts(x), j \in LatPts(x) :
          LET S == AdmSample(x.v, x.nx, x.ny, x.g, k, j) IN
          S # {} /\ S \subseteq 0..(x.nx * x.ny - 1) /\ Cardinality(S) <= 4

\* ---------------------------------------------------------------- wide maps: the sampled columns / rows only
\* The containment relation of layer (1) is asked about the closed form's cell directly (CHOOSE over 2^22 columns is out of
\* reach): the cell contains the angle in its open interval, neither neighbour contains it even closed, it is the column / row
\* the harness named, the same on the three turns, and what vec2pix computes in exact arithmetic.
MirrorOf(v) == CASE v = "sky" -> "planet" [] v = "planet" -> "sky" [] v = "zeroright" -> "zeroleft" [] v = "zeroleft" -> "zeroright"
Wide(x) ==
    LET P == Period(x.nx, x.g) IN
    /\ x.cols \subseteq 0..(x.nx - 1) /\ x.rows \subseteq 0..(x.ny - 1) /\ x.cols # {} /\ x.rows # {}
    /\ \A col \in x.cols : \A d \in {0 - x.g, 0, x.g} : \A t \in {-1, 0, 1} :
          LET k == ColCentre(x.v, x.nx, x.g, col) + d + t * P IN
          /\ ColF(x.v, x.nx, x.g, k) = col
          /\ InColumn(x.v, x.nx, x.g, col, k)
          /\ x.nx > 1 => /\ ~InColumnClosed(x.v, x.nx, x.g, (col + 1) % x.nx, k)
                         /\ ~InColumnClosed(x.v, x.nx, x.g, (col - 1) % x.nx, k)
          /\ CodeCol(x.v, x.nx, x.g, k) = col
    /\ \A r \in x.rows : \A d \in {0 - x.g, 0, x.g} :
          LET j == RowCentre(x.ny, x.g, r) + d IN
          /\ RowF(x.ny, x.g, j) = r
          /\ InRow(x.ny, x.g, r, j) /\ 0 - Pole(x.ny, x.g) < j /\ j < Pole(x.ny, x.g)
          /\ r > 0 => ~InRow(x.ny, x.g, r - 1, j)
          /\ r < x.ny - 1 => ~InRow(x.ny, x.g, r + 1, j)
          /\ CodeRow(x.ny, x.g, j) = r
    \* the layouts' relations on the sampled columns: mirror image (the layout with the same cell edges), direction
    /\ \A k \in LonPts(x) :
          /\ ColF(MirrorOf(x.v), x.nx, x.g, k) = x.nx - 1 - ColF(x.v, x.nx, x.g, k)
          /\ ColF(x.v, x.nx, x.g, k + Cell(x.g)) = (ColF(x.v, x.nx, x.g, k) + (IF x.v \in LeftInc THEN -1 ELSE 1)) % x.nx
    /\ \A k \in LonPts(x), j \in LatPts(x) :
          MapValue(x.nx, RowF(x.ny, x.g, j), ColF(x.v, x.nx, x.g, k)) \in 0..(x.nx * x.ny - 1)
WideTable(x) ==
    LET ks == SetToSortSeq(LonPts(x), <)
        js == SetToSortSeq(LatPts(x), <)
        cf == TLCEval([k \in LonPts(x) |-> ColF(x.v, x.nx, x.g, k)])
        rf == TLCEval([j \in LatPts(x) |-> RowF(x.ny, x.g, j)])
    IN [v |-> x.v, nx |-> x.nx, ny |-> x.ny, g |-> x.g, mode |-> x.mode, far |-> 0, ks |-> ks, js |-> js,
        cells |-> [a \in DOMAIN js |-> [b \in DOMAIN ks |-> MapValue(x.nx, rf[js[a]], cf[ks[b]])]]]

\* ---------------------------------------------------------------- the table handed to the harness
\* (grid family: every entry of cells is the sorted sequence of admissible values instead of one value)
GridTable(x) ==
    LET ks == SetToSortSeq(LonPts(x), <)
        js == SetToSortSeq(LatPts(x), <)
        cf == TLCEval([k \in LonPts(x) |-> AdmCols(x.v, x.nx, x.g, k)])
        rf == TLCEval([j \in LatPts(x) |-> AdmRows(x.ny, x.g, j)])
    IN [v |-> x.v, nx |-> x.nx, ny |-> x.ny, g |-> x.g, mode |-> x.mode, far |-> Far(x), ks |-> ks, js |-> js,
        cells |-> [a \in DOMAIN js |-> [b \in DOMAIN ks |->
                     SetToSortSeq({MapValue(x.nx, r, col) : r \in rf[js[a]], col \in cf[ks[b]]}, <)]]]
StrictTable(x) ==
    LET ks == SetToSortSeq(LonPts(x), <)
        js == SetToSortSeq(LatPts(x), <)
        cf == TLCEval([k \in LonPts(x) |-> Col(x.v, x.nx, x.g, k)])
        rf == TLCEval([j \in LatPts(x) |-> Row(x.ny, x.g, j)])
    IN [v |-> x.v, nx |-> x.nx, ny |-> x.ny, g |-> x.g, mode |-> x.mode, far |-> Far(x), ks |-> ks, js |-> js,
        cells |-> [a \in DOMAIN js |-> [b \in DOMAIN ks |-> MapValue(x.nx, rf[js[a]], cf[ks[b]])]]]

Table(x) == IF x.mode = "grid" THEN GridTable(x) ELSE IF WideMode(x) THEN WideTable(x) ELSE StrictTable(x)

\* ---------------------------------------------------------------- state space: one state per configuration
\* (only the first configuration of every chain is an initial state, so that TLC's workers share the rest)
NextLayout(v) == CASE v = "sky" -> "zeroright" [] v = "zeroright" -> "planet" [] v = "planet" -> "zeroleft" [] v = "zeroleft" -> "sky"
PrevLayout(v) == CASE v = "zeroright" -> "sky" [] v = "planet" -> "zeroright" [] v = "zeroleft" -> "planet" [] v = "sky" -> "zeroleft"
Succ(a) == {d \in {[a EXCEPT !.nx = a.nx + 1], [a EXCEPT !.nx = 2 * a.nx], [a EXCEPT !.ny = a.ny + 1], [a EXCEPT !.ny = 2 * a.ny]}
                   \cup (IF a.v = "zeroleft" THEN {} ELSE {[a EXCEPT !.v = NextLayout(a.v)]}) : d \in Configs /\ d # a}
Pred(a) == {d \in {[a EXCEPT !.nx = a.nx - 1], [a EXCEPT !.ny = a.ny - 1]}
                   \cup (IF a.nx % 2 = 0 THEN {[a EXCEPT !.nx = a.nx \div 2]} ELSE {})
                   \cup (IF a.ny % 2 = 0 THEN {[a EXCEPT !.ny = a.ny \div 2]} ELSE {})
                   \cup (IF a.v = "sky" THEN {} ELSE {[a EXCEPT !.v = PrevLayout(a.v)]}) : d \in Configs /\ d # a}
Roots == {a \in Configs : Pred(a) = {}}
Init == c \in Roots
Next == c' \in Succ(c)
Spec == Init /\ [][Next]_c

Strict == c.mode \in {"full", "edge"}          \* the test angles of the configuration are never on a cell edge (and the cells can be enumerated)
UniqueInv == Strict => Unique(c)
InRangeInv == Strict => InRange(c)
PeriodicInv == Strict => Periodic(c)
DirectionInv == Strict => Direction(c)
ZeroAtInv == (~WideMode(c)) => ZeroAt(c)
TopRowInv == Strict => TopRow(c)
MirrorInv == Strict => Mirror(c)
ClosedFormInv == Strict => ClosedForm(c)
CodeShapeInv == Strict => CodeShape(c)
BoundaryInv == (c.mode = "grid") => Boundary(c)
WideInv == WideMode(c) => Wide(c)
\* refinement step: a map with twice as many columns / rows splits every cell in two (action property over Next)
Refines ==
    [][ Strict =>
        /\ (c'.nx = 2 * c.nx /\ c'.v = c.v) =>
            \A k \in LonOne(c) : \A d \in {-1, 1} : Col(c'.v, c'.nx, c'.g, 2 * k + d) \div 2 = Col(c.v, c.nx, c.g, k)
        /\ (c'.ny = 2 * c.ny) =>
            \A j \in LatPts(c) : (j % 2 = 1) => \A d \in {-1, 1} : Row(c'.ny, c'.g, 2 * j + d) \div 2 = Row(c.ny, c.g, j) ]_c
=============================================================================
