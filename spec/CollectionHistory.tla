-------------------------- MODULE CollectionHistory --------------------------
(* Histories on ONE collection object (toasty/collection.py,                   *)
(* SimpleFitsCollection.descriptions() / images() called repeatedly) with a    *)
(* client that edits what it was handed in between.                            *)
(*                                                                             *)
(* The objects a pass yields are mutable (ImageDescription / Image): the       *)
(* library's own consumers call desc.ensure_negative_parity() on every yielded *)
(* description (ImageCollection._is_multi_tan, MultiTanProcessor.              *)
(* compute_global_pixelization), which rewrites desc.wcs in place, and a user  *)
(* may flip parity or edit the WCS / data of a yielded object.  The property's *)
(* "descriptions and full images of the same collection ALWAYS refer to the    *)
(* same HDUs ... with identical shapes and WCS" therefore needs every pass to  *)
(* hand out objects of its own: `_load` builds each item from the freshly      *)
(* opened file (Pass allocates new heap cells).  The design that parses the    *)
(* headers once and hands the same description objects out again (Memoise =    *)
(* TRUE) is refuted by TLC: LaterEnumerationIsFresh fails after d, parity, d.  *)
(*                                                                             *)
(* heap   object id -> what the object says now: the item of Collection.tla    *)
(*        plus parity (1 = as stored in the file, bottom-up; -1 = flipped) and *)
(*        edited (the client overwrote WCS numbers / pixels)                   *)
(* seen   per pass: generator, ids handed out, and what each object said at    *)
(*        the moment it was yielded                                            *)
(* log    the operations so far ("d", "i" = a complete descriptions()/images() *)
(*        enumeration; "parity" = ensure_negative_parity() on every object of  *)
(*        the last pass; "edit" = flip_parity() + overwrite CRVAL / pixels)    *)
EXTENDS Collection

CONSTANTS Memoise,      \* FALSE = the code as it is; TRUE = descriptions() caches its objects (refuted)
          MaxPasses

VARIABLES heap, last, mutated, cache, seen, log
hvars == <<lay, hs, ks, dout, iout, heap, last, mutated, cache, seen, log>>

Pristine(i) == LET o == ScanOne(CollPaths, hs, ks, i) IN
               [path |-> o.path, file |-> o.file, hdu |-> o.hdu, key |-> o.key, parity |-> 1, edited |-> FALSE]
Edit(v, m) == IF m = "parity" THEN [v EXCEPT !.parity = -1]                    \* ensure_negative_parity()
              ELSE [v EXCEPT !.parity = -(v.parity), !.edited = TRUE]          \* flip_parity(), then overwrite numbers
IdsOf(s) == {s[n] : n \in DOMAIN s}

HInit == /\ Init
         /\ heap = <<>> /\ last = <<>> /\ mutated = FALSE /\ cache = <<>> /\ seen = <<>> /\ log = <<>>

\* one complete enumeration by generator g
Pass(g) ==
    /\ Len(seen) < MaxPasses
    /\ LET n == Len(CollPaths)
           reuse == g = "d" /\ Memoise /\ cache # <<>>
           ids == IF reuse THEN cache ELSE [i \in 1..n |-> Len(heap) + i]
           h2 == IF reuse THEN heap ELSE heap \o [i \in 1..n |-> Pristine(i)]
       IN /\ heap' = h2
          /\ cache' = IF g = "d" /\ Memoise THEN ids ELSE cache
          /\ last' = ids
          /\ seen' = Append(seen, [gen |-> g, ids |-> ids, items |-> [i \in 1..n |-> h2[ids[i]]]])
    /\ mutated' = FALSE /\ log' = Append(log, g)
    /\ UNCHANGED <<lay, hs, ks, dout, iout>>

\* the client edits, in place, every object the last pass handed to it
Mutate(m) ==
    /\ last # <<>> /\ ~mutated /\ Len(seen) < MaxPasses
    /\ heap' = [id \in DOMAIN heap |-> IF id \in IdsOf(last) THEN Edit(heap[id], m) ELSE heap[id]]
    /\ mutated' = TRUE /\ log' = Append(log, m)
    /\ UNCHANGED <<lay, hs, ks, dout, iout, last, cache, seen>>

HNext == Pass("d") \/ Pass("i") \/ Mutate("parity") \/ Mutate("edit")
HSpec == HInit /\ [][HNext]_hvars
HDone == Len(seen) = MaxPasses

\* every enumeration, however late in the history, yields what a fresh collection would
LaterEnumerationIsFresh == \A p \in DOMAIN seen : \A i \in DOMAIN seen[p].items : seen[p].items[i] = Pristine(i)
\* ... because no object is ever handed out twice
NoAliasing == \A p, q \in DOMAIN seen : p # q => IdsOf(seen[p].ids) \cap IdsOf(seen[q].ids) = {}
\* descriptions and images of the same collection always agree: same HDUs, in input order, same shapes and WCS
AlwaysAgree == \A p, q \in DOMAIN seen : seen[p].items = seen[q].items
\* one item per input position in every pass
EveryPassComplete == \A p \in DOMAIN seen : Len(seen[p].items) = N
=============================================================================
