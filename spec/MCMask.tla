------------------------------- MODULE MCMask -------------------------------
(* Model-checking companion of Mask.tla: the JSON emitters that hand TLC's    *)
(* transition tables to the conformance harness (checks/c15.py).  A generated *)
(* module extending this one supplies the constants (MC... definitions).      *)
(* Every emitted entry is computed with the operators the Return steps use    *)
(* (Apply / FileAfter / GotAfter), for a state TLC has reached.               *)
EXTENDS Mask, Json

\* a tile as a number: little-endian base V+1 over the row-major pixels
RECURSIVE CodeFrom(_, _)
CodeFrom(t, p) == IF p > N THEN 0 ELSE t[p] + (V + 1) * CodeFrom(t, p + 1)
Code(t) == CodeFrom(t, 1)

\* once per run: the indexers and the per-class source images the call ids refer to
EmitTables == PrintT(<<"I", ToJson([h |-> H, w |-> W, v |-> V, nrect |-> NRect, idx |-> IdxSeq, pairs |-> PairsOf,
                                     src |-> [c \in AllClasses |-> [k \in 1..Len(SrcSeqOf[c]) |-> Code(SrcSeqOf[c][k])]]])>>)

\* per buffer state: the result of every enabled call
EmitB == buf \in ExploreFrom =>
    LET S == SrcSeqOf[cls] IN
    PrintT(<<"B", ToJson([c |-> cls, b |-> Code(buf),
                          clear |-> Code(Apply(cls, buf, ClearCall)),
                          fill |-> [j \in 1..Len(IdxSeq) |-> [k \in 1..Len(S) |->
                                      Code(Apply(cls, buf, FillCall(j, k)))]],
                          update |-> [j \in 1..Len(IdxSeq) |-> [k \in 1..Len(S) |->
                                      Code(Apply(cls, buf, UpdateCall(j, k)))]]])>>)

\* per tile-file state (as left by a write, or initially): the result of every enabled call
FCalls(f) == SetToSeq({[op |-> "readnone", mode |-> "none", px |-> AllU]}
                      \cup {[op |-> "readmasked", mode |-> m, px |-> AllU] : m \in Modes}
                      \cup {[op |-> "configure", mode |-> o, px |-> AllU] : o \in LoaderConfigs}
                      \cup {[op |-> o, mode |-> "none", px |-> AllU] : o \in SibOps}
                      \cup UNION {{[op |-> "write", mode |-> m, px |-> t] : t \in TilesOf(m)} : m \in CanHold[f]})
EmitF == (fcall.op = "none" /\ got = NoGot) =>
    LET cs == FCalls(fmt) IN
    PrintT(<<"F", ToJson([fmt |-> fmt, env |-> lenv, sib |-> (sib # Absent), sibpx |-> Code(SibTile.px), mode |-> file.mode, px |-> Code(file.px),
                          edges |-> [i \in 1..Len(cs) |->
                              LET f2 == FileAfter(file, cs[i])
                                  g2 == GotAfter(file, cs[i])
                                  e2 == IF cs[i].op = "configure" THEN cs[i].mode ELSE lenv
                              IN <<cs[i].op, cs[i].mode, Code(cs[i].px), e2, (SibAfter(sib, cs[i]) # Absent), f2.mode, Code(f2.px),
                                   g2.kind, g2.mode, Code(g2.px), g2.sz>>]])>>)

\* per state of the two-position machine: every enabled call and the state it leads to
\* a state is <<fmt, pmode, file 1, file 2, buffer 1, buffer 2>>, a file -1 (absent) or its tile code, a buffer <<pos, code>>
FileCode(f) == IF f = Absent THEN 0 - 1 ELSE Code(f.px)
PState(pf, ph) == <<fmt, pmode, FileCode(pf[1]), FileCode(pf[2]), <<ph[1].pos, Code(ph[1].px)>>, <<ph[2].pos, Code(ph[2].px)>>>>
EmitP ==
    LET S == PairSrcSeq
        opens == {kp \in Handles \X Positions : phand[kp[1]] = Closed}
        live == {k \in Handles : phand[k] # Closed}
    IN PrintT(<<"P", ToJson([s |-> PState(pfile, phand),
                            src |-> [i \in 1..Len(S) |-> Code(S[i])],
                            open |-> SetToSeq({<<kp[1], kp[2], PState(pfile, OpenTo(kp[1], kp[2]))>> : kp \in opens}),
                            mut |-> SetToSeq({<<x[1], x[2], x[3], PState(pfile, MutTo(x[1], x[2], S[x[3]]))>> :
                                              x \in live \X {"fill", "update", "set"} \X (1..Len(S))}
                                             \cup {<<k, "clear", 0, PState(pfile, MutTo(k, "clear", AllU))>> : k \in live}),
                            close |-> SetToSeq({<<k, PState(CloseFiles(k), CloseHands(k))>> : k \in live})])>>)
=============================================================================
