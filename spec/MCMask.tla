------------------------------- MODULE MCMask -------------------------------
(* Model-checking companion of Mask.tla: the JSON emitters that hand TLC's    *)
(* transition tables to the conformance harness (checks/c15.py).  A generated *)
(* module extending this one supplies the constants (MC... definitions).      *)
(* Every emitted entry is computed with the operators the Return steps use    *)
(* (Apply / FileAfter / GotAfter), for a state TLC has reached.               *)
EXTENDS Mask, Json

\* a tile as a number: little-endian base V+1 over the row-major pixels
RECURSIVE CodeFrom(_, _)
CodeFrom(t, p) == IF p > N THEN 0 ELSE t[p] + (V + 1) * CodeFrom(t, p + 1)
Code(t) == CodeFrom(t, 1)

\* once per run: the indexers and the per-class source images the call ids refer to
EmitTables == PrintT(<<"I", ToJson([h |-> H, w |-> W, v |-> V, nrect |-> NRect, idx |-> IdxSeq, pairs |-> PairsOf,
                                     src |-> [c \in AllClasses |-> [k \in 1..Len(SrcSeqOf[c]) |-> Code(SrcSeqOf[c][k])]]])>>)

\* per buffer state: the result of every enabled call
EmitB == buf \in ExploreFrom =>
    LET S == SrcSeqOf[cls] IN
    PrintT(<<"B", ToJson([c |-> cls, b |-> Code(buf),
                          clear |-> Code(Apply(cls, buf, ClearCall)),
                          fill |-> [j \in 1..Len(IdxSeq) |-> [k \in 1..Len(S) |->
                                      Code(Apply(cls, buf, FillCall(j, k)))]],
                          update |-> [j \in 1..NRect |-> [k \in 1..Len(S) |->
                                      Code(Apply(cls, buf, UpdateCall(j, k)))]]])>>)

\* per tile-file state (as left by a write, or initially): the result of every enabled call
FCalls(f) == SetToSeq({[op |-> "readnone", mode |-> "none", px |-> AllU]}
                      \cup {[op |-> "readmasked", mode |-> m, px |-> AllU] : m \in Modes}
                      \cup UNION {{[op |-> "write", mode |-> m, px |-> t] : t \in TilesOf(m)} : m \in CanHold[f]})
EmitF == (fcall.op = "none" /\ got = NoGot) =>
    LET cs == FCalls(fmt) IN
    PrintT(<<"F", ToJson([fmt |-> fmt, mode |-> file.mode, px |-> Code(file.px),
                          edges |-> [i \in 1..Len(cs) |->
                              LET f2 == FileAfter(file, cs[i])
                                  g2 == GotAfter(file, cs[i])
                              IN <<cs[i].op, cs[i].mode, Code(cs[i].px), f2.mode, Code(f2.px),
                                   g2.kind, g2.mode, Code(g2.px), g2.sz>>]])>>)
=============================================================================
