---- MODULE MCChunks ----
(* Stand-alone model of Chunks (tlc -config MCChunks.cfg MCChunks.tla): every grid of a map up to 5 x 4     *)
(* and two larger ones.  checks/c07.py generates this module for the configurations it uses.               *)
EXTENDS Chunks, Json
MCConfigs == {<<w, h, tw, th>> \in (1..5) \X (1..4) \X (1..5) \X (1..4) : tw <= w /\ th <= h} \cup {<<21, 11, 8, 4>>, <<16, 8, 8, 8>>}
MCBigConfigs == {<<96, 48, 33, 25>>, <<1000, 500, 334, 251>>}
Emit == i \in {-2, -3} => PrintT(<<"C", ToJson([cf |-> c, n |-> NChunks(c), specs |-> [k \in 1..NChunks(c) |-> ChunkSpec(c, k - 1)],
                                       bounds |-> [k \in 1..NChunks(c) |-> BoundsPi(c, k - 1)]])>>)
====
