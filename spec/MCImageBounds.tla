---- MODULE MCImageBounds ----
(* Stand-alone model of ImageBounds (tlc -config MCImageBounds.cfg MCImageBounds.tla); with                  *)
(* MCImageBounds_aswritten.cfg (MinSamples = 1) TLC refutes ReachesImageEdge.  checks/c07.py generates this *)
(* module for the axis lengths of its footprints; Emit prints the sample sets.                             *)
EXTENDS ImageBounds, Json
MCLengths == 1..64 \cup {100, 257, 600}
Emit ==
  /\ ((q[1] = "axis" /\ q[3] = 0) =>
       PrintT(<<"A", ToJson([L |-> q[2],
                 coarse |-> [i \in 1..NC |-> Coarse(q[2], i - 1)[1]],
                 ref |-> [e1 \in 1..NC |-> [den |-> RefDen(q[2], e1 - 1),
                                            num |-> [k \in 1..N(q[2], e1 - 1) |-> RefNum(q[2], e1 - 1, k)]]]])>>))
  /\ ((q[1] = "walk" /\ q[2] = 0) =>
       PrintT(<<"W", ToJson([pe \in 1..(4 * NM + 1) |-> [p |-> Perim(pe - 1), ax |-> Seg(pe - 1).ax, rel |-> Seg(pe - 1).rel, fix |-> Seg(pe - 1).fix]])>>))
====
