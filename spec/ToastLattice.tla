---------------------------- MODULE ToastLattice ----------------------------
(* TOAST as an integer lattice.                                               *)
(*                                                                            *)
(* The TOAST square is the lattice {0..S} x {0..S}, S = 2^R.  The tile        *)
(* (n, x, y) owns the lattice points (x, y), (x+1, y), (x+1, y+1), (x, y+1)   *)
(* scaled by 2^(R-n) as its corners ul, ur, lr, ll (row y grows downwards).   *)
(* The documented layout fixes the nine level-1 points on the sphere: centre  *)
(* = north pole, the four corners = south pole, side midpoints = equator at   *)
(* longitude 0 / 90 / 180 / 270 going counter-clockwise from the right (sky)  *)
(* or from the left (planetary).  Every other lattice point is *defined* as   *)
(* the great-circle midpoint of a pair of coarser points: Def(p).  A point    *)
(* therefore is a record [pt, def]; the code's subdivision (Div4, Single,     *)
(* Sub) is transcribed with Mid(a, b) recording the pair it was taken of, and *)
(* the theorems require the result to be the canonical point - this is what   *)
(* makes the choice of diagonal visible (on the flat lattice both diagonals   *)
(* have the same midpoint).                                                   *)
(*                                                                            *)
(* Transcribed from toasty/toast.py (_level1_astronomical_lonlats,            *)
(* _create_level1_tiles, _div4, create_single_tile, _postfix_corner /         *)
(* generate_tiles, toast_tile_for_point) and toasty/_libtoasty.pyx            *)
(* (_subsample).                                                              *)
EXTENDS Naturals, Sequences, FiniteSets, TLC
CONSTANTS R, MaxDepth, K        \* lattice refinement; tiles to MaxDepth (<= R); sub-sampling exponent

S == 2^R
H == 2^(R - 1)
Step(n) == 2^(R - n)
Positions(n) == {<<n, x, y>> : x \in 0..(2^n - 1), y \in 0..(2^n - 1)}
AllPos == UNION {Positions(n) : n \in 1..MaxDepth}
Lattice == (0..S) \X (0..S)

\* ---------------------------------------------------------------- canonical description
\* diagonal orientation of tile (n, x, y), n >= 1: "increasing" iff it lies in the upper-left or lower-right quadrant
Inc(n, x, y) == LET h == 2^(n - 1) IN (x >= h) = (y >= h)

\* the level at which a lattice point first appears
Lvl(p) == CHOOSE L \in 0..R : /\ p[1] % Step(L) = 0 /\ p[2] % Step(L) = 0
                              /\ \A M \in 0..R : (p[1] % Step(M) = 0 /\ p[2] % Step(M) = 0) => L <= M
\* the pair of coarser points whose midpoint p is; {} for the nine anchored points
Def(p) ==
    LET L == Lvl(p)
        s == Step(L)
        a == p[1] \div s
        b == p[2] \div s
    IN IF L <= 1 THEN {}
       ELSE IF a % 2 = 1 /\ b % 2 = 0 THEN {<<p[1] - s, p[2]>>, <<p[1] + s, p[2]>>}
       ELSE IF a % 2 = 0 /\ b % 2 = 1 THEN {<<p[1], p[2] - s>>, <<p[1], p[2] + s>>}
       ELSE IF Inc(L - 1, a \div 2, b \div 2)
            THEN {<<p[1] - s, p[2] + s>>, <<p[1] + s, p[2] - s>>}      \* ll - ur
            ELSE {<<p[1] - s, p[2] - s>>, <<p[1] + s, p[2] + s>>}      \* ul - lr
CP(p) == [pt |-> p, def |-> Def(p)]
Corners(n, x, y) == LET s == Step(n) IN
    << CP(<<x * s, y * s>>), CP(<<(x + 1) * s, y * s>>), CP(<<(x + 1) * s, (y + 1) * s>>), CP(<<x * s, (y + 1) * s>>) >>
Tile(n, x, y) == [pos |-> <<n, x, y>>, c |-> Corners(n, x, y), inc |-> Inc(n, x, y)]
TileAt(p) == Tile(p[1], p[2], p[3])
Centre(n, x, y) == LET s == Step(n) IN CP(<<x * s + s \div 2, y * s + s \div 2>>)

\* the documented anchoring: <<lon, lat>> in units of 90 degrees; the longitude of a pole is immaterial (0 here)
Anchor(p, planetary) ==
    LET off == IF planetary THEN 2 ELSE 0 IN
    IF p = <<H, H>> THEN <<0, 1>>
    ELSE IF p[1] \in {0, S} /\ p[2] \in {0, S} THEN <<0, 3>>        \* lat -1 written as 3 (naturals only): see LatOf
    ELSE IF p = <<S, H>> THEN <<(0 + off) % 4, 0>>
    ELSE IF p = <<H, 0>> THEN <<(1 + off) % 4, 0>>
    ELSE IF p = <<0, H>> THEN <<(2 + off) % 4, 0>>
    ELSE <<(3 + off) % 4, 0>>                                       \* p = <<H, S>>
\* lat code: 0 equator, 1 north pole, 3 south pole

\* ---------------------------------------------------------------- the code's algorithms
\* _level1_astronomical_lonlats, rows = tiles (1,0,0) (1,1,0) (1,0,1) (1,1,1), entries (lon, lat) / 90 degrees, lat -90 -> 3
CodeLevel1 == << << <<0, 3>>, <<1, 0>>, <<0, 1>>, <<2, 0>> >>,
                 << <<1, 0>>, <<0, 3>>, <<0, 0>>, <<0, 1>> >>,
                 << <<2, 0>>, <<0, 1>>, <<3, 0>>, <<0, 3>> >>,
                 << <<0, 1>>, <<0, 0>>, <<0, 3>>, <<3, 0>> >> >>
CodeLevel1Inc == <<TRUE, FALSE, FALSE, TRUE>>
CodeLonLat(i, k, planetary) == LET e == CodeLevel1[i][k] IN <<IF planetary THEN (e[1] + 2) % 4 ELSE e[1], e[2]>>
Level1 == << Tile(1, 0, 0), Tile(1, 1, 0), Tile(1, 0, 1), Tile(1, 1, 1) >>

Mid(a, b) == [pt |-> <<(a.pt[1] + b.pt[1]) \div 2, (a.pt[2] + b.pt[2]) \div 2>>, def |-> {a.pt, b.pt}]
Div4(t) == LET ul == t.c[1] ur == t.c[2] lr == t.c[3] ll == t.c[4]
               to == Mid(ul, ur) ri == Mid(ur, lr) bo == Mid(lr, ll) le == Mid(ll, ul)
               ce == IF t.inc THEN Mid(ll, ur) ELSE Mid(ul, lr)
               n == t.pos[1] + 1  x == 2 * t.pos[2]  y == 2 * t.pos[3]
           IN << [pos |-> <<n, x, y>>,         c |-> <<ul, to, ce, le>>, inc |-> t.inc],
                 [pos |-> <<n, x + 1, y>>,     c |-> <<to, ur, ri, ce>>, inc |-> t.inc],
                 [pos |-> <<n, x, y + 1>>,     c |-> <<le, ce, bo, ll>>, inc |-> t.inc],
                 [pos |-> <<n, x + 1, y + 1>>, c |-> <<ce, ri, lr, bo>>, inc |-> t.inc] >>
\* create_single_tile: walk the bits of (x, y) from the top
RECURSIVE SingleFrom(_, _, _)
SingleFrom(children, pos, cur) ==
    LET sh == 2^(pos[1] - cur)
        ix == (pos[2] \div sh) % 2
        iy == (pos[3] \div sh) % 2
        t == children[iy * 2 + ix + 1]
    IN IF cur = pos[1] THEN t ELSE SingleFrom(Div4(t), pos, cur + 1)
Single(pos) == SingleFrom(Level1, pos, 1)
\* generate_tiles(bottom_only = False): post-order recursion with _div4
RECURSIVE PostTiles(_, _)
PostTiles(t, depth) ==
    IF t.pos[1] > depth THEN <<>>
    ELSE LET d == Div4(t) IN
         (IF t.pos[1] < depth THEN PostTiles(d[1], depth) \o PostTiles(d[2], depth) \o PostTiles(d[3], depth) \o PostTiles(d[4], depth)
          ELSE <<>>) \o <<t>>
Gen(depth) == PostTiles(Level1[1], depth) \o PostTiles(Level1[2], depth) \o PostTiles(Level1[3], depth) \o PostTiles(Level1[4], depth)
\* _subsample: n x n grid (n = 2^k) of centre points written into quadrant sub-arrays [rows, cols]
RECURSIVE Sub(_, _, _, _, _, _)
Sub(ul, ur, lr, ll, inc, k) ==
    LET up == Mid(ul, ur) le == Mid(ul, ll) ri == Mid(ur, lr) lo == Mid(ll, lr)
        cen == IF inc THEN Mid(ll, ur) ELSE Mid(ul, lr)
    IN IF k = 0 THEN [rc \in {<<0, 0>>} |-> cen]
       ELSE LET h == 2^(k - 1)
                q1 == Sub(ul, up, cen, le, inc, k - 1)   \* x[:n2, :n2]
                q2 == Sub(up, ur, ri, cen, inc, k - 1)   \* x[:n2, n2:]
                q3 == Sub(le, cen, lo, ll, inc, k - 1)   \* x[n2:, :n2]
                q4 == Sub(cen, ri, lr, lo, inc, k - 1)   \* x[n2:, n2:]
            IN [rc \in (0..(2 * h - 1)) \X (0..(2 * h - 1)) |->
                  IF rc[1] < h /\ rc[2] < h THEN q1[rc]
                  ELSE IF rc[1] < h THEN q2[<<rc[1], rc[2] - h>>]
                  ELSE IF rc[2] < h THEN q3[<<rc[1] - h, rc[2]>>]
                  ELSE q4[<<rc[1] - h, rc[2] - h>>]]

\* ---------------------------------------------------------------- the fold (the square's boundary is sewn to itself)
OnBoundary(p) == p[1] \in {0, S} \/ p[2] \in {0, S}
IsCorner(p) == p[1] \in {0, S} /\ p[2] \in {0, S}
Mirror(p) == IF p[2] \in {0, S} /\ p[1] \notin {0, S} THEN <<S - p[1], p[2]>>
             ELSE IF p[1] \in {0, S} /\ p[2] \notin {0, S} THEN <<p[1], S - p[2]>>
             ELSE p
Same(p, q) == p = q \/ (IsCorner(p) /\ IsCorner(q)) \/ (OnBoundary(p) /\ Mirror(p) = q)
Eqv(p) == IF IsCorner(p) THEN {<<0, 0>>, <<S, 0>>, <<0, S>>, <<S, S>>} ELSE {p, Mirror(p)}

\* ---------------------------------------------------------------- closed cells and point lookup
InClosed(p, t) == /\ t.c[1].pt[1] <= p[1] /\ p[1] <= t.c[3].pt[1]
                  /\ t.c[1].pt[2] <= p[2] /\ p[2] <= t.c[3].pt[2]
Holds(p, t) == \E q \in Eqv(p) : InClosed(q, t)
\* the same for a canonical tile, by arithmetic on its position
InClosedPos(p, pos) == LET s == Step(pos[1]) IN /\ pos[2] * s <= p[1] /\ p[1] <= (pos[2] + 1) * s
                                                /\ pos[3] * s <= p[2] /\ p[2] <= (pos[3] + 1) * s
Admissible(p, d) == {pos \in Positions(d) : \E q \in Eqv(p) : InClosedPos(q, pos)}

\* ---------------------------------------------------------------- theorems (constant level)
T_Level1 == \A planetary \in BOOLEAN : \A i \in 1..4 : \A k \in 1..4 :
              LET a == Anchor(Level1[i].c[k].pt, planetary)
                  e == CodeLonLat(i, k, planetary)
              IN a[2] = e[2] /\ (a[2] = 0 => a[1] = e[1])
T_Level1Inc == \A i \in 1..4 : Level1[i].inc = CodeLevel1Inc[i]
T_Div4 == \A p \in AllPos : p[1] < MaxDepth =>
            LET d == Div4(TileAt(p)) IN
            /\ d[1] = Tile(p[1] + 1, 2 * p[2], 2 * p[3])       /\ d[2] = Tile(p[1] + 1, 2 * p[2] + 1, 2 * p[3])
            /\ d[3] = Tile(p[1] + 1, 2 * p[2], 2 * p[3] + 1)   /\ d[4] = Tile(p[1] + 1, 2 * p[2] + 1, 2 * p[3] + 1)
T_Single == \A p \in AllPos : Single(p) = TileAt(p)
T_Gen == LET g == Gen(MaxDepth) IN
         /\ Len(g) = Cardinality(AllPos)
         /\ \A i \in DOMAIN g : g[i] = TileAt(g[i].pos)
         /\ {g[i].pos : i \in DOMAIN g} = AllPos
T_Sub == \A p \in AllPos : p[1] + K + 1 <= R => LET t == TileAt(p)
                               g == Sub(t.c[1], t.c[2], t.c[3], t.c[4], t.inc, K) IN
            \A r \in 0..(2^K - 1), c \in 0..(2^K - 1) : g[<<r, c>>] = Centre(p[1] + K, (2^K) * p[2] + c, (2^K) * p[3] + r)
\* the tiles of one level partition the square (unit lattice squares <<i, j>>); four children tile their parent
InCell(u, t) == /\ t.c[1].pt[1] <= u[1] /\ u[1] < t.c[3].pt[1] /\ t.c[1].pt[2] <= u[2] /\ u[2] < t.c[3].pt[2]
Units == (0..(S - 1)) \X (0..(S - 1))
T_Partition == \A n \in 1..MaxDepth :
                 LET ts == {TileAt(p) : p \in Positions(n)} IN
                 \A u \in Units : Cardinality({t \in ts : InCell(u, t)}) = 1
T_Nest == \A p \in AllPos : p[1] < MaxDepth =>
            LET t == TileAt(p)
                d == Div4(t) IN
            \A u \in Units : InCell(u, t) <=> (Cardinality({i \in 1..4 : InCell(u, d[i])}) = 1)
\* the defining pair of a point never depends on which tile / which level computes it, and respects the fold:
\* the sphere point of a lattice point is therefore well defined on the sewn square
T_DefLocal == \A p \in Lattice : \A q \in Def(p) : q \in Lattice /\ Lvl(q) < Lvl(p)
T_Fold == \A p \in Lattice : OnBoundary(p) =>
            /\ \A q \in Def(p) : \E q2 \in Def(Mirror(p)) : Same(Mirror(q), q2)
            /\ \A q2 \in Def(Mirror(p)) : \E q \in Def(p) : Same(Mirror(q), q2)
            /\ \A q \in Def(p) : OnBoundary(q)
\* every tile contains the centre it is looked up by; closed cells of children cover the parent's closed cell
T_LookupCentre == \A p \in AllPos : p[1] + 1 <= R => Admissible(Centre(p[1], p[2], p[3]).pt, p[1]) = {p}
T_AdmIsHolds == \A p \in AllPos : \A q \in {<<0, 0>>, <<H, H>>, <<S, H>>, <<1, 0>>, <<H + 1, H>>, <<3, S>>} : Holds(q, TileAt(p)) <=> p \in Admissible(q, p[1])

=============================================================================
