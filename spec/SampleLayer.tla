----------------------------- MODULE SampleLayer -----------------------------
(* TOAST sampling of one layer (toast.sample_layer / sample_layer_filtered /    *)
(* ToastSampler.visit_callback over Pyramid.visit_leaves), on the lattice of    *)
(* ToastLattice.tla with tiles of 2^K x 2^K abstract pixels.                    *)
(*                                                                             *)
(* The sampler is the identity on lattice points (injective, so any misplaced  *)
(* pixel is visible); a *masked* sampler is undefined (U) outside a region.     *)
(* One behaviour = one or two sampling passes over one pyramid configuration:   *)
(*   filter   the set of accepted tile positions (Full = unfiltered),           *)
(*   bottomUp whether the tile format stores rows bottom-up (FITS),             *)
(*   mode     "clobber" (write_image) or "update" (read-modify-write, where an  *)
(*            undefined sample never replaces a stored pixel),                 *)
(*   passes   sequence of regions sampled one after another.                    *)
(* Visit(pos) may happen in any order within a pass (worker processes); for     *)
(* every tile the sampler returns its values in a representation of its own     *)
(* choosing (byte order, memory layout, writability: SampleOps.tla) - what is    *)
(* stored depends on the values only.                                          *)
EXTENDS SampleOps
CONSTANTS Filters, Modes, PassLists,
          Reprs        \* the representations (SampleOps!AllReprs) the sampler may choose from, anew for every tile

VARIABLES filter, bottomUp, mode, passes,    \* frozen configuration
          pass, todo, files                  \* current pass index, leaves still to visit in it, tile files (pos -> stored rows)
svars == <<filter, bottomUp, mode, passes, pass, todo, files>>

SInit == /\ filter \in Filters /\ bottomUp \in BOOLEAN /\ mode \in Modes /\ passes \in PassLists
         /\ pass = 1 /\ todo = (IF Depth = 0 THEN {<<0, 0, 0>>} ELSE Leaves(filter)) /\ files = <<>>
Absent(p) == p \notin DOMAIN files
Put(p, rows) == [q \in DOMAIN files \cup {p} |-> IF q = p THEN rows ELSE files[q]]
Drop(p) == [q \in DOMAIN files \ {p} |-> files[q]]
Visit(p) == \E rep \in Reprs :
    /\ p \in todo /\ todo' = todo \ {p}
    /\ LET new == Stored(Returned(p, passes[pass], rep), bottomUp)
           old == IF Absent(p) THEN Blank ELSE files[p]
           res == IF mode = "clobber" THEN new ELSE Merge(old, new)
       IN files' = IF AllU(res) THEN Drop(p) ELSE Put(p, res)       \* an all-undefined tile is not stored
    /\ UNCHANGED <<filter, bottomUp, mode, passes, pass>>
NextPass == /\ todo = {} /\ pass < Len(passes) /\ pass' = pass + 1
            /\ todo' = (IF Depth = 0 THEN {<<0, 0, 0>>} ELSE Leaves(filter))
            /\ UNCHANGED <<filter, bottomUp, mode, passes, files>>
SNext == NextPass \/ \E p \in todo : Visit(p)
SSpec == SInit /\ [][SNext]_svars

\* ---- the property: after the last pass every leaf holds, in display orientation, the sampler's value at its own
\* pixel centres (the union of the passes' regions in update mode, the last pass in clobber mode); nothing else exists
Finished == todo = {} /\ pass = Len(passes)
Covered(pt) == IF mode = "clobber" THEN InRegion(pt, passes[Len(passes)])
               ELSE \E i \in 1..Len(passes) : InRegion(pt, passes[i])
ExpectedDisplay(p) == LET g == DisplayGrid(p) IN
                      [r \in 0..(NPix - 1) |-> [c \in 0..(NPix - 1) |-> IF Covered(g[r][c]) THEN g[r][c] ELSE U]]
LeafSet == IF Depth = 0 THEN {<<0, 0, 0>>} ELSE Leaves(filter)
FinalOK == Finished =>
    /\ DOMAIN files = {p \in LeafSet : ~AllU(ExpectedDisplay(p))}
    /\ \A p \in DOMAIN files : files[p] = Stored(ExpectedDisplay(p), bottomUp)
\* intermediate: files only ever exist at leaves of the filtered pyramid, each pixel is either U or its own centre
OnlyLeaves == DOMAIN files \subseteq LeafSet
OwnPixels == \A p \in DOMAIN files : LET g == DisplayGrid(p) IN \A fr \in 0..(NPix - 1) : \A c \in 0..(NPix - 1) :
               files[p][fr][c] \in {U, g[IF bottomUp THEN NPix - 1 - fr ELSE fr][c]}
\* C05's relation, restated for the whole-sphere tile: the level-0 grid is the four level-1 grids side by side
T_Level0 == \A r \in 0..(NPix - 1) : \A c \in 0..(NPix - 1) :
              K >= 1 => LET h == NPix \div 2
                            q == <<1, c \div h, r \div h>>
                            t == TileAt(q)
                            g == Sub(t.c[1], t.c[2], t.c[3], t.c[4], t.inc, K - 1)
                        IN DisplayGrid(<<0, 0, 0>>)[r][c] = g[<<r % h, c % h>>].pt
=============================================================================
