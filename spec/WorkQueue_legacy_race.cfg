SPECIFICATION Spec
CONSTANTS
 NItems = 4
 NW = 2
 Cap = 2
 FaultSets <- NoFaults
 Checked = TRUE
 FlagFirst = FALSE
 PipeCap = 99
 JoinChecked = TRUE
INVARIANT AtMostOnce
INVARIANT ReturnedImpliesAll
INVARIANT NoLossAtSet
INVARIANT Bounded
INVARIANT NeverSwallowed
INVARIANT RaisedOnlyOnFault
PROPERTY Ends
PROPERTY ReturnsWhenFaultFree
CHECK_DEADLOCK FALSE
