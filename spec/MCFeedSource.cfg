\* stand-alone run of the feed protocol (djangoplicity, quick bounds); checks/g08.py generates the cfgs it uses
SPECIFICATION Spec
CONSTANTS
 Flavour = "djangoplicity"
 Handler = "aborts"
 Setups <- MCDefaultSetups
 PageSizes = {1, 2}
 Tails = {"404", "empty"}
 EventKinds = {"grow", "shrink"}
 MaxEvents = 1
 MaxPage = 6
 Runs = 2
INVARIANT TypeOK
INVARIANT OnlyEligible
INVARIANT EmptyOnlyAfterDeath
INVARIANT PagingIsTransparent
INVARIANT ExactlyTheEligible
INVARIANT PagesInOrder
INVARIANT StopsOnePastTheEnd
INVARIANT EndsAgainst404
INVARIANT Idempotent
INVARIANT GrowthLosesNothing
INVARIANT CatchesUp
INVARIANT StoreRespected
INVARIANT RejectsOnlyRefused
INVARIANT DeviationsWhereNamed
CHECK_DEADLOCK FALSE
