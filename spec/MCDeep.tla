------------------------------- MODULE MCDeep -------------------------------
(* Pyramids left behind by a whole workflow (tile_fits / FitsTiler in TOAST    *)
(* mode), code -> spec: the BASE LAYER AS STORED (the leaf files the workflow   *)
(* wrote; integer-valued floating-point pixels, NaN = undefined) is handed to   *)
(* TLC, which evaluates the property's sentence level by level - display        *)
(* mosaic with the real tile edge n, child (2x+i, 2y+j) in quadrant (row j,      *)
(* column i), a missing tile undefined, bottom-up formats store the display      *)
(* rows reversed, 2x2 block reduction with TileMerge's float rule - for the      *)
(* requested pixels of the tiles above the base, as exact rationals.            *)
(*                                                                              *)
(* Input (JSON, IOEnv.IN): sequence of pyramids                                  *)
(*   [n, depth, bottomup, leaves, want]                                          *)
(*   leaves  sequence of [pos, r0, c0, rows]: the stored rows of the leaf's      *)
(*           bounding box of defined pixels (file order, top-left at 1-based      *)
(*           (r0, c0)); a pixel is <<>> (NaN) or <<v>>; outside the box: NaN      *)
(*   want    sequence of [pos, r, c]: stored pixel (r, c), 1-based, of tile pos   *)
EXTENDS TileMerge, Json, IOUtils

In == JsonDeserialize(IOEnv.IN)

LeafPixel(P, pos, r, col) ==            \* stored (file) coordinates
    LET S == {i \in DOMAIN P.leaves : P.leaves[i].pos = pos}
    IN IF S = {} THEN Undef
       ELSE LET l == P.leaves[CHOOSE i \in S : TRUE]
                rr == r - l.r0 + 1
                cc == col - l.c0 + 1
            IN IF rr < 1 \/ rr > Len(l.rows) THEN Undef
               ELSE IF cc < 1 \/ cc > Len(l.rows[rr]) THEN Undef
               ELSE IF l.rows[rr][cc] = <<>> THEN Undef ELSE <<l.rows[rr][cc][1], 1>>
FileRow(P, r) == IF P.bottomup THEN P.n + 1 - r ELSE r
\* pixel (r, col) of tile pos in DISPLAY orientation, by the property's sentence
RECURSIVE DisplayPx(_, _, _, _)
DisplayPx(P, pos, r, col) ==
    IF pos[1] = P.depth THEN LeafPixel(P, pos, FileRow(P, r), col)
    ELSE LET j == (2 * (r - 1)) \div P.n
             i == (2 * (col - 1)) \div P.n
             k == Kid(pos, 2 * j + i)
             rr == ((2 * (r - 1)) % P.n) + 1
             cc == ((2 * (col - 1)) % P.n) + 1
         IN RatMean(<<DisplayPx(P, k, rr, cc), DisplayPx(P, k, rr, cc + 1),
                      DisplayPx(P, k, rr + 1, cc), DisplayPx(P, k, rr + 1, cc + 1)>>)
StoredPx(P, w) == DisplayPx(P, w.pos, FileRow(P, w.r), w.c)
Result == [q \in DOMAIN In |-> [s \in DOMAIN In[q].want |-> StoredPx(In[q], In[q].want[s])]]
ASSUME JsonSerialize(IOEnv.OUT, Result)
=============================================================================
