SPECIFICATION Spec
CONSTANTS
 NItems = 4
 NW = 2
 Cap = 2
 FaultSets <- AnyOneFault
 Checked = FALSE
 FlagFirst = TRUE
 PipeCap = 99
 JoinChecked = FALSE
INVARIANT AtMostOnce
INVARIANT ReturnedImpliesAll
INVARIANT NoLossAtSet
INVARIANT Bounded
INVARIANT NeverSwallowed
INVARIANT RaisedOnlyOnFault
PROPERTY Ends
PROPERTY ReturnsWhenFaultFree
CHECK_DEADLOCK FALSE
