---- MODULE WalkParSim ----
(* WalkPar with a `lastAct` history variable and a JSON emitter (mechanism M2: replay of TLC behaviours into   *)
(* the real _walk_parallel).  The configuration family is supplied by a generated module SimConf.             *)
EXTENDS WalkPar, Json
VARIABLE lastAct
SimInit == Init /\ lastAct = <<"Init", 0>>
A(act, name, who) == act /\ lastAct' = <<name, who>>
SimNext == \/ A(FlushReady, "FlushReady", 0) \/ A(DGet, "DGet", 0) \/ A(DTimeout /\ (dpc' # dpc), "DTimeoutRaise", 0)
           \/ A(DTimeout /\ (dpc' = dpc), "DTimeout", 0) \/ A(DClose, "DClose", 0)
           \/ A(DJoinThread, "DJoinThread", 0) \/ A(DSetEv, "DSetEv", 0) \/ A(DJoinW, "DJoinW", 0)
           \/ \E w \in Workers : \/ A(WAcquire(w), "WAcquire", w) \/ A(WLockTimeout(w), "WLockTimeout", w)
                                 \/ A(WRecv(w), "WRecv", w) \/ A(WPollTimeout(w), "WPollTimeout", w)
                                 \/ A(WCheckDone(w), "WCheckDone", w) \/ A(WCbStart(w), "WCbStart", w)
                                 \/ A(WCbEnd(w), "WCbEnd", w) \/ A(WPut(w), "WPut", w) \/ A(FlushDone(w), "FlushDone", w)
SimSpec == SimInit /\ [][SimNext]_<<vars, lastAct>>
Emit == PrintT(<<"TR", ToJson([lvl |-> TLCGet("level"), act |-> lastAct[1], who |-> lastAct[2],
          acc |-> acc, apex |-> apex, faults |-> faults, ops |-> ops,
          dpc |-> dpc, djoin |-> djoin, rqBuf |-> rqBuf, rqPipe |-> rqPipe, rlock |-> rlock,
          dqBuf |-> dqBuf, dqPipe |-> dqPipe, dqSem |-> dqSem, wpc |-> wpc, witem |-> witem, doneEv |-> doneEv,
          started |-> started, ended |-> ended])>>)
====
