---- MODULE WorkQueueProdSim ----
(* WorkQueueProd with a `lastAct` history variable and a JSON emitter, for replaying TLC behaviours with a fault of the *)
(* producer's iterable into the real code (mechanism M2); same conventions as WorkQueueSim.                              *)
EXTENDS WorkQueueProd, Json
VARIABLE lastAct
NoFaults == {{}}
AsCoded == {"propagate"}
SimInit == PInit /\ lastAct = <<"Init", 0>>
\* (what the abandoned workers do after the stage has raised is of no interest: every action needs outcome = "running"; the guard sits
\* inside A so that SimNext stays a plain disjunction - TLC's simulator then evaluates the invariant on the chosen successor only)
A(act, name, who) == outcome = "running" /\ act /\ lastAct' = <<name, who>>
SimNext == \/ A(Healthy /\ PPut /\ Keep, "PPut", 0) \/ A(Healthy /\ PPutFull /\ Keep, "PPutFull", 0) \/ A(Healthy /\ PClose /\ Keep, "PClose", 0)
           \/ A(PFail, "PFail", 0)
           \/ A(PJoinThread /\ Keep, "PJoinThread", 0) \/ A(PJoinThreadPoll /\ Keep, "PJoinThreadPoll", 0) \/ A(PSetEv /\ Keep, "PSetEv", 0)
           \/ A(PJoinWP /\ Keep, "PJoinW", 0) \/ A(Flush /\ Keep, "Flush", 0)
           \/ \E w \in Workers : \/ A(WSample(w) /\ Keep, "WSample", w) \/ A(WAcquire(w) /\ Keep, "WAcquire", w)
                                 \/ A(WLockTimeout(w) /\ Keep, "WLockTimeout", w) \/ A(WRecv(w) /\ Keep, "WRecv", w)
                                 \/ A(WPollTimeout(w) /\ Keep, "WPollTimeout", w) \/ A(WCheckDone(w) /\ Keep, "WCheckDone", w)
                                 \/ A(WCbStart(w) /\ Keep, "WCbStart", w) \/ A(WCbEnd(w) /\ Keep, "WCbEnd", w)
SimSpec == SimInit /\ [][SimNext]_<<pvars, lastAct>>
Emit == PrintT(<<"TR", ToJson([lvl |-> TLCGet("level"), act |-> lastAct[1], who |-> lastAct[2],
          faults |-> faults, pfail |-> pfail, react |-> react, pfired |-> pfired, next |-> next, buf |-> buf, pipe |-> pipe, sem |-> sem, rlock |-> rlock,
          doneEv |-> doneEv, ppc |-> ppc, pjoin |-> pjoin, wpc |-> wpc, witem |-> witem, wflag |-> wflag,
          started |-> started, processed |-> processed, outcome |-> outcome])>>)
====
