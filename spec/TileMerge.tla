------------------------------ MODULE TileMerge ------------------------------
(* Constant-level part of the cascade specification (see Cascade.tla, which     *)
(* EXTENDS this module and holds the state machine and the theorems): exact     *)
(* pixel arithmetic, abstract pixels and tiles, the per-mode 2x2 reduce rule    *)
(* (averaging_merger), the mosaic placement as the code does it (slice tables,   *)
(* stored orientation) and as the property states it (display orientation),      *)
(* the range rule of TileMerger._get_min_max_of_children and one merge            *)
(* (TileMerger.walk_callback).  Kept free of variables so that it can also be     *)
(* evaluated on tables of observed pixels (MCLossy.tla: lossy tile formats).      *)
EXTENDS Quadtree, Integers, TLC

CONSTANT T         \* tile edge in abstract pixels (a power of two)

Modes == {"Float", "Int", "Colour"}
NCh(mode) == IF mode = "Colour" THEN 4 ELSE 1
Idx == 1..T

\* ---------------------------------------------------------------- arithmetic
Abs(n) == IF n < 0 THEN -n ELSE n
RECURSIVE Gcd(_, _)
Gcd(a, b) == IF b = 0 THEN a ELSE Gcd(b, a % b)
Lcm(a, b) == (a \div Gcd(a, b)) * b
Norm(n, d) == LET g == Gcd(Abs(n), d) IN <<n \div g, d \div g>>
SetMin(S) == CHOOSE m \in S : \A o \in S : m <= o
SetMax(S) == CHOOSE m \in S : \A o \in S : m >= o

Undef == <<0, 0>>
\* mean of the defined rationals among four (Float)
PosInf == <<1, 0>>
NegInf == <<-1, 0>>
\* An infinite pixel is a DEFINED value.  The mean of a block holding +inf (and no -inf) is +inf; a block holding both
\* infinities has no mean (IEEE: inf - inf): the output is undefined.  This is the one case in which an output
\* pixel is undefined although not all four inputs are (the property's "NaN only if all four are" speaks about
\* undefined INPUTS, which never make the output undefined by themselves).
RatMean(q) ==
    LET def == {i \in 1..4 : q[i][2] # 0}          \* the finite members
        k == Cardinality(def)
        pinf == \E i \in 1..4 : q[i] = PosInf
        ninf == \E i \in 1..4 : q[i] = NegInf
    IN IF pinf /\ ninf THEN Undef
       ELSE IF pinf THEN PosInf
       ELSE IF ninf THEN NegInf
       ELSE IF k = 0 THEN Undef
       ELSE LET den(i) == IF i \in def THEN q[i][2] ELSE 1
                l == Lcm(Lcm(den(1), den(2)), Lcm(den(3), den(4)))
                term(i) == IF i \in def THEN q[i][1] * (l \div q[i][2]) ELSE 0
            IN Norm(term(1) + term(2) + term(3) + term(4), l * k)
\* mean of four stored integers, either integer neighbour of the exact mean (Int, Colour)
\* (floor and ceiling of sum/4 written so that no intermediate exceeds the largest member: TLC integers are 32-bit
\* and int32 pixels go up to 2^31 - 1)
IntMean(q) == <<(q[1][1] \div 4) + (q[2][1] \div 4) + (q[3][1] \div 4) + (q[4][1] \div 4)
                  + ((q[1][1] % 4) + (q[2][1] % 4) + (q[3][1] % 4) + (q[4][1] % 4)) \div 4,
                (q[1][2] \div 4) + (q[2][2] \div 4) + (q[3][2] \div 4) + (q[4][2] \div 4)
                  + ((q[1][2] % 4) + (q[2][2] % 4) + (q[3][2] % 4) + (q[4][2] % 4) + 3) \div 4>>
ReducePair(mode, q) == IF mode = "Float" THEN RatMean(q) ELSE IntMean(q)
ReducePx(mode, p1, p2, p3, p4) == [ch \in 1..NCh(mode) |-> ReducePair(mode, <<p1[ch], p2[ch], p3[ch], p4[ch]>>)]

\* ---------------------------------------------------------------- pixels and tiles
UPx(mode) == [ch \in 1..NCh(mode) |-> Undef]
\* Integer data has no undefined value: 0 is only what a MISSING child contributes to the mosaic (and a value like
\* any other when stored), so an integer tile is never "entirely undefined" and a parent exists whenever a child does.
IsUPx(mode, px) == IF mode = "Colour" THEN px[4][2] = 0 ELSE IF mode = "Float" THEN px[1] = Undef ELSE FALSE
\* a leaf pixel as given by the case: <<>> = undefined (Float only), <<1, 0>> / <<-1, 0>> = +inf / -inf (Float only),
\* else the channel values
LeafPx(mode, v) == IF v = <<>> THEN UPx(mode)
                   ELSE IF mode = "Float" /\ Len(v) = 2 THEN <<v>>
                   ELSE [ch \in 1..NCh(mode) |-> IF mode = "Float" THEN <<v[ch], 1>> ELSE <<v[ch], v[ch]>>]
Matrix(f(_, _), n) == [r \in 1..n |-> [col \in 1..n |-> f(r, col)]]
AllUndef(mode, m) == \A r \in DOMAIN m : \A col \in DOMAIN m[r] : IsUPx(mode, m[r][col])
\* Three-valued "undefined" for colour data.  The statement fixes the type of a colour mean, not its rounding, so a
\* channel is an interval <<lo, hi>>.  A pixel whose alpha interval starts at 0 and ends above it (the faint mean of
\* alphas that sum to 1 .. 3: 0 when truncated, 1 when rounded up) is undefined under one admissible rounding and
\* defined under another: IsUPx says SURELY undefined (hi = 0), MaybeUPx POSSIBLY undefined (lo = 0).  A tile all of
\* whose pixels are possibly undefined MAY be entirely undefined: whether its file exists depends on the rounding,
\* but a file that exists must then hold a defined pixel (the harness's side of the existence sentence for such a
\* tile; TileRec.may).  Float and integer data are two-valued: MaybeUPx = IsUPx.
MaybeUPx(mode, px) == IF mode = "Colour" THEN px[4][1] = 0 ELSE IsUPx(mode, px)
AllMaybeUndef(mode, m) == \A r \in DOMAIN m : \A col \in DOMAIN m[r] : MaybeUPx(mode, m[r][col])
\* image.py update_into_maskable_buffer transfers a child's DEFINED pixels only; everything else keeps the cleared
\* value (0, 0, 0, 0).  A colour pixel that may be undefined (alpha lo = 0) therefore contributes to the mosaic
\* either its stored channels or zeros: every channel's interval is opened down to 0.  (For pixels that are surely
\* defined or surely undefined - all leaf pixels, and everything in pyramids without faint alpha - this is the identity.)
PlacePx(mode, px) == IF mode = "Colour" /\ px[4][1] = 0 THEN [ch \in 1..4 |-> <<0, px[ch][2]>>] ELSE px
FlipRows(m) == [r \in DOMAIN m |-> m[Len(m) + 1 - r]]
\* a bottom-up format (FITS) stores the displayed rows in reverse order
ToFile(bottomup, m) == IF bottomup THEN FlipRows(m) ELSE m
ToDisplay(bottomup, m) == IF bottomup THEN FlipRows(m) ELSE m

NoRange == <<>>
Absent == [ex |-> FALSE, px |-> <<>>, rng |-> NoRange]
Tile(m, rng) == [ex |-> TRUE, px |-> m, rng |-> rng]
FlipTile(bottomup, t) == IF t.ex THEN [t EXCEPT !.px = ToFile(bottomup, t.px)] ELSE t

\* 2x2 block reduction of a 2T x 2T mosaic
BlockReduce(mode, mos) ==
    Matrix(LAMBDA r, col : ReducePx(mode, mos[2 * r - 1][2 * col - 1], mos[2 * r - 1][2 * col],
                                           mos[2 * r][2 * col - 1], mos[2 * r][2 * col]), T)

\* ---------------------------------------------------------------- the code's placement (stored orientation)
\* merge.py: the (row half, column half) of the 512 x 512 buffer that receives child slot s (pos_children order)
SlicesMatching == <<<<0, 0>>, <<0, 1>>, <<1, 0>>, <<1, 1>>>>
SlicesOpposite == <<<<1, 0>>, <<1, 1>>, <<0, 0>>, <<0, 1>>>>
Slices(bottomup) == IF bottomup THEN SlicesOpposite ELSE SlicesMatching
\* the cleared buffer after update_into_maskable_buffer of every existing child (kids: sequence of 4 tiles)
Mosaic(mode, bottomup, kids) ==
    LET sl == Slices(bottomup)
        slotAt(hr, hc) == CHOOSE s \in 1..4 : sl[s] = <<hr, hc>>
    IN Matrix(LAMBDA r, col :
                 LET k == kids[slotAt((r - 1) \div T, (col - 1) \div T)]
                 IN IF k.ex THEN PlacePx(mode, k.px[((r - 1) % T) + 1][((col - 1) % T) + 1]) ELSE UPx(mode), 2 * T)

\* _get_min_max_of_children: min of the children's recorded minima, max of their maxima (children without
\* a recorded range are skipped; nothing recorded at all -> no explicit range)
KidsRange(kids) ==
    LET have == {i \in 1..4 : kids[i].ex /\ kids[i].rng # NoRange}
    IN IF have = {} THEN NoRange
       ELSE <<SetMin({kids[i].rng[1] : i \in have}), SetMax({kids[i].rng[2] : i \in have})>>

\* walk_callback(pos): `old` is whatever file is at pos before the call
MergeTile(mode, bottomup, ranged, kids, old) ==
    IF \A i \in 1..4 : ~kids[i].ex THEN Absent                     \* nothing beneath: nothing written, an earlier file removed
    ELSE LET m == BlockReduce(mode, Mosaic(mode, bottomup, kids))
         IN IF AllUndef(mode, m) THEN Absent                       \* not written; an earlier file is removed
            ELSE Tile(m, IF ranged THEN KidsRange(kids) ELSE NoRange)

\* ---------------------------------------------------------------- the property's sentence (display orientation)
\* child (2x+i, 2y+j), i.e. slot 2j+i, occupies quadrant (row j, column i) of the displayed mosaic
DisplayMosaic(mode, kids) ==
    Matrix(LAMBDA r, col :
              LET j == (r - 1) \div T
                  i == (col - 1) \div T
                  k == kids[2 * j + i + 1]
              IN IF k.ex THEN PlacePx(mode, k.px[((r - 1) % T) + 1][((col - 1) % T) + 1]) ELSE UPx(mode), 2 * T)

=============================================================================
