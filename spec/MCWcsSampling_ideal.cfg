SPECIFICATION Spec
CONSTANTS
 Roots <- MCRoots
 G = 3
 Margin = 1
 Far = 10000
INVARIANT IdealSeamless
CHECK_DEADLOCK FALSE
