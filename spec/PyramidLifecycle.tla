-------------------------- MODULE PyramidLifecycle --------------------------
(* G02 (DESIGN.md section 7) - the life cycle of ONE tile-pyramid directory   *)
(* under the stage commands a user can issue in any order and repetition:     *)
(*                                                                           *)
(*   NewBuilder(fmt)        pio = PyramidIO(dir, default_format = fmt); Builder(pio)                      *)
(*   Sample(d, reg, mode, src)                                                                            *)
(*                          Builder.toast_base(sampler, d)                      (mode "clobber":           *)
(*                          toast.sample_layer -> ToastSampler(clobber = True) -> PyramidIO.write_image)   *)
(*                          Builder.toast_base(sampler, d, tile_filter = all)   (mode "update":            *)
(*                          toast.sample_layer_filtered -> clobber = False -> PyramidIO.update_image +     *)
(*                          Image.update_into_maskable_buffer); then imgset.tile_levels = d                *)
(*   Cascade(s)             merge.cascade_images(pio, s, averaging_merger) / Builder.cascade():            *)
(*                          TileMerger.walk_callback for every position of levels s-1 .. 0, children first *)
(*   Transform(s)           transform.f16x3_to_rgb(pio, s): _float_to_rgb_do_one for every position of     *)
(*                          levels 0 .. s: reads <pos>.npy, writes <pos>.png next to it                    *)
(*   WriteWtml              Builder.write_index_rel_wtml(): TileLevels = imgset.tile_levels,               *)
(*                          FileType / Url from the format the Builder's PyramidIO was opened with         *)
(*                                                                           *)
(* Earlier per-stage specifications are reused, not restated: the merge of    *)
(* four children (placement, reduction of the defined members, "not stored    *)
(* when entirely undefined", "no child exists: nothing written, an earlier     *)
(* file removed") is Cascade!MergeTile; positions are Quadtree; the sampling write  *)
(* rule (clobber / update, all-undefined tile not stored) is the rule of      *)
(* SampleLayer!Visit restated over Cascade's tile records (SampleLayer lives  *)
(* on the TOAST lattice, which the life cycle does not need); the URL         *)
(* template and "deepest populated level" are Wtml!Template / Wtml!Deepest.   *)
(*                                                                           *)
(* The abstract directory: `data` (the .npy tiles, Float mode: a pixel is an   *)
(* exact rational or undefined), `out` (the .png tiles: a pixel is the byte    *)
(* floor(255 * sqrt(clip01(v))), undefined -> 0), `wtml` (index_rel.wtml or    *)
(* nothing), and the user's session object `bld` (Builder: format, recorded    *)
(* tile levels).  Everything else (base, cons, fresh, removed, pruned,         *)
(* rebased, wtml.cur, bld.sampled) is a GHOST: what a user can derive from the *)
(* command history alone, without looking into the directory.  The theorems    *)
(* say that this bookkeeping is sound (what it promises holds in the           *)
(* directory) and name what is NOT promised (stale levels, orphan parents      *)
(* BEFORE the next cascade, stale outputs, a WTML that no longer describes     *)
(* the files).                                                                 *)
(*                                                                           *)
(* The cascade stage is the ideal rule: TileMerger.walk_callback removes the   *)
(* tile of a position none of whose four children exists, so after Cascade(s)  *)
(* a tile above level s exists iff a tile of level s lies below it, and it is  *)
(* the reduction of exactly its children.  A parent whose children have all    *)
(* disappeared (an ORPHAN: left by a clobbering re-sample over a smaller       *)
(* region, by a sample at another depth, or found above an empty start level)  *)
(* is REMOVED by the next cascade that visits it; the walk visits children     *)
(* first, so a chain of orphans is removed bottom-up, up to the root.  (Until  *)
(* the repair "a re-cascade left a parent tile in place after all of its       *)
(* children had disappeared" the code kept such a parent and averaged it into  *)
(* its own parent; this module then carried the action CascadeLeavesOrphans    *)
(* and the weaker theorem IdealIffNoOrphan.)  Cascade(s) is one rule, named    *)
(* twice for the bookkeeping: CascadeClean (no file disappears) and            *)
(* CascadeRemovesOrphans (some tile above level s had no tile of level s below *)
(* it: data tile files disappear, ghost `pruned`).  An OUTPUT tile of a        *)
(* removed data tile goes stale exactly as after a shrinking Sample.           *)
(*                                                                           *)
(* Under the ideal rule alone a cascade started from a level DEEPER than the    *)
(* data (a mistyped start: Sample(1); Cascade(2)) would find an empty start     *)
(* level and erase the whole pyramid.  cascade_images therefore REFUSES a start *)
(* level >= 1 that holds no tile file (PyramidIO.level_has_tiles: a file of ANY *)
(* format, so an output tile counts too): ValueError before anything is         *)
(* touched.  That is the third named case, CascadeRefused: nothing changes in   *)
(* the directory and no ghost changes (the command promises nothing).           *)
(* CascadeNeverErases: an accepted cascade never empties a non-empty pyramid;   *)
(* CascadePrunesOnlyAfterShrink: it deletes files only after a Sample shrank    *)
(* the pyramid.  (NoLevelWithOutputOnly: with the commands of this model a      *)
(* level never holds output tiles without a data tile, so "any format" and      *)
(* "data format" guard the same levels.)                                        *)
(*                                                                           *)
(* Deliberate deviation kept from the code (DESIGN.md section 9), one stage    *)
(* later: Transform skips positions without a data tile, so an output tile     *)
(* whose data tile has disappeared survives (TransformClean: the result is the *)
(* ideal "output mirrors data" / TransformLeavesStale: it is not).             *)
EXTENDS Quadtree, Integers, TLC

CONSTANTS T,          \* tile edge in abstract pixels (a power of two)
          MaxDepth,   \* deepest level a command may name
          Regions,    \* set of <<lo, hi>>: the sampler is defined on the columns u with lo/4 <= u < hi/4 of the unit square
          Sources,    \* set of naturals: which of the (pixelwise different) source images the sampler reads
          Modes,      \* subset of {"clobber", "update"}
          MaxCmds     \* exploration bound: number of commands in a sequence

\* the merge rule of the cascade stage (Float mode, top-down rows, no recorded range: an .npy pyramid)
C == INSTANCE Cascade WITH Depth <- MaxDepth, Cases <- {}, Window <- 1, c <- 0, fin <- 0, pyr <- 0, done <- 0
W == INSTANCE Wtml

DataFmt == "npy"
OutFmt == "png"
Formats == {DataFmt, OutFmt}
Ext(fmt) == IF fmt = "npy" THEN <<"n", "p", "y">> ELSE <<"p", "n", "g">>

Pos == UpTo(MaxDepth)
Idx == 1..T

\* ---------------------------------------------------------------- data tiles (Cascade's records)
UPx == C!UPx("Float")
IsU(px) == C!IsUPx("Float", px)
Blank == C!Matrix(LAMBDA r, col : UPx, T)
Absent == C!Absent
DTile(m) == C!Tile(m, C!NoRange)
AllU(m) == C!AllUndef("Float", m)

\* ---------------------------------------------------------------- the sampler
\* Source image k at pixel (r, col) of tile p: one of seven values in (0, 1] (sixteenths); the index mixes tile and
\* pixel coordinates non-linearly so that tiles, quadrants, rows, columns and the sources all differ (a misplaced,
\* stale or swapped tile shows in the values, also after two levels of averaging).
Vals == <<1, 2, 4, 6, 9, 12, 16>>
SrcPx(k, p, r, col) ==
    <<C!Norm(Vals[((p[1] + 3 * p[2] + 5 * p[3] + p[2] * p[3] + 7 * r + 11 * col + r * col + 13 * k + 2 * k * (r + p[2])) % 7) + 1], 16)>>
\* the sampler is defined on a band of columns of the unit square, whatever the depth
Covered(d, p, col, reg) == LET g == p[2] * T + (col - 1)
                               w == Pow2(d) * T
                           IN reg[1] * w <= 4 * g /\ 4 * g < reg[2] * w
\* what the sampler returns for leaf p (display orientation = file orientation for npy)
SampledTile(cmd, p) ==
    C!Matrix(LAMBDA r, col : IF Covered(cmd.d, p, col, cmd.reg) THEN SrcPx(cmd.src, p, r, col) ELSE UPx, T)

\* ToastSampler.visit_callback: write_image (clobber) or update_image + update_into_maskable_buffer (an undefined
\* sample never replaces a stored pixel); PyramidIO.write_image does not store an entirely undefined tile and
\* removes an earlier file (SampleLayer!Visit)
SampleWrite(old, new, mode) ==
    LET oldpx == IF old.ex THEN old.px ELSE Blank
        res == IF mode = "clobber" THEN new
               ELSE C!Matrix(LAMBDA r, col : IF IsU(new[r][col]) THEN oldpx[r][col] ELSE new[r][col], T)
    IN IF AllU(res) THEN Absent ELSE DTile(res)
SampleResult(dir, cmd) ==
    [p \in Pos |-> IF p[1] = cmd.d THEN SampleWrite(dir[p], SampledTile(cmd, p), cmd.mode) ELSE dir[p]]

\* ---------------------------------------------------------------- the cascade
KidTiles(dir, p) == <<dir[Kid(p, 0)], dir[Kid(p, 1)], dir[Kid(p, 2)], dir[Kid(p, 3)]>>
HasKid(dir, p) == p[1] < MaxDepth /\ \E i \in 0..3 : dir[Kid(p, i)].ex
\* TileMerger.walk_callback (the shared merge rule; `old` is the file found at the position)
MergeAsBuilt(kids, old) == C!MergeTile("Float", FALSE, FALSE, kids, old)
\* the rule a reader of the documentation expects, stated here and not taken from the shared module:
\* no existing child -> no parent; otherwise the reduction of the four children (not stored when entirely undefined)
MergeIdeal(kids) == IF \A i \in 1..4 : ~kids[i].ex THEN Absent ELSE C!MergeTile("Float", FALSE, FALSE, kids, Absent)

\* levels n, n-1, .., 0 recomputed, each from the (already recomputed) level below it
RECURSIVE CascadeDown(_, _, _)
CascadeDown(dir, n, ideal) ==
    LET nd == [p \in Pos |-> IF p[1] = n
                             THEN (IF ideal THEN MergeIdeal(KidTiles(dir, p)) ELSE MergeAsBuilt(KidTiles(dir, p), dir[p]))
                             ELSE dir[p]]
    IN IF n = 0 THEN nd ELSE CascadeDown(nd, n - 1, ideal)
\* cascade_images: start < 1 -> nothing to do
CascadeResult(dir, s) == IF s < 1 THEN dir ELSE CascadeDown(dir, s - 1, FALSE)
IdealResult(dir, s) == IF s < 1 THEN dir ELSE CascadeDown(dir, s - 1, TRUE)

\* ---------------------------------------------------------------- the transform
\* largest b in lo..hi with b * b * d <= 65025 * n (lo qualifies), i.e. floor(255 * sqrt(n / d))
RECURSIVE BSearch(_, _, _, _)
BSearch(lo, hi, n, d) == IF lo = hi THEN lo
                         ELSE LET mid == (lo + hi + 1) \div 2
                              IN IF mid * mid * d <= 65025 * n THEN BSearch(mid, hi, n, d) ELSE BSearch(lo, mid - 1, n, d)
\* _float_to_rgb_do_one with SqrtStretch() + ManualInterval(0, 1): non-finite -> 0, clip to [0, 1], sqrt, * 255, truncate
Byte(q) == IF q[2] = 0 \/ q[1] <= 0 THEN 0 ELSE IF q[1] >= q[2] THEN 255 ELSE BSearch(0, 255, q[1], q[2])
OAbsent == [ex |-> FALSE, px |-> <<>>]
OutTile(t) == [ex |-> TRUE, px |-> C!Matrix(LAMBDA r, col : Byte(t.px[r][col][1]), T)]
\* every position of levels 0 .. s that holds a data tile gets its output tile (an RGB tile is never "entirely
\* masked", so it is always stored); a position without a data tile is skipped, whatever output file it holds
TransformResult(o, dir, s) == [p \in Pos |-> IF p[1] <= s /\ dir[p].ex THEN OutTile(dir[p]) ELSE o[p]]
\* ... and the rule a reader expects: the output pyramid mirrors the data pyramid on the transformed levels
TransformIdeal(o, dir, s) == [p \in Pos |-> IF p[1] <= s THEN (IF dir[p].ex THEN OutTile(dir[p]) ELSE OAbsent) ELSE o[p]]

\* ---------------------------------------------------------------- commands
NoReg == <<0, 0>>
Cmd(op, d, reg, mode, src, fmt) == [op |-> op, d |-> d, reg |-> reg, mode |-> mode, src |-> src, fmt |-> fmt]
SampleCmd(d, reg, mode, src) == Cmd("Sample", d, reg, mode, src, "")
CascadeCmd(s) == Cmd("Cascade", s, NoReg, "", 0, "")
TransformCmd(s) == Cmd("Transform", s, NoReg, "", 0, "")
WriteWtmlCmd == Cmd("WriteWtml", 0, NoReg, "", 0, "")
NewBuilderCmd(fmt) == Cmd("NewBuilder", 0, NoReg, "", 0, fmt)
Commands == {SampleCmd(d, reg, mode, src) : d \in 0..MaxDepth, reg \in Regions, mode \in Modes, src \in Sources}
            \cup {CascadeCmd(s) : s \in 0..MaxDepth} \cup {TransformCmd(s) : s \in 0..MaxDepth}
            \cup {WriteWtmlCmd} \cup {NewBuilderCmd(f) : f \in Formats}

\* ---------------------------------------------------------------- state
VARIABLES data,     \* Pos -> data tile (.npy file) or Absent
          out,      \* Pos -> output tile (.png file) or OAbsent
          wtml,     \* index_rel.wtml: [ex, levels, ftype] + ghost cur
          bld,      \* the user's Builder: [fmt, levels] + ghost sampled
          n,        \* number of commands issued
          \* ghosts: what the command history promises
          base,     \* depth of the last Sample (-1: none yet)
          cons,     \* levels known to be consistent with the level below them
          fresh,    \* levels whose output tiles are known to be the transform of the data tiles
          removed,  \* some Sample removed a tile file (a clobbering re-sample over a smaller region)
          rebased,  \* some Sample changed the sampled depth
          pruned    \* some Cascade removed a tile file (an orphan, or everything above an empty start level)
vars == <<data, out, wtml, bld, n, base, cons, fresh, removed, rebased, pruned>>
\* a Sample shrank the pyramid: tiles may be left whose leaves are gone (orphans until the next cascade, deeper leftovers)
shrunk == removed \/ rebased
\* some data tile file has been deleted: an output tile written for it earlier is stale now
lost == removed \/ pruned

NoWtml == [ex |-> FALSE, levels |-> 0, ftype |-> "", cur |-> FALSE]
Init == /\ data = [p \in Pos |-> Absent]
        /\ out = [p \in Pos |-> OAbsent]
        /\ wtml = NoWtml
        /\ bld = [fmt |-> DataFmt, levels |-> 0, sampled |-> FALSE]        \* Builder(): ImageSet().tile_levels = 0
        /\ n = 0 /\ base = -1 /\ cons = {} /\ fresh = {} /\ removed = FALSE /\ rebased = FALSE /\ pruned = FALSE

\* a new PyramidIO + Builder over the same directory; the old object is dropped
NewBuilder(cmd) == /\ cmd.op = "NewBuilder"
                   /\ bld' = [fmt |-> cmd.fmt, levels |-> 0, sampled |-> FALSE]
                   /\ UNCHANGED <<data, out, wtml, base, cons, fresh, removed, rebased, pruned>>

\* sampling float data needs a pyramid opened in the data format (a png PyramidIO cannot store F16x3 / F32 tiles)
Sample(cmd) == /\ cmd.op = "Sample" /\ bld.fmt = DataFmt
               /\ data' = SampleResult(data, cmd)
               /\ bld' = [bld EXCEPT !.levels = cmd.d, !.sampled = TRUE]
               /\ base' = cmd.d
               /\ cons' = cons \ {cmd.d, cmd.d - 1}         \* level d changed: its parents are stale, and it no longer is the merge of ITS children
               /\ fresh' = fresh \ {cmd.d}
               /\ removed' = (removed \/ \E p \in Pos : data[p].ex /\ ~data'[p].ex)
               /\ rebased' = (rebased \/ (base # -1 /\ base # cmd.d))
               /\ wtml' = [wtml EXCEPT !.cur = FALSE]
               /\ UNCHANGED <<out, pruned>>

\* the cheap tests for the two named cases (CascadeOperator / TransformOperator state that they are exact):
\* some tile above the start level has no tile of the start level below it (the cascade will remove it)
StaleAbove(dir, s) == \E p \in Pos : p[1] < s /\ dir[p].ex /\ ~\E l \in Level(s) : InSub(l, p) /\ dir[l].ex
\* some output tile on the transformed levels has no data tile any more
StaleOut(o, dir, s) == \E p \in Pos : p[1] <= s /\ o[p].ex /\ ~dir[p].ex

\* PyramidIO.level_has_tiles: some tile file of ANY format at the level
LevelHasTiles(dir, o, s) == \E p \in Level(s) : dir[p].ex \/ o[p].ex
\* cascade_images: start < 1 -> return; an empty start level -> ValueError; otherwise the walk
CascadeAccepted(dir, o, s) == s < 1 \/ LevelHasTiles(dir, o, s)

\* cascading is done on the data format (cascading the output format is outside this model)
CascadeStep(cmd, prunes) ==
    /\ cmd.op = "Cascade" /\ bld.fmt = DataFmt /\ CascadeAccepted(data, out, cmd.d) /\ StaleAbove(data, cmd.d) = prunes
    /\ data' = CascadeResult(data, cmd.d)
    /\ cons' = cons \cup 0..(cmd.d - 1)
    /\ fresh' = fresh \ 0..(cmd.d - 1)
    /\ pruned' = (pruned \/ \E p \in Pos : data[p].ex /\ ~data'[p].ex)
    /\ UNCHANGED <<out, wtml, bld, base, removed, rebased>>
CascadeClean(cmd) == CascadeStep(cmd, FALSE)              \* tiles are written or rewritten, no file disappears
\* tiles whose leaves no longer exist are removed, children before parents (PrunesExactlyWhenStale: exactly these steps set `pruned`)
CascadeRemovesOrphans(cmd) == CascadeStep(cmd, TRUE)
\* the start level holds no tile: the call raises before touching anything; no file and no promise changes
CascadeRefused(cmd) == /\ cmd.op = "Cascade" /\ bld.fmt = DataFmt /\ ~CascadeAccepted(data, out, cmd.d)
                       /\ UNCHANGED <<data, out, wtml, bld, base, cons, fresh, removed, rebased, pruned>>

TransformStep(cmd, deviates) ==
    /\ cmd.op = "Transform" /\ StaleOut(out, data, cmd.d) = deviates
    /\ out' = TransformResult(out, data, cmd.d)
    /\ fresh' = fresh \cup 0..cmd.d
    /\ UNCHANGED <<data, wtml, bld, base, cons, removed, rebased, pruned>>
TransformClean(cmd) == TransformStep(cmd, FALSE)          \* the output pyramid mirrors the data pyramid on levels 0 .. s
\* the deviation: an output tile whose data tile has disappeared is left in place
TransformLeavesStale(cmd) == TransformStep(cmd, TRUE)

WriteWtml(cmd) == /\ cmd.op = "WriteWtml"
                  /\ wtml' = [ex |-> TRUE, levels |-> bld.levels, ftype |-> bld.fmt, cur |-> bld.sampled]
                  /\ UNCHANGED <<data, out, bld, base, cons, fresh, removed, rebased, pruned>>

Do(cmd) == /\ n < MaxCmds /\ n' = n + 1
           /\ \/ NewBuilder(cmd) \/ Sample(cmd) \/ CascadeClean(cmd) \/ CascadeRemovesOrphans(cmd) \/ CascadeRefused(cmd)
              \/ TransformClean(cmd) \/ TransformLeavesStale(cmd) \/ WriteWtml(cmd)
Next == \E cmd \in Commands : Do(cmd)
Spec == Init /\ [][Next]_vars

\* ============================================================================ theorems (TLC: INVARIANT / PROPERTY)
DataPos == {p \in Pos : data[p].ex}
OutPos == {p \in Pos : out[p].ex}
\* the largest s with levels 0 .. s-1 all promised consistent
ConsDepth == CHOOSE s \in 0..MaxDepth : (0..(s - 1)) \subseteq cons /\ (s = MaxDepth \/ s \notin cons)
Orphan(p) == data[p].ex /\ ~HasKid(data, p)
TypeOK == /\ base \in -1..MaxDepth /\ cons \subseteq 0..(MaxDepth - 1) /\ fresh \subseteq 0..MaxDepth
          /\ bld.fmt \in Formats /\ bld.levels \in 0..MaxDepth /\ wtml.levels \in 0..MaxDepth
          /\ \A p \in Pos : (data[p].ex => DOMAIN data[p].px = Idx) /\ (out[p].ex => DOMAIN out[p].px = Idx)

\* ---- Sample; Cascade: which tiles are guaranteed consistent
LeafBelow(p, s) == \E l \in Level(s) : InSub(l, p) /\ data[l].ex
\* (1) a promised level is the ideal merge of its children: the reduction of exactly the existing ones, and NO tile
\*     where no child exists
ConsistentLevels == \A lv \in cons : \A p \in Level(lv) : data[p] = MergeIdeal(KidTiles(data, p))
\* (2) stored tiles are never entirely undefined, at any level, after any sequence
NeverStoredUndefined == \A p \in DataPos : ~AllU(data[p].px)
\* (3) existence: on the promised levels a tile exists iff one of its children does
ExistenceIdeal == \A lv \in cons : \A p \in Level(lv) : data[p].ex <=> HasKid(data, p)
\* (4) after Cascade(s) no tile above level s is an orphan, whatever the directory held before (no premise about
\*     the history: until the repair of walk_callback this was refuted by a clobbering re-sample over a smaller region)
NoOrphanAfterCascade == \A lv \in cons : \A p \in Level(lv) : ~Orphan(p)
\*     ... and the promised levels are the ideal pyramid over level ConsDepth
PromisedLevelsIdeal == LET s == ConsDepth
                           id == IdealResult(data, s)
                       IN /\ \A p \in Pos : data[p] = id[p]
                          /\ \A p \in Pos : p[1] < s => (data[p].ex <=> LeafBelow(p, s))
\*     ... in particular after Sample(d) ... Cascade(d), whatever was sampled, removed or cascaded before: levels
\*     0 .. d are exactly the ideal pyramid of the leaves (also refuted until the repair)
AlwaysIdealAfterCascade == (base >= 1 /\ (0..(base - 1)) \subseteq cons) => \A p \in Pos : data[p] = IdealResult(data, base)[p]
StandardSequenceExact ==
    (base >= 0 /\ (0..(base - 1)) \subseteq cons) =>
        /\ \A p \in Pos : data[p] = IdealResult(data, base)[p]
        /\ \A p \in Pos : p[1] <= base => (data[p].ex <=> LeafBelow(p, base))
\* (5) when no Sample ever shrank the pyramid (one sampled depth, no file removed by a re-sample) there are no orphans
\*     at any moment (not only after a cascade) and no tiles deeper than the sampled depth
NoShrinkNoOrphan == ~shrunk => /\ \A p \in Pos : p[1] < base => ~Orphan(p)
                               /\ \A p \in DataPos : p[1] <= base
\* (6) re-running the cascade: on the promised levels it is a no-op; in general it is idempotent
\*     (every state reached by Cascade(s) promises 0 .. s-1, so this is "Cascade(s); Cascade(s) = Cascade(s)")
RecascadeNoOp == \A s \in 0..MaxDepth : (0..(s - 1)) \subseteq cons => CascadeResult(data, s) = data
\* (7) for every reachable directory and every start level the call accepts: the cascade does not touch the start level or anything
\*     deeper; its result is the ideal rule's (the shared merge rule = the rule stated here); above the start level a
\*     tile exists iff a tile of the start level lies below it, and is the ideal merge of its children; it is
\*     idempotent; and it removes a file exactly when StaleAbove says so
CascadeOperator == \A s \in {t \in 0..MaxDepth : CascadeAccepted(data, out, t)} :
    LET r == CascadeResult(data, s) IN
    /\ \A p \in Pos : p[1] >= s => r[p] = data[p]
    /\ r = IdealResult(data, s)
    /\ \A p \in Pos : p[1] < s => /\ r[p].ex <=> LeafBelow(p, s)
                                  /\ r[p] = MergeIdeal(KidTiles(r, p))
    /\ DataPos # {} => \E p \in Pos : r[p].ex                                        \* never empties a non-empty pyramid
    /\ CascadeResult(r, s) = r
    /\ StaleAbove(data, s) <=> (\E p \in Pos : data[p].ex /\ ~r[p].ex)
\*     ... the last line alone (cheap enough for every state): the steps named CascadeRemovesOrphans are exactly
\*     the steps that set the ghost `pruned`
PrunesExactlyWhenStale == \A s \in 0..MaxDepth :
    StaleAbove(data, s) <=> (\E p \in Pos : data[p].ex /\ ~CascadeResult(data, s)[p].ex)

\*     ... an accepted cascade never empties a non-empty pyramid (every state; the refusal of an empty start level is
\*     what makes this true: the ideal rule alone erases everything above an empty level) ...
CascadeNeverErases == \A s \in 1..MaxDepth : (LevelHasTiles(data, out, s) /\ DataPos # {}) => \E p \in Pos : CascadeResult(data, s)[p].ex
\*     ... the guard counts files of any format, which with the commands of this model are the levels holding data
NoLevelWithOutputOnly == \A lv \in 0..MaxDepth : (\E p \in Level(lv) : out[p].ex) => \E p \in Level(lv) : data[p].ex
\*     ... and a cascade deletes files only after some Sample shrank the pyramid: without one, a start level deeper than
\*     the data is empty and refused (refuted while the code still accepted Sample(d); Cascade(d + 1))
CascadePrunesOnlyAfterShrink == pruned => shrunk

\*     (PrunesExactlyWhenStale and CascadeNeverErases in one pass over the start levels: one cascade per level and state)
CascadeEveryState == \A s \in 0..MaxDepth :
    LET r == CascadeResult(data, s) IN
    /\ StaleAbove(data, s) <=> (\E p \in Pos : data[p].ex /\ ~r[p].ex)
    /\ (s >= 1 /\ LevelHasTiles(data, out, s) /\ DataPos # {}) => \E p \in Pos : r[p].ex

\* ---- Transform
\* (8) on the promised levels every data tile has its output tile, pixel for pixel
FreshLevels == \A lv \in fresh : \A p \in Level(lv) : data[p].ex => out[p] = OutTile(data[p])
\* (9) the transform leaves the data alone (the set of data positions is unchanged), creates output only where data is
TransformOperator == \A s \in 0..MaxDepth :
    LET r == TransformResult(out, data, s) IN
    /\ \A p \in Pos : (r[p].ex /\ r[p] # out[p]) => (data[p].ex /\ p[1] <= s)
    /\ TransformResult(r, data, s) = r
    /\ StaleOut(out, data, s) <=> (r # TransformIdeal(out, data, s))
\* (10) as long as no data tile file was deleted (by a Sample or by a Cascade), outputs exist only where data exists;
\*      in particular when no Sample shrank the pyramid
NoLossNoStaleOutput == ~lost => OutPos \subseteq DataPos
NoShrinkNoStaleOutput == ~shrunk => OutPos \subseteq DataPos
\* (11) Transform before Cascade covers only the levels that existed: Sample(d); Transform(d); Cascade(d) leaves the
\*      parents without output.  The order Sample; Cascade; Transform gives a complete output pyramid:
OutputComplete == ((0..base) \subseteq fresh /\ base >= 0) => \A p \in DataPos : p[1] <= base => out[p].ex

\* ---- WTML and the Builder
BuilderKnowsDepth == bld.sampled => bld.levels = base /\ bld.fmt = DataFmt
\* (12) a WTML written by the session that sampled, with no Sample since: its levels are the sampled depth ...
WtmlCurrent == (wtml.ex /\ wtml.cur) => wtml.levels = base /\ wtml.ftype = DataFmt
\* ... which is the deepest populated level when nothing shrank (the standard sequence Sample, Cascade, WriteWtml)
WtmlLevelsDeepest == (wtml.ex /\ wtml.cur /\ ~shrunk /\ DataPos # {}) => wtml.levels = W!Deepest(DataPos)
\* ... and a client following the WTML down from the root finds a tile exactly where a leaf lies below
\*     (whatever was sampled or removed before: the cascade has removed the orphans)
WtmlServes == (wtml.ex /\ wtml.cur /\ (0..(base - 1)) \subseteq cons) =>
                  \A p \in Pos : p[1] <= wtml.levels => (data[p].ex <=> LeafBelow(p, base))
\* (13) a Builder that never sampled records 0 levels: the WTML of a transformed (.png) pyramid cannot get its depth
\*      from the library
UnsampledBuilderLevelsZero == ~bld.sampled => bld.levels = 0

\* ---- statements that are NOT true of the code as built (TLC must refute each: negative controls, and the
\*      counterexamples are the shortest command sequences that leave stale data behind or lose data)
\* a sample at a shallower depth after a deeper cascade leaves nothing deeper than the sampled depth
NothingDeeperThanBase == \A p \in DataPos : p[1] <= base
\* outputs exist only where data exists (sampling at one depth only)
NoStaleOutput == ~rebased => OutPos \subseteq DataPos
\* the WTML on disk always names the deepest populated level
WtmlAlwaysDeepest == (wtml.ex /\ DataPos # {}) => wtml.levels = W!Deepest(DataPos)
\* the transform commutes with the cascade (sqrt is not linear): transforming the merged tile = merging the transformed
\* children, here stated for the bytes of a parent all of whose children are fully defined
TransformCommutesWithMerge ==
    \A p \in Pos : (p[1] \in cons /\ \A i \in 0..3 : data[Kid(p, i)].ex /\ \A r \in Idx, col \in Idx : ~IsU(data[Kid(p, i)].px[r][col])) =>
        \A r \in Idx, col \in Idx :
            LET kid == data[Kid(p, 2 * ((r - 1) \div (T \div 2)) + ((col - 1) \div (T \div 2)))]
                r0 == 2 * ((r - 1) % (T \div 2)) + 1
                c0 == 2 * ((col - 1) % (T \div 2)) + 1
                b(i, j) == Byte(kid.px[r0 + i][c0 + j][1])
            IN (b(0, 0) + b(0, 1) + b(1, 0) + b(1, 1)) \div 4 \in {Byte(data[p].px[r][col][1]) - 1, Byte(data[p].px[r][col][1]), Byte(data[p].px[r][col][1]) + 1}
=============================================================================
