---- MODULE MCWalkPar ----
EXTENDS WalkPar
\* depth-2 family: every subset of level-1 tiles with all their children accepted (16 live patterns),
\* plus filters that accept a tile but none / only some of its children
L1 == Level(1)
L2 == Level(2)
WithKids(S) == S \cup {k \in L2 : Parent(k) \in S}
MCAccept == {WithKids(S) : S \in SUBSET L1}
            \cup { L1 \cup {<<2,0,0>>, <<2,3,3>>},            \* two tiles without accepted children
                   L1,                                        \* no child accepted anywhere: nothing to do
                   WithKids({<<1,0,0>>, <<1,1,1>>}) \cup {<<1,1,0>>} }
MCApex == {Root, <<1,1,0>>, <<2,0,0>>}
NoFaults == {{}}
OneFault == {{}} \cup {{p} : p \in UpTo(1)}
====
