------------------------------- MODULE Parity -------------------------------
(* Parity of a WCS-tagged image and the parity flip of toasty/image.py:                               *)
(*   _wcs_to_parity_sign (CD = CDELT_i * PC_ij, sign of the determinant), _flip_wcs_parity            *)
(*   (negate CD1_2 and CD2_2, CRPIX2 -> height + 1 - CRPIX2), Image.flip_parity (also reverses the    *)
(*   pixel rows), ImageDescription.flip_parity (no data), ensure_negative_parity of both.             *)
(*                                                                                                    *)
(* Everything is an exact integer.  A case is [kind, w, h, cdelt, pc, p] with                         *)
(*   kind  "image" (array-backed pixel data), "pil" (PIL-backed bitmap: asarray() fills a cache on     *)
(*         first use - any earlier asarray()/dtype call is the Touch action) or "desc" (data-less)    *)
(*   cdelt <<CDELT1, CDELT2>>, pc <<PC1_1, PC1_2, PC2_1, PC2_2>>  (the header form the code reads)    *)
(*   p     <<2*CRPIX1, 2*CRPIX2>>  (doubled, so that half-pixel reference points are representable;   *)
(*         FITS pixel coordinates are 1-based: the centre of array element [y][x] is (x+1, y+1)).     *)
(* The sky position of a pixel is represented by its intermediate world coordinate CD.(pix - CRPIX),  *)
(* doubled: the projection and CRVAL that follow are the same function before and after a flip, so    *)
(* equal intermediate coordinates are equal sky positions.                                            *)
(*   nax   the NAXIS2 the WCS object records (wcs.pixel_shape; 0 = none).  It may differ from h (a     *)
(*         cut-out reusing its parent frame's WCS); the flip mirrors about the image's own height h - *)
(*         SkyUnchanged is what makes h the right number - so nax influences nothing.                 *)
(*   peer  "none", or how a SECOND Image shares the first one's pixel buffer: "alias" (the same rows), *)
(*         "tail" (rows 1..h-1), "head" (rows 0..h-2).  The buffer is never written by a flip (the    *)
(*         flipped object re-binds to a reversed view), so a call on one object leaves the other one  *)
(*         exactly as it was (NonInterference, BufferUntouched).                                      *)
(* The sky position of a pixel ... (above).                                                           *)
(* State machine: the object(s) under flip_parity / ensure_negative_parity calls, with the original   *)
(* kept as a history variable.                                                                        *)
EXTENDS Integers, Sequences, FiniteSets, TLC

CONSTANTS Kinds, Widths, Heights, Headers, RefX, RefY, RecY, Peers, Edits, MaxHist
\* Headers: set of <<cdelt, pc>>;  RefX: set of doubled CRPIX1;  RefY: set of <<a, b>> meaning doubled CRPIX2 = a + b*h
\* RecY: set of <<a, b>> meaning recorded NAXIS2 = a + b*h (<<0, 0>> = none);  Peers: subset of {"none", "alias", "tail", "head"}
\* Edits: subset of {"cdsign", "cdelt1", "rowswap"} - in-place edits of the object's WCS made by the client between calls (each
\*   changes the parity: CDi_2 sign flipped, CDELT1 negated, the two matrix rows exchanged).  After an edit the object IS a
\*   different picture of the sky: base (the reference for "moves no pixel") is reset to the edited object; the object's parity
\*   is a function of its current contents only.
\* MaxHist = 0: no history is recorded (two to four states per case).  MaxHist = n > 0: every sequence of at most n calls is a
\* behaviour of its own (hist = the calls made, trace = the specified object after each of them) and is handed to the harness.
VARIABLES orig, cur, base, peer, buf, hist, trace

vars == <<orig, cur, base, peer, buf, hist, trace>>

\* ------------------------------------------------------------------ the linear WCS
CDof(cdelt, pc) == <<cdelt[1] * pc[1], cdelt[1] * pc[2], cdelt[2] * pc[3], cdelt[2] * pc[4]>>
Det(cd) == cd[1] * cd[4] - cd[2] * cd[3]
\* get_parity_sign: a negative determinant is positive parity (+1, FITS-like, bottoms-up);
\* a positive determinant is negative parity (-1, JPEG-like, top-down)
Sign(cd) == IF Det(cd) < 0 THEN 1 ELSE -1
\* doubled intermediate world coordinate of array element [y][x] (0-based)
World(cd, p, x, y) ==
    LET u == 2 * (x + 1) - p[1]
        v == 2 * (y + 1) - p[2]
    IN <<cd[1] * u + cd[2] * v, cd[3] * u + cd[4] * v>>

\* ------------------------------------------------------------------ the operations
\* An object stores  rows : the array representation (<<>> = none / cache not filled)
\*                   pil  : the PIL representation   (<<>> = none)
\* each a sequence: entry i = which original row is stored as row i-1.
Reverse(s) == [i \in 1..Len(s) |-> s[Len(s) + 1 - i]]
AsArray(o) == IF o.rows # <<>> THEN o.rows ELSE o.pil           \* Image.asarray(): the cache, else converted from PIL
AsPil(o) == IF o.pil # <<>> THEN o.pil ELSE o.rows              \* Image.aspil(): the PIL object, else converted
\* what a client can see: the WCS and the two views
View(o) == [cd |-> o.cd, p |-> o.p, arr |-> AsArray(o), pil |-> AsPil(o)]
\* _flip_wcs_parity(wcs, image_height) + the row reversal of Image.flip_parity (which reads through asarray(),
\* so it fills the cache; the PIL representation, when there is one, has to follow)
FlipWcs(cd, p, h) == [cd |-> <<cd[1], 0 - cd[2], cd[3], 0 - cd[4]>>, p |-> <<p[1], 2 * (h + 1) - p[2]>>]
Flip(o, h) == LET f == FlipWcs(o.cd, o.p, h) IN
              [cd |-> f.cd, p |-> f.p, rows |-> Reverse(AsArray(o)), pil |-> Reverse(o.pil)]
Ensure(o, h) == IF Sign(o.cd) = 1 THEN Flip(o, h) ELSE o
\* any call that goes through asarray() before the flip: asarray(), dtype, ...
Touched(o) == [o EXCEPT !.rows = AsArray(o)]

Start(c) == LET id == [i \in 1..c.h |-> i - 1] IN
            [cd |-> CDof(c.cdelt, c.pc), p |-> c.p,
             rows |-> IF c.kind = "image" THEN id ELSE <<>>,
             pil |-> IF c.kind = "pil" THEN id ELSE <<>>]

AllCases == {[kind |-> k, w |-> w, h |-> h, cdelt |-> hd[1], pc |-> hd[2], p |-> <<rx, ry[1] + ry[2] * h>>,
              nax |-> rec[1] + rec[2] * h, peer |-> pr] :
                 k \in Kinds, w \in Widths, h \in Heights, hd \in Headers, rx \in RefX, ry \in RefY, rec \in RecY, pr \in Peers}
Cases == {c \in AllCases : c.peer = "none" \/ (c.kind = "image" /\ c.h >= 2)}

\* the second Image over the same buffer: which buffer rows it wraps, and its own (independent) WCS object
PeerFirst(c) == IF c.peer = "tail" THEN 1 ELSE 0
PeerH(c) == IF c.peer = "alias" THEN c.h ELSE c.h - 1
NoPeer == [cd |-> <<>>, p |-> <<>>, rows |-> <<>>, pil |-> <<>>]
PeerStart(c) == IF c.peer = "none" THEN NoPeer
                ELSE [cd |-> CDof(c.cdelt, c.pc), p |-> c.p, rows |-> [i \in 1..PeerH(c) |-> PeerFirst(c) + i - 1], pil |-> <<>>]
HasPeer == orig.peer # "none"

Pixels(c) == (0..(c.w - 1)) \X (0..(c.h - 1))
\* a ring around the image too: the reference pixel may be outside, and off-image positions must not move either
PixelsAndRing(c) == ((0 - 1)..c.w) \X ((0 - 1)..c.h)
WorldTableH(o, w, h) == [y \in 1..h |-> [x \in 1..w |-> World(o.cd, o.p, x - 1, y - 1)]]
WorldTable(o, c) == WorldTableH(o, c.w, c.h)
Snapshot(o) == [cd |-> o.cd, p |-> o.p, rows |-> AsArray(o), pil |-> AsPil(o), sign |-> Sign(o.cd), det |-> Det(o.cd)]

\* buf[i] = which original frame row the buffer holds in its physical row i-1: the identity, and it stays the identity
Init == /\ orig \in Cases /\ cur = Start(orig) /\ base = Start(orig) /\ peer = PeerStart(orig)
        /\ buf = [i \in 1..orig.h |-> i - 1] /\ hist = <<>> /\ trace = <<>>
Record(name) ==
    IF MaxHist = 0 THEN UNCHANGED <<hist, trace>>
    ELSE /\ Len(hist) < MaxHist
         /\ hist' = Append(hist, name)
         /\ trace' = Append(trace, [snap |-> Snapshot(cur'), world |-> WorldTable(cur', orig),
                                   psnap |-> IF HasPeer THEN Snapshot(peer') ELSE Snapshot(cur'),
                                   pworld |-> IF HasPeer THEN WorldTableH(peer', orig.w, PeerH(orig)) ELSE <<>>])
FlipParity == cur' = Flip(cur, orig.h) /\ UNCHANGED <<orig, base, peer, buf>> /\ Record("flip")
EnsureNegativeParity == cur' = Ensure(cur, orig.h) /\ UNCHANGED <<orig, base, peer, buf>> /\ Record("ensure")
Touch == orig.kind = "pil" /\ cur' = Touched(cur) /\ UNCHANGED <<orig, base, peer, buf>> /\ Record("touch")
\* the same two operations called on the second Image
FlipPeer == HasPeer /\ peer' = Flip(peer, PeerH(orig)) /\ UNCHANGED <<orig, cur, base, buf>> /\ Record("flipB")
EnsurePeer == HasPeer /\ peer' = Ensure(peer, PeerH(orig)) /\ UNCHANGED <<orig, cur, base, buf>> /\ Record("ensureB")
\* the client edits the WCS object in place
Edited(cd, e) == CASE e = "cdsign"  -> <<cd[1], 0 - cd[2], cd[3], 0 - cd[4]>>
                   [] e = "cdelt1"  -> <<0 - cd[1], 0 - cd[2], cd[3], cd[4]>>
                   [] e = "rowswap" -> <<cd[3], cd[4], cd[1], cd[2]>>
EditWcs(e) == /\ cur' = [cur EXCEPT !.cd = Edited(cur.cd, e)] /\ base' = cur'
              /\ UNCHANGED <<orig, peer, buf>> /\ Record(e)
Next == FlipParity \/ EnsureNegativeParity \/ Touch \/ FlipPeer \/ EnsurePeer \/ (\E e \in Edits : EditWcs(e))
Spec == Init /\ [][Next]_vars

HasData == orig.kind # "desc"

\* ------------------------------------------------------------------ the sentences of the property
\* "moves no pixel on the sky": whatever calls were made, the pixel stored in array row y is the original row
\* rows[y+1] and still has that row's sky position (for a description: the original or its mirror image)
PosIn(s, r) == CHOOSE i \in 1..Len(s) : s[i] = r
SkyUnchanged ==
    LET o == base IN
    IF HasData
    THEN \A q \in Pixels(orig) : World(cur.cd, cur.p, q[1], q[2])
                                    = World(o.cd, o.p, q[1], PosIn(AsArray(o), AsArray(cur)[q[2] + 1]) - 1)
    ELSE \/ cur = o
         \/ \A q \in PixelsAndRing(orig) : World(cur.cd, cur.p, q[1], q[2]) = World(o.cd, o.p, q[1], orig.h - 1 - q[2])
\* the picture (pixel value, sky position) as a set is the same as at the start / at the last edit of the WCS
SamePicture ==
    HasData =>
        LET o == base IN
        {<<AsArray(cur)[q[2] + 1] * orig.w + q[1], World(cur.cd, cur.p, q[1], q[2])>> : q \in Pixels(orig)}
          = {<<AsArray(o)[q[2] + 1] * orig.w + q[1], World(o.cd, o.p, q[1], q[2])>> : q \in Pixels(orig)}
\* the two views of the pixel data never disagree, whatever was called in whatever order
ViewsAgree == AsArray(cur) = AsPil(cur)
\* the reported sign is tied to the orientation of the stored rows
SignTracksRows ==
    LET o == base IN
    /\ Sign(cur.cd) \in {-1, 1}
    /\ (View(cur) = View(o)) => Sign(cur.cd) = Sign(o.cd)
    /\ (View(cur) # View(o)) => Sign(cur.cd) = 0 - Sign(o.cd)
\* filling the array cache is invisible: now, and after any later flip / ensure
TouchInvisible ==
    [][Touch =>
        /\ View(cur') = View(cur)
        /\ View(Flip(cur', orig.h)) = View(Flip(cur, orig.h))
        /\ View(Ensure(cur', orig.h)) = View(Ensure(cur, orig.h)) ]_vars
\* "after a parity flip the sign is negated, the rows are reversed, world(x, y) before = world(x, h-1-y) after"
FlipOK ==
    [][FlipParity =>
        /\ Sign(cur'.cd) = 0 - Sign(cur.cd)
        /\ Det(cur'.cd) = 0 - Det(cur.cd)
        /\ AsArray(cur') = Reverse(AsArray(cur)) /\ AsPil(cur') = Reverse(AsPil(cur))
        /\ \A q \in PixelsAndRing(orig) : World(cur.cd, cur.p, q[1], q[2]) = World(cur'.cd, cur'.p, q[1], orig.h - 1 - q[2])
        /\ View(Flip(cur', orig.h)) = View(cur) ]_vars
\* "ensuring negative parity is idempotent and always yields parity -1"
EnsureOK ==
    [][EnsureNegativeParity =>
        /\ Sign(cur'.cd) = -1
        /\ Ensure(cur', orig.h) = cur'
        /\ (Sign(cur.cd) = -1 => cur' = cur) ]_vars
\* ... "always": after every ensure_negative_parity call of every recorded history
EnsureAlwaysNegative == \A i \in 1..Len(hist) : /\ hist[i] = "ensure" => trace[i].snap.sign = -1
                                                /\ hist[i] = "ensureB" => trace[i].psnap.sign = -1
\* two Images over one buffer: each keeps every one of ITS pixels where it was on the sky, whatever is called on either;
\* what each shows are rows of the (never written) buffer inside its own slice
PeerSkyUnchanged ==
    HasPeer =>
        LET o == PeerStart(orig) IN
        /\ \A x \in 0..(orig.w - 1), y \in 0..(PeerH(orig) - 1) :
              World(peer.cd, peer.p, x, y) = World(o.cd, o.p, x, AsArray(peer)[y + 1] - PeerFirst(orig))
        /\ {AsArray(peer)[i] : i \in 1..PeerH(orig)} = {buf[PeerFirst(orig) + i] : i \in 1..PeerH(orig)}
        /\ {AsArray(cur)[i] : i \in 1..orig.h} = {buf[i] : i \in 1..orig.h}
BufferUntouched == buf = [i \in 1..orig.h |-> i - 1]
NonInterference ==
    [][ /\ (FlipParity \/ EnsureNegativeParity \/ Touch) => peer' = peer
        /\ (FlipPeer \/ EnsurePeer) => cur' = cur
        /\ buf' = buf ]_vars
PeerOK ==
    [][ /\ FlipPeer => /\ Sign(peer'.cd) = 0 - Sign(peer.cd) /\ AsArray(peer') = Reverse(AsArray(peer))
                       /\ \A x \in 0..(orig.w - 1), y \in 0..(PeerH(orig) - 1) :
                             World(peer.cd, peer.p, x, y) = World(peer'.cd, peer'.p, x, PeerH(orig) - 1 - y)
        /\ EnsurePeer => Sign(peer'.cd) = -1 /\ Ensure(peer', PeerH(orig)) = peer' ]_vars
\* an in-place edit: the parity afterwards is that of the edited matrix (here: the opposite one), nothing else changes
EditOK ==
    [][ \A e \in Edits : EditWcs(e) =>
          /\ Sign(cur'.cd) = (IF Det(Edited(cur.cd, e)) < 0 THEN 1 ELSE -1) /\ Sign(cur'.cd) = 0 - Sign(cur.cd)
          /\ AsArray(cur') = AsArray(cur) /\ AsPil(cur') = AsPil(cur) /\ cur'.p = cur.p ]_vars
\* the space is what the property quantifies over: non-singular matrices only
WellFormed == Det(Start(orig).cd) # 0 /\ Det(cur.cd) # 0

\* ------------------------------------------------------------------ what the harness gets for every state
Report == LET f == Flip(cur, orig.h)  e == Ensure(cur, orig.h) IN
          [orig |-> orig, start |-> Snapshot(cur), world |-> WorldTable(cur, orig),
           flip |-> Snapshot(f), wflip |-> WorldTable(f, orig), flip2 |-> Snapshot(Flip(f, orig.h)),
           ensure |-> Snapshot(e), wensure |-> WorldTable(e, orig), ensure2 |-> Snapshot(Ensure(e, orig.h))]
\* a complete call history: what was called and the specified object after every call
HistoryReport == [orig |-> orig, start |-> Snapshot(Start(orig)), world |-> WorldTable(Start(orig), orig),
                  pstart |-> IF HasPeer THEN Snapshot(PeerStart(orig)) ELSE Snapshot(Start(orig)),
                  pworld |-> IF HasPeer THEN WorldTableH(PeerStart(orig), orig.w, PeerH(orig)) ELSE <<>>,
                  pfirst |-> PeerFirst(orig), ph |-> PeerH(orig), hist |-> hist, trace |-> trace]
=============================================================================
