SPECIFICATION HSpec
CONSTANTS
 Ids <- MCIds
 Kind <- MCKind
 Feed <- MCFeed
 Careful = FALSE
 RejectAtRefresh = "recorded"
PROPERTY OkPublished
CHECK_DEADLOCK FALSE
