--------------------------- MODULE MCCascadeEnum ---------------------------
(* Stand-alone instance of Cascade.tla (run: tlc -config MCCascadeEnum.cfg    *)
(* MCCascadeEnum.tla): start level 1, T = 2, Float, every one of the 4 leaves *)
(* absent or one of three matrices (entirely undefined / full / -7, +inf, undefined, 10),    *)
(* both row orders, stale files at every position that has a child.  The      *)
(* checks generate the larger families (checks/c02.py, checks/c14.py).        *)
EXTENDS MCCascade
Ms == {<<<<<<>>, <<>>>>, <<<<>>, <<>>>>>>,
       <<<<<<1>>, <<2>>>>, <<<<3>>, <<5>>>>>>,
       <<<<<<-7>>, <<1, 0>>>>, <<<<>>, <<10>>>>>>}
MCCases == EnumCases("Float", TRUE, FALSE, LeafMapsOver(Ms), <<4>>, TRUE)
           \cup EnumCases("Float", FALSE, FALSE, LeafMapsOver(Ms), <<4>>, TRUE)
=============================================================================
