-------------------------- MODULE WalkParStartBad --------------------------
(* NEGATIVE CONTROL for WalkParStart: a third reaction to a refused worker that the property does NOT admit.     *)
(* The dispatcher raises the shutdown flag and carries every operation out itself, in the serial walk's order    *)
(* (FallBack, then SerialCbStart / SerialCbEnd), while the workers created before the refusal - which look at    *)
(* the flag only after a fetch that came back empty - go on consuming the seeds.  TLC must REJECT it: AtMostOnce *)
(* is violated whenever at least one worker exists (failAt >= 2); checks/c01.py runs this module expecting that  *)
(* violation, so that "AtMostOnce holds under StartFails" is known not to hold vacuously.                        *)
EXTENDS WalkParStart
VARIABLES spos, sbusy      \* operations the dispatcher has carried out itself; is it inside a callback
bvars == <<svars, spos, sbusy>>
SerOps == SelectIn(PostD(Root), ops)        \* the serial walk's order: children first (Reduce.tla)

BInit == SInit /\ spos = 0 /\ sbusy = FALSE
FallBack == /\ phase = "starting" /\ NextK = failAt
            /\ phase' = "fallback" /\ doneEv' = TRUE
            /\ UNCHANGED <<frozen, dpc, djoin, readiness, rqBuf, rqPipe, rlock, dqBuf, dqPipe, dqSem, wpc, witem, started, ended, failAt, born, spos, sbusy>>
SerialCbStart == /\ phase = "fallback" /\ ~sbusy /\ spos < Len(SerOps)
                 /\ started' = Append(started, SerOps[spos + 1]) /\ sbusy' = TRUE
                 /\ UNCHANGED <<frozen, dpc, djoin, readiness, rqBuf, rqPipe, rlock, dqBuf, dqPipe, dqSem, wpc, witem, doneEv, ended, sx, spos>>
SerialCbEnd == /\ phase = "fallback" /\ sbusy
               /\ ended' = Append(ended, SerOps[spos + 1]) /\ sbusy' = FALSE /\ spos' = spos + 1
               /\ dpc' = (IF spos + 1 = Len(SerOps) THEN "returned" ELSE dpc)
               /\ UNCHANGED <<frozen, djoin, readiness, rqBuf, rqPipe, rlock, dqBuf, dqPipe, dqSem, wpc, witem, doneEv, started, sx>>
BNext == \/ (StartOK /\ UNCHANGED <<spos, sbusy>>) \/ FallBack \/ SerialCbStart \/ SerialCbEnd
         \/ (Keep(FlushReady) /\ UNCHANGED <<spos, sbusy>>)
         \/ ((Disp(DGet) \/ Disp(DTimeout) \/ Disp(DClose) \/ Disp(DJoinThread) \/ Disp(DSetEv) \/ Disp(DJoinW)) /\ UNCHANGED <<spos, sbusy>>)
         \/ \E w \in Workers : Wrk(w, WNext(w)) /\ UNCHANGED <<spos, sbusy>>
BSpec == BInit /\ [][BNext]_bvars
=============================================================================
