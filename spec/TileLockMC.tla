----------------------------- MODULE TileLockMC -----------------------------
(* Fixed model of TileLock for a stand-alone run:  tlc TileLockMC               *)
(* 3 processes x 2 updates each, 4 abstract pixels, 2 tile positions; three      *)
(* region / position patterns (private-then-shared regions on one tile; two      *)
(* tiles with an empty contribution, pre-existing content and mixed format       *)
(* arguments and PyramidIO default formats; every update covering the whole tile).  checks/c10.py generates    *)
(* the same kind of module with its configuration families.                      *)
EXTENDS TileLock
MCCfgs == {
  [id |-> 1, nupd |-> <<2, 2, 2>>, pos |-> <<<<1, 1>>, <<1, 1>>, <<1, 1>>>>,
   reg |-> << << <<1>>, <<1, 4>> >>, << <<2>>, <<2, 4>> >>, << <<3>>, <<3, 4>> >> >>,
   init |-> << <<>>, <<>> >>, keymode |-> "pos", fmt |-> <<0, 0, 0>>, env |-> <<0, 0, 0>>, dflt |-> <<0, 0, 0>>, parent |-> 0],
  [id |-> 2, nupd |-> <<2, 2, 2>>, pos |-> <<<<1, 2>>, <<2, 1>>, <<1, 1>>>>,
   reg |-> << << <<1, 2>>, <<1, 4>> >>, << <<2, 3>>, <<>> >>, << <<3>>, <<1, 2, 3, 4>> >> >>,
   init |-> << <<4>>, <<>> >>, keymode |-> "pos", fmt |-> <<0, 1, 0>>, env |-> <<0, 0, 0>>, dflt |-> <<0, 2, 0>>, parent |-> 0],
  [id |-> 3, nupd |-> <<2, 2, 2>>, pos |-> <<<<1, 1>>, <<1, 1>>, <<1, 1>>>>,
   reg |-> << << <<1, 2, 3, 4>>, <<1, 2, 3, 4>> >>, << <<1, 2, 3, 4>>, <<1, 2, 3, 4>> >>, << <<1, 2, 3, 4>>, <<1, 2, 3, 4>> >> >>,
   init |-> << <<1, 2>>, <<>> >>, keymode |-> "pos", fmt |-> <<0, 0, 0>>, env |-> <<0, 0, 0>>, dflt |-> <<0, 0, 0>>, parent |-> 0]
}
=============================================================================
