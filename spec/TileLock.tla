------------------------------ MODULE TileLock ------------------------------
(* The read-modify-write interface of toasty/pyramid.py, PyramidIO.update_image: *)
(*                                                                             *)
(*     p = self.tile_path(pos, format=format or self._default_format)          *)
(*                                                lock key: the tile FILE      *)
(*     with SoftFileLock(p + ".lock"):            TryAcquire ... Release       *)
(*         img = self.read_image(pos, ...)        Read                         *)
(*         yield img                              Modify (the caller's body)   *)
(*         self.write_image(pos, img, ...)        WriteBegin, WriteEnd         *)
(*                                                                             *)
(* A "tile" / "position" of this module is one tile FILE: a pyramid directory,  *)
(* a path scheme, a position and the format the tile is stored in.  Updaters    *)
(* reach it through their own PyramidIO objects, which may differ in everything *)
(* that does not change the file: the object's default format dflt[p] (given,   *)
(* or guessed at construction from what the directory held then) when the       *)
(* format is named in the call (fmt[p] = 1), the spelling of the base           *)
(* directory and of the scheme, the process and the moment of construction.     *)
(*                                                                             *)
(* as used by several worker processes at once (multi_tan / multi_wcs          *)
(* _mp_tile_worker, toast.ToastSampler in update mode).  SoftFileLock is an     *)
(* existence lock: acquiring = os.open(O_CREAT | O_EXCL) of the lock path,      *)
(* retried in a poll loop; releasing = unlink.  Image.save / np.save /          *)
(* fits.writeto open the tile file for writing (it is empty or truncated until  *)
(* the data has been written): tile state "partial" between WriteBegin and      *)
(* WriteEnd.  A tile whose buffer is completely masked is unlinked instead.     *)
(*                                                                             *)
(* Tile content is a function from abstract pixels to values: 0 = undefined     *)
(* (NaN / alpha 0), Id(p, i) = the value update i of process p writes on its    *)
(* region (Image.update_into_maskable_buffer: defined source pixels replace the *)
(* buffer's), Pre = content present before the run, Junk = what reading a       *)
(* partially written file gives.                                                *)
(*                                                                             *)
(* One behaviour = one run of one configuration cfg (frozen, a member of Cfgs):  *)
(*   id           a number naming the configuration                             *)
(*   nupd[p]      number of updates process p performs (0: process absent)      *)
(*   pos[p][i]    the tile position of p's i-th update                          *)
(*   reg[p][i]    its pixel region (a sequence of pixels, possibly empty)       *)
(*   init[t]      pixels of tile t defined before the run (empty: file absent)  *)
(*   fmt[p]       1: p names the file's format in the call (format=...), 0: it  *)
(*                relies on its object's default                                *)
(*   dflt[p]      the default format of p's PyramidIO object: 0 = the format of  *)
(*                the file, k > 0 = some other format (then fmt[p] = 1: all      *)
(*                updaters of a configuration address the same files)            *)
(*   parent       0, or the process that makes its own updates FIRST and then    *)
(*                forks the other updaters (they inherit its memory image)       *)
(*   keymode      "pos": the lock key is a function of the tile file only - the  *)
(*                design of the code.  "proc" / "fmt": keys that also depend on *)
(*                the process / on the format argument fmt[p]; TLC refutes them *)
(*                (they are here so that the theorems are known to be sensitive *)
(*                to the one design decision the property rests on).            *)
(*                "dflt": the key is computed from the updater's PyramidIO       *)
(*                object (tile_path(pos) of its DEFAULT format) instead of from  *)
(*                the file that is read and rewritten.  Refuted.                 *)
(*                "owner": key = file, but the lock records WHO holds it and an  *)
(*                attempt succeeds on a lock held under the same identity (link  *)
(*                count of an owner file, pid in the lock file, a re-entrant     *)
(*                lock), the identity being computed once per memory image:      *)
(*                children forked by a process that has already taken a lock     *)
(*                share their parent's.  Refuted (configurations with parent).   *)
(*                "env": the lock CLASS (existence lock / flock), hence the      *)
(*                exclusion domain, is chosen from the updater's environment     *)
(*                env[p]: updaters configured differently do not exclude each    *)
(*                other although they use the same lock path.  The same holds    *)
(*                for a lock PATH computed from anything that differs between    *)
(*                separately started updaters (per-interpreter str-hash salt,    *)
(*                working directory, spelling of the base path).  Refuted.       *)
(*                "steal": key = position, but a waiter whose wait has lasted   *)
(*                "too long" unlinks the lock file and takes the lock itself     *)
(*                (finite timeout + takeover).  Time is not modelled: a holder   *)
(*                may be stalled arbitrarily long between any two of its steps,  *)
(*                so the takeover is enabled whenever somebody waits.  Refuted.  *)
EXTENDS Naturals, Sequences, FiniteSets, TLC

CONSTANTS MaxP, MaxU, NPix, NPos, Cfgs

Procs  == 1..MaxP
Pixels == 1..NPix
Poss   == 1..NPos
MaxId  == MaxP * MaxU
Id(p, i) == (p - 1) * MaxU + i
Pre    == MaxId + 1
Junk   == MaxId + 2
Blank   == [x \in Pixels |-> 0]
JunkBuf == [x \in Pixels |-> Junk]
Range(s) == {s[k] : k \in DOMAIN s}

VARIABLES cfg,         \* the (frozen) configuration
          lock,        \* lock key -> 0 (free: no lock file) or the process that created the lock file
          tile,        \* position -> [st: "absent" | "partial" | "content", px: content]
          pc, upd,     \* per process: control state, index of the update in progress
          buf,         \* per process: the image read by update_image and handed to the body
          order,       \* history: <<p, i>> in lock-acquisition order
          sawPartial,  \* history: some Read happened on a partially written file
          act          \* history: the last action <<name, process>> (for replay into the real code)
vars == <<cfg, lock, tile, pc, upd, buf, order, sawPartial, act>>

PosOf(p, i) == cfg.pos[p][i]
RegOf(p, i) == Range(cfg.reg[p][i])
CurPos(p)  == PosOf(p, upd[p])
\* fork history: the children of cfg.parent do not exist before it has finished its own updates
Started(p) == IF cfg.parent \in {0, p} THEN TRUE ELSE pc[cfg.parent] = "done"
\* design variant "owner": the identity under which p takes locks - memoised at the first acquisition, inherited by fork
OwnerOf(p) == IF cfg.parent \notin {0, p} /\ cfg.nupd[cfg.parent] > 0 THEN cfg.parent ELSE p
SameOwner(p, k) == cfg.keymode = "owner" /\ lock[k] # 0 /\ OwnerOf(lock[k]) = OwnerOf(p)
KeyTag(p)  == CASE cfg.keymode \in {"pos", "steal"} -> 0
                [] cfg.keymode = "proc" -> p
                [] cfg.keymode = "fmt"  -> cfg.fmt[p]
                [] cfg.keymode = "env"  -> cfg.env[p]
                [] cfg.keymode = "dflt" -> cfg.dflt[p]
                [] cfg.keymode = "owner" -> 0
KeyOf(p)   == <<CurPos(p), KeyTag(p)>>
Keys       == Poss \X (0..MaxP)

Apply(b, R, v) == IF b = JunkBuf THEN JunkBuf ELSE [x \in Pixels |-> IF x \in R THEN v ELSE b[x]]
Masked(b)  == \A x \in Pixels : b[x] = 0          \* Image.is_completely_masked
InitPx(t)  == [x \in Pixels |-> IF x \in Range(cfg.init[t]) THEN Pre ELSE 0]
FileOf(b)  == IF Masked(b) THEN [st |-> "absent", px |-> Blank] ELSE [st |-> "content", px |-> b]

InitFor(c) ==
        /\ cfg = c
        /\ lock = [k \in Keys |-> 0]
        /\ tile = [t \in Poss |-> FileOf(InitPx(t))]
        /\ pc = [p \in Procs |-> IF cfg.nupd[p] > 0 THEN "start" ELSE "done"]
        /\ upd = [p \in Procs |-> 1]
        /\ buf = [p \in Procs |-> Blank]
        /\ order = <<>>
        /\ sawPartial = FALSE
        /\ act = <<"Init", 0>>
Init == \E c \in Cfgs : InitFor(c)

\* SoftFileLock._acquire: one attempt to create the lock file exclusively
TryAcquire(p) ==
    /\ pc[p] \in {"start", "trying"}
    /\ Started(p)
    /\ IF lock[KeyOf(p)] = 0 \/ SameOwner(p, KeyOf(p))
       THEN /\ lock' = [lock EXCEPT ![KeyOf(p)] = p]
            /\ pc' = [pc EXCEPT ![p] = "locked"]
            /\ order' = Append(order, <<p, upd[p]>>)
            /\ act' = <<"TryAcquire", p>>
       ELSE /\ pc' = [pc EXCEPT ![p] = "trying"]
            /\ act' = <<"TryFail", p>>
            /\ UNCHANGED <<lock, order>>
    /\ UNCHANGED <<cfg, tile, upd, buf, sawPartial>>
TryOK(p) == TryAcquire(p) /\ pc'[p] = "locked"

\* NOT in the code (design variant "steal"): a waiter gives up waiting, removes the lock file and creates its own
StealLock(p) ==
    /\ cfg.keymode = "steal"
    /\ pc[p] = "trying"
    /\ lock[KeyOf(p)] # 0
    /\ lock' = [lock EXCEPT ![KeyOf(p)] = p]
    /\ pc' = [pc EXCEPT ![p] = "locked"]
    /\ order' = Append(order, <<p, upd[p]>>)
    /\ act' = <<"StealLock", p>>
    /\ UNCHANGED <<cfg, tile, upd, buf, sawPartial>>

\* read_image(pos, default="masked"): a missing file gives an all-masked buffer
Read(p) ==
    /\ pc[p] = "locked"
    /\ buf' = [buf EXCEPT ![p] = IF tile[CurPos(p)].st = "partial" THEN JunkBuf ELSE tile[CurPos(p)].px]
    /\ sawPartial' = (sawPartial \/ tile[CurPos(p)].st = "partial")
    /\ pc' = [pc EXCEPT ![p] = "read"]
    /\ act' = <<"Read", p>>
    /\ UNCHANGED <<cfg, lock, tile, upd, order>>

\* the body of the `with`: image.update_into_maskable_buffer(basis, ...)
Modify(p) ==
    /\ pc[p] = "read"
    /\ buf' = [buf EXCEPT ![p] = Apply(buf[p], RegOf(p, upd[p]), Id(p, upd[p]))]
    /\ pc' = [pc EXCEPT ![p] = "modified"]
    /\ act' = <<"Modify", p>>
    /\ UNCHANGED <<cfg, lock, tile, upd, order, sawPartial>>

\* write_image: a completely masked buffer unlinks the file (one step); otherwise the file is opened for writing
WriteBegin(p) ==
    /\ pc[p] = "modified"
    /\ IF Masked(buf[p])
       THEN /\ tile' = [tile EXCEPT ![CurPos(p)] = [st |-> "absent", px |-> Blank]]
            /\ pc' = [pc EXCEPT ![p] = "written"]
            /\ act' = <<"WriteUnlink", p>>
       ELSE /\ tile' = [tile EXCEPT ![CurPos(p)] = [st |-> "partial", px |-> Blank]]
            /\ pc' = [pc EXCEPT ![p] = "writing"]
            /\ act' = <<"WriteBegin", p>>
    /\ UNCHANGED <<cfg, lock, upd, buf, order, sawPartial>>

WriteEnd(p) ==
    /\ pc[p] = "writing"
    /\ tile' = [tile EXCEPT ![CurPos(p)] = [st |-> "content", px |-> buf[p]]]
    /\ pc' = [pc EXCEPT ![p] = "written"]
    /\ act' = <<"WriteEnd", p>>
    /\ UNCHANGED <<cfg, lock, upd, buf, order, sawPartial>>

\* SoftFileLock._release: unlink the lock file (if it is still the one this process created); then the caller goes on
\* to its next update
Release(p) ==
    /\ pc[p] = "written"
    /\ lock' = [lock EXCEPT ![KeyOf(p)] = IF @ = p THEN 0 ELSE @]
    /\ IF upd[p] < cfg.nupd[p]
       THEN upd' = [upd EXCEPT ![p] = upd[p] + 1] /\ pc' = [pc EXCEPT ![p] = "start"]
       ELSE upd' = upd /\ pc' = [pc EXCEPT ![p] = "done"]
    /\ act' = <<"Release", p>>
    /\ UNCHANGED <<cfg, tile, buf, order, sawPartial>>

Progress(p) == TryOK(p) \/ Read(p) \/ Modify(p) \/ WriteBegin(p) \/ WriteEnd(p) \/ Release(p)
Step(p) == TryAcquire(p) \/ StealLock(p) \/ Read(p) \/ Modify(p) \/ WriteBegin(p) \/ WriteEnd(p) \/ Release(p)
Next == \E p \in Procs : Step(p)
\* every process keeps being scheduled; nothing is assumed about which waiter wins the lock
Fairness == \A p \in Procs : WF_vars(Progress(p))
Spec == Init /\ [][Next]_vars
FairSpec == Spec /\ Fairness

\* ------------------------------------------------------------------ the property's sentences
InCS(p)  == pc[p] \in {"locked", "read", "modified", "writing", "written"}
AllDone  == \A p \in Procs : pc[p] = "done"

TypeOK == /\ cfg \in Cfgs
          /\ \A p \in Procs : cfg.dflt[p] # 0 => cfg.fmt[p] = 1        \* everybody addresses the same files
          /\ cfg.parent \in 0..MaxP
          /\ lock \in [Keys -> 0..MaxP]
          /\ \A t \in Poss : tile[t].st \in {"absent", "partial", "content"} /\ tile[t].px \in [Pixels -> 0..Junk]
          /\ pc \in [Procs -> {"start", "trying", "locked", "read", "modified", "writing", "written", "done"}]
          /\ upd \in [Procs -> 1..MaxU]
          /\ buf \in [Procs -> [Pixels -> 0..Junk]]

\* at most one updater of a tile is between acquire and release
Mutex == \A p, q \in Procs : (p # q /\ InCS(p) /\ InCS(q)) => CurPos(p) # CurPos(q)

\* "a reader never obtains a partially written tile while holding the update lock"
NoPartialRead == /\ ~sawPartial
                 /\ \A p \in Procs : pc[p] = "locked" => tile[CurPos(p)].st # "partial"
                 /\ \A p \in Procs : buf[p] # JunkBuf

\* "the final tile contains the contribution of every update, exactly as if the updates had been applied
\*  one after another": the fold of the contributions in lock-acquisition order over the initial content
RECURSIVE Fold(_, _, _)
Fold(b, s, t) == IF s = <<>> THEN b
                 ELSE LET e == s[1]
                          nb == IF PosOf(e[1], e[2]) = t THEN Apply(b, RegOf(e[1], e[2]), Id(e[1], e[2])) ELSE b
                      IN Fold(nb, Tail(s), t)
Serial(t, s) == FileOf(Fold(InitPx(t), s, t))
Updates == {e \in Procs \X (1..MaxU) : e[2] <= cfg.nupd[e[1]]}
NoLostUpdate == AllDone => /\ Len(order) = Cardinality(Updates) /\ Range(order) = Updates
                           /\ \A t \in Poss : tile[t] = Serial(t, order)

\* the same, at every moment: what is on disk is the serial result of the updates that have completed their write
Committed(e) == \/ upd[e[1]] > e[2]
                \/ (upd[e[1]] = e[2] /\ pc[e[1]] \in {"written", "done"})
SerialPrefix == \A t \in Poss : tile[t].st # "partial" =>
                    tile[t] = Serial(t, SelectSeq(order, Committed))

\* every live update is listed in `order` exactly once, and a contribution that is not overwritten is present
EveryContribution ==
    AllDone => \A p \in Procs : \A i \in 1..MaxU : i <= cfg.nupd[p] =>
        \A x \in RegOf(p, i) :
            \/ tile[PosOf(p, i)].px[x] = Id(p, i)
            \/ \E k \in 1..Len(order) : \E j \in 1..Len(order) :
                   /\ order[k] = <<p, i>> /\ j > k
                   /\ PosOf(order[j][1], order[j][2]) = PosOf(p, i)
                   /\ x \in RegOf(order[j][1], order[j][2])

\* Release unlinks: no lock file is left behind by a completed run
LocksFreeAtEnd == AllDone => \A k \in Keys : lock[k] = 0
LockHolderOK == \A k \in Keys : lock[k] # 0 => (InCS(lock[k]) /\ KeyOf(lock[k]) = k)

Termination == <>AllDone
=============================================================================
