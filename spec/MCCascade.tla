----------------------------- MODULE MCCascade -----------------------------
(* Model-checking wrapper for Cascade.tla: the TLC-enumerated case families   *)
(* and the JSON emitters used by checks/c02.py and checks/c14.py.  The check  *)
(* generates a module that EXTENDS this one and defines the constant          *)
(* operators MCCases (and binds Cases <- MCCases in the cfg).                 *)
EXTENDS Cascade, Json

\* every leaf population of the start level: each leaf absent, or any T x T matrix over Vals
AllMatrices(Vals) == [Idx -> [Idx -> Vals]]
AllLeafMaps(Vals) == UNION {[S -> AllMatrices(Vals)] : S \in SUBSET Level(Depth)}
\* leaf populations in which every present leaf carries one of the given matrices
LeafMapsOver(Ms) == UNION {[S -> Ms] : S \in SUBSET Level(Depth)}
\* all positions that will have an existing child hold a stale file
WithStale(c0) == [c0 EXCEPT !.stale = {p \in UpTo(Depth - 1) : \E k \in Kids(p) : Final(c0)[k].ex}]
Case(mode, bottomup, keepu, leaves, sv) ==
    [id |-> 0, mode |-> mode, bottomup |-> bottomup, ranged |-> bottomup, keepu |-> keepu, leaves |-> leaves,
     live |-> Level(Depth), stale |-> {}, sv |-> sv]
EnumCases(mode, bottomup, keepu, leafmaps, sv, stale) ==
    {IF stale THEN WithStale(Case(mode, bottomup, keepu, f, sv)) ELSE Case(mode, bottomup, keepu, f, sv) : f \in leafmaps}

\* ---- emitters (always-true invariants)
\* may: the tile may be entirely undefined (colour with faint alpha: every pixel's alpha interval starts at 0) - its
\* file may be absent; when present it must hold a defined pixel
TileRec(p, t) == [pos |-> p, px |-> t.px, rng |-> t.rng, may |-> AllMaybeUndef(c.mode, t.px)]
ExistingSeq(f) == LET s == SelectSeq(GeneratePos(Depth), LAMBDA p : f[p].ex)
                  IN [i \in DOMAIN s |-> TileRec(s[i], f[s[i]])]
\* the leaves as handed to the writer (format row order), whether or not the writer stores them
GivenSeq == LET s == SelectSeq(GeneratePos(Depth), LAMBDA p : p \in DOMAIN c.leaves)
            IN [i \in DOMAIN s |-> [pos |-> s[i], px |-> ToFile(c.bottomup, LeafMatrix(c, s[i])),
                                    stored |-> InitPyr(c)[s[i]].ex,
                                    raw |-> c.keepu /\ AllUndef(c.mode, LeafMatrix(c, s[i]))]]
Record == [id |-> c.id, mode |-> c.mode, bottomup |-> c.bottomup, ranged |-> c.ranged, keepu |-> c.keepu,
           given |-> GivenSeq, init |-> ExistingSeq(InitPyr(c)), final |-> ExistingSeq(pyr),
           live |-> SelectSeq(GeneratePos(Depth), LAMBDA p : p \in c.live),
           ops |-> SelectSeq(GeneratePos(Depth), LAMBDA p : p \in Ops(c)), sv |-> c.sv, refused |-> Refused,
           connected |-> InDomain]
Emit == Finished => PrintT(<<"R", ToJson(Record)>>)
=============================================================================
