---------------------------- MODULE WorkQueueProd ----------------------------
(* WorkQueue with a fault on the PRODUCER side, part-way through the item stream, while the workers stay healthy:  *)
(* the iterable the parent loops over raises instead of yielding its k-th item (the collection's images() at the   *)
(* k-th image in multi_tan / multi_wcs; the user's tile filter or the position generator during the dispatch       *)
(* traversal of visit_leaves / transform).  k = NItems + 1: it raises where it should have ended.                  *)
(*                                                                                                                 *)
(* What the parent does then is a design choice (react, chosen from Reactions):                                                   *)
(*   "propagate"        as coded: the exception leaves the stage at once (the workers are left polling; they are   *)
(*                      daemonic and die with the parent);                                                         *)
(*   "wind-down-raise"  run the shutdown handshake for what was put (close, wait for the feeder, flag, joins),     *)
(*                      then re-raise;                                                                             *)
(*   "wind-down-return" the same, but the stage then returns normally.                                             *)
(* C03's sentence "returns only after all items have been fully processed" is WorkQueue!ReturnedImpliesAll; TLC    *)
(* proves it for the first two reactions and refutes it for the third (negative control): a normal return must    *)
(* have reached the end of the item stream by puts, not by abandoning it.                                          *)
EXTENDS WorkQueue
CONSTANTS ProdFaultAt,      \* the k's to choose from, a subset of 0..NItems+1; 0 = the producer's iterable is healthy
          Reactions         \* the reactions to choose from
VARIABLES pfail,            \* the chosen k (frozen)
          react,            \* the chosen reaction (frozen)
          pfired            \* the iterable has raised
pvars == <<vars, pfail, react, pfired>>

ASSUME ProdFaultAt \subseteq 0..(NItems + 1)
ASSUME Reactions \subseteq {"propagate", "wind-down-raise", "wind-down-return"}

\* (a healthy producer never reacts: one representative reaction for k = 0)
PInit == Init /\ pfail \in ProdFaultAt /\ react \in (IF pfail = 0 THEN {CHOOSE r \in Reactions : TRUE} ELSE Reactions) /\ pfired = FALSE
Keep == UNCHANGED <<pfail, react, pfired>>
Healthy == pfired \/ next # pfail          \* the iterable yields (or ends) normally at the producer's current position

\* the iterable raises instead of yielding item `next`
PFail == /\ ppc = "put" /\ next = pfail /\ ~pfired
         /\ pfired' = TRUE /\ UNCHANGED <<pfail, react>>
         /\ IF react = "propagate" THEN ppc' = "failed" /\ outcome' = "raised"
            ELSE ppc' = "jointhread" /\ UNCHANGED outcome
         /\ UNCHANGED <<faults, next, buf, pipe, sem, rlock, doneEv, pjoin, wpc, witem, wflag, started, processed>>
\* the last join: WorkQueue!PJoinW, which additionally re-raises the producer's exception unless it is swallowed
PJoinWP == /\ ppc = "joinw" /\ pjoin \in Gone
           /\ IF pjoin < NW THEN pjoin' = pjoin + 1 /\ UNCHANGED <<ppc, outcome>>
              ELSE /\ UNCHANGED pjoin
                   /\ IF (Checked /\ Dead # {}) \/ (pfired /\ react # "wind-down-return")
                      THEN ppc' = "failed" /\ outcome' = "raised"
                      ELSE ppc' = "returned" /\ outcome' = "returned"
           /\ UNCHANGED <<faults, next, buf, pipe, sem, rlock, doneEv, wpc, witem, wflag, started, processed>>

PNext == \/ (Healthy /\ (PPut \/ PPutFull \/ PClose) /\ Keep)
         \/ PFail
         \/ ((PJoinThread \/ PJoinThreadPoll \/ PSetEv \/ Flush) /\ Keep)
         \/ (PJoinWP /\ Keep)
         \/ \E w \in Workers : WNext(w) /\ Keep
PFair == /\ WF_pvars(Healthy /\ PPut /\ Keep) /\ WF_pvars(Healthy /\ PPutFull /\ Keep) /\ WF_pvars(Healthy /\ PClose /\ Keep)
         /\ WF_pvars(PFail) /\ WF_pvars(PJoinThread /\ Keep) /\ WF_pvars(PJoinThreadPoll /\ Keep) /\ WF_pvars(PSetEv /\ Keep)
         /\ WF_pvars(PJoinWP /\ Keep) /\ WF_pvars(Flush /\ Keep)
         /\ \A w \in Workers : /\ WF_pvars(WSample(w) /\ Keep) /\ WF_pvars(WAcquire(w) /\ Keep) /\ WF_pvars(WRecv(w) /\ Keep)
                               /\ WF_pvars(WPollTimeout(w) /\ Keep) /\ WF_pvars(WCheckDone(w) /\ Keep)
                               /\ WF_pvars(WCbStart(w) /\ Keep) /\ WF_pvars(WCbEnd(w) /\ Keep)
PSpec == PInit /\ [][PNext]_pvars /\ PFair

\* ------------------------------------------------------------------ properties
\* (WorkQueue!AtMostOnce, ReturnedImpliesAll, Bounded are checked under PSpec as they stand)
\* a normal return has reached the end of the item stream by puts
ReturnedImpliesAllPut == outcome = "returned" => next > NItems /\ ~pfired
\* the flag goes up only after the buffer is flushed - and, unless the stage is going to raise, after the last item
NoLossAtSetP == (doneEv /\ outcome # "raised") => buf = <<>> /\ ~FeederBlocked /\ (next > NItems \/ pfired)
\* an exception comes from a dead worker or from the producer's iterable, never out of nothing
RaisedOnlyOnFaultP == outcome = "raised" => (Dead # {} \/ pfired)
\* what was put before the fault is never handed out twice; nothing is invented
OnlyPutItems == Range(started) \subseteq 1..(next - 1)
EndsP == <>(outcome # "running")
ReturnsWhenHealthy == (faults = {} /\ pfail = 0) => <>(outcome = "returned")
RaisesWhenProducerFails == (pfail # 0 /\ faults = {} /\ react # "wind-down-return") => <>(outcome = "raised")
=============================================================================
