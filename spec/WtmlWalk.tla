------------------------------ MODULE WtmlWalk ------------------------------
(***************************************************************************)
(* C17, first sentence, as a state space: a walk down the quadtree that    *)
(* visits every position to depth MaxDepth under every (scheme, format),   *)
(* with the naming theorems of Wtml.tla as invariants of the visited       *)
(* position.  RoundTripAt (the position can be read back from the name)    *)
(* holding in every state is injectivity of Path on the visited set: a     *)
(* function with a left inverse is injective.                              *)
(***************************************************************************)
EXTENDS Wtml

CONSTANTS Exts,        \* the formats, as character sequences
          MaxDepth

VARIABLES scheme, ext, pos
wvars == <<scheme, ext, pos>>

Children(p) == {<<p[1] + 1, 2 * p[2] + dx, 2 * p[3] + dy>> : dx \in 0..1, dy \in 0..1}

WInit == scheme \in Schemes /\ ext \in Exts /\ pos = <<0, 0, 0>>
WNext == /\ pos[1] < MaxDepth
         /\ pos' \in Children(pos)
         /\ UNCHANGED <<scheme, ext>>
WSpec == WInit /\ [][WNext]_wvars

ValidAt       == ValidPos(pos)
ExpandIsPathAt == Expand(Template(scheme, ext), pos) = Path(scheme, pos, ext)
RoundTripAt   == Unpath(scheme, Path(scheme, pos, ext)) = pos
FileTypeAt    == /\ DotExt(Path(scheme, pos, ext)) = FileType(ext)
                 /\ DotExt(Template(scheme, ext)) = FileType(ext)
AddressableAt == Addr(Template(scheme, ext), Path(scheme, pos, ext)) = {pos}
(* a child is never stored under its parent's name *)
ChildDiffers  == [][Path(scheme, pos', ext) # Path(scheme, pos, ext)]_wvars
=============================================================================
