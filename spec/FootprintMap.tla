----------------------------- MODULE FootprintMap -----------------------------
(* WHICH pixel -> sky map the footprint filter of WcsSampler has to be built with (toasty/samplers.py: _pix2icrs,   *)
(* _image_bounds, filter, sampler), on a one-dimensional sky lattice.                                              *)
(*                                                                                                                *)
(*   sampler()   a direction s holds image data iff s = S(x) for a pixel coordinate x inside the image, with       *)
(*               S = Frame o Distort o Core : world_to_array_index(SkyCoord(icrs)) converts the ICRS direction to   *)
(*               the WCS's own celestial frame and inverts the core WCS with its distortion terms applied          *)
(*   filter()    accepts a tile iff the tile's hull meets the box  [min F, max F]  over the pixel samples that      *)
(*               _image_bounds evaluates (ImageBounds.tla: both ends of the image are among them)                  *)
(*                                                                                                                *)
(* F is the design decision: "same" = S (_pix2icrs: all_pix2world + conversion from wcs_to_celestial_frame(wcs) to   *)
(* ICRS); "core" = the core WCS only (wcs_pix2world: distortion terms dropped); "noframe" = the frame's longitudes /   *)
(* latitudes taken for ICRS ones.  Theorems (TLC, all cases): with F = S no tile holding a point of the footprint is *)
(* rejected, at any level of its root path (SameMapNoFalseNegative), and only the two ends of the image matter       *)
(* (EndsSuffice); the other two maps lose tiles EXACTLY when the distortion / the frame offset is not zero            *)
(* (CoreLosesTilesIffDistorted, NoFrameLosesTilesIffOffset): no footprint geometry makes up for the wrong map.        *)
(*                                                                                                                *)
(* Units: pixel coordinates x = 1..2L+1 are half pixels (1 = outer edge of the first pixel, 2L+1 = outer edge of    *)
(* the last); the sky is the integer lattice, Sc lattice points per half pixel; tiles of level k are the intervals   *)
(* of 2^(Levels-k) lattice points, nested; the lattice points are the "pixel centres" a tile can hold.               *)
EXTENDS Integers, TLC

CONSTANTS MaxL,      \* image lengths 1..MaxL (pixels)
          MaxAmp,    \* distortion: a * (x - centre)^2 / L lattice points, a in -MaxAmp..MaxAmp (a*L at the image ends)
          MaxOff,    \* frame conversion: a shift by o in -MaxOff..MaxOff lattice points
          Levels     \* tile levels 0..Levels

Sc == 3 * MaxAmp + 2                      \* > 3*|a| + 1: the distorted map stays increasing (Monotone below)
Base == MaxAmp * MaxL + MaxOff            \* keeps sky coordinates >= 0
Variants == {"same", "core", "noframe"}
Cases == [L : 1..MaxL, a : (-MaxAmp)..MaxAmp, o : (-MaxOff)..MaxOff, v : Variants]

Pix(L) == 1..(2 * L + 1)
Core(x) == Sc * x + Base
\* floor division of a possibly negative numerator
FloorDiv(n, d) == IF n >= 0 THEN n \div d ELSE -((-n + d - 1) \div d)
Distort(c, x) == FloorDiv(c.a * (x - (c.L + 1)) * (x - (c.L + 1)), c.L)
S(c, x) == Core(x) + Distort(c, x) + c.o                         \* where the sampler finds pixel coordinate x
F(c, x) == CASE c.v = "same"    -> S(c, x)
             [] c.v = "core"    -> Core(x) + c.o                  \* distortion terms dropped
             [] c.v = "noframe" -> Core(x) + Distort(c, x)        \* frame values taken as ICRS

MinOver(f(_), X) == CHOOSE m \in {f(x) : x \in X} : \A x \in X : m <= f(x)
MaxOver(f(_), X) == CHOOSE m \in {f(x) : x \in X} : \A x \in X : m >= f(x)

\* the footprint: every lattice point between the images of the two outer edges (S is increasing)
FootLo(c) == LET g(x) == S(c, x) IN MinOver(g, Pix(c.L))
FootHi(c) == LET g(x) == S(c, x) IN MaxOver(g, Pix(c.L))
\* the box of the filter over a sample set
BoxLo(c, X) == LET g(x) == F(c, x) IN MinOver(g, X)
BoxHi(c, X) == LET g(x) == F(c, x) IN MaxOver(g, X)
Ends(L) == {1, 2 * L + 1}

\* ------------------------------------------------------------------ tiles
Pow2(n) == 2 ^ n
W(k) == Pow2(Levels - k)
SkyMax == Sc * (2 * MaxL + 1) + 2 * Base
NT(k) == (SkyMax \div W(k)) + 1
TLo(k, t) == t * W(k)
THi(k, t) == t * W(k) + W(k) - 1
Meets(lo, hi, k, t) == TLo(k, t) <= hi /\ THi(k, t) >= lo                  \* a lattice point of tile t of level k lies in lo..hi
Anc(k, t, j) == t \div Pow2(k - j)                                           \* ancestor of tile t of level k at level j <= k
\* footprint flo..fhi, box blo..bhi: the tile holds a point of the footprint / the filter accepts its whole root path
Holds(flo, fhi, k, t) == Meets(flo, fhi, k, t)
PathAccepted(blo, bhi, k, t) == \A j \in 0..k : Meets(blo, bhi, j, Anc(k, t, j))
\* the tiles of level k that can meet lo..hi at all (the others are outside both the footprint and the box)
Around(lo, hi, k) == (lo \div W(k))..(hi \div W(k))

\* "accepts every tile (at every depth on the path from the root) that has at least one pixel centre inside the footprint"
\* (the four extremes are bound once: TLC evaluates a LET definition once per evaluation of the body)
NFN(c, X) ==
    LET flo == FootLo(c)  fhi == FootHi(c)  blo == BoxLo(c, X)  bhi == BoxHi(c, X)
    IN \A k \in 0..Levels : \A t \in Around(flo, fhi, k) : Holds(flo, fhi, k, t) => PathAccepted(blo, bhi, k, t)

\* ------------------------------------------------------------------ state space: one case, neighbours differ in one parameter
VARIABLE c
Init == c \in Cases
Next == \E d \in Cases :
          /\ c' = d
          /\ \/ d.L # c.L /\ d.a = c.a /\ d.o = c.o /\ d.v = c.v /\ d.L - c.L \in {-1, 1}
             \/ d.L = c.L /\ d.a # c.a /\ d.o = c.o /\ d.v = c.v /\ d.a - c.a \in {-1, 1}
             \/ d.L = c.L /\ d.a = c.a /\ d.o # c.o /\ d.v = c.v /\ d.o - c.o \in {-1, 1}
             \/ d.L = c.L /\ d.a = c.a /\ d.o = c.o /\ d.v # c.v
Spec == Init /\ [][Next]_c

\* ------------------------------------------------------------------ theorems
TypeOK == c \in Cases
\* side condition of the model: the sampler's map is increasing, so the footprint is an interval
Monotone == \A x \in 1..(2 * c.L) : S(c, x) < S(c, x + 1)
\* ancestors contain their descendants (the pruning of the descent is sound); constant-level: an ASSUME of the MC module
Nested == \A k \in 1..Levels : \A t \in 0..(NT(k) - 1) :
             TLo(k - 1, Anc(k, t, k - 1)) <= TLo(k, t) /\ THi(k, t) <= THi(k - 1, Anc(k, t, k - 1))
SameMapNoFalseNegative == c.v = "same" => NFN(c, Pix(c.L)) /\ NFN(c, Ends(c.L))
EndsSuffice == c.v = "same" => BoxLo(c, Ends(c.L)) = FootLo(c) /\ BoxHi(c, Ends(c.L)) = FootHi(c)
CoreLosesTilesIffDistorted == c.v = "core" => (NFN(c, Pix(c.L)) <=> c.a = 0)
NoFrameLosesTilesIffOffset == c.v = "noframe" => (NFN(c, Pix(c.L)) <=> c.o = 0)
\* the lost tiles of the deepest level, for the evidence
LostDeepest ==
    LET flo == FootLo(c)  fhi == FootHi(c)  blo == BoxLo(c, Pix(c.L))  bhi == BoxHi(c, Pix(c.L))
    IN {t \in Around(flo, fhi, Levels) : Holds(flo, fhi, Levels, t) /\ ~PathAccepted(blo, bhi, Levels, t)}
=============================================================================
