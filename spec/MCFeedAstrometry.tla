------------------------- MODULE MCFeedAstrometry -------------------------
(* Case sets for FeedAstrometry (G08).  Q* = quick tier, T* = thorough tier; checks/g08.py writes the cfg. *)
EXTENDS FeedAstrometry, Json

MCFlavours == {"astropix", "djangoplicity"}
Fx(o, s, e, r) == [orig |-> o, spatial |-> s, urlext |-> e, refurl |-> r]
MCDefaultFx == Fx(TRUE, "TAN", "png", "given")
MCFetchSet == {MCDefaultFx, Fx(FALSE, "TAN", "png", "given"), Fx(TRUE, "null", "png", "given"), Fx(FALSE, "null", "png", "given"),
               Fx(TRUE, "TAN", "PNG", "empty"), Fx(TRUE, "TAN", "jpeg", "given"), Fx(TRUE, "TAN", "JPG", "empty"), Fx(TRUE, "TAN", "jpg", "given")}

\* <<reference width, reference height, fetched width, fetched height>>
QDims == {<<300, 200, 300, 200>>,     \* as announced; two levels
          <<600, 400, 300, 200>>,     \* a half-size rendition
          <<600, 300, 300, 200>>,     \* not a uniform rescaling (1/2, 2/3)
          <<301, 201, 301, 201>>,     \* odd sizes: the half-pixel of the centring
          <<40, 30, 40, 30>>,         \* fits one tile: untiled
          <<120, 60, 40, 30>>,        \* untiled, non-uniform (1/3, 1/2)
          <<400, 300, 200, 152>>}     \* a half-size rendition whose height came out a little larger: non-uniform within the 5 % tolerance
\* (the thorough tier walks the Q sets as well; the rounded rendition is left out of the T product because its denominators, squared and
\*  combined with the 13-based rotations, leave TLC's 32-bit integers)
TDims == (QDims \ {<<400, 300, 200, 152>>}) \cup {<<150, 100, 300, 200>>, <<200, 300, 200, 300>>, <<80, 60, 40, 30>>, <<256, 256, 256, 256>>,
                     <<257, 100, 257, 100>>, <<514, 20, 257, 10>>, <<255, 256, 255, 256>>, <<600, 600, 513, 300>>,
                     <<31, 41, 31, 41>>, <<1024, 768, 320, 240>>}
QRefPix == {"centre", "frac", "outside"}
TRefPix == {"centre", "first", "corner", "frac", "outside"}
QRefVal == {<<10, 20>>, <<350, -45>>}
TRefVal == QRefVal \cup {<<0, 0>>, <<180, 89>>}
\* <<scale[0], scale[1]>>
QScales == {<<<<-1, 100>>, <<1, 100>>>>,        \* an ordinary sky image
            <<<<1, 100>>, <<1, 100>>>>,         \* mirrored
            <<<<-1, 100>>, <<1, 96>>>>,         \* pixels square within 5 %
            <<<<-1, 100>>, <<1, 50>>>>,         \* not square
            <<<<-1, 100>>, Null>>,              \* no second scale (seen in noao-02274)
            <<<<1, 100>>, <<-1, 100>>>>}        \* both signs reversed: the same handedness, turned by 180 degrees
TScales == QScales \cup {<<<<-1, 64>>, <<1, 64>>>>, <<<<-1, 100>>, <<-1, 100>>>>, <<<<-3, 1000>>, <<3, 1000>>>>}
\* <<cos, sin>>
QRots == {<<I(1), I(0)>>, <<I(0), I(1)>>, <<I(-1), I(0)>>, <<<<3, 5>>, <<4, 5>>>>, <<<<4, 5>>, <<-3, 5>>>>}
TRots == QRots \cup {<<I(0), I(-1)>>, <<<<-3, 5>>, <<4, 5>>>>, <<<<5, 13>>, <<12, 13>>>>, <<<<-4, 5>>, <<-3, 5>>>>}
QFrames == {"ICRS", "GAL"}
TFrames == {"ICRS", "GAL", "FK5"}
MCDefaultCase == Case("astropix", MCDefaultFx, <<600, 400, 300, 200>>, "frac", <<10, 20>>, <<<<-1, 100>>, <<1, 100>>>>, <<<<3, 5>>, <<4, 5>>>>, "ICRS")

Devs(cs) == [RescaleSkewed |-> RescaleSkewed(cs), FrameIgnored |-> FrameIgnored(cs), MirroredTiledRaises |-> MirroredTiledRaises(cs),
             Approximated |-> (Comp(cs) /\ Approximated(cs)), SmallImagePadded |-> SmallImagePadded(cs)]
\* INVARIANT: the theorems hold, and everything checks/g08.py needs to drive the real code with this case and to judge what comes back is printed
TheoremsAndEmit ==
    LET j == Judged
        cs == j.cs
    IN /\ \A k \in DOMAIN j.th : j.th[k]
       /\ PrintT(<<"A", ToJson([cs |-> cs, refpix |-> RefPixOf(cs), fetch |-> Fetch(cs), ext |-> CacheExt(cs), credits |-> CreditsFrom(cs),
                                 hraise |-> HeadersRaise(cs), hd |-> j.hd, pr |-> j.pr, lev |-> Levels(cs), p2 |-> P2(cs), g0 |-> <<Gx0(cs), Gy0(cs)>>,
                                 refdisp |-> RefDisplay(cs),
                                 placeAtRef |-> (Comp(cs) /\ RefDisplay(cs) = <<Q(W(cs), 2), Q(H(cs), 2)>>),
                                 dev |-> Devs(cs), ideal |-> j.ideal])>>)
=============================================================================
