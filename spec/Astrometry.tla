----------------------------- MODULE Astrometry -----------------------------
(* G09 (DESIGN.md section 7) - how a Builder turns astrometry into the WWT ImageSet / Place description, *)
(* and what a reader of that description gets back.                                                      *)
(*                                                                                                       *)
(* Transcribes                                                                                           *)
(*   toasty/builder.py      Builder.apply_wcs_info (wcs.to_header() -> ImageSet.set_position_from_wcs),  *)
(*                          apply_avm_info (AVM.to_wcs(target_shape) -> _flip_wcs_parity -> the above),  *)
(*                          default_tiled_study_astrometry, prepare_study_tiling ->                      *)
(*                          StudyTiling.apply_to_imageset (levels, projection; StudyTiling INSTANCEd)    *)
(*   toasty/image.py        _flip_wcs_parity, ImageDescription.ensure_negative_parity (cross-checked     *)
(*                          against Parity!FlipWcs of property C16, INSTANCEd)                           *)
(*   wwt_data_formats       ImageSet.set_position_from_wcs (Encode) and its own inverse for untiled      *)
(*   (installed package)    images ImageSet.wcs_headers_from_position (DecodeSky)                        *)
(*   pyavm (installed)      AVM.to_wcs: the rescaling to a target shape (AvmToWcs)                       *)
(* The history of one Builder object (set_name, thumbnails, index_rel.wtml, the tile_fits reuse path) is *)
(* spec/AstrometryHistory.tla, which INSTANCEs this module.                                              *)
(*                                                                                                       *)
(* NUMBERS.  Everything is exact.  A linear WCS is W = [cr, m, u, cv, ctype]: CRPIX = cr (two rationals, *)
(* FITS convention: 1-based, integers on pixel centres), CD = u * m with m an INTEGER matrix             *)
(* <<m11, m12, m21, m22>> and u a positive rational (degrees), CRVAL = cv (two rationals, degrees).      *)
(* Rotations are the exact-form matrices built from integer direction vectors: multiples of 90 degrees, *)
(* the Pythagorean angles (3,4,5), (5,12,13), and any other integer direction (45 degrees = (1,1)) -     *)
(* lengths that are not rational are SURDS [q, r] = q * sqrt(r) (q rational, r squarefree), an angle is   *)
(* the primitive integer DIRECTION <<x, y>> of (cos, sin) (the two arguments of the code's atan2; the     *)
(* harness turns it into degrees only to compare).  Sky positions are compared in the tangent plane at   *)
(* CRVAL (xi east, eta north, degrees): the pixel -> plane map is affine and the spherical deprojection   *)
(* that follows is the same function in every reading, so equal plane positions are equal sky positions. *)
(*                                                                                                       *)
(* HOW A CLIENT READS THE DESCRIPTION.  Untiled (SkyImage): ImageSet.wcs_headers_from_position, the      *)
(* library's own inverse, transcribed as DecodeSky and bound to the real function.  Tiled (Tan): WWT's   *)
(* TangentTile (wwt-webgl-engine: the level-0 tile spans BaseDegreesPerTile, its left edge lies          *)
(* BaseDegreesPerTile / WidthFactor left of, its top edge BaseDegreesPerTile / 2 above the point that    *)
(* OffsetX (to the right) and OffsetY (upwards) displace from the projection centre; rotation as for an  *)
(* untiled top-down image) combined with where toasty's StudyTiling puts the image into the padded       *)
(* square (ST!Centre) - DecodeTan.  The TangentTile reading is an ASSUMPTION of the tiled theorems (there *)
(* is no WWT engine in the sandbox); it agrees with the attribute documentation of wwt_data_formats.     *)
(*                                                                                                       *)
(* AS-BUILT DEVIATIONS (each named; the ideal statement is kept and TLC refutes it):                     *)
(*   Approximated            a CD matrix that is a rotation * scale * parity only within 5 % is accepted *)
(*                           and described by ONE scale and ONE angle (ideal: AcceptedOnlyIfExpressible) *)
(*   TwinRotationsDiffer     an untiled bottoms-up image and its parity-flipped twin (same picture on    *)
(*                           the sky) carry rotations 180 degrees apart (ideal:                          *)
(*                           RotationIndependentOfStorageParity)                                         *)
(*   AvmHalfPixel            AVM.to_wcs rescales CRPIX as CRPIX * k, not about the image corner: every   *)
(*                           pixel moves by (k - 1) / 2 target pixels (ideal: AvmCornersKeepSky)         *)
(*   AvmCdMatrixNotRescaled  an AVM that carries a CD matrix (not Scale + Rotation) keeps its CD when    *)
(*                           rescaled (wcslib ignores CDELT next to CD): the image is k times too large  *)
(*   AvmFlipUnconditional    apply_avm_info flips the parity whatever the AVM's own parity is: an AVM    *)
(*                           whose CD is already top-down is refused for a tiled image (ideal:           *)
(*                           AvmParityRespected)                                                         *)
(*   ZoomFromHeightOnly      Place.zoom_level = 6 * 1.7 * angular HEIGHT; an image wider than 1.7 times  *)
(*                           its height does not fit the view (ideal: ViewContainsImage)                 *)
(*   PlaceRotationZero       Place.rotation_deg = 0 whatever the image rotation (ideal:                  *)
(*                           PlaceFollowsImageRotation)                                                  *)
(*   DefaultZoomIsOne        default_tiled_study_astrometry: one degree per padded square, zoom 1        *)
(*                           (a view 1/6 degree tall) (ideal: DefaultViewShowsImage)                     *)
(*   ToastKeepsGeometry      on a TOAST ImageSet only centre and rotation are overwritten               *)
(*                           (ideal: ToastUntouched)                                                     *)
(*   UntiledStudyServesPaddedTile  a study that fits one tile is described as an untiled SkyImage whose  *)
(*                           offsets refer to the w x h source, the file its Url names is the padded     *)
(*                           256 x 256 tile (also G08 SmallImagePadded) (ideal: ServedFileMatches)       *)
EXTENDS Integers, Sequences, FiniteSets, TLC

CONSTANTS Cases          \* the seed cases (records built by Case below); the machine closes them under its actions
VARIABLES cs,             \* the current case
          out             \* Outcome(cs): what the calls of the case do (computed once per state; the theorems read it)

TS == 256
ST == INSTANCE StudyTiling WITH TS <- 256, MaxW <- 1, MaxH <- 1, MaxLen <- 1, SubMode <- "none", SubLens <- {}, c <- 0
PAR == INSTANCE Parity WITH Kinds <- {}, Widths <- {}, Heights <- {}, Headers <- {}, RefX <- {}, RefY <- {}, RecY <- {},
                            Peers <- {}, Edits <- {}, MaxHist <- 0, orig <- 0, cur <- 0, base <- 0, peer <- 0, buf <- 0, hist <- 0, trace <- 0

\* ================================================================================================ numbers
Abs(i) == IF i < 0 THEN 0 - i ELSE i
Max2(i, j) == IF i >= j THEN i ELSE j
Min2(i, j) == IF i <= j THEN i ELSE j
RECURSIVE Gcd(_, _)
Gcd(i, j) == IF j = 0 THEN i ELSE Gcd(j, i % j)

\* ---- rationals <<n, d>>, d > 0, lowest terms
Q(n, d) == LET sg == IF d < 0 THEN 0 - 1 ELSE 1
               g == Gcd(Abs(n), Abs(d))
           IN <<(sg * n) \div g, (sg * d) \div g>>
QI(n) == <<n, 1>>
QZero == <<0, 1>>
QHalf == <<1, 2>>
Irr == <<0, 0>>                            \* "not a rational number" (never a valid rational)
QNeg(p) == <<0 - p[1], p[2]>>
QAdd(p, q) == LET g == Gcd(p[2], q[2]) IN Q(p[1] * (q[2] \div g) + q[1] * (p[2] \div g), (p[2] \div g) * q[2])
QSub(p, q) == QAdd(p, QNeg(q))
QMul(p, q) == LET g1 == Gcd(Abs(p[1]), q[2])
                  g2 == Gcd(Abs(q[1]), p[2])
              IN IF p[1] = 0 \/ q[1] = 0 THEN QZero
                 ELSE <<(p[1] \div g1) * (q[1] \div g2), (p[2] \div g2) * (q[2] \div g1)>>
QInv(p) == IF p[1] < 0 THEN <<0 - p[2], 0 - p[1]>> ELSE <<p[2], p[1]>>
QDiv(p, q) == QMul(p, QInv(q))
QLt(p, q) == p[1] * q[2] < q[1] * p[2]
QLe(p, q) == p[1] * q[2] <= q[1] * p[2]
QAbs(p) == <<Abs(p[1]), p[2]>>
QSq(p) == QMul(p, p)
QMax(p, q) == IF QLt(p, q) THEN q ELSE p
\* vectors of rationals
VAdd(v, w) == <<QAdd(v[1], w[1]), QAdd(v[2], w[2])>>
VSub(v, w) == <<QSub(v[1], w[1]), QSub(v[2], w[2])>>
VScale(q, v) == <<QMul(q, v[1]), QMul(q, v[2])>>
\* integer matrix <<m11, m12, m21, m22>> times rational vector
MApply(m, v) == <<QAdd(QMul(QI(m[1]), v[1]), QMul(QI(m[2]), v[2])), QAdd(QMul(QI(m[3]), v[1]), QMul(QI(m[4]), v[2]))>>

\* ---- surds [q, r] = q * sqrt(r), r squarefree (radicands stay below 2049^2 in every case set)
SqPart(n) == LET cap == IF n < 4096 THEN 64 ELSE 2048
                 ks == {k \in 1..cap : k * k <= n /\ n % (k * k) = 0}
             IN CHOOSE k \in ks : \A j \in ks : j <= k
Surd(q, n) == IF q[1] = 0 \/ n = 0 THEN [q |-> QZero, r |-> 1]
              ELSE LET k == SqPart(n) IN [q |-> QMul(q, QI(k)), r |-> n \div (k * k)]
SRoot(n) == Surd(QI(1), n)
SOfQ(q) == [q |-> q, r |-> 1]
SZero == SOfQ(QZero)
SMulQ(s, q) == Surd(QMul(s.q, q), s.r)
SIsQ(s) == s.r = 1
SSq(s) == QMul(QSq(s.q), QI(s.r))                       \* the square, a rational
SMulRoot(s, n) == Surd(s.q, s.r * n)                    \* s * sqrt(n)
SDivRoot(s, n) == Surd(QDiv(s.q, QI(n)), s.r * n)       \* s / sqrt(n)
\* s1 / s2 when that is rational (squarefree radicands: exactly when they are equal), else Irr
SDivQ(s1, s2) == IF s2.q[1] = 0 THEN Irr ELSE IF s1.q[1] = 0 THEN QZero ELSE IF s1.r = s2.r THEN QDiv(s1.q, s2.q) ELSE Irr

\* ---- angles as primitive integer directions <<x, y>> ~ (cos, sin); atan2(0, 0) = 0
Dir(x, y) == IF x = 0 /\ y = 0 THEN <<1, 0>> ELSE LET g == Gcd(Abs(x), Abs(y)) IN <<x \div g, y \div g>>
DirNeg(dv) == <<dv[1], 0 - dv[2]>>                      \* the negated angle
DirOpp(dv) == <<0 - dv[1], 0 - dv[2]>>                  \* the angle 180 degrees away
NoRot == <<1, 0>>

\* ================================================================================================ the linear WCS
Wcs(aCr, aM, aU, aCv, aCtype) == [cr |-> aCr, m |-> aM, u |-> aU, cv |-> aCv, ctype |-> aCtype]
Det(m) == m[1] * m[4] - m[2] * m[3]
CdSign(m) == IF Det(m) < 0 THEN 0 - 1 ELSE 1            \* cd_sign of set_position_from_wcs
RowX(m) == m[1] * m[1] + m[2] * m[2]                    \* scale_x^2 / u^2
RowY(m) == m[3] * m[3] + m[4] * m[4]                    \* scale_y^2 / u^2
\* rotation * scale * parity, exactly: | p 0 | | cos sin | ; this is what WWT's (rotation, scale, parity) can say
\*                                     | 0 1 | |-sin cos |
ExactForm(m) == m[1] = CdSign(m) * m[4] /\ m[3] = 0 - CdSign(m) * m[2]
\* _flip_wcs_parity(wcs, height): CD1_2, CD2_2 negated, CRPIX2 -> height + 1 - CRPIX2
FlipW(aW, hh) == [aW EXCEPT !.m = <<aW.m[1], 0 - aW.m[2], aW.m[3], 0 - aW.m[4]>>,
                            !.cr = <<aW.cr[1], QSub(QI(hh + 1), aW.cr[2])>>]
\* ensure_negative_parity: get_parity_sign() = +1 (bottoms-up) iff the determinant is negative
EnsureW(aW, hh) == IF Det(aW.m) < 0 THEN FlipW(aW, hh) ELSE aW
\* plane position (xi, eta), degrees, of the FITS pixel coordinate px = <<x, y>> (rationals)
PlaneOf(aW, px) == VScale(aW.u, MApply(aW.m, VSub(px, aW.cr)))

\* a linear map f * k with k a primitive integer matrix and f > 0 a surd: canonical, so equal maps are equal records
Lin(k, f) == LET g == Gcd(Gcd(Abs(k[1]), Abs(k[2])), Gcd(Abs(k[3]), Abs(k[4])))
             IN IF g = 0 THEN [k |-> k, f |-> SZero]
                ELSE [k |-> <<k[1] \div g, k[2] \div g, k[3] \div g, k[4] \div g>>, f |-> SMulQ(f, QI(g))]
\* an affine pixel -> plane map: the reference pixel and the linear part
Aff(aCr, aLin) == [cr |-> aCr, lin |-> aLin]
AffOfW(aW) == Aff(aW.cr, Lin(aW.m, SOfQ(aW.u)))
\* position of a pixel under an affine map, as (f, k . (px - cr)): equal records are equal positions
PosAff(af, px) == IF af.cr[1] = Irr \/ af.cr[2] = Irr THEN [f |-> af.lin.f, v |-> <<Irr, Irr>>]
                  ELSE [f |-> af.lin.f, v |-> MApply(af.lin.k, VSub(px, af.cr))]
PosW(aW, px) == PosAff(AffOfW(aW), px)

\* ================================================================================================ the description
\* the astrometric part of an ImageSet ...
FreshSet == [levels |-> 0, proj |-> "SkyImage", dst |-> "Sky", wf |-> 2, cv |-> <<QZero, QZero>>, rot |-> NoRot,
             bu |-> FALSE, base |-> SZero, offx |-> SZero, offy |-> SZero]
\* ... and of a Place: the centre is the plane position `cen` in the tangent plane at `cv`
FreshPlace == [dst |-> "Earth", cv |-> <<QZero, QZero>>, cen |-> <<QZero, QZero>>, rot |-> NoRot, zoom |-> SZero]

\* StudyTiling.apply_to_imageset (prepare_study_tiling / tile_base_as_study)
Prepared(ds, ww, hh) == LET t == ST!Tiling(ww, hh)
                        IN [ds EXCEPT !.levels = t.lev, !.proj = IF t.lev = 0 THEN "SkyImage" ELSE "Tan"]
\* toast_base
Toasted(ds, depth) == [ds EXCEPT !.dst = "Sky", !.base = SOfQ(QI(180)), !.proj = "Toast", !.levels = depth]

\* ---- set_position_from_wcs: the refusals, in the order of the code
TolN == 1
TolD == 20                                             \* TOL = 0.05
\* abs(scale_x - scale_y) / (scale_x + scale_y) > TOL, squared out
NonSquare(m) == LET hi == Max2(RowX(m), RowY(m))
                    lo == Min2(RowX(m), RowY(m))
                IN (TolD - TolN) * (TolD - TolN) * hi > (TolD + TolN) * (TolD + TolN) * lo
\* abs((cd1_1 - cd_sign * cd2_2) / det_scale) > TOL,  abs((cd2_1 + cd_sign * cd1_2) / det_scale) > TOL
Cd1Bad(m) == LET e == m[1] - CdSign(m) * m[4] IN TolD * TolD * e * e > TolN * TolN * Abs(Det(m))
Cd2Bad(m) == LET e == m[3] + CdSign(m) * m[2] IN TolD * TolD * e * e > TolN * TolN * Abs(Det(m))
\* the comparisons above are decided in floating point by the code: a case exactly on a threshold is not a case
OnThreshold(m) == \/ LET hi == Max2(RowX(m), RowY(m))  lo == Min2(RowX(m), RowY(m))
                     IN (TolD - TolN) * (TolD - TolN) * hi = (TolD + TolN) * (TolD + TolN) * lo /\ hi # lo
                  \/ LET e == m[1] - CdSign(m) * m[4] IN e # 0 /\ TolD * TolD * e * e = TolN * TolN * Abs(Det(m))
                  \/ LET e == m[3] + CdSign(m) * m[2] IN e # 0 /\ TolD * TolD * e * e = TolN * TolN * Abs(Det(m))
ErrOf(ds, aW) ==
    IF aW.ctype # "tan" THEN "ctype"                                                   \* ValueError
    ELSE IF Det(aW.m) < 0 /\ ds.levels > 0 /\ ds.proj # "Toast" THEN "parity"          \* Exception: tiled imagery must be top-down
    ELSE IF Det(aW.m) = 0 THEN "singular"                                              \* ValueError
    ELSE IF NonSquare(aW.m) THEN "nonsquare"
    ELSE IF Cd1Bad(aW.m) THEN "cd1"
    ELSE IF Cd2Bad(aW.m) THEN "cd2"
    ELSE "none"

\* ---- set_position_from_wcs: the assignments (reached only when nothing was refused)
\* rot_rad = atan2(-cd_sign * cd1_2, -cd2_2)
RotOf(m) == Dir(0 - m[4], 0 - CdSign(m) * m[2])
SetFields(ds, aW, ww, hh) ==
    LET m == aW.m
        common == [ds EXCEPT !.dst = "Sky", !.wf = 2, !.cv = aW.cv, !.rot = RotOf(m)]
        refx == QSub(aW.cr[1], QHalf)                  \* refpix_x = CRPIX1 - 0.5
        refy == QSub(aW.cr[2], QHalf)
    IN IF ds.proj = "Toast" THEN common
       ELSE IF ds.levels > 0
       THEN [common EXCEPT !.proj = "Tan", !.bu = FALSE,
                           !.base = SMulQ(SRoot(RowY(m)), QMul(aW.u, QI(TS * 2 ^ ds.levels))),
                           !.offx = SMulQ(SRoot(RowX(m)), QMul(aW.u, QSub(QI((ww + 1) \div 2), refx))),
                           !.offy = SMulQ(SRoot(RowY(m)), QMul(aW.u, QSub(refy, QI((hh + 1) \div 2))))]
       ELSE [common EXCEPT !.proj = "SkyImage", !.bu = (CdSign(m) = 0 - 1),
                           !.offx = SOfQ(refx), !.offy = SOfQ(QSub(QI(hh), refy)),
                           !.base = SMulQ(SRoot(RowY(m)), aW.u),
                           !.rot = IF CdSign(m) = 0 - 1 THEN DirNeg(RotOf(m)) ELSE RotOf(m)]
\* place.set_ra_dec(centre of the image), rotation 0, zoom = height * scale_y * 1.7 * 6
SetPlace(pl, aW, ww, hh) ==
    [pl EXCEPT !.dst = "Sky", !.cv = aW.cv, !.cen = PlaneOf(aW, <<Q(ww + 1, 2), Q(hh + 1, 2)>>), !.rot = NoRot,
               !.zoom = SMulQ(SRoot(RowY(aW.m)), QMul(aW.u, Q(51 * hh, 5)))]

\* default_tiled_study_astrometry (after _check_no_wcs_yet)
DefaultFields(ds) == [ds EXCEPT !.dst = "Sky", !.base = SOfQ(QI(1)), !.proj = "Tan"]
DefaultPlace(pl) == [pl EXCEPT !.zoom = SOfQ(QI(1))]
\* _check_no_wcs_yet
OrderError(ds) == ds.cv # <<QZero, QZero>>

\* ================================================================================================ the client's reading
\* ImageSet.wcs_headers_from_position(height): CRPIX = (offset_x + 0.5, height - offset_y + 0.5),
\* parity = -1 if bottoms_up else 1, c = -cos(parity * rot), s = -sin(parity * rot),
\* CD = base * << c * parity, s * parity, -s, c >>
DecodeSky(ds, hh) ==
    LET par == IF ds.bu THEN 0 - 1 ELSE 1
        x == ds.rot[1]
        y == par * ds.rot[2]
        k == <<(0 - x) * par, (0 - y) * par, y, 0 - x>>
    IN Aff(<<QAdd(ds.offx.q, QHalf), QAdd(QSub(QI(hh), ds.offy.q), QHalf)>>,
           Lin(k, SDivRoot(ds.base, x * x + y * y)))
\* TangentTile + StudyTiling: the pyramid of 2^levels x 2^levels tiles is a square of p2n pixels, S degrees each; the plane
\* position of pyramid pixel corner (pu, pv) (pu to the right, pv down) before rotation is
\*     right = pu * S - base / width_factor + offset_x,   up = base / 2 - pv * S + offset_y
\* image pixel corner (X, Y) (from the left / top edge) is pyramid pixel (g0x + X, g0y + Y); rotation as for an untiled top-down
\* image; FITS pixel coordinate = corner coordinate + 1/2
DecodeTan(ds, ww, hh) ==
    LET p2n == TS * 2 ^ ds.levels
        t == ST!Tiling(ww, hh)
        S == SMulQ(ds.base, Q(1, p2n))
        x == ds.rot[1]
        y == ds.rot[2]
        ox == SDivQ(ds.offx, S)                        \* the offsets in pyramid pixels
        oy == SDivQ(ds.offy, S)
        crx == IF ox = Irr THEN Irr ELSE QAdd(QSub(QSub(Q(p2n, ds.wf), ox), QI(t.x.g0)), QHalf)
        cry == IF oy = Irr THEN Irr ELSE QAdd(QSub(QAdd(Q(p2n, 2), oy), QI(t.y.g0)), QHalf)
    IN Aff(<<crx, cry>>, Lin(<<0 - x, 0 - y, y, 0 - x>>, SDivRoot(S, x * x + y * y)))
Decode(ds, ww, hh) == IF ds.proj = "SkyImage" THEN DecodeSky(ds, hh) ELSE DecodeTan(ds, ww, hh)

\* ================================================================================================ AVM
\* AVM.to_wcs(target_shape = (tw, th)) for an AVM with Spatial.ReferenceDimension (rw, rh), ReferencePixel rp and either
\* Scale + Rotation (CDELT = (-|s|, +|s|), CROTA) or a CD matrix; then _flip_wcs_parity(wcs, th)
AvmErr(av, tw, th) ==
    IF ~av.hasdim THEN "nodim"                                                         \* ValueError: ReferenceDimension should be set
    ELSE IF 200 * Abs(tw * av.rh - th * av.rw) >= tw * av.rh + th * av.rw THEN "aspect" \* ValueError: cannot scale consistently
    ELSE "none"
AvmOnThreshold(av, tw, th) == av.hasdim /\ 200 * Abs(tw * av.rh - th * av.rw) = tw * av.rh + th * av.rw
AvmK(av, tw) == Q(tw, av.rw)
AvmToWcs(av, tw, th) ==
    LET k == AvmK(av, tw)
    IN Wcs(<<QMul(av.cr[1], k), QMul(av.cr[2], k)>>,                                   \* wcs.wcs.crpix *= scale
           av.m,
           IF av.form = "scale" THEN QDiv(av.u, k) ELSE av.u,                          \* wcs.wcs.cdelt /= scale (ignored next to a CD matrix)
           av.cv, av.ctype)
AvmApplied(av, tw, th) == FlipW(AvmToWcs(av, tw, th), th)
\* the AVM's own statement (FITS-like: y counted from the bottom row of the rw x rh reference image)
AvmOwn(av) == Wcs(av.cr, av.m, av.u, av.cv, av.ctype)
\* what the description of the tw x th top-down image should be: the same picture, k times as many pixels
AvmTrue(av, tw, th) ==
    LET k == AvmK(av, tw)
    IN Wcs(<<QAdd(QMul(k, QSub(av.cr[1], QHalf)), QHalf), QSub(Q(2 * th + 1, 2), QMul(k, QSub(av.cr[2], QHalf)))>>,
           <<av.m[1], 0 - av.m[2], av.m[3], 0 - av.m[4]>>, QDiv(av.u, k), av.cv, av.ctype)

\* ================================================================================================ cases
\* kind "wcs"      Builder.apply_wcs_info(W, w, h) on a Builder prepared for a w x h study (pre "study") or toasted (pre "toast")
\*      "ens"      ImageDescription(wcs = W, shape = (h, w)).ensure_negative_parity(), then apply_wcs_info(desc.wcs, w, h)
\*      "avm"      Builder.apply_avm_info(AVM, w, h): cr = Spatial.ReferencePixel, (rw, rh) = ReferenceDimension
\*      "default"  Builder.default_tiled_study_astrometry()
Case(aKind, ww, hh, aPre, aM, aU, aCr, aCv, aCtype, aRw, aRh, aForm, aHasdim) ==
    [kind |-> aKind, w |-> ww, h |-> hh, pre |-> aPre, m |-> aM, u |-> aU, cr |-> aCr, cv |-> aCv, ctype |-> aCtype,
     rw |-> aRw, rh |-> aRh, form |-> aForm, hasdim |-> aHasdim]
GivenW(k) == Wcs(k.cr, k.m, k.u, k.cv, k.ctype)
PreSet(k) == IF k.pre = "toast" THEN Toasted(FreshSet, 1) ELSE Prepared(FreshSet, k.w, k.h)
\* the WCS that reaches set_position_from_wcs
Applied(k) == IF k.kind = "ens" THEN EnsureW(GivenW(k), k.h)
              ELSE IF k.kind = "avm" THEN AvmApplied(k, k.w, k.h)
              ELSE GivenW(k)
Err(k) == IF k.kind = "default" THEN "none"
          ELSE IF k.kind = "avm" /\ AvmErr(k, k.w, k.h) # "none" THEN AvmErr(k, k.w, k.h)
          ELSE ErrOf(PreSet(k), Applied(k))
Ok(k) == Err(k) = "none"
\* the description after the call (a refused call changes nothing)
SetOf(k) == IF ~Ok(k) THEN PreSet(k)
            ELSE IF k.kind = "default" THEN DefaultFields(PreSet(k))
            ELSE SetFields(PreSet(k), Applied(k), k.w, k.h)
PlaceOf(k) == IF ~Ok(k) THEN FreshPlace
              ELSE IF k.kind = "default" THEN DefaultPlace(FreshPlace)
              ELSE SetPlace(FreshPlace, Applied(k), k.w, k.h)
Decoded(k) == Decode(SetOf(k), k.w, k.h)
Described(k) == Ok(k) /\ k.kind # "default" /\ SetOf(k).proj # "Toast"
Tiled(k) == PreSet(k).levels > 0 /\ PreSet(k).proj # "Toast"

\* pixels that matter: the four outer corners of the image, the reference pixel, the centre (FITS coordinates)
Corners(ww, hh) == {<<QHalf, QHalf>>, <<Q(2 * ww + 1, 2), QHalf>>, <<QHalf, Q(2 * hh + 1, 2)>>, <<Q(2 * ww + 1, 2), Q(2 * hh + 1, 2)>>}
KeyPixels(k) == Corners(k.w, k.h) \cup {Applied(k).cr, <<Q(k.w + 1, 2), Q(k.h + 1, 2)>>}
MirrorY(px, hh) == <<px[1], QSub(QI(hh + 1), px[2])>>

\* ================================================================================================ the machine
\* the parity twin of a case (same picture on the sky, rows stored in the opposite order)
FlipCase(k) == LET f == FlipW(GivenW(k), k.h) IN [k EXCEPT !.m = f.m, !.cr = f.cr]
\* the same AVM applied to an image of its own reference dimension
AvmAtReference(k) == [k EXCEPT !.w = k.rw, !.h = k.rh]
\* everything the theorems and the harness need about a case, evaluated once (the LET definitions are evaluated at most once)
NoAff == Aff(<<Irr, Irr>>, Lin(<<0, 0, 0, 0>>, SZero))
Basic(k) ==
    LET ap == Applied(k)
        pr == PreSet(k)
        er == IF k.kind = "default" THEN "none"
              ELSE IF k.kind = "avm" /\ AvmErr(k, k.w, k.h) # "none" THEN AvmErr(k, k.w, k.h)
              ELSE ErrOf(pr, ap)
        good == er = "none"
        st == IF ~good THEN pr ELSE IF k.kind = "default" THEN DefaultFields(pr) ELSE SetFields(pr, ap, k.w, k.h)
        pl == IF ~good THEN FreshPlace ELSE IF k.kind = "default" THEN DefaultPlace(FreshPlace) ELSE SetPlace(FreshPlace, ap, k.w, k.h)
        hd == good /\ st.proj # "Toast"
    IN [app |-> ap, err |-> er, ok |-> good, pre |-> pr, set |-> st, place |-> pl, hasdec |-> hd,
        dec |-> IF hd THEN Decode(st, k.w, k.h) ELSE NoAff,
        described |-> good /\ k.kind # "default" /\ st.proj # "Toast", tiled |-> pr.levels > 0 /\ pr.proj # "Toast",
        exact |-> ExactForm(ap.m)]
\* a case and its parity twin (see theorem group 4)
NoTwin == [both |-> FALSE, opposite |-> FALSE, same |-> FALSE, mirror |-> FALSE]
TwinsOf(k, bk) ==
    IF k.kind # "wcs" \/ ~bk.described \/ bk.tiled THEN NoTwin
    ELSE LET bt == Basic(FlipCase(k)) IN
         [both |-> bt.described,
          opposite |-> bt.set.rot = DirOpp(bk.set.rot), same |-> bt.set.rot = bk.set.rot,
          mirror |-> \A px \in Corners(k.w, k.h) : PosAff(bt.dec, MirrorY(px, k.h)) = PosAff(bk.dec, px)]
Outcome(k) == LET bk == Basic(k) IN
              [app |-> bk.app, err |-> bk.err, ok |-> bk.ok, pre |-> bk.pre, set |-> bk.set, place |-> bk.place, hasdec |-> bk.hasdec,
               dec |-> bk.dec, described |-> bk.described, tiled |-> bk.tiled, exact |-> bk.exact, twin |-> TwinsOf(k, bk)]
vars == <<cs, out>>
Init == cs \in Cases /\ out = Outcome(cs)
FlipStep == cs.kind \in {"wcs", "ens"} /\ cs' = FlipCase(cs) /\ out' = Outcome(cs')
ReferenceStep == cs.kind = "avm" /\ cs.hasdim /\ cs' = AvmAtReference(cs) /\ out' = Outcome(cs')
Next == FlipStep \/ ReferenceStep
Spec == Init /\ [][Next]_vars

\* ================================================================================================ THEOREMS
\* the case space is well formed: no comparison of the code sits exactly on its threshold
KeyPix == Corners(cs.w, cs.h) \cup {out.app.cr, <<Q(cs.w + 1, 2), Q(cs.h + 1, 2)>>}
WellFormed == /\ ~OnThreshold(out.app.m)
              /\ (cs.kind = "avm" => ~AvmOnThreshold(cs, cs.w, cs.h))
              /\ cs.w >= 1 /\ cs.h >= 1 /\ cs.u[1] > 0
\* (0) the model's parity flip is property C16's
FlipIsParitys ==
    LET W == GivenW(cs)
        dbl == W.cr[1][2] \in {1, 2} /\ W.cr[2][2] \in {1, 2}            \* CRPIX in half pixels: Parity's representation
        p2 == <<(2 * W.cr[1][1]) \div W.cr[1][2], (2 * W.cr[2][1]) \div W.cr[2][2]>>
        f == PAR!FlipWcs(W.m, p2, cs.h)
    IN dbl => /\ FlipW(W, cs.h).m = f.cd
              /\ FlipW(W, cs.h).cr = <<Q(f.p[1], 2), Q(f.p[2], 2)>>
              /\ (PAR!Sign(W.m) = 1 <=> Det(W.m) < 0)

\* (1) ROUND TRIP: for every matrix that WWT can express, the description read back is the WCS that went in ...
RoundTripIdentity == (out.described /\ ExactForm(out.app.m)) => out.dec = AffOfW(out.app)
\* ... in particular every image corner, the reference pixel and the centre keep their sky position
CornersReproduced == (out.described /\ ExactForm(out.app.m)) =>
                         \A px \in KeyPix : PosAff(out.dec, px) = PosW(out.app, px)
\* the tiled description speaks about the pyramid toasty writes
LevelsMatchTiling == (out.ok /\ cs.pre = "study") =>
                         /\ out.set.levels = ST!Tiling(cs.w, cs.h).lev
                         /\ (cs.kind # "default" => (out.set.proj = "Tan" <=> out.set.levels > 0))
                         /\ (cs.kind # "default" => (out.set.proj = "SkyImage" <=> out.set.levels = 0))
\* width_factor = 2 is what makes the Tan square centred; data set type Sky
LegacyFields == (out.ok /\ cs.kind # "default") => out.set.wf = 2 /\ out.set.dst = "Sky" /\ out.set.cv = out.app.cv

\* (2) PARITY: bottoms-up input is refused exactly for tiled (Tan) data sets; untiled ones carry the flag
ParityRefusedIff == (cs.kind # "default" /\ (cs.kind = "avm" => AvmErr(cs, cs.w, cs.h) = "none") /\ out.app.ctype = "tan") =>
                        (out.err = "parity" <=> (out.tiled /\ Det(out.app.m) < 0))
BottomsUpIffNegDet == out.described =>
                          /\ (~out.tiled => (out.set.bu <=> Det(out.app.m) < 0))
                          /\ (out.tiled => (~out.set.bu /\ Det(out.app.m) > 0))
\* ensure_negative_parity flips exactly the bottoms-up WCS, after it nothing is refused for its parity, the picture is the same
EnsureNormalises ==
    cs.kind = "ens" =>
        LET W == GivenW(cs)  A == out.app IN
        /\ (A = W <=> Det(W.m) >= 0)
        /\ Det(A.m) >= 0
        /\ out.err # "parity"
        /\ (Det(W.m) < 0 => \A px \in KeyPix : PosW(A, px) = PosW(W, MirrorY(px, cs.h)))
\* the unconditional flip of apply_avm_info does what ensure_negative_parity would do for every AVM in Scale + Rotation form
AvmScaleFormIsBottomsUp == (cs.kind = "avm" /\ cs.form = "scale" /\ AvmErr(cs, cs.w, cs.h) = "none") =>
                               /\ Det(AvmToWcs(cs, cs.w, cs.h).m) < 0
                               /\ out.app = EnsureW(AvmToWcs(cs, cs.w, cs.h), cs.h)
                               /\ out.err # "parity"

\* (3) REFUSALS: everything WWT can express is accepted; what is accepted but not expressible is mis-described (as built:
\*     Approximated), within the 5 % thresholds; a refused call leaves the description alone (SetOf / PlaceOf)
ExpressibleAccepted == (cs.kind # "default" /\ out.app.ctype = "tan" /\ ExactForm(out.app.m) /\ Det(out.app.m) # 0
                        /\ (cs.kind = "avm" => AvmErr(cs, cs.w, cs.h) = "none") /\ ~(out.tiled /\ Det(out.app.m) < 0)) => out.ok
Approximated(k) == Described(k) /\ ~ExactForm(Applied(k).m)
MisdescribedIffNotExact == out.described => (out.dec.lin = AffOfW(out.app).lin <=> ExactForm(out.app.m))
AcceptedWithinFivePercent == out.described => LET m == out.app.m IN ~NonSquare(m) /\ ~Cd1Bad(m) /\ ~Cd2Bad(m) /\ Det(m) # 0
\* the description of an accepted matrix is always ONE scale (that of the rows of CD2_x), ONE angle, a parity
OneScaleOneAngle == out.described => /\ ExactForm(out.dec.lin.k)
                                     /\ SMulRoot(out.dec.lin.f, RowY(out.dec.lin.k)) = SMulRoot(SOfQ(out.app.u), RowY(out.app.m))
RefusedUnchanged == ~out.ok => out.set = out.pre /\ out.place = FreshPlace

\* (4) the rotation written is atan2(-CD1_2, -CD2_2) whatever the parity of an untiled image ...
UntiledRotationFormula == (out.described /\ ~out.tiled) => out.set.rot = Dir(0 - out.app.m[4], 0 - out.app.m[2])
\* ... so the two storage orders of one picture get rotations 180 degrees apart (as built: TwinRotationsDiffer), both read back correctly
TwinRotationsDiffer == out.twin.both => out.twin.opposite /\ (ExactForm(cs.m) => out.twin.mirror)
TwinStep == [][FlipStep => (out.twin.both => out'.set.rot = DirOpp(out.set.rot))]_vars

\* (5) PLACE: centred on the image (the mean of the four corners), in the tangent plane of the image; zoom from the height
PlaceCentred == (out.ok /\ cs.kind # "default") =>
                    /\ out.place.cv = out.app.cv /\ out.place.dst = "Sky"
                    /\ VScale(QI(4), out.place.cen) =
                         LET A == out.app IN VAdd(VAdd(PlaneOf(A, <<QHalf, QHalf>>), PlaneOf(A, <<Q(2 * cs.w + 1, 2), QHalf>>)),
                                                      VAdd(PlaneOf(A, <<QHalf, Q(2 * cs.h + 1, 2)>>), PlaneOf(A, <<Q(2 * cs.w + 1, 2), Q(2 * cs.h + 1, 2)>>)))
\* ... and the description read back puts the image centre there
PlaceOnDescribedCentre == (out.described /\ ExactForm(out.app.m)) =>
                              PosAff(out.dec, <<Q(cs.w + 1, 2), Q(cs.h + 1, 2)>>) = PosW(out.app, <<Q(cs.w + 1, 2), Q(cs.h + 1, 2)>>)
\* the zoom is 6 * 1.7 * (image height in pixels) * (the pixel scale the ImageSet records); the Place is not rotated
PlaceZoomFromHeight == (out.ok /\ cs.kind # "default") =>
                           /\ out.place.rot = NoRot
                           /\ out.place.zoom = SMulQ(out.set.base, IF out.tiled THEN Q(51 * cs.h, 5 * TS * 2 ^ out.set.levels)
                                                                       ELSE IF cs.pre = "toast" THEN QZero ELSE Q(51 * cs.h, 5))
                              \/ cs.pre = "toast"
\* the view (zoom / 6 degrees tall) holds the image's height on the sky (hh times the length of CD's second column) with the
\* factor 1.7 to spare, up to the 5 % of Approximated:  (17/10)^2 * RowY >= m12^2 + m22^2
ViewHoldsHeight == (out.ok /\ cs.kind # "default") =>
                       LET m == out.app.m IN 289 * RowY(m) >= 100 * (m[2] * m[2] + m[4] * m[4])

\* (6) AVM: applied to an image of the reference dimension the description is the AVM's statement about the flipped rows;
\*     rescaled (Scale + Rotation form) the linear part is right and every pixel is displaced by the same (k - 1) / 2 pixels
AvmOk(k) == k.kind = "avm" /\ AvmErr(k, k.w, k.h) = "none"
AvmExactAtReference == (AvmOk(cs) /\ cs.w = cs.rw /\ cs.h = cs.rh) => out.app = AvmTrue(cs, cs.w, cs.h)
AvmHalfPixel == (AvmOk(cs) /\ cs.form = "scale") =>
                    LET A == out.app  T == AvmTrue(cs, cs.w, cs.h)  k == AvmK(cs, cs.w) IN
                    /\ A.m = T.m /\ A.u = T.u
                    /\ VSub(A.cr, T.cr) = <<QMul(QHalf, QSub(k, QI(1))), QMul(QHalf, QSub(QI(1), k))>>
AvmCdMatrixNotRescaled == (AvmOk(cs) /\ cs.form = "cd") =>
                              LET A == out.app  T == AvmTrue(cs, cs.w, cs.h) IN A.m = T.m /\ A.u = QMul(AvmK(cs, cs.w), T.u)
AvmReferenceStep == [][ReferenceStep => (AvmOk(cs') => out'.app = AvmTrue(cs', cs'.w, cs'.h))]_vars
\* a corner of the reference image (fx, fy in {0, 1}; FITS coordinates of the AVM, y from the bottom) and the corner of the
\* target image that shows the same point of the picture
RefCorner(k, fx, fy) == <<Q(2 * fx * k.rw + 1, 2), Q(2 * fy * k.rh + 1, 2)>>
TargetCorner(k, fx, fy) == <<Q(2 * fx * k.w + 1, 2), Q(2 * (1 - fy) * k.h + 1, 2)>>

\* (7) default astrometry: one degree per padded square, unrotated, the image centre within half a pixel of the centre
DefaultIsCentred == cs.kind = "default" =>
                        LET dc == out.dec  t == ST!Tiling(cs.w, cs.h) IN
                        /\ dc.lin = Lin(<<0 - 1, 0, 0, 0 - 1>>, SOfQ(Q(1, t.p2)))
                        /\ dc.cr = <<Q(2 * ((cs.w + 1) \div 2) + 1, 2), Q(2 * ((cs.h + 1) \div 2) + 1, 2)>>
                        /\ out.set.cv = <<QZero, QZero>> /\ out.place.cen = <<QZero, QZero>>

\* (8) TOAST (as built: ToastKeepsGeometry): the projection, levels, scale and offsets stay; centre and rotation are overwritten;
\*     a bottoms-up WCS is not refused
ToastKeepsGeometry == (cs.kind = "wcs" /\ cs.pre = "toast" /\ out.ok) =>
                          LET s0 == out.pre  s1 == out.set IN
                          /\ s1.proj = "Toast" /\ s1.levels = s0.levels /\ s1.base = s0.base /\ s1.offx = s0.offx /\ s1.offy = s0.offy /\ s1.bu = s0.bu
                          /\ s1.cv = out.app.cv /\ s1.rot = RotOf(out.app.m)

\* ---------------------------------------------------------------------------------------------- statements the code does NOT keep
\* (TLC must refute each: negative controls; the counterexamples are reported)
AcceptedOnlyIfExpressible == out.described => ExactForm(out.app.m)
RotationIndependentOfStorageParity == out.twin.both => out.twin.same
AvmCornersKeepSky == AvmOk(cs) /\ out.ok /\ ExactForm(out.app.m) =>
                         \A fx \in {0, 1}, fy \in {0, 1} : PosAff(out.dec, TargetCorner(cs, fx, fy)) = PosW(AvmOwn(cs), RefCorner(cs, fx, fy))
AvmParityRespected == (AvmOk(cs) /\ Det(cs.m) > 0 /\ cs.ctype = "tan") => out.err # "parity"
\* the view is as wide as it is tall at least: the image's width on the sky fits too.  For an expressible matrix all scales are
\* equal and the statement is 6 * ww * scale <= zoom = 10.2 * hh * scale
ViewContainsImage == (out.ok /\ cs.kind # "default" /\ ExactForm(out.app.m)) => 10 * cs.w <= 17 * cs.h
PlaceFollowsImageRotation == out.described => out.place.rot = out.set.rot
DefaultViewShowsImage == cs.kind = "default" => QLe(Q(6 * cs.h, ST!Tiling(cs.w, cs.h).p2), out.place.zoom.q)
ToastUntouched == (cs.kind = "wcs" /\ cs.pre = "toast" /\ out.ok) => out.set = out.pre
\* the file a client fetches for an untiled study is the padded TS x TS tile with the image at (g0x, g0y): read with the
\* description, image pixel px sits where the description puts file pixel px + (g0x, g0y)
ServedFileMatches ==
    (out.described /\ cs.pre = "study" /\ ~out.tiled /\ ExactForm(out.app.m)) =>
        LET t == ST!Tiling(cs.w, cs.h) IN
        \A px \in Corners(cs.w, cs.h) :
            PosAff(DecodeSky(out.set, TS), VAdd(px, <<QI(t.x.g0), QI(t.y.g0)>>)) = PosW(out.app, px)
\* ... which holds exactly when nothing is padded on the left and nothing at the bottom: a 256 (or 255) x 256 image
\* (SkyImage offsets count from the left and from the BOTTOM edge of the file; StudyTiling centres, the odd pixel goes right / down)
ServedFileMatchesIffFullTile ==
    (out.described /\ cs.pre = "study" /\ ~out.tiled /\ out.exact) => (ServedFileMatches <=> (cs.h = TS /\ cs.w >= TS - 1))
=============================================================================
