--------------------------- MODULE StudyTiling ---------------------------
(* How a WWT "study" image is cut into square tiles (toasty/study.py:        *)
(* StudyTiling.__init__, compute_for_subimage, image_to_tile,                *)
(* count_populated_positions, generate_populated_positions, tile_image;      *)
(* toasty/pyramid.py: next_highest_power_of_2; toasty/image.py:              *)
(* fill_into_maskable_buffer, get_format_vertical_parity_sign).              *)
(*                                                                           *)
(* Everything is integer arithmetic parameterised by the tile size TS        *)
(* (256 in toasty).  The geometry separates per axis once the padded size    *)
(* P2 is known: an *axis* is [p2, g0, len] = padded size, global coordinate  *)
(* of image pixel 0, number of image pixels.  A full image has               *)
(* g0 = (p2 - len) \div 2; a sub-image keeps the parent's p2 and adds its    *)
(* offset to g0 (compute_for_subimage).  A *tiling* is two axes + the depth. *)
(*                                                                           *)
(* The operators (AxisSegs, Rects, Count, ImageToTile, RowIdx, TileFile)     *)
(* follow the code; the theorems below them are the sentences of property    *)
(* C08 and are what TLC checks (as invariants of the two small state         *)
(* machines at the end: SpecImage = 2-D, SpecAxis = one axis).               *)
EXTENDS Integers, Sequences, FiniteSets

CONSTANTS TS,        \* tile size in pixels (a power of two)
          MaxW, MaxH,\* SpecImage: image widths 1..MaxW, heights 1..MaxH, every sub-image of each
          MaxLen,    \* SpecAxis: axis lengths 1..MaxLen under every padded size that can occur with them
          SubMode    \* SpecAxis: "all" | "edges" | "none" - which sub-axes are explored (see SubLens below)

Max(a, b) == IF a >= b THEN a ELSE b
Min(a, b) == IF a <= b THEN a ELSE b

\* ---------------------------------------------------------------- padded size, depth, centring
\* next_highest_power_of_2: p = 256; while p < n: p *= 2
RECURSIVE Grow(_, _)
Grow(p, n) == IF p < n THEN Grow(2 * p, n) ELSE p
NextP2(n) == Grow(TS, n)
P2(w, h) == Max(NextP2(w), NextP2(h))
RECURSIVE Log2(_)
Log2(k) == IF k <= 1 THEN 0 ELSE 1 + Log2(k \div 2)
NTiles(p2) == p2 \div TS                     \* _tile_size
Levels(p2) == Log2(NTiles(p2))               \* _tile_levels
Centre(p2, len) == (p2 - len) \div 2         \* _img_gx0 / _img_gy0

\* ---------------------------------------------------------------- one axis
FullAxis(p2, len) == [p2 |-> p2, g0 |-> Centre(p2, len), len |-> len]
SubAxis(a, off, sublen) == [a EXCEPT !.g0 = @ + off, !.len = sublen]
FirstTile(a) == a.g0 \div TS                             \* tile_start_tx
LastTile(a) == (a.g0 + a.len - 1) \div TS                \* tile_end_tx (inclusive)
AxisCount(a) == LastTile(a) + 1 - FirstTile(a)
\* overlap of tile t with the image, in tile / image coordinates
Seg(a, t) == LET lo == Max(t * TS, a.g0)
                 hi == Min(t * TS + TS - 1, a.g0 + a.len - 1)
             IN [tile |-> t, toff |-> lo - t * TS, ioff |-> lo - a.g0, len |-> hi + 1 - lo]
AxisSegs(a) == [k \in 1..AxisCount(a) |-> Seg(a, FirstTile(a) + k - 1)]
\* image_to_tile along one axis: <<tile index, in-tile pixel>>
AxisSlot(a, x) == <<(a.g0 + x) \div TS, (a.g0 + x) % TS>>

\* ---------------------------------------------------------------- two axes
Tiling(w, h) == LET p == P2(w, h) IN [p2 |-> p, lev |-> Levels(p), x |-> FullAxis(p, w), y |-> FullAxis(p, h)]
SubTiling(t, ix, iy, sw, sh) == [t EXCEPT !.x = SubAxis(@, ix, sw), !.y = SubAxis(@, iy, sh)]
Count(t) == AxisCount(t.y) * AxisCount(t.x)              \* count_populated_positions
\* generate_populated_positions: tile rows outer, tile columns inner
Rects(t) == LET sx == AxisSegs(t.x)
                sy == AxisSegs(t.y)
                nx == Len(sx)
            IN [k \in 1..(nx * Len(sy)) |->
                   LET i == ((k - 1) % nx) + 1
                       j == ((k - 1) \div nx) + 1
                   IN [pos |-> <<t.lev, sx[i].tile, sy[j].tile>>, w |-> sx[i].len, h |-> sy[j].len,
                       ix |-> sx[i].ioff, iy |-> sy[j].ioff, tx |-> sx[i].toff, ty |-> sy[j].toff]]
ImageToTile(t, x, y) == <<AxisSlot(t.x, x)[1], AxisSlot(t.y, y)[1], AxisSlot(t.x, x)[2], AxisSlot(t.y, y)[2]>>

\* ---------------------------------------------------------------- tile files and parity
Parities == {"topdown", "bottomup"}          \* png / npy ... vs fits (get_format_vertical_parity_sign -1 / +1)
\* The parity is that of the format the TILES are stored in (the pyramid's default format, which is what
\* pio.write_image saves in) - not of whatever default format the input image object happens to carry.
\* where display row r of a tile (0 = top) is stored in the tile's file
FileRow(par, r) == IF par = "bottomup" THEN TS - 1 - r ELSE r
\* a Python slice over a buffer axis of TS entries, as the sequence of indexes it addresses
\* (only the forms tile_image builds: step +1 with 0 <= start <= stop <= TS; step -1 with stop = None or an integer)
Down(from, n) == [k \in 1..n |-> from - (k - 1)]       \* from, from-1, ... (n entries)
None == <<>>                                 \* a slice bound is None or <<integer>>
PySlice(start, stop, step) ==
    IF step = 1 THEN [k \in 1..(stop[1] - start) |-> start + k - 1]
    ELSE IF stop = None THEN Down(start, start + 1)
    ELSE LET s == IF stop[1] < 0 THEN stop[1] + TS ELSE stop[1]       \* a negative stop counts from the end
         IN Down(start, Max(start - s, 0))
\* by_idx of tile_image: the buffer rows that receive image rows iy, iy+1, ... of a rectangle
RowIdx(par, r) ==
    IF par = "bottomup"
    THEN LET y1 == TS - 1 - r.ty
             y0 == y1 - r.h
         IN PySlice(y1, IF y0 = -1 THEN None ELSE <<y0>>, -1)
    ELSE PySlice(r.ty, <<r.ty + r.h>>, 1)
\* the same slice without the `-1 -> None` special case (kept so that TLC can show the case is needed:
\* RowsOK fails for it whenever a bottom-up rectangle reaches display row TS-1, i.e. file row 0)
RowIdxNaive(par, r) ==
    IF par = "bottomup" THEN PySlice(TS - 1 - r.ty, <<TS - 1 - r.ty - r.h>>, -1) ELSE PySlice(r.ty, <<r.ty + r.h>>, 1)

Undef == <<-1, -1>>                          \* an undefined (transparent / NaN) pixel; image pixel (x, y) has value <<x, y>>
\* fill_into_maskable_buffer + write: the stored array of the tile of rectangle r at [file row fr, column cc];
\* rows = RowIdx(par, r)
TilePixel(r, rows, fr, cc) ==
    LET ks == {k \in 1..Len(rows) : rows[k] = fr}
    IN IF cc >= r.tx /\ cc < r.tx + r.w /\ ks # {}
       THEN LET k == CHOOSE kk \in ks : TRUE IN <<r.ix + cc - r.tx, r.iy + k - 1>>
       ELSE Undef
\* the deepest-level tiles put together in display orientation (a tile that was not written is undefined):
\* writer[tx, ty] = index of the last rectangle written to tile (tx, ty), 0 if none
Writers(t, rs) ==
    [tx \in 0..(NTiles(t.p2) - 1), ty \in 0..(NTiles(t.p2) - 1) |->
        LET ks == {k \in 1..Len(rs) : rs[k].pos = <<t.lev, tx, ty>>}
        IN IF ks = {} THEN 0 ELSE CHOOSE kk \in ks : \A k2 \in ks : kk >= k2]
MosaicPixel(rs, rows, writer, par, gx, gy) ==
    LET k == writer[gx \div TS, gy \div TS]
    IN IF k = 0 THEN Undef ELSE TilePixel(rs[k], rows[k], FileRow(par, gy % TS), gx % TS)

\* ================================================================ THEOREMS (property C08)
\* "the smallest power-of-two square of at least TS pixels that contains the image"
Squares == {TS * 2^k : k \in 0..12}
Fits(q, w, h) == q >= w /\ q >= h
P2Minimal(w, h) == /\ P2(w, h) \in Squares
                   /\ Fits(P2(w, h), w, h)
                   /\ \A q \in Squares : Fits(q, w, h) => q >= P2(w, h)
                   /\ 2^Levels(P2(w, h)) * TS = P2(w, h)
\* "centres the image in it (offsets rounded down)": left/top margin = floor of half the padding
Centred(p2, len) == LET lo == Centre(p2, len)
                        hi == p2 - len - lo
                    IN lo >= 0 /\ hi >= lo /\ hi - lo <= 1
\* per axis: the segments are disjoint, inside their tiles, cover [0, len), and their number is the closed form
SegsOK(a) ==
    LET s == AxisSegs(a) n == Len(s)
    IN /\ n = AxisCount(a) /\ n >= 1
       /\ s[1].ioff = 0
       /\ \A k \in 1..(n - 1) : s[k + 1].ioff = s[k].ioff + s[k].len /\ s[k + 1].tile = s[k].tile + 1
       /\ s[n].ioff + s[n].len = a.len
       /\ \A k \in 1..n : /\ s[k].len >= 1 /\ s[k].toff >= 0 /\ s[k].toff + s[k].len <= TS
                          /\ s[k].tile >= 0 /\ s[k].tile < NTiles(a.p2)
                          /\ s[k].tile * TS + s[k].toff = a.g0 + s[k].ioff
                          /\ (k > 1 => s[k].toff = 0) /\ (k < n => s[k].toff + s[k].len = TS)
\* per axis, pixel by pixel: every image pixel lies in exactly one segment, and the slot it gets there is
\* image_to_tile's slot, which is the pixel's global coordinate (hence distinct pixels get distinct slots)
PixelsOK(a) ==
    LET s == AxisSegs(a)
    IN \A x \in 0..(a.len - 1) :
          LET hits == {k \in 1..Len(s) : s[k].ioff <= x /\ x < s[k].ioff + s[k].len}
              sl == AxisSlot(a, x)
          IN /\ Cardinality(hits) = 1
             /\ \A k \in hits : <<s[k].tile, s[k].toff + (x - s[k].ioff)>> = sl
             /\ sl[2] >= 0 /\ sl[2] < TS /\ sl[1] * TS + sl[2] = a.g0 + x
\* a sub-image shares the parent's geometry: its pixel x is the parent's pixel off + x
SubAxisOK(parent, off, a) ==
    /\ a.p2 = parent.p2
    /\ \A x \in {0, a.len - 1} : AxisSlot(a, x) = AxisSlot(parent, off + x)
    /\ FirstTile(a) >= FirstTile(parent) /\ LastTile(a) <= LastTile(parent)
\* the reversed row slice of bottom-up formats addresses exactly the file rows of the rectangle's display rows
RowsOK(par, r) ==
    LET rows == RowIdx(par, r)
    IN Len(rows) = r.h /\ \A k \in 1..r.h : rows[k] = FileRow(par, r.ty + k - 1) /\ rows[k] \in 0..(TS - 1)
AxisRowsOK(a) == \A par \in Parities : \A k \in 1..AxisCount(a) :
                    LET sg == AxisSegs(a)[k] IN RowsOK(par, [ty |-> sg.toff, h |-> sg.len])

\* two axes: rectangles disjoint, inside their tiles, covering, as many as the reported count
RectPixels(r) == {<<r.ix + i, r.iy + j>> : i \in 0..(r.w - 1), j \in 0..(r.h - 1)}
RectSlots(r) == {<<r.pos, r.tx + i, r.ty + j>> : i \in 0..(r.w - 1), j \in 0..(r.h - 1)}
PartitionOK(t) ==
    LET rs == Rects(t) n == Len(rs)
    IN /\ n = Count(t)
       /\ \A k \in 1..n : /\ rs[k].w >= 1 /\ rs[k].h >= 1
                          /\ rs[k].tx >= 0 /\ rs[k].ty >= 0 /\ rs[k].tx + rs[k].w <= TS /\ rs[k].ty + rs[k].h <= TS
                          /\ rs[k].pos[1] = t.lev /\ rs[k].pos[2] \in 0..(2^t.lev - 1) /\ rs[k].pos[3] \in 0..(2^t.lev - 1)
       /\ \A k1, k2 \in 1..n : k1 # k2 => rs[k1].pos # rs[k2].pos /\ RectPixels(rs[k1]) \cap RectPixels(rs[k2]) = {}
       /\ UNION {RectPixels(rs[k]) : k \in 1..n} = (0..(t.x.len - 1)) \X (0..(t.y.len - 1))
       /\ Cardinality(UNION {RectSlots(rs[k]) : k \in 1..n}) = t.x.len * t.y.len
       /\ \A k \in 1..n : \A i \in {0, rs[k].w - 1}, j \in {0, rs[k].h - 1} :
             ImageToTile(t, rs[k].ix + i, rs[k].iy + j) = <<rs[k].pos[2], rs[k].pos[3], rs[k].tx + i, rs[k].ty + j>>
\* the same partition statement by interval arithmetic (no pixel sets, so it can be evaluated at TS = 256):
\* rectangles inside the image and their tiles, pairwise separated on one axis, areas adding up to the image
RECURSIVE SumRange(_, _, _)
SumRange(f, lo, hi) == IF lo > hi THEN 0 ELSE IF lo = hi THEN f[lo]
                       ELSE LET mid == (lo + hi) \div 2 IN SumRange(f, lo, mid) + SumRange(f, mid + 1, hi)
IntervalPartitionOK(t) ==
    LET rs == Rects(t) n == Len(rs)
    IN /\ n = Count(t)
       /\ \A k \in 1..n : /\ rs[k].w >= 1 /\ rs[k].h >= 1 /\ rs[k].ix >= 0 /\ rs[k].iy >= 0
                          /\ rs[k].ix + rs[k].w <= t.x.len /\ rs[k].iy + rs[k].h <= t.y.len
                          /\ rs[k].tx >= 0 /\ rs[k].ty >= 0 /\ rs[k].tx + rs[k].w <= TS /\ rs[k].ty + rs[k].h <= TS
                          /\ rs[k].pos[1] = t.lev /\ rs[k].pos[2] \in 0..(2^t.lev - 1) /\ rs[k].pos[3] \in 0..(2^t.lev - 1)
                          /\ rs[k].pos[2] * TS + rs[k].tx = t.x.g0 + rs[k].ix
                          /\ rs[k].pos[3] * TS + rs[k].ty = t.y.g0 + rs[k].iy
       /\ \A k1, k2 \in 1..n : k1 < k2 =>
             /\ rs[k1].pos # rs[k2].pos
             /\ \/ rs[k1].ix + rs[k1].w <= rs[k2].ix \/ rs[k2].ix + rs[k2].w <= rs[k1].ix
                \/ rs[k1].iy + rs[k1].h <= rs[k2].iy \/ rs[k2].iy + rs[k2].h <= rs[k1].iy
       /\ SumRange([k \in 1..n |-> rs[k].w * rs[k].h], 1, n) = t.x.len * t.y.len
\* reassembly in display orientation: inside = the image, outside undefined, whatever the parity of the format
RoundTripOK(t) ==
    \A par \in Parities :
       LET rs == Rects(t)
           rows == [k \in 1..Len(rs) |-> RowIdx(par, rs[k])]
           writer == Writers(t, rs)
       IN \A gx \in 0..(t.p2 - 1), gy \in 0..(t.p2 - 1) :
             MosaicPixel(rs, rows, writer, par, gx, gy) = IF gx >= t.x.g0 /\ gx < t.x.g0 + t.x.len /\ gy >= t.y.g0 /\ gy < t.y.g0 + t.y.len
                         THEN <<gx - t.x.g0, gy - t.y.g0>> ELSE Undef
SubTilingOK(parent, off, t) ==
    /\ t.p2 = parent.p2 /\ t.lev = parent.lev
    /\ SubAxisOK(parent.x, off[1], t.x) /\ SubAxisOK(parent.y, off[2], t.y)

\* ---------------------------------------------------------------- directory histories
\* A pyramid directory as a reader sees it: dir[<<tx, ty>>] = the stored array of that deepest-level tile, indexed
\* [file row, column]; a tile without a file reads as all-undefined.  An image is (id, U): pixel (x, y) has the
\* value <<id, x, y>> unless <<x, y>> \in U (undefined: NaN / alpha 0).  tile_image fills a buffer per populated tile
\* and hands it to write_image, which stores it - or, if every pixel of it is undefined, stores nothing and removes
\* the file already there - so afterwards the position reads as exactly that buffer.  Tiles the tiling does not
\* populate are left alone.
Val(id, U, p) == IF p = Undef \/ p \in U THEN Undef ELSE <<id, p[1], p[2]>>
TileIdx == (0..(TS - 1)) \X (0..(TS - 1))
EmptyTile == [q \in TileIdx |-> Undef]
EmptyDir(t) == [pos \in (0..(NTiles(t.p2) - 1)) \X (0..(NTiles(t.p2) - 1)) |-> EmptyTile]
Buffer(par, r, id, U) == LET rows == RowIdx(par, r) IN [q \in TileIdx |-> Val(id, U, TilePixel(r, rows, q[1], q[2]))]
AllUndef(buf) == \A q \in TileIdx : buf[q] = Undef
TileInto(dir, t, par, id, U) ==
    LET rs == Rects(t) writer == Writers(t, rs)
    IN [pos \in DOMAIN dir |-> IF writer[pos[1], pos[2]] = 0 THEN dir[pos] ELSE Buffer(par, rs[writer[pos[1], pos[2]]], id, U)]
\* the same without the removal of an earlier file when the new tile is all-undefined (kept so that TLC can show the
\* removal is needed: DirShows fails for it as soon as a later image is undefined over a tile an earlier one populated)
TileIntoKeepingStale(dir, t, par, id, U) ==
    LET rs == Rects(t) writer == Writers(t, rs)
    IN [pos \in DOMAIN dir |->
          IF writer[pos[1], pos[2]] = 0 THEN dir[pos]
          ELSE LET b == Buffer(par, rs[writer[pos[1], pos[2]]], id, U) IN IF AllUndef(b) THEN dir[pos] ELSE b]
\* "reassembling the deepest-level tiles in display orientation reproduces the image, everything else undefined"
DirShows(dir, t, par, id, U) ==
    \A gx \in 0..(t.p2 - 1), gy \in 0..(t.p2 - 1) :
       dir[<<gx \div TS, gy \div TS>>][<<FileRow(par, gy % TS), gx % TS>>] =
          IF gx >= t.x.g0 /\ gx < t.x.g0 + t.x.len /\ gy >= t.y.g0 /\ gy < t.y.g0 + t.y.len
          THEN Val(id, U, <<gx - t.x.g0, gy - t.y.g0>>) ELSE Undef
\* undefined regions worth trying for a tiling: nothing, everything, the image part of each populated tile,
\* the left half of the image, one pixel
Regions(t) ==
    LET rs == Rects(t) IN
    {{}, (0..(t.x.len - 1)) \X (0..(t.y.len - 1)), (0..((t.x.len \div 2) - 1)) \X (0..(t.y.len - 1)), {<<0, 0>>}}
    \cup {RectPixels(rs[k]) : k \in 1..Len(rs)}
\* THEOREM: images of one layout tiled one after the other into ONE directory - after every tiling the directory shows
\* the image tiled last, for either parity.  Stated inductively: whatever an earlier tiling of the same layout left
\* behind (nothing; a fully populated pyramid; one with holes), tiling image 2 makes the directory show image 2.
Before(t, par) ==
    LET full == TileInto(EmptyDir(t), t, par, 1, {})
    IN {EmptyDir(t), full, TileInto(full, t, par, 3, (0..((t.x.len \div 2) - 1)) \X (0..(t.y.len - 1)))}
RetileOK(t) ==
    \A par \in Parities : \A d \in Before(t, par) : \A U \in Regions(t) : DirShows(TileInto(d, t, par, 2, U), t, par, 2, U)
RetileKeepingStaleOK(t) ==
    \A par \in Parities : \A d \in Before(t, par) : \A U \in Regions(t) : DirShows(TileIntoKeepingStale(d, t, par, 2, U), t, par, 2, U)

\* ---------------------------------------------------------------- object histories over image modes
\* One tiling object may tile several images of its size, of any modes, one after the other.  tile_image makes the tile
\* buffer from the mode of the image it is handed, so a stored pixel has that image's mode and value.  Abstract modes:
\* a value set per mode; storing a value in a buffer of another mode keeps it only if that mode can represent it.
ModeRange == [U8 |-> 0..3, I16 |-> -4..3, I32 |-> -16..15, F32 |-> {-16, -8, -4, -2, 0, 2, 4, 8, 16}, F64 |-> -16..16]
ModeNames == DOMAIN ModeRange
Stored(bufmode, v) == IF v \in ModeRange[bufmode] THEN <<bufmode, v>> ELSE <<bufmode, 9999>>      \* 9999: value changed
BufferModeOf(history, mode) == mode                     \* as the code: from the image of THIS call
StickyBufferModeOf(history, mode) == IF history = <<>> THEN mode ELSE history[1]     \* refuted variant: first call's buffer kept
ModeHistoriesOK(BufMode(_, _)) ==
    \A m1 \in ModeNames, m2 \in ModeNames, m3 \in ModeNames :
       LET hist == <<m1, m2, m3>>
       IN \A i \in 1..3 : \A v \in ModeRange[hist[i]] : Stored(BufMode(SubSeq(hist, 1, i - 1), hist[i]), v) = <<hist[i], v>>

\* ---------------------------------------------------------------- object histories over the IMAGE object
\* The image handed to tile_image is the caller's: tile_image only reads it, so one Image object can be tiled again and
\* again - into pyramids of either parity, in any order - and every tiling sees the same rows.  The refuted variant
\* flips the source in place for bottom-up tiles and never flips it back.
SourceAfter(par, rows) == rows
SourceAfterFlipVariant(par, rows) == IF par = "bottomup" THEN [i \in 1..Len(rows) |-> rows[Len(rows) + 1 - i]] ELSE rows
ImageHistoriesOK(After(_, _)) ==
    \A p1 \in Parities, p2 \in Parities, p3 \in Parities :
       LET r0 == <<1, 2, 3>> r1 == After(p1, r0) r2 == After(p2, r1) r3 == After(p3, r2)
       IN r1 = r0 /\ r2 = r0 /\ r3 = r0

\* ---------------------------------------------------------------- sizes beyond TLC's 32-bit integers
\* Image sizes of the form 2^k + d (d small) are handled symbolically: a number is kept as
\*    [t |-> sequence of <<sign, exponent>> with exponent >= 8,  b |-> small integer]  =  SUM sign * 2^exponent + b
\* so that every term is a multiple of TS = 256 and div / mod by TS act on b alone.  SymAgrees (below) makes TLC check
\* that the symbolic geometry equals the concrete operators wherever the concrete ones fit into 32 bits; the tables
\* for larger exponents are produced by the same operators.  (These operators assume TS = 256 = 2^8.)
SInt(n) == [t |-> <<>>, b |-> n]
SPow(x) == IF x >= 8 THEN [t |-> <<<<1, x>>>>, b |-> 0] ELSE SInt(2^x)
SNeg(a) == [t |-> [i \in DOMAIN a.t |-> <<0 - a.t[i][1], a.t[i][2]>>], b |-> 0 - a.b]
SAdd(a, b) == [t |-> a.t \o b.t, b |-> a.b + b.b]
RECURSIVE SFold(_, _, _)
\* shift every term down by `sh` bits; terms that drop below 2^8 are folded into the small part `acc`
SFold(ts, sh, acc) ==
    IF ts = <<>> THEN [t |-> <<>>, b |-> acc]
    ELSE LET hd == Head(ts) x == hd[2] - sh rest == SFold(Tail(ts), sh, acc)
         IN IF x >= 8 THEN [t |-> <<<<hd[1], x>>>> \o rest.t, b |-> rest.b]
            ELSE [t |-> rest.t, b |-> rest.b + hd[1] * 2^x]
SHalf(a) == SFold(a.t, 1, a.b \div 2)                    \* floor(a / 2); every term is even
SDivTS(a) == SFold(a.t, 8, a.b \div TS)                  \* floor(a / 256)
SModTS(a) == a.b % TS                                    \* a mod 256
RECURSIVE SEvalT(_)
SEvalT(ts) == IF ts = <<>> THEN 0 ELSE Head(ts)[1] * 2^(Head(ts)[2]) + SEvalT(Tail(ts))
SEval(a) == SEvalT(a.t) + a.b                            \* only where it fits
SSmall(a) == a.t = <<>>
\* a size is <<k, d>> = 2^k + d
SizeSym(sz) == SAdd(SPow(sz[1]), SInt(sz[2]))
SizeExp(sz) == IF sz[1] < 8 \/ (sz[1] = 8 /\ sz[2] <= 0) THEN 8 ELSE IF sz[2] > 0 THEN sz[1] + 1 ELSE sz[1]    \* log2 NextP2
SymP2Exp(w, h) == Max(SizeExp(w), SizeExp(h))
\* everything about one axis of length sz inside a square of 2^e pixels
SymAxis(e, sz) ==
    LET n == SizeSym(sz)
        g0 == SHalf(SAdd(SPow(e), SNeg(n)))
        toff == SModTS(g0)
        first == SDivTS(g0)
        cnt == SAdd(SDivTS(SAdd(n, SInt(toff - 1))), SInt(1))
        last == SAdd(first, SAdd(cnt, SInt(-1)))
        lenlast == SModTS(SAdd(n, SInt(toff - 1))) + 1
        one == SSmall(cnt) /\ cnt.b = 1
        lenfirst == IF one THEN n ELSE SInt(TS - toff)
        \* segments <<tile, in-tile offset, image offset, length>> of the first up-to-three tiles and of the last one
        mid(j) == <<SAdd(first, SInt(j)), SInt(0), SInt(j * TS - toff), SInt(TS)>>
        isLast(j) == SSmall(cnt) /\ cnt.b = j + 1
        exists(j) == ~SSmall(cnt) \/ cnt.b > j
        tail == IF one THEN <<first, SInt(toff), SInt(0), n>> ELSE <<last, SInt(0), SAdd(n, SInt(0 - lenlast)), SInt(lenlast)>>
        seg(j) == IF j = 0 THEN <<first, SInt(toff), SInt(0), lenfirst>> ELSE IF isLast(j) THEN tail ELSE mid(j)
        head == IF exists(2) THEN <<seg(0), seg(1), seg(2)>> ELSE IF exists(1) THEN <<seg(0), seg(1)>> ELSE <<seg(0)>>
    IN [n |-> n, g0 |-> g0, first |-> first, cnt |-> cnt, last |-> last, head |-> head, tail |-> tail,
        slot0 |-> <<first, toff>>, slotN |-> <<last, IF one THEN toff + SEval(n) - 1 ELSE lenlast - 1>>]
SymTiling(w, h) == LET e == SymP2Exp(w, h) IN [e |-> e, lev |-> e - 8, x |-> SymAxis(e, w), y |-> SymAxis(e, h)]
\* THEOREM (checked by TLC for every pair of sizes 2^k + d that fits): the symbolic geometry is the concrete one
SEvalSeg(sg) == [tile |-> SEval(sg[1]), toff |-> SEval(sg[2]), ioff |-> SEval(sg[3]), len |-> SEval(sg[4])]
SymAxisAgrees(sa, a) ==
    /\ SEval(sa.n) = a.len /\ SEval(sa.g0) = a.g0 /\ SEval(sa.first) = FirstTile(a) /\ SEval(sa.last) = LastTile(a)
    /\ SEval(sa.cnt) = AxisCount(a)
    /\ Len(sa.head) = Min(3, AxisCount(a))
    /\ \A j \in 1..Len(sa.head) : SEvalSeg(sa.head[j]) = Seg(a, FirstTile(a) + j - 1)
    /\ SEvalSeg(sa.tail) = Seg(a, LastTile(a))
    /\ <<SEval(sa.slot0[1]), sa.slot0[2]>> = AxisSlot(a, 0)
    /\ <<SEval(sa.slotN[1]), sa.slotN[2]>> = AxisSlot(a, a.len - 1)
SymAgrees(w, h) ==
    LET st == SymTiling(w, h)
        t == Tiling(2^w[1] + w[2], 2^h[1] + h[2])
    IN /\ 2^st.e = t.p2 /\ st.lev = t.lev
       /\ SymAxisAgrees(st.x, t.x) /\ SymAxisAgrees(st.y, t.y)

\* ---------------------------------------------------------------- pixel values at the edge of a type's meaning
\* "Reproduces the image exactly, with every pixel outside the image undefined (transparent or NaN)": which pixels are
\* undefined is a matter of ONE value per kind of image - NaN in floating-point images, alpha 0 in RGBA images, and (the
\* library's convention) 0 in integer images.  Every other value is a defined pixel however unusual it is: the
\* infinities, the signed zeros, subnormal numbers, the largest finite numbers, the largest integer, black, white,
\* alpha 1.  A lossless tile format stores a pixel of any class as itself; in particular a tile whose image part holds
\* nothing but one of the defined classes is a tile WITH data (it is written, and reads back as that class).
ValueKinds == {"F", "I", "RGB", "RGBA"}
ValueClasses == [F    |-> {"nan", "neginf", "negmax", "negsub", "negzero", "zero", "possub", "posmin", "posmax", "posinf", "ordinary"},
                 I    |-> {"zero", "one", "max", "ordinary"},
                 RGB  |-> {"black", "white", "ordinary"},
                 RGBA |-> {"transparent", "blackfaint", "whitefaint", "blackopaque", "whiteopaque", "ordinary"}]
UndefClass == [F |-> "nan", I |-> "zero", RGB |-> "none", RGBA |-> "transparent"]
DefinedValue(kind, cls) == cls # UndefClass[kind]
StoreAsIs(kind, cls) == cls                               \* as the code: np.save / fits.writeto / PIL.save of the buffer
\* refuted variants (kept so that TLC shows ValuesOK separates them): a writer that blanks everything non-finite, and one
\* that flushes subnormals and the negative zero to zero
StoreBlankingNonFinite(kind, cls) == IF kind = "F" /\ cls \in {"neginf", "posinf"} THEN "nan" ELSE cls
StoreFlushingToZero(kind, cls) == IF kind = "F" /\ cls \in {"negsub", "possub"} THEN "zero" ELSE cls
ValuesOK(Store(_, _)) ==
    \A kind \in ValueKinds : \A cls \in ValueClasses[kind] :
       /\ Store(kind, cls) = cls
       /\ DefinedValue(kind, Store(kind, cls)) = DefinedValue(kind, cls)
\* a tile whose image part is rectangle r, every image pixel of class cls: stored (a file exists) iff the class is defined
TileOfClassStored(kind, cls) == DefinedValue(kind, cls)
\* what the harness is handed: per kind the classes, and whether a pixel of the class is defined
EdgeValueTable == [kind \in ValueKinds |-> [cls \in ValueClasses[kind] |-> DefinedValue(kind, cls)]]

\* ---------------------------------------------------------------- how the caller's integers are represented
\* Offsets, sizes and pixel indexes are integers; the caller may hand them over as Python integers or as NumPy integers
\* of any width (a uint8 / int16 scalar, a uint16 index array).  The geometry is a function of their VALUES.  The
\* refuted variant does the addition g0 + x in the caller's representation, where it wraps around.
IntReprs == [i8 |-> <<-128, 256>>, u8 |-> <<0, 256>>, i16 |-> <<-32768, 65536>>, u16 |-> <<0, 65536>>]     \* <<lowest, modulus>>
ReprHolds(rep, v) == v >= IntReprs[rep][1] /\ v < IntReprs[rep][1] + IntReprs[rep][2]
WrapIn(rep, v) == LET lo == IntReprs[rep][1] m == IntReprs[rep][2] IN ((v - lo) % m) + lo
AxisSlotWrapping(rep, a, x) == LET g == WrapIn(rep, a.g0 + x) IN <<g \div TS, g % TS>>
SubAxisWrapping(rep, a, off, sublen) == [a EXCEPT !.g0 = WrapIn(rep, @ + off), !.len = sublen]
\* "every image pixel gets its slot / a sub-image shares the parent's geometry" for every representation that holds the
\* caller's values: true of AxisSlot / SubAxis (which do not look at the representation) ...
ReprSlotsOK(Slot(_, _, _), a, xs) ==
    \A rep \in DOMAIN IntReprs : \A x \in xs : ReprHolds(rep, x) => Slot(rep, a, x) = AxisSlot(a, x)
ReprSubOK(Sub(_, _, _, _), a, off, sublen) ==
    \A rep \in DOMAIN IntReprs : (ReprHolds(rep, off) /\ ReprHolds(rep, sublen)) => Sub(rep, a, off, sublen) = SubAxis(a, off, sublen)
AxisSlotAnyRepr(rep, a, x) == AxisSlot(a, x)
SubAxisAnyRepr(rep, a, off, sublen) == SubAxis(a, off, sublen)

\* ================================================================ state machines (give TLC the bounded space)
\* A behaviour picks a size ("pick", nothing computed yet), builds the tiling of the full image ("full",
\* StudyTiling.__init__), derives any sub-image tiling of it ("sub", compute_for_subimage), returns to the
\* parent, derives another one, and so on.
VARIABLE c
Built == c.kind # "pick"
\* ---- 2-D: every image of MaxW x MaxH, then every sub-image of it
InitImage == \E w \in 1..MaxW, h \in 1..MaxH : c = [kind |-> "pick", w |-> w, h |-> h]
NewImage == /\ c.kind = "pick"
            /\ c' = [kind |-> "full", t |-> Tiling(c.w, c.h), parent |-> Tiling(c.w, c.h), off |-> <<0, 0>>]
SubImage == /\ c.kind = "full"
            /\ \E sw \in 1..c.t.x.len, sh \in 1..c.t.y.len :
                 \E ix \in 0..(c.t.x.len - sw), iy \in 0..(c.t.y.len - sh) :
                    c' = [kind |-> "sub", t |-> SubTiling(c.t, ix, iy, sw, sh), parent |-> c.t, off |-> <<ix, iy>>]
\* the caller goes back to the parent tiling object and may derive another sub-image from it: a tiling's count,
\* rectangles and slots are functions of its own geometry alone, whatever was asked of the parent (or of other
\* sub-tilings) before - so the invariants below constrain every history full -> sub -> full -> sub ...
BackToImage == /\ c.kind = "sub"
               /\ c' = [kind |-> "full", t |-> c.parent, parent |-> c.parent, off |-> <<0, 0>>]
\* Before it is used a tiling object may be transported: pickled and unpickled, copy.copy'd, copy.deepcopy'd, sent to
\* a worker process through a queue, inherited across a fork.  A transport yields a tiling of the SAME geometry - in
\* this state machine it is the step that leaves c unchanged - so every invariant holds for the transported object,
\* of whatever kind (top-level, sub-image).  RebuiltFromSize is the refuted variant "a tiling is determined by its
\* image size": true for top-level tilings, false for sub-image tilings (TransportByRebuildOK below).
Transport == Built /\ c' = c
RebuiltFromSize(t) == Tiling(t.x.len, t.y.len)
TransportByRebuildOK(t) == RebuiltFromSize(t) = t
SpecImage == InitImage /\ [][NewImage \/ SubImage \/ BackToImage \/ Transport]_c
ImgMinimal == c.kind = "full" => P2Minimal(c.t.x.len, c.t.y.len)
ImgCentred == c.kind = "full" => /\ Centred(c.t.p2, c.t.x.len) /\ Centred(c.t.p2, c.t.y.len)
                                 /\ c.t.x.g0 = Centre(c.t.p2, c.t.x.len) /\ c.t.y.g0 = Centre(c.t.p2, c.t.y.len)
ImgAxes == Built => SegsOK(c.t.x) /\ SegsOK(c.t.y) /\ PixelsOK(c.t.x) /\ PixelsOK(c.t.y) /\ AxisRowsOK(c.t.y)
ImgPartition == Built => PartitionOK(c.t) /\ IntervalPartitionOK(c.t)
ImgRoundTrip == Built => RoundTripOK(c.t)
ImgSub == c.kind = "sub" => SubTilingOK(c.parent, c.off, c.t)

\* ---- one axis: every length 1..MaxLen under every padded size that a partner length <= MaxLen can force;
\*      sub-axes (SubMode "all": every one; "edges": those starting/ending at an image end or next to a tile
\*      boundary) of the full axes whose length is in SubLens
CONSTANT SubLens
AxisP2s(len) == {q \in Squares : q >= NextP2(len) /\ q <= NextP2(MaxLen)}
Edges(a) == {x \in 0..a.len : x \in {0, 1, a.len - 1, a.len} \/ (a.g0 + x) % TS \in {0, 1, TS - 1}}
InitAxis == \E len \in 1..MaxLen : c = [kind |-> "pick", len |-> len]
NewAxis == /\ c.kind = "pick"
           /\ \E q \in AxisP2s(c.len) : c' = [kind |-> "full", a |-> FullAxis(q, c.len), parent |-> FullAxis(q, c.len), off |-> 0]
SubAx == /\ c.kind = "full" /\ SubMode # "none" /\ c.a.len \in SubLens
         /\ \E lo \in (IF SubMode = "all" THEN 0..(c.a.len - 1) ELSE Edges(c.a)) :
              \E hi \in (IF SubMode = "all" THEN 1..c.a.len ELSE Edges(c.a)) :
                 /\ lo < hi
                 /\ c' = [kind |-> "sub", a |-> SubAxis(c.a, lo, hi - lo), parent |-> c.a, off |-> lo]
BackToAxis == /\ c.kind = "sub"
              /\ c' = [kind |-> "full", a |-> c.parent, parent |-> c.parent, off |-> 0]
SpecAxis == InitAxis /\ [][NewAxis \/ SubAx \/ BackToAxis]_c
AxMinimal == c.kind = "full" => /\ P2Minimal(c.a.len, c.a.len) /\ P2(c.a.len, c.a.len) = NextP2(c.a.len)
                                /\ \A q \in AxisP2s(c.a.len) : P2(c.a.len, q) = q /\ P2(q, c.a.len) = q
AxCentred == c.kind = "full" => Centred(c.a.p2, c.a.len) /\ c.a.g0 = Centre(c.a.p2, c.a.len)
AxSegs == Built => SegsOK(c.a)
AxPixels == Built => PixelsOK(c.a)
AxRows == Built => AxisRowsOK(c.a)
AxSub == c.kind = "sub" => SubAxisOK(c.parent, c.off, c.a)
=============================================================================
