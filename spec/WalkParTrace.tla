---------------------------- MODULE WalkParTrace ----------------------------
(* Trace validation (code -> spec) for the parallel walk: a run of the REAL _walk_parallel with real processes *)
(* records only what is observable from outside - the callback starts and completions, in ticket order, with  *)
(* the worker that ran them.  Every other WalkPar action is silent.  The recorded trace is a behaviour of the  *)
(* specification iff some interleaving of silent actions explains it and ends with the dispatcher returned.   *)
(* TLC searches for that interleaving: `Explained` being reachable is reported as a violated invariant        *)
(* NotExplained (so an *unviolated* NotExplained means the trace was rejected).                               *)
EXTENDS WalkPar
CONSTANTS Trace          \* sequence of <<kind, pos, worker>>, kind \in {"s", "e"}
VARIABLE l
tvars == <<vars, l>>

TInit == Init /\ l = 1
IsEv(kind, w) == l <= Len(Trace) /\ Trace[l][1] = kind /\ Trace[l][3] = w /\ Trace[l][2] = witem[w]
Silent == /\ \/ FlushReady \/ DGet \/ DTimeout \/ DClose \/ DJoinThread \/ DSetEv \/ DJoinW
             \/ \E w \in Workers : WAcquire(w) \/ WLockTimeout(w) \/ WRecv(w) \/ WPollTimeout(w) \/ WCheckDone(w) \/ WPut(w) \/ FlushDone(w)
          /\ UNCHANGED l
Logged == \E w \in Workers : \/ (IsEv("s", w) /\ WCbStart(w) /\ l' = l + 1)
                             \/ (IsEv("e", w) /\ WCbEnd(w) /\ l' = l + 1)
TNext == Silent \/ Logged
TSpec == TInit /\ [][TNext]_tvars
Explained == l = Len(Trace) + 1 /\ dpc = "returned"
NotExplained == ~Explained
\* the safety properties keep being evaluated along every candidate explanation
=============================================================================
