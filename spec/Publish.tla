------------------------------ MODULE Publish ------------------------------
(* Crash-safety of publishing an approved image (property C18).                *)
(*                                                                             *)
(* Transcribes toasty/pipeline/__init__.py  PipelineManager.publish():         *)
(*     for uniq_id in os.listdir(approved):              -- Start / NextImage  *)
(*         filenames = os.listdir(approved/uniq_id)      -- NextImage (listing)*)
(*         <swap index.wtml with the last slot>          -- Reorder            *)
(*         for filename in filenames:                                          *)
(*             pipeio.put_item(uniq_id, filename, f)     -- BeginPut / EndPut  *)
(*         os.rename(approved/uniq_id, published/uniq_id)-- Rename             *)
(*                                                       -- Finish             *)
(* and the destination store toasty/pipeline/local_io.py LocalPipelineIo:      *)
(*   put_item   Atomic = FALSE: open(path, 'wb') truncates the item first and  *)
(*              then copies (what the code does);  Atomic = TRUE: the item is  *)
(*              replaced in one step when the copy is complete (temp+replace). *)
(*   check_exists(id, "index.wtml") = IndexInStore(id): what `pipeline refresh`*)
(*              (cli.py refresh_impl) uses to skip a candidate as already done.*)
(*                                                                             *)
(* FILE SETS WITH SUB-FOLDERS.  A file of an image is named by its path        *)
(* relative to the image directory ("tiles/1/0_0.png"); TopOf gives the name   *)
(* of the sub-folder of the image directory it lies in.  As built (Traversal = *)
(* "listdir") publish() lists the image directory once and opens EVERY entry   *)
(* as a file: at a sub-folder open(p, 'rb') raises IsADirectoryError, which    *)
(* ends the run (action RefuseSubdir).  index.wtml being last, it is never     *)
(* transferred for such an image: the refusal fails closed (NestedClosed), and *)
(* no re-run ever publishes the image - "re-running completes the job" is      *)
(* claimed for flat file sets only (Publishable).  Traversal = "descend-..."   *)
(* is the to-be model of a publisher that does transfer the files of           *)
(* sub-folders: with index.wtml last among ALL files of the image every        *)
(* sentence holds ("descend-index-last"); with nothing assumed about the order *)
(* ("descend-any") the graph contains every traversal such a publisher could   *)
(* make, and the property's formulas classify its states (the harness follows  *)
(* the traversal the code under test is observed to make).                     *)
(*                                                                             *)
(* The operating system chooses the order of both directory listings anew in   *)
(* every run.  Crash (the process dies), Fail (put_item raises), Refuse (the    *)
(* store cannot create the destination file) and StoreFail (a write, the flush *)
(* at close or the final rename of the store-side file fails) can happen       *)
(* before, during and after every single transfer, MaxFaults times in total;   *)
(* each ends the run (pc = "idle"), after which publish may be run again.      *)
EXTENDS Naturals, Sequences, FiniteSets, TLC

CONSTANTS Configs,     \* set of functions: image id |-> set of file names in its approved directory
          Index,       \* the name "index.wtml"
          MaxFaults,   \* fault budget of one behaviour
          Atomic,      \* store model (see above)
          TopOf,       \* file path |-> the sub-folder of the image directory it lies in (first path component),
                       \* None for a file directly in the image directory
          Traversal    \* "listdir" (as built) | "descend-index-last" | "descend-any" (see above)

None == "-"
Perms(S) == {s \in [1..Cardinality(S) -> S] : \A x \in S : \E i \in 1..Cardinality(S) : s[i] = x}

\* ---- lines 442-451: filenames.index('index.wtml'); temp = filenames[-1];
\*      filenames[-1] = 'index.wtml'; filenames[index_index] = temp
HasIndex(s) == \E i \in DOMAIN s : s[i] = Index
IndexOf(s) == CHOOSE i \in DOMAIN s : s[i] = Index /\ \A j \in 1..(i - 1) : s[j] # Index
Reorder(s) == IF ~HasIndex(s) THEN s
              ELSE LET n == Len(s)
                       ii == IndexOf(s)
                       temp == s[n]
                       s1 == [s EXCEPT ![n] = Index]
                   IN [s1 EXCEPT ![ii] = temp]

Range(s) == {s[i] : i \in DOMAIN s}
\* what os.listdir(approved/<image>) returns for the file set S: the files directly in the directory and its sub-folders
TopFilesOf(S) == {f \in S : TopOf[f] = None}
SubDirsOf(S) == {TopOf[f] : f \in S} \ {None}
EntriesOf(S) == TopFilesOf(S) \cup SubDirsOf(S)
ASSUME \A c \in Configs : \A i \in DOMAIN c : /\ c[i] \subseteq DOMAIN TopOf
                                               /\ SubDirsOf(c[i]) \cap c[i] = {}
                                               /\ (Index \in c[i] => TopOf[Index] = None)
ASSUME Traversal \in {"listdir", "descend-index-last", "descend-any"}
\* the reordering is a rearrangement of the listing that puts index.wtml last (checked for every listing)
ReorderOK == \A c \in Configs : \A i \in DOMAIN c : \A s \in Perms(EntriesOf(c[i])) :
                LET r == Reorder(s) IN /\ Len(r) = Len(s) /\ Range(r) = EntriesOf(c[i])
                                       /\ \A a, b \in DOMAIN r : a # b => r[a] # r[b]
                                       /\ (Index \in c[i] => r[Len(r)] = Index)
                                       /\ (Index \notin c[i] => r = s)
ASSUME ReorderOK

VARIABLES files,      \* the configuration (constant along a behaviour)
          store,      \* store[i][f] \in {"absent", "partial", "complete"}: the item <i>/<f> of the destination store
          loc,        \* loc[i] \in {"approved", "published"}: where the image's local directory is
          pc,         \* "idle" (no run in progress) | "next" (outer loop head) | "put" (inner loop head) | "writing"
          queue,      \* images the running publish() still has to visit (the listing of approved/ taken at its start)
          cur,        \* image being transferred
          listing,    \* os.listdir(approved/cur) as returned
          order,      \* the transfer list after the swap
          k,          \* position in order
          faults      \* faults used so far
vars == <<files, store, loc, pc, queue, cur, listing, order, k, faults>>

Images == DOMAIN files
Approved == {i \in Images : loc[i] = "approved"}
SubDirs(i) == SubDirsOf(files[i])
Entries(i) == EntriesOf(files[i])
\* the transfer lists a descending publisher may use
DescendOrders(i) == {s \in Perms(files[i]) : Traversal = "descend-index-last" /\ HasIndex(s) => s[Len(s)] = Index}
\* the slot the inner loop is at holds a file / a sub-folder
AtFile == k <= Len(order) /\ order[k] \in files[cur]
AtSubdir == k <= Len(order) /\ order[k] \notin files[cur]

Init == /\ files \in Configs
        /\ store = [i \in DOMAIN files |-> [f \in files[i] |-> "absent"]]
        /\ loc = [i \in DOMAIN files |-> "approved"]
        /\ pc = "idle" /\ queue = <<>> /\ cur = None /\ listing = <<>> /\ order = <<>> /\ k = 0 /\ faults = 0

NoRun == /\ queue' = <<>> /\ cur' = None /\ listing' = <<>> /\ order' = <<>> /\ k' = 0

\* publish() is invoked (again): the approved directory is listed once
Start == /\ pc = "idle" /\ Approved # {}
         /\ \E q \in Perms(Approved) : queue' = q
         /\ pc' = "next"
         /\ UNCHANGED <<files, store, loc, cur, listing, order, k, faults>>

\* outer loop: next image, list its directory, move index.wtml to the end
\* (a descending publisher: some arrangement of all the files of the image; its listings are not modelled)
NextImage == /\ pc = "next" /\ queue # <<>>
             /\ cur' = Head(queue) /\ queue' = Tail(queue)
             /\ IF Traversal = "listdir"
                  THEN \E s \in Perms(Entries(Head(queue))) : listing' = s /\ order' = Reorder(s)
                  ELSE \E s \in DescendOrders(Head(queue)) : listing' = s /\ order' = s
             /\ k' = 1 /\ pc' = "put"
             /\ UNCHANGED <<files, store, loc, faults>>

\* the inner loop reaches a sub-folder: open(p, 'rb') raises IsADirectoryError before put_item is called; the
\* exception ends the run with nothing transferred for this slot and the image still in approved/.  This is a step
\* of the program as built, not a fault.
RefuseSubdir == /\ Traversal = "listdir"
                /\ pc = "put" /\ AtSubdir
                /\ pc' = "idle" /\ NoRun
                /\ UNCHANGED <<files, store, loc, faults>>

\* put_item opens the destination
BeginPut == /\ pc = "put" /\ AtFile
            /\ store' = IF Atomic THEN store ELSE [store EXCEPT ![cur][order[k]] = "partial"]
            /\ pc' = "writing"
            /\ UNCHANGED <<files, loc, queue, cur, listing, order, k, faults>>

\* put_item returns
EndPut == /\ pc = "writing"
          /\ store' = [store EXCEPT ![cur][order[k]] = "complete"]
          /\ k' = k + 1 /\ pc' = "put"
          /\ UNCHANGED <<files, loc, queue, cur, listing, order, faults>>

\* all transfers of the image returned: os.rename(approved/cur, published/cur)
Rename == /\ pc = "put" /\ k > Len(order)
          /\ loc' = [loc EXCEPT ![cur] = "published"]
          /\ pc' = "next" /\ cur' = None /\ listing' = <<>> /\ order' = <<>> /\ k' = 0
          /\ UNCHANGED <<files, store, queue, faults>>

\* publish() returns
Finish == /\ pc = "next" /\ queue = <<>>
          /\ pc' = "idle" /\ NoRun
          /\ UNCHANGED <<files, store, loc, faults>>

\* the process dies: before a transfer (= after the previous one), in the middle of one, or after the last
\* transfer and before the rename (at a sub-folder slot: after the previous transfer; a death between the listing
\* and the refusal of a sub-folder in the first slot is a run that did nothing and is not modelled)
Crash == /\ \/ pc = "writing"
            \/ pc = "put" /\ (~AtSubdir \/ k > 1)
         /\ faults < MaxFaults
         /\ faults' = faults + 1 /\ pc' = "idle" /\ NoRun
         /\ UNCHANGED <<files, store, loc>>

\* put_item raises: at once (nothing written) or in the middle of the transfer; the exception ends the run
Fail == /\ \/ pc = "put" /\ AtFile
           \/ pc = "writing"
        /\ faults < MaxFaults
        /\ faults' = faults + 1 /\ pc' = "idle" /\ NoRun
        /\ UNCHANGED <<files, store, loc>>

\* the store refuses to create the destination file (ENOSPC, EDQUOT, EMFILE, EACCES, EROFS, ENAMETOOLONG ...):
\* the failure arises INSIDE put_item, at BeginPut, before anything is written; the item stays as it was
\* (absent, or the old copy of an earlier attempt), put_item raises and the run ends.  As a relation on states
\* this is Fail at the head of a transfer; it is a separate action because it is a separate fault point of the
\* code (the clean-up path of put_item runs although the destination / temporary file was never created).
Refuse == /\ pc = "put" /\ AtFile
          /\ faults < MaxFaults
          /\ faults' = faults + 1 /\ pc' = "idle" /\ NoRun
          /\ UNCHANGED <<files, store, loc>>

\* a low-level step of the store-side write fails INSIDE put_item after the destination was opened: one of its
\* write() calls, the flush of the buffered tail at close(), or the final rename of a temporary file (EFBIG,
\* EDQUOT, ENOSPC, EIO ...).  put_item raises and the run ends; the item is what BeginPut left: the truncated
\* file for the in-place store, the untouched old item (or nothing) for the atomic store.  The same relation as
\* Fail in the middle of a transfer; a separate action because it is a separate family of fault points of the
\* code (the harness realises it by a real RLIMIT_FSIZE at several byte limits and by a failing os.replace).
StoreFail == /\ pc = "writing"
             /\ faults < MaxFaults
             /\ faults' = faults + 1 /\ pc' = "idle" /\ NoRun
             /\ UNCHANGED <<files, store, loc>>

Step == Start \/ NextImage \/ BeginPut \/ EndPut \/ RefuseSubdir \/ Rename \/ Finish
Next == Step \/ Crash \/ Fail \/ Refuse \/ StoreFail
Spec == Init /\ [][Next]_vars /\ WF_vars(Step)

\* --------------------------------------------------------------------------------------------------
\* The property's sentences
Others(i) == files[i] \ {Index}
OthersComplete(i) == \A f \in Others(i) : store[i][f] = "complete"
AllComplete(i) == \A f \in files[i] : store[i][f] = "complete"
IndexInStore(i) == Index \in files[i] /\ store[i][Index] # "absent"      \* check_exists(i, "index.wtml")

TypeOK == /\ files \in Configs
          /\ \A i \in Images : \A f \in files[i] : store[i][f] \in {"absent", "partial", "complete"}
          /\ \A i \in Images : loc[i] \in {"approved", "published"}
          /\ pc \in {"idle", "next", "put", "writing"}
          /\ faults \in 0..MaxFaults
          /\ (pc \in {"put", "writing"} => cur \in Approved /\ k \in 1..(Len(order) + 1))
          /\ (pc \in {"put", "writing"} /\ Traversal = "listdir" => order = Reorder(listing) /\ Range(listing) = Entries(cur))
          /\ (pc \in {"put", "writing"} /\ Traversal # "listdir" => Range(order) = files[cur])
          /\ (pc = "writing" => AtFile)
          /\ (Atomic => \A i \in Images : \A f \in files[i] : store[i][f] # "partial")

\* "index.wtml is transferred strictly after every other file of that image"
IndexLastStep == (pc = "put" /\ pc' = "writing" /\ order[k] = Index) => OthersComplete(cur)
IndexLast == [][IndexLastStep]_vars
\* "the image is moved to the published area only after all transfers succeeded"
RenameStep == \A i \in Images : (loc[i] = "approved" /\ loc'[i] = "published") => AllComplete(i)
RenameAfterAll == [][RenameStep]_vars
\* nothing ever leaves the published area again
PublishedStable == [][\A i \in Images : loc[i] = "published" => loc'[i] = "published"]_vars

\* "after a crash or transfer failure at any point, the store never contains an index.wtml for an image
\*  whose other files are missing or incomplete"
IndexImpliesAll == \A i \in Images : IndexInStore(i) => OthersComplete(i)
PublishedImpliesAll == \A i \in Images : loc[i] = "published" => AllComplete(i)
\* "refresh treats the presence of index.wtml as already done: no partially published image is ever skipped"
RefreshSkips(i) == IndexInStore(i)
RefreshSafe == \A i \in Images : RefreshSkips(i) => OthersComplete(i)
\* an unfinished image is always still in the approved area, where a re-run finds it
UnfinishedIsApproved == \A i \in Images : ~AllComplete(i) => loc[i] = "approved"

\* evaluated where the property speaks: after a crash / failure or a completed run
Quiescent == pc = "idle"
QIndexImpliesAll == Quiescent => IndexImpliesAll
QPublishedImpliesAll == Quiescent => PublishedImpliesAll
QRefreshSafe == Quiescent => RefreshSafe
QUnfinishedIsApproved == Quiescent => UnfinishedIsApproved

\* stronger variants, reported but not claimed by the property:
\*   the same formula for an observer who looks at the store while a run is in progress, and
\*   "skipped by refresh => index.wtml itself is whole, too"
SkippedIsWhole == \A i \in Images : RefreshSkips(i) => AllComplete(i)
QSkippedIsWhole == Quiescent => SkippedIsWhole

\* as built, an image with a sub-folder fails closed: its index.wtml never reaches the store (so refresh never
\* skips it) and it never leaves approved/
NestedClosed == Traversal = "listdir" =>
                  \A i \in Images : SubDirs(i) # {} => /\ loc[i] = "approved"
                                                       /\ (Index \in files[i] => store[i][Index] = "absent")

\* "re-running publish completes the job" (fair scheduling of the program's own steps, finitely many faults).
\* As built this can only be said of flat file sets (what the pipeline's own image sources produce): one image with
\* a sub-folder is refused in every run, and the refusal ends the run before the images listed after it are visited.
Done == \A i \in Images : loc[i] = "published" /\ AllComplete(i)
Publishable == Traversal # "listdir" \/ \A i \in Images : SubDirs(i) = {}
Completes == <>[](Publishable => Done)
ReRunCompletes == (pc = "idle" /\ faults = MaxFaults /\ Publishable) ~> Done
=============================================================================
