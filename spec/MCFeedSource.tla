--------------------------- MODULE MCFeedSource ---------------------------
(* Feeds and stores for FeedSource (G08).  checks/g08.py writes the cfg (flavour, handler, bounds). *)
EXTENDS FeedSource, Json

NameSeq == <<"m", "n", "o", "r">>
MarkVals == {"none", "index", "flag"}
NoMarks == [x \in Names |-> "none"]
\* stores in which at most `most` of the feed's names are marked (index.wtml = published, skip.flag = ignored)
NamesIn(fd) == {fd[k].name : k \in DOMAIN fd}
MarksFor(fd, most) == UNION {{[x \in Names |-> IF x \in S THEN f[x] ELSE "none"] : f \in [S -> {"index", "flag"}]}
                               : S \in {T \in SUBSET NamesIn(fd) : Cardinality(T) <= most}}
SetupsOf(fds, most) == UNION {{[feed |-> fd, marks |-> mk] : mk \in MarksFor(fd, most)} : fd \in fds}

\* ---- djangoplicity: position k of the listing carries the k-th name
DjKinds == {"ok", "art", "noid", "slashid"}
DjEntry(kind, k) == Entry(NameSeq[k], IF kind = "slashid" THEN "slash" ELSE "plain", IF kind = "art" THEN "Artwork" ELSE "Observation",
                          "TAN", kind # "noid", k)
DjFeeds(maxlen) == UNION {{[k \in 1..len |-> DjEntry(ks[k], k)] : ks \in [1..len -> DjKinds]} : len \in 0..maxlen}
DjSetups(maxlen, most) == SetupsOf(DjFeeds(maxlen), most)
MCDefaultSetups == DjSetups(3, 1)        \* for MCFeedSource.cfg (checks/g08.py chooses its own)

\* ---- astropix: <<name, spelling, projection, has an image_id>>
AxPoolQ == {<<"m", "plain", "TAN", TRUE>>, <<"m", "upper", "TAN", TRUE>>, <<"m", "under", "TAN", TRUE>>, <<"m", "slash", "TAN", TRUE>>,
            <<"m", "plain", "SIN", TRUE>>, <<"m", "plain", "missing", TRUE>>, <<"m", "plain", "TAN", FALSE>>, <<"n", "plain", "TAN", TRUE>>}
AxPoolT == AxPoolQ \cup {<<"m", "plain", "null", TRUE>>, <<"n", "slash", "missing", TRUE>>, <<"n", "upper", "SIN", TRUE>>,
                         <<"n", "under", "missing", TRUE>>, <<"o", "plain", "TAN", TRUE>>}
AxEntry(kd, k) == Entry(kd[1], kd[2], "Observation", kd[3], kd[4], k)
AxFeeds(pool, maxlen) == UNION {{[k \in 1..len |-> AxEntry(ks[k], k)] : ks \in [1..len -> pool]} : len \in 0..maxlen}
AxSetups(pool, maxlen, most) == SetupsOf(AxFeeds(pool, maxlen), most)

CandSet(c) == {[name |-> u.name, alt |-> u.alt, tag |-> c[u].tag, full |-> c[u].full] : u \in {v \in Uids : c[v].ex}}
\* the end of a behaviour: everything checks/g08.py needs to set the scene, and what must be found afterwards
\* (also printed at the end of the first of two runs, final = FALSE: the ideal statements are judged at the end of every run)
Emit == (Ended \/ pc = "capped") =>
                 PrintT(<<"R", ToJson([flav |-> Flavour, handler |-> Handler, feed0 |-> feed0, marks |-> marks, size |-> size, tail |-> tail,
                                        evs |-> evs, runs |-> run, final |-> Final,
                                        first |-> [pc |-> prev.pc, c |-> CandSet(prev.c), r |-> prev.r, log |-> prev.log],
                                        last |-> [pc |-> pc, c |-> CandSet(st.c), r |-> st.r, log |-> log],
                                        known |-> {[e |-> e, name |-> UidOf(e).name, alt |-> UidOf(e).alt, elig |-> Eligible(e),
                                                    marked |-> (e.hasid /\ Mark(marks, UidOf(e)) # "none")] : e \in known},
                                        acts |-> st.acts, ideal |-> Ideals])>>)

=============================================================================
