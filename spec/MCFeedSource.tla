--------------------------- MODULE MCFeedSource ---------------------------
(* Feeds and stores for FeedSource (G08).  checks/g08.py writes the cfg (flavour, handler, bounds). *)
EXTENDS FeedSource, Json

NameSeq == <<"m", "n", "o", "r">>
MarkVals == {"none", "index", "flag"}
NoMarks == [x \in Names |-> "none"]
\* stores in which at most `most` of the feed's names are marked
MarksFor(fd, most) == {mk \in [Names -> MarkVals] :
                          /\ \A x \in Names : mk[x] # "none" => \E k \in DOMAIN fd : fd[k].name = x
                          /\ Cardinality({x \in Names : mk[x] # "none"}) <= most}
SetupsOf(fds, most) == UNION {{[feed |-> fd, marks |-> mk] : mk \in MarksFor(fd, most)} : fd \in fds}

\* ---- djangoplicity: position k of the listing carries the k-th name
DjKinds == {"ok", "art", "noid", "slashid"}
DjEntry(kind, k) == Entry(NameSeq[k], IF kind = "slashid" THEN "slash" ELSE "plain", IF kind = "art" THEN "Artwork" ELSE "Observation",
                          "TAN", kind # "noid", k)
DjFeeds(maxlen) == UNION {{[k \in 1..len |-> DjEntry(ks[k], k)] : ks \in [1..len -> DjKinds]} : len \in 0..maxlen}
DjSetups3 == SetupsOf(DjFeeds(3), 1)
DjSetups4 == SetupsOf(DjFeeds(4), 2)

\* ---- astropix: <<name, spelling, projection, has an image_id>>
AxPoolQ == {<<"m", "plain", "TAN", TRUE>>, <<"m", "upper", "TAN", TRUE>>, <<"m", "under", "TAN", TRUE>>, <<"m", "slash", "TAN", TRUE>>,
            <<"m", "plain", "SIN", TRUE>>, <<"m", "plain", "null", TRUE>>, <<"m", "plain", "missing", TRUE>>, <<"m", "plain", "TAN", FALSE>>,
            <<"n", "plain", "TAN", TRUE>>, <<"n", "slash", "missing", TRUE>>}
AxPoolT == AxPoolQ \cup {<<"n", "upper", "SIN", TRUE>>, <<"n", "under", "missing", TRUE>>, <<"o", "plain", "TAN", TRUE>>}
AxEntry(kd, k) == Entry(kd[1], kd[2], "Observation", kd[3], kd[4], k)
AxFeeds(pool, maxlen) == UNION {{[k \in 1..len |-> AxEntry(ks[k], k)] : ks \in [1..len -> pool]} : len \in 0..maxlen}
AxSetups3 == SetupsOf(AxFeeds(AxPoolQ, 3), 1)
AxSetups4 == SetupsOf(AxFeeds(AxPoolT, 4), 1)

CandSet(c) == {[name |-> u.name, alt |-> u.alt, tag |-> c[u].tag, full |-> c[u].full] : u \in {v \in Uids : c[v].ex}}
\* the end of a behaviour: everything checks/g08.py needs to set the scene, and what must be found afterwards
Emit == Final => PrintT(<<"R", ToJson([flav |-> Flavour, handler |-> Handler, feed0 |-> feed0, marks |-> marks, size |-> size, tail |-> tail,
                                        evs |-> evs, runs |-> run,
                                        first |-> [pc |-> prev.pc, c |-> CandSet(prev.c), r |-> prev.r, log |-> prev.log],
                                        last |-> [pc |-> pc, c |-> CandSet(st.c), r |-> st.r, log |-> log],
                                        acts |-> st.acts, ideal |-> Ideals])>>)

\* ---- the page scanner over every page of up to MaxLines lines
CONSTANT MaxLines
LineClasses == {"O", "V", "I", "C"}
Pages == UNION {[1..len -> LineClasses] : len \in 1..MaxLines}
\* junk between V and C would be handed to the YAML parser: outside the model
InModel(lines) == \A a \in DOMAIN lines, b \in DOMAIN lines :
                     (a < b /\ a >= 2 /\ lines[a] = "V" /\ (\A k \in 2..(a - 1) : lines[k] # "V")) =>
                        ((\A k \in (a + 1)..b : lines[k] # "C") => lines[b] = "I")
ScanTheorems == \A lines \in Pages : ScanWellFormed(lines)
ScanTable == {[lines |-> lines, scan |-> Scan(lines), wf |-> WellFormed(lines), ideal |-> ScanFindsAnyBlock(lines)] : lines \in {l \in Pages : InModel(l)}}
=============================================================================
