---------------------------- MODULE WtmlHistory ----------------------------
(***************************************************************************)
(* C17, second sentence - the tile_fits history machine: every history of  *)
(* calls of the FITS auto-tiling entry point on ONE output directory       *)
(* (fresh, repeated, repeated with override).                              *)
(*                                                                         *)
(* Transcribes toasty/fits_tiler.py FitsTiler.tile (the isdir / override / *)
(* reuse branches and the final write_index_rel_wtml) and                  *)
(* toasty/__init__.py tile_fits (returns tiler.builder).  Names and        *)
(* templates are those of Wtml.tla, so the directory content the machine   *)
(* predicts is checked against the template sentences in every state.      *)
(* The calls of one history are made by ONE process; `cache` stands for    *)
(* whatever that process may keep between calls (ReturnedAgrees must       *)
(* survive it: the shortest refutation of a cache that override fails to   *)
(* invalidate is fresh(X), reuse, override(Y # X), reuse - four calls).    *)
(***************************************************************************)
EXTENDS Wtml

CONSTANTS Inputs,          \* names of (FITS collection, tiling method) configurations
          Pop,             \* Pop[i]: the positions input i populates in a fresh directory
          Scheme, Ext,     \* naming scheme and format of the auto-tiler's PyramidIO
          MaxLen,          \* bound on the number of calls
          ReuseRestores,   \* TRUE: reuse fills the returned description from the WTML on disk (intended);
                           \* FALSE: it returns the freshly constructed Builder (fits_tiler.py as found)
          OverrideClears,  \* TRUE: override removes the old directory first
          Cache            \* process-lifetime memo of the description recovered on reuse:
                           \*   "none"  - every reuse reads index_rel.wtml (fits_tiler.py as repaired)
                           \*   "sound" - reuse remembers what it read; override forgets it
                           \*   "stale" - ... but override fails to forget it (e.g. keyed by another spelling of the path)

Desc(i) == [id |-> i, url |-> Template(Scheme, Ext), ftype |-> FileType(Ext), levels |-> Deepest(Pop[i])]
(* Builder(PyramidIO(out_dir, default_format=...)) before anything was tiled *)
DefaultDesc == [id |-> "default", url |-> Template(Scheme, Ext), ftype |-> FileType(Ext), levels |-> 0]
NoDesc      == [id |-> "none", url |-> <<>>, ftype |-> <<>>, levels |-> 0]
FilesOf(i)  == {Path(Scheme, p, Ext) : p \in Pop[i]}

VARIABLES present,   \* the output directory exists
          wtml,      \* the description recorded in index_rel.wtml
          files,     \* names of the tile files in the directory
          ret,       \* the description handed back by the last call
          hist,      \* the calls so far, with what each one left behind
          cache      \* what the calling process remembers about this directory (NoDesc: nothing)
vars == <<present, wtml, files, ret, hist, cache>>

Init == /\ present = FALSE /\ wtml = NoDesc /\ files = {} /\ ret = NoDesc /\ hist = <<>> /\ cache = NoDesc

(* what a reuse hands back when it does restore the description *)
Recovered == IF Cache # "none" /\ cache # NoDesc THEN cache ELSE wtml

Kind(ov) == IF ~present THEN "fresh" ELSE IF ov THEN "override" ELSE "reuse"

Call(i, ov) ==
    LET kind == Kind(ov) IN
    /\ Len(hist) < MaxLen
    /\ kind = "reuse" => wtml.id = i      \* the property speaks of a repeated IDENTICAL call
    /\ present' = TRUE
    /\ wtml'  = IF kind = "reuse" THEN wtml ELSE Desc(i)
    /\ files' = CASE kind = "fresh"    -> FilesOf(i)
                  [] kind = "override" -> (IF OverrideClears THEN {} ELSE files) \cup FilesOf(i)
                  [] kind = "reuse"    -> files
    /\ ret'   = IF kind = "reuse" THEN (IF ReuseRestores THEN Recovered ELSE DefaultDesc) ELSE Desc(i)
    /\ cache' = CASE kind = "reuse"    -> (IF Cache = "none" \/ ~ReuseRestores THEN NoDesc ELSE Recovered)
                  [] kind = "override" -> (IF Cache = "stale" THEN cache ELSE NoDesc)
                  [] kind = "fresh"    -> cache
    /\ hist'  = Append(hist, [input |-> i, override |-> ov, kind |-> kind, disk |-> wtml'.id,
                              ret |-> ret'.id, levels |-> wtml'.levels, ret_levels |-> ret'.levels,
                              files |-> files'])

Next == \E i \in Inputs : \E ov \in BOOLEAN : Call(i, ov)
Spec == Init /\ [][Next]_vars

PopOnDisk == {Unpath(Scheme, f) : f \in files}

(* the description returned by every call is the one recorded in the WTML on disk after that call *)
ReturnedAgrees == hist # <<>> => ret = wtml
(* expanding the recorded template over the populated positions gives exactly the files on disk *)
TemplateAddressesFiles == present => files = {Expand(wtml.url, p) : p \in PopOnDisk}
LevelsIsDeepest == present => wtml.levels = Deepest(PopOnDisk)
FileTypeIsExt == present => \A f \in files : DotExt(f) = wtml.ftype
(* the same sentences, through the observation judge of Part 2 *)
JudgeAgrees == present =>
    LET j == Judge([url |-> wtml.url, ftype |-> wtml.ftype, levels |-> wtml.levels, files |-> files, writes |-> {}])
    IN j.stray = {} /\ j.badext = {} /\ j.ftype_t /\ j.levels_ok
=============================================================================
