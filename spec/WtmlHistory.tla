---------------------------- MODULE WtmlHistory ----------------------------
(***************************************************************************)
(* C17, second sentence - the tile_fits history machine: every history of  *)
(* calls of the FITS auto-tiling entry point on ONE output directory       *)
(* (fresh, repeated, repeated with override).                              *)
(*                                                                         *)
(* Transcribes toasty/fits_tiler.py FitsTiler.tile (the isdir / override / *)
(* reuse branches and the final write_index_rel_wtml) and                  *)
(* toasty/__init__.py tile_fits (returns tiler.builder).  Names and        *)
(* templates are those of Wtml.tla, so the directory content the machine   *)
(* predicts is checked against the template sentences in every state.      *)
(* The calls of one history are made by ONE process; `cache` stands for    *)
(* whatever that process may keep between calls (ReturnedAgrees must       *)
(* survive it: the shortest refutation of a cache that override fails to   *)
(* invalidate is fresh(X), reuse, override(Y # X), reuse - four calls).    *)
(* A call may also be INTERRUPTED (Ctrl-C, an exception after the tiles    *)
(* were written): Fail leaves the PARTIAL directory - tiles, no index.     *)
(* The property makes no claim where no index_rel.wtml exists; whatever    *)
(* index exists after any later call (reuse, override, `toasty view`) must *)
(* satisfy the sentences for the tiles then on disk.                       *)
(* The directory may also EXIST BEFORE THE FIRST CALL, empty (the caller   *)
(* made it: tempfile.mkdtemp()).  Nothing in it was left by an earlier     *)
(* call, so the first call is the FRESH call of its history: it produces   *)
(* the pyramid and its index (tile_fits' docstring skips the tiling only   *)
(* "if there is already a tiled FITS in out_dir").                         *)
(***************************************************************************)
EXTENDS Wtml

CONSTANTS Inputs,          \* names of (FITS collection, tiling method) configurations
          Pop,             \* Pop[i]: the positions input i populates in a fresh directory
          Scheme, Ext,     \* naming scheme and format of the auto-tiler's PyramidIO
          MaxLen,          \* bound on the number of calls
          FailBudget,      \* how many of the calls may be interrupted
          Views,           \* TRUE: calls may also come through `toasty view` (cli.view_locally)
          ReuseRestores,   \* TRUE: reuse fills the returned description from the WTML on disk (intended);
                           \* FALSE: it returns the freshly constructed Builder (fits_tiler.py as found)
          OverrideClears,  \* TRUE: override removes the old directory first
          Cache,           \* process-lifetime memo of the description recovered on reuse:
                           \*   "none"  - every reuse reads index_rel.wtml (fits_tiler.py as repaired)
                           \*   "sound" - reuse remembers what it read; override forgets it
                           \*   "stale" - ... but override fails to forget it (e.g. keyed by another spelling of the path)
          StartEmpty,      \* TRUE: the output directory exists, empty, before the first call
          EmptyDir,        \* a directory that exists and holds nothing is
                           \*   "tiled"  - tiled into, like an absent one (intended)
                           \*   "served" - "reused": nothing is tiled, no index, a default description (fits_tiler.py as found:
                           \*              os.path.isdir alone decides)
          Partial          \* treatment of a directory that holds tiles but no index:
                           \*   "asfound"       - it is a directory like any other: reuse serves it as it is (default
                           \*                     description, still no index), override removes it (fits_tiler.py)
                           \*   "view-indexes"  - ... and `toasty view` then writes the index from what reuse returned
                           \*   "index-guards"  - reuse/override look at the index, not the directory: a partial
                           \*                     directory is tiled into as if it were absent

Desc(i) == [id |-> i, url |-> Template(Scheme, Ext), ftype |-> FileType(Ext), levels |-> Deepest(Pop[i])]
(* Builder(PyramidIO(out_dir, default_format=...)) before anything was tiled *)
DefaultDesc == [id |-> "default", url |-> Template(Scheme, Ext), ftype |-> FileType(Ext), levels |-> 0]
NoDesc      == [id |-> "none", url |-> <<>>, ftype |-> <<>>, levels |-> 0]
FilesOf(i)  == {Path(Scheme, p, Ext) : p \in Pop[i]}
(* what an interrupted run has written: "late" - everything but the index (interrupted between the last tile and *)
(* the index); "base" - the base layer only (interrupted when the cascade starts)                                 *)
FailModes == {"late", "base"}
PartialOf(i, mode) == IF mode = "late" THEN FilesOf(i)
                      ELSE {Path(Scheme, p, Ext) : p \in {q \in Pop[i] : q[1] = Deepest(Pop[i])}}

VARIABLES present,   \* the output directory exists
          wtml,      \* the description recorded in index_rel.wtml (NoDesc: there is no index)
          files,     \* names of the tile files in the directory
          ret,       \* the description handed back by the last call (NoDesc: the call handed nothing back)
          hist,      \* the calls so far, with what each one left behind
          cache      \* what the calling process remembers about this directory (NoDesc: nothing)
vars == <<present, wtml, files, ret, hist, cache>>

Init == /\ present = StartEmpty /\ wtml = NoDesc /\ files = {} /\ ret = NoDesc /\ hist = <<>> /\ cache = NoDesc

Indexed  == wtml # NoDesc
NFails   == Cardinality({k \in DOMAIN hist : hist[k].via = "interrupted"})

(* what a reuse hands back when it does restore the description *)
Recovered == IF Cache # "none" /\ cache # NoDesc THEN cache ELSE wtml

(* nothing in the directory was left by an earlier call *)
Vacant   == files = {} /\ ~Indexed
(* which branch of FitsTiler.tile the call takes *)
Seen     == CASE Partial = "index-guards" -> Indexed
              [] EmptyDir = "served"      -> present
              [] OTHER                    -> present /\ ~Vacant
Branch(ov) == IF ~Seen THEN "fresh" ELSE IF ov THEN "override" ELSE "reuse"
(* what the call is in the property's terms: the call that finds nothing left by an earlier one is the fresh call *)
Kind(ov) == IF ~present \/ Vacant THEN "fresh" ELSE Branch(ov)

Record(i, ov, kind, via, w, r, f) ==
    [input |-> i, override |-> ov, kind |-> kind, via |-> via, indexed |-> w # NoDesc, disk |-> w.id,
     ret |-> r.id, levels |-> w.levels, ret_levels |-> r.levels, files |-> f]

(* a call that runs to completion: through tile_fits (via = "api") or `toasty view` (via = "view", never override) *)
Complete(i, ov, via) ==
    LET kind == Kind(ov)
        br   == Branch(ov)
        r    == CASE br # "reuse" -> Desc(i)
                  [] br = "reuse" /\ Indexed  -> (IF ReuseRestores THEN Recovered ELSE DefaultDesc)
                  [] br = "reuse" /\ ~Indexed -> DefaultDesc
        w    == CASE br # "reuse" -> Desc(i)
                  [] br = "reuse" /\ ~Indexed /\ via = "view" /\ Partial = "view-indexes" -> r
                  [] OTHER -> wtml
        f    == CASE br = "fresh"    -> files \cup FilesOf(i)      \* (files = {} unless a partial directory is not seen)
                  [] br = "override" -> (IF OverrideClears THEN {} ELSE files) \cup FilesOf(i)
                  [] br = "reuse"    -> files
    IN
    /\ Len(hist) < MaxLen
    /\ (br = "reuse" /\ Indexed) => wtml.id = i        \* the property speaks of a repeated IDENTICAL call
    /\ via = "view" => (present /\ ~ov)
    /\ present' = TRUE
    /\ wtml'  = w
    /\ files' = f
    /\ ret'   = r
    /\ cache' = CASE br = "reuse" /\ Indexed -> (IF Cache = "none" \/ ~ReuseRestores THEN NoDesc ELSE Recovered)
                  [] br = "override" -> (IF Cache = "stale" THEN cache ELSE NoDesc)
                  [] OTHER -> cache
    /\ hist'  = Append(hist, Record(i, ov, kind, via, w, r, f))

Call(i, ov) == Complete(i, ov, "api")
View(i)     == Views /\ Complete(i, FALSE, "view")

(* a call that is interrupted after writing tiles and before writing the index *)
Fail(i, ov, mode) ==
    LET kind == Branch(ov)
        f    == (IF kind = "override" /\ OverrideClears THEN {} ELSE files) \cup PartialOf(i, mode)
    IN
    /\ Len(hist) < MaxLen
    /\ NFails < FailBudget
    /\ kind # "reuse"                     \* (a reuse returns at once: there is nothing to interrupt)
    /\ ~present => ~ov                    \* (override is immaterial for an absent directory)
    /\ present' = TRUE
    /\ wtml'  = NoDesc                    \* (absent, removed by the override, or there was none)
    /\ files' = f
    /\ ret'   = NoDesc
    /\ cache' = IF kind = "override" /\ Cache # "stale" THEN NoDesc ELSE cache
    /\ hist'  = Append(hist, Record(i, ov, IF mode = "late" THEN "fail-late" ELSE "fail-base", "interrupted", NoDesc, NoDesc, f))

Next == \E i \in Inputs :
           \/ \E ov \in BOOLEAN : Call(i, ov)
           \/ View(i)
           \/ \E ov \in BOOLEAN : \E mode \in FailModes : Fail(i, ov, mode)
Spec == Init /\ [][Next]_vars

PopOnDisk == {Unpath(Scheme, f) : f \in files}

(* the description returned by every call is the one recorded in the WTML on disk after that call *)
ReturnedAgrees == (hist # <<>> /\ ret # NoDesc /\ Indexed) => ret = wtml
(* the fresh call of a history and an override produce the pyramid: they leave an index (with which what they hand *)
(* back agrees: ReturnedAgrees)                                                                                    *)
CompletedIsIndexed == (hist # <<>> /\ hist[Len(hist)].kind \in {"fresh", "override"}) => Indexed
(* whatever index exists: expanding the recorded template over the populated positions gives exactly the files on disk *)
TemplateAddressesFiles == Indexed => files = {Expand(wtml.url, p) : p \in PopOnDisk}
LevelsIsDeepest == Indexed => wtml.levels = Deepest(PopOnDisk)
FileTypeIsExt == Indexed => \A f \in files : DotExt(f) = wtml.ftype
(* the same sentences, through the observation judge of Part 2 *)
JudgeAgrees == Indexed =>
    LET j == Judge([url |-> wtml.url, ftype |-> wtml.ftype, levels |-> wtml.levels, files |-> files, writes |-> {}])
    IN j.stray = {} /\ j.badext = {} /\ j.ftype_t /\ j.levels_ok
=============================================================================
