SPECIFICATION Spec
CONSTANTS
 Roots <- MCRoots
 G = 3
 Margin = 1
 Far = 10000
INVARIANT TypeOK
INVARIANT CellClosedForm
INVARIANT CodeDecidesCell
INVARIANT SeamOnlyLoses
INVARIANT NoWrapAround
INVARIANT IndexSafe
INVARIANT NoPixelUndefined
INVARIANT SamePicture
INVARIANT Periodic
INVARIANT Elementwise
INVARIANT Float32OK
INVARIANT BoundaryHalfOpen
PROPERTY FlipKeepsPicture
PROPERTY RotateKeepsPicture
PROPERTY RecentreWithinKeepsPicture
CHECK_DEADLOCK FALSE
