SPECIFICATION Spec
CONSTANTS
 Images <- MCImagesQuick
 Requests <- MCRequests
 SaveModes <- MCSaveModes
 Defaults <- MCDefaults
 Routes <- MCRoutes
INVARIANT TypeOK
INVARIANT LosslessExact
INVARIANT LoadedDefaultHoldsItsMode
INVARIANT Idempotent
INVARIANT UnsupportedRaise
INVARIANT NothingWrittenOnRaise
INVARIANT UnknownFormatNameRefused
INVARIANT JpegLossy
INVARIANT SaveModeHonoured
INVARIANT SaveModeIgnoredForArrays
INVARIANT SaveModeConverts
INVARIANT JpegRefusesAlpha
INVARIANT BufferPromotion
INVARIANT WrittenLoads
INVARIANT SaveForeign
CHECK_DEADLOCK FALSE
