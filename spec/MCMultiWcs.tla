----------------------------- MODULE MCMultiWcs -----------------------------
(* Wrapper of MultiWcs.tla for checks/g06.py and for running TLC by hand:      *)
(*   tlc -config MCMultiWcs_serial.cfg MCMultiWcs     (SpecSerial, all orders) *)
(*   tlc -config MCMultiWcs_par.cfg MCMultiWcs        (SpecPar, 2 workers)      *)
(* The check generates modules that EXTEND this one with its own case sets.    *)
(* EmitFinal prints, for every state in which tile() has returned, the final   *)
(* deepest-level tiles as a matrix of winners (0 = undefined, k = the value of *)
(* input k; 99 = the common sky value where inputs agree) in DISPLAY            *)
(* orientation: the harness lifts the case to real FITS files, runs the real   *)
(* MultiWcsProcessor and compares block by block.                              *)
EXTENDS MultiWcs, Json

In(x0, y0, w, h) == [x0 |-> x0, y0 |-> y0, w |-> w, h |-> h, bl |-> 0, br |-> 0, bt |-> 0, bb |-> 0,
                     hx0 |-> 0, hx1 |-> 0, hy0 |-> 0, hy1 |-> 0]
Case(id, ins, agree, rx, ry) == [id |-> id, ins |-> ins, agree |-> agree, rx |-> rx, ry |-> ry]
\* two overlapping inputs on three tiles; three inputs in an L with an undefined border; one inside the other
MCCases == {Case(1, <<In(-1, 2, 3, 2), In(1, 2, 3, 2)>>, FALSE, 3, 5),
            Case(2, <<In(0, 0, 2, 3), [In(1, 1, 3, 2) EXCEPT !.bl = 1], In(0, 0, 4, 1)>>, TRUE, -2, 9),
            Case(3, <<In(0, 0, 4, 4), [In(1, 1, 2, 2) EXCEPT !.hx1 = 1, !.hy1 = 1]>>, FALSE, 0, 0)}
MCCaps == {2, 5, 1000}
MCSlackAll == [l : 0..1, r : 0..1, t : 0..1, b : 0..1]
MCSlackSome == {NoSlack, AllSlack, [l |-> 1, r |-> 0, t |-> 0, b |-> 1]}
MCSlackNone == {NoSlack}

WinnerOf(v) == IF v = U THEN 0 ELSE IF v[1] = 0 THEN 99 ELSE v[1]
FinalRecord == [id |-> cs.id, q |-> q, cap |-> cap, order |-> order, nvis |-> nvis, ntodo |-> NTodo(cs, Boxes, cap),
                w |-> D.W, h |-> D.H, p2 |-> T.p2, lev |-> T.lev, gx0 |-> T.x.g0, gy0 |-> T.y.g0,
                stored |-> StoredTiles,
                disp |-> [gy \in 1..T.p2 |-> [gx \in 1..T.p2 |-> WinnerOf(M!Display(tiles, q, gx - 1, gy - 1))]]]
\* printed for the runs without slack and with the largest band size only (the theorems say the others end the same)
EmitFinal == (cleaned /\ cap = M!SetMax(Caps) /\ \A k \in 1..N : sl[k] = NoSlack) => PrintT(<<"F", ToJson(FinalRecord)>>)
\* the statements the code does not keep, evaluated in the final states: a FALSE is TLC's witness that the statement is refuted
Ideals == [VisitsOnlyFootprintTiles |-> VisitsOnlyFootprintTiles, OneVisitPerInputAndTile |-> OneVisitPerInputAndTile,
           OrderNeverMatters |-> OrderNeverMatters]
EmitIdeal == (cleaned /\ \E f \in DOMAIN Ideals : ~Ideals[f]) =>
                 PrintT(<<"I", ToJson([id |-> cs.id, cap |-> cap, sl |-> sl, order |-> order, boxes |-> Boxes, exact |-> geo.exact, ideal |-> Ideals])>>)
MCSlackTwo == {NoSlack, AllSlack}
=============================================================================
