---------------------------- MODULE MCFitsTiler ----------------------------
(* Wrapper of FitsTiler.tla for checks/g04.py.                                  *)
(*   AllSpec     every history of calls of the table up to MaxCalls, without    *)
(*               the history (cfg: VIEW ViewAll - histories that lead to the    *)
(*               same directories are one state): the theorems;                 *)
(*   LastSpec    the same keeping the last call and what it returned: the       *)
(*               refutations of the "ideal" statements (breadth first, so the   *)
(*               counterexample is a shortest history);                         *)
(*   ScriptSpec  the prefix tree of given histories (Scripts), the history a    *)
(*               variable, so that every emitted state says which calls led to  *)
(*               it;                                                            *)
(*   FreeSpec    the same with TLC choosing the calls (-simulate).              *)
(* Emit prints, for every state, what the last call of `hist` returned and the  *)
(* expected directories after it: the harness replays `hist` with the real      *)
(* tile_fits / FitsTiler on real files and compares after every call.           *)
(* Rows is the state-independent table (method, directory, outcome class of     *)
(* every call of the table on an empty disk) for the function-level binding.    *)
EXTENDS FitsTiler, Json

\* (Scripts - a set of sequences of indices into CmdTable - and WalkSet - the calls TLC's random walks choose from -
\* come with the data: FitsTilerData)

VARIABLES hist,         \* the calls issued so far (indices into CmdTable)
          before        \* the directories before the last call
hvars == <<vars, hist, before>>

HInit == Init /\ hist = <<>> /\ before = dirs
Step(k) == Call(k) /\ hist' = Append(hist, k) /\ before' = dirs
ScriptNext == \E s \in Scripts : /\ Len(hist) < Len(s)
                                 /\ SubSeq(s, 1, Len(hist)) = hist
                                 /\ Step(s[Len(hist) + 1])
ScriptSpec == HInit /\ [][ScriptNext]_hvars
FreeNext == \E k \in WalkSet : Step(k)
FreeSpec == HInit /\ [][FreeNext]_hvars
AllNext == (\E k \in Cmds : Do(k)) /\ UNCHANGED hist /\ before' = dirs
AllSpec == HInit /\ [][AllNext]_hvars
LastSpec == AllSpec
ViewAll == <<dirs, ncalls>>
\* the theorems about one more call are evaluated in the states reached by fewer than StepBound calls
CONSTANT StepBound
StepTheoremsBounded == (ncalls < MaxCalls /\ ncalls < StepBound) => StepTheorems

\* ---- one more statement the code does NOT keep (negative control): a call that raises leaves every directory as it was
FailedCallChangesNothing == ~ret.ok => dirs = before

\* ---- emitter (always-true invariant)
DirRec(d) == [dir |-> d, wtml |-> dirs[d].wtml, lay |-> dirs[d].lay, rng |-> dirs[d].rng, tiles |-> dirs[d].tiles,
              wt |-> dirs[d].wt, by |-> dirs[d].by, wk |-> dirs[d].wk]
Record == [hist |-> hist, ret |-> ret, dirs |-> {DirRec(d) : d \in {e \in DirIds : dirs[e].ex}},
           ideal |-> [ReturnedDescribesDisk |-> ReturnedDescribesDisk, ServedIsRequested |-> ServedIsRequested,
                      ServedProjectionIsChosen |-> ServedProjectionIsChosen, NoPartialDirectory |-> NoPartialDirectory,
                      TileReturnsSelf |-> TileReturnsSelf, FailedCallChangesNothing |-> FailedCallChangesNothing]]
Emit == PrintT(<<"S", ToJson(Record)>>)

\* ---- the state-independent table
Row(k) == LET c == CmdTable[k]
              p == Plan[k] IN
          [k |-> k, early |-> p.early, method |-> p.method, dir |-> p.dir, route |-> p.route,
           badsel |-> p.badsel, large_as_built |-> p.large, large_true |-> p.largetrue, large_corners |-> p.largecorners,
           ideal_dir |-> IF p.early \/ c.out # <<>> THEN <<>> ELSE DerivedIdeal(PathOf[c.files[1]], p.method),
           regular |-> RegularPath(PathOf[c.files[1]]),
           levels |-> p.desc.levels, proj |-> p.desc.proj]
RowsOf(K) == [k \in K |-> Row(k)]
=============================================================================
