-------------------------- MODULE MCCascadeHistory --------------------------
(* Model-checking wrapper for CascadeHistory.tla (checks/c02.py, checks/c14.py): *)
(* the check generates a module that EXTENDS this one and defines MCCases.        *)
(* Two emitters: per case (initial state) the leaf batches as handed to the       *)
(* writer and the expected directory for each batch - TLC's Final of the first    *)
(* batch and of the complete leaves, in the format's row order; per history       *)
(* (every state: the harness keeps the maximal ones) its steps with the           *)
(* observables after each (Builder range, index range, which levels are current,  *)
(* which batch is on disk).                                                       *)
EXTENDS CascadeHistory, Json

TileRec(p, t) == [pos |-> p, px |-> t.px, rng |-> t.rng, may |-> AllMaybeUndef(c.mode, t.px)]
ExistingSeq(f) == LET s == SelectSeq(GeneratePos(Depth), LAMBDA p : f[p].ex)
                  IN [i \in DOMAIN s |-> TileRec(s[i], f[s[i]])]
GivenOf(x) == LET s == SelectSeq(GeneratePos(Depth), LAMBDA p : p \in DOMAIN x.leaves)
              IN [i \in DOMAIN s |-> [pos |-> s[i], px |-> ToFile(x.bottomup, LeafMatrix(x, s[i])),
                                      stored |-> InitPyr(x)[s[i]].ex, raw |-> FALSE]]
FinalStored(x) == LET f == Final(x) IN ExistingSeq([p \in UpTo(Depth) |-> FlipTile(x.bottomup, f[p])])
CaseRecord ==
    LET x1 == WithLeaves(c, c.first)
        x2 == WithLeaves(c, c.final)
    IN [id |-> c.id, mode |-> c.mode, bottomup |-> c.bottomup, ranged |-> c.ranged, keepu |-> c.keepu, sv |-> c.sv,
        given1 |-> GivenOf(x1), given2 |-> GivenOf(x2), init |-> ExistingSeq(InitPyr(x1)),
        fin1 |-> FinalStored(x1), fin2 |-> FinalStored(x2),
        connected1 |-> Connected(c.mode, Final(x1)), connected2 |-> Connected(c.mode, Final(x2))]
EmitCase == (hist = <<>>) => PrintT(<<"C", ToJson(CaseRecord)>>)
EmitHistory == (hist # <<>>) => PrintT(<<"H", ToJson([id |-> c.id, hist |-> hist])>>)
=============================================================================
