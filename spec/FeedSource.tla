----------------------------- MODULE FeedSource -----------------------------
(* G08 part 1 (DESIGN.md section 7) - how `toasty pipeline refresh` turns what an image source's feed     *)
(* serves into the files of candidates/.                                                                 *)
(*                                                                                                       *)
(* Transcribes                                                                                           *)
(*   toasty/pipeline/cli.py            refresh_impl: for cand in src.query_candidates(): store checks,    *)
(*                                     open(candidates/<id>, 'wb'); cand.save(f); the NotActionableError  *)
(*                                     handler                                              -> Examine    *)
(*   toasty/pipeline/djangoplicity.py  DjangoplicityImageSource.query_candidates: page_num = 1, 2, ...;   *)
(*                                     GET <base>archive/search/<page>/<n>/?type=Observation; 404 = done;  *)
(*                                     the lines between "var images = [" and "];" parsed as YAML; one     *)
(*                                     candidate per item           -> Request (lines: FeedScan.tla)      *)
(*                                     DjangoplicityCandidateInput.get_unique_id / save                    *)
(*   toasty/pipeline/astropix.py       AstroPixImageSource.query_candidates: ONE GET of the configured     *)
(*                                     query, the whole JSON array; AstroPixCandidateInput.__init__ /      *)
(*                                     get_unique_id / save (the "/" and non-TAN filters)                   *)
(* The generator is lazy: refresh_impl examines the items of page n before page n + 1 is requested, so the  *)
(* feed may change between two requests (Grow: a new image is published and listed first; Shrink: an image   *)
(* is withdrawn).  The server is a Django paginator over the entries of the requested type: page 1 always    *)
(* exists, page n > 1 exists while (n - 1) * size < number of entries; beyond that it answers 404 (Tail =    *)
(* "404") - or, for a server that never says 404, an empty list (Tail = "empty").                             *)
(*                                                                                                       *)
(* An entry is [name, var, type, proj, hasid, tag]:                                                       *)
(*   name, var   the identifier as the feed spells it.  astropix: var = "plain" (image_id = name), "upper"  *)
(*               (the same in upper case), "slash" (image_id "x/" + name), "under" ("x_" + name): the      *)
(*               unique id is publisher + "_" + lower(image_id) with "/" -> "_", so plain / upper and       *)
(*               slash / under share one candidate file.  djangoplicity: "plain" (id = name), "slash" (an   *)
(*               id with a "/": not a file name)                                                            *)
(*   type        djangoplicity: the archive category; the query asks for "Observation"                      *)
(*   proj        astropix: wcs_projection - "TAN", "SIN", "null" (JSON null), "missing" (no such key)        *)
(*   hasid       FALSE: the entry has no id key at all                                                      *)
(*   tag         tells entries (and so candidate file contents) apart                                       *)
(*                                                                                                       *)
(* AS-BUILT DEVIATIONS (named; the ideal statement next to each is refuted by TLC):                         *)
(*   RejectAborts           Handler = "aborts": refresh_impl's NotActionableError handler removes the       *)
(*                          candidate file and then opens rejects/<id>/wb for READING - the run dies, the     *)
(*                          entries after it are not examined, rejects/ stays empty (G01's observation).      *)
(*                          Handler = "recorded" is the evident intention.  (ideal: NotActionableIsSkipped)   *)
(*   MalformedLeavesEmpty   an astropix entry without wcs_projection: KeyError inside save() after the file    *)
(*                          was opened - an EMPTY candidates/<id> stays behind (ideal: NoEmptyCandidate)       *)
(*   NoStopOnEmptyPage      an empty page does not end the paging, only a 404 does: against a server that      *)
(*                          answers 200 with an empty list the refresh never ends (ideal: AlwaysEnds)          *)
(*   MissedByShift          page = offset: an image withdrawn between two requests shifts the rest up and       *)
(*                          the first entry of the next page is never examined in this run; an image            *)
(*                          published between two requests is not seen (ideals: NeverMisses, SeesFinalFeed)     *)
(*   SharedCandidate        astropix ids that differ in case (or "/" vs "_") share one candidate file: the      *)
(*                          later entry's data win (ideal: OneFilePerEntry)                                      *)
EXTENDS Integers, Sequences, FiniteSets, TLC

CONSTANTS Flavour,      \* "djangoplicity" | "astropix"
          Handler,      \* "aborts" (as built) | "recorded" (as intended)
          Setups,       \* set of [feed, marks]: the initial feed (as the server lists it) and the destination store
          PageSizes,    \* djangoplicity: the server's page size
          Tails,        \* subset of {"404", "empty"}
          EventKinds,   \* subset of {"grow", "shrink"}
          MaxEvents,    \* how many such events may happen in one behaviour
          MaxPage,      \* the experiment is stopped ("capped") when the client asks for a page beyond this
          Runs          \* number of consecutive refresh commands (1 or 2)

Names == {"m", "n", "o", "r", "p", "q"}
Uids == [name : Names, alt : BOOLEAN]
Entry(nm, vr, ty, pj, hi, tg) == [name |-> nm, var |-> vr, type |-> ty, proj |-> pj, hasid |-> hi, tag |-> tg]
UidOf(e) == [name |-> e.name, alt |-> (Flavour = "astropix" /\ e.var \in {"slash", "under"})]

\* ---------------------------------------------------------------------------------------------- eligibility
\* what SHOULD become a candidate (given that the store has neither index.wtml nor skip.flag for it)
Eligible(e) == /\ e.hasid
               /\ IF Flavour = "djangoplicity" THEN e.type = "Observation" /\ e.var = "plain"
                  ELSE e.var # "slash" /\ e.proj = "TAN"
\* entries on which the run cannot go on whatever the handler does (an exception that is not NotActionableError)
Fatal(e) == \/ ~e.hasid
            \/ Flavour = "djangoplicity" /\ e.var = "slash"
            \/ Flavour = "astropix" /\ e.var # "slash" /\ e.proj = "missing"
NotActionable(e) == e.hasid /\ Flavour = "astropix" /\ (e.var = "slash" \/ e.proj \in {"SIN", "null"})

\* ---------------------------------------------------------------------------------------------- the server
IsObs(e) == e.type = "Observation"
\* djangoplicity: the request carries ?type=Observation and the server lists that category; astropix: the configured query, as is
Served(fd) == IF Flavour = "djangoplicity" THEN SelectSeq(fd, IsObs) ELSE fd
Min(a, b) == IF a <= b THEN a ELSE b
PageExists(fd, sz, k) == k = 1 \/ (k - 1) * sz < Len(Served(fd))
PageItems(fd, sz, k) == SubSeq(Served(fd), (k - 1) * sz + 1, Min(k * sz, Len(Served(fd))))
NPages(fd, sz) == IF Len(Served(fd)) = 0 THEN 1 ELSE (Len(Served(fd)) + sz - 1) \div sz

\* ---------------------------------------------------------------------------------------------- one entry in refresh_impl
Absent == [ex |-> FALSE, tag |-> 0, full |-> FALSE]
Written(e) == [ex |-> TRUE, tag |-> e.tag, full |-> TRUE]
Empty(e) == [ex |-> TRUE, tag |-> e.tag, full |-> FALSE]
Mark(mk, u) == IF u.alt THEN "none" ELSE mk[u.name]
\* wd = [c |-> candidates/, r |-> rejects/, died |-> BOOLEAN, acts |-> names of the deviations taken]
Examine(wd, e, mk) ==
    IF wd.died THEN wd
    ELSE IF ~e.hasid THEN [wd EXCEPT !.died = TRUE]                                    \* KeyError before anything is touched
    ELSE LET u == UidOf(e) IN
         IF Mark(mk, u) # "none" THEN wd                                            \* index.wtml / skip.flag in the store: skipped
         ELSE IF Flavour = "djangoplicity"
              THEN IF e.var = "slash" THEN [wd EXCEPT !.died = TRUE]                   \* open(candidates/x/name): no such directory
                   ELSE [wd EXCEPT !.c[u] = Written(e)]                                \* save() never refuses
         ELSE IF e.var = "slash" \/ (e.proj # "missing" /\ e.proj # "TAN")
              THEN IF Handler = "recorded"                                              \* NotActionableError: os.remove(cand_path) ...
                   THEN [wd EXCEPT !.c[u] = Absent, !.r = @ \cup {u}]
                   ELSE [wd EXCEPT !.c[u] = Absent, !.died = TRUE, !.acts = @ \cup {"RejectAborts"}]
         ELSE IF e.proj = "missing"
              THEN [wd EXCEPT !.c[u] = Empty(e), !.died = TRUE, !.acts = @ \cup {"MalformedLeavesEmpty"}]   \* KeyError inside save()
         ELSE [wd EXCEPT !.c[u] = Written(e),
                         !.acts = IF wd.c[u].ex /\ wd.c[u].tag # e.tag /\ wd.c[u].full THEN @ \cup {"SharedCandidate"} ELSE @]

\* the whole list at once: what a refresh does when nothing happens in between, whatever the page size
RECURSIVE Static(_, _, _)
Static(wd, list, mk) == IF list = <<>> THEN wd ELSE Static(Examine(wd, Head(list), mk), Tail(list), mk)

\* ---------------------------------------------------------------------------------------------- state
VARIABLES feed,     \* the server's entries, in listing order
          marks,    \* Names -> "none" | "index" | "flag": what the destination store holds (constant: refresh does not write it)
          size, tail,
          run,      \* which refresh command is running
          pc,       \* "request" | "items" | "done" | "died" | "capped"
          page,     \* the next page to ask for
          buf,      \* items of the current page not yet examined
          st,       \* [c, r, died, acts] - the work directory and the ghost set of deviations taken
          log,      \* page numbers requested by this run
          evs,      \* the events so far: [kind, run, before |-> page about to be requested, pos]
          \* ghosts for the theorems
          feed0,    \* the feed when the first refresh began
          start,    \* [feed, c, r] when this run began (feed: at its first request)
          prev,     \* [pc, c, r, log] of the previous run (pc = "none" in run 1)
          known     \* every entry that ever was in the feed
vars == <<feed, marks, size, tail, run, pc, page, buf, st, log, evs, feed0, start, prev, known>>

NoCands == [u \in Uids |-> Absent]
Init == /\ \E s \in Setups : feed = s.feed /\ marks = s.marks
        /\ size \in (IF Flavour = "djangoplicity" THEN PageSizes ELSE {0})
        /\ tail \in (IF Flavour = "djangoplicity" THEN Tails ELSE {"404"})
        /\ run = 1 /\ pc = "request" /\ page = 1 /\ buf = <<>> /\ log = <<>> /\ evs = <<>>
        /\ st = [c |-> NoCands, r |-> {}, died |-> FALSE, acts |-> {}]
        /\ feed0 = feed /\ start = [feed |-> feed, c |-> NoCands, r |-> {}]
        /\ prev = [pc |-> "none", c |-> NoCands, r |-> {}, log |-> <<>>]
        /\ known = {feed[k] : k \in DOMAIN feed}

\* ---- the source asks for a page
RequestAstropix ==
    /\ Flavour = "astropix" /\ pc = "request"
    /\ log' = Append(log, 1) /\ buf' = feed /\ pc' = "items"
    /\ start' = [start EXCEPT !.feed = feed]
    /\ UNCHANGED <<feed, marks, size, tail, run, page, st, evs, feed0, prev, known>>
RequestPage ==
    /\ Flavour = "djangoplicity" /\ pc = "request"
    /\ IF page > MaxPage THEN pc' = "capped" /\ UNCHANGED <<buf, log>>
       ELSE /\ log' = Append(log, page)
            /\ IF PageExists(feed, size, page) THEN buf' = PageItems(feed, size, page) /\ pc' = "items"
               ELSE IF tail = "404" THEN buf' = <<>> /\ pc' = "done"                    \* `if resp is None: break`
               ELSE buf' = <<>> /\ pc' = "items"                                        \* NoStopOnEmptyPage: an empty list is just a page
    /\ start' = IF page = 1 THEN [start EXCEPT !.feed = feed] ELSE start
    /\ UNCHANGED <<feed, marks, size, tail, run, page, st, evs, feed0, prev, known>>
\* ---- refresh_impl's loop body
ExamineNext ==
    /\ pc = "items" /\ buf # <<>>
    /\ LET n == Examine(st, Head(buf), marks)
       IN st' = n /\ (IF n.died THEN pc' = "died" /\ buf' = <<>> ELSE pc' = pc /\ buf' = Tail(buf))
    /\ UNCHANGED <<feed, marks, size, tail, run, page, log, evs, feed0, start, prev, known>>
EndOfPage ==
    /\ pc = "items" /\ buf = <<>>
    /\ IF Flavour = "astropix" THEN pc' = "done" /\ page' = page ELSE pc' = "request" /\ page' = page + 1
    /\ UNCHANGED <<feed, marks, size, tail, run, buf, st, log, evs, feed0, start, prev, known>>
\* ---- the feed changes between two requests (or between two refresh commands)
Fresh(k) == Entry(IF k = 0 THEN "p" ELSE "q", "plain", "Observation", "TAN", TRUE, 90 + k)
CanChange == pc = "request" /\ (page > 1 \/ run > 1) /\ Len(evs) < MaxEvents
Grow == /\ "grow" \in EventKinds /\ CanChange
        /\ feed' = <<Fresh(Len(evs))>> \o feed                                           \* newest first
        /\ known' = known \cup {Fresh(Len(evs))}
        /\ evs' = Append(evs, [kind |-> "grow", run |-> run, before |-> page, pos |-> 0])
        /\ UNCHANGED <<marks, size, tail, run, pc, page, buf, st, log, feed0, start, prev>>
Shrink == /\ "shrink" \in EventKinds /\ CanChange
          /\ \E k \in DOMAIN feed :
                /\ feed' = SubSeq(feed, 1, k - 1) \o SubSeq(feed, k + 1, Len(feed))
                /\ evs' = Append(evs, [kind |-> "shrink", run |-> run, before |-> page, pos |-> k])
          /\ UNCHANGED <<marks, size, tail, run, pc, page, buf, st, log, feed0, start, prev, known>>
\* ---- the operator types `toasty pipeline refresh` again
Again == /\ pc \in {"done", "died"} /\ run < Runs
         /\ run' = run + 1 /\ pc' = "request" /\ page' = 1 /\ buf' = <<>> /\ log' = <<>>
         /\ prev' = [pc |-> pc, c |-> st.c, r |-> st.r, log |-> log]
         /\ st' = [st EXCEPT !.died = FALSE]
         /\ start' = [feed |-> feed, c |-> st.c, r |-> st.r]
         /\ UNCHANGED <<feed, marks, size, tail, evs, feed0, known>>
Next == RequestAstropix \/ RequestPage \/ ExamineNext \/ EndOfPage \/ Grow \/ Shrink \/ Again
Spec == Init /\ [][Next]_vars

\* ================================================================================================ theorems
Ended == pc \in {"done", "died"}
Final == (Ended /\ run = Runs) \/ pc = "capped"
EvThisRun == {k \in DOMAIN evs : evs[k].run = run /\ evs[k].before > 1}
Quiet == EvThisRun = {}                                  \* nothing happened between this run's requests
OnlyGrew == \A k \in EvThisRun : evs[k].kind = "grow"
SetOf(sq) == {sq[k] : k \in DOMAIN sq}
\* the last entry of the list that writes candidate u
LastFor(list, u) == LET ks == {k \in DOMAIN list : Eligible(list[k]) /\ UidOf(list[k]) = u} IN
                    IF ks = {} THEN 0 ELSE list[CHOOSE k \in ks : \A j \in ks : j <= k].tag
Clash(list) == \E a \in DOMAIN list, b \in DOMAIN list : Eligible(list[a]) /\ NotActionable(list[b]) /\ UidOf(list[a]) = UidOf(list[b])

TypeOK == /\ pc \in {"request", "items", "done", "died", "capped"} /\ run \in 1..Runs /\ page \in 1..(MaxPage + 1)
          /\ st.c \in [Uids -> [ex : BOOLEAN, tag : Nat, full : BOOLEAN]] /\ st.r \subseteq Uids
          /\ Len(evs) <= MaxEvents
\* (1) a candidate file with content records an eligible entry that was in the feed, under that entry's id, and the store has
\*     neither index.wtml nor skip.flag for it: NO ineligible entry becomes a candidate, on any path
OnlyEligible == \A u \in Uids : (st.c[u].ex /\ st.c[u].full) =>
                    /\ Mark(marks, u) = "none"
                    /\ \E e \in known : e.tag = st.c[u].tag /\ Eligible(e) /\ UidOf(e) = u
\* (2) an empty candidate file exists only for a malformed entry, and only after a run died on it
EmptyOnlyAfterDeath == \A u \in Uids : (st.c[u].ex /\ ~st.c[u].full) =>
                    /\ (pc = "died" \/ prev.pc = "died")
                    /\ \E e \in known : e.tag = st.c[u].tag /\ Fatal(e) /\ UidOf(e) = u
\* (3) page boundaries do not matter: a run during which the feed did not change leaves exactly what examining the whole list in
\*     one go leaves - same candidates, same rejects, died or not - for every page size
PagingIsTransparent == (Ended /\ Quiet) =>
                    LET s == Static([c |-> start.c, r |-> start.r, died |-> FALSE, acts |-> {}], Served(start.feed), marks)
                    IN st.c = s.c /\ st.r = s.r /\ (pc = "died") = s.died
\* (4) ... and when it ends normally: every eligible entry has exactly its candidate (the last entry of that id in listing order),
\*     and every candidate present comes from this list or was there before
ExactlyTheEligible == (pc = "done" /\ Quiet /\ ~Clash(Served(start.feed))) =>
                    LET list == Served(start.feed) IN
                    /\ \A k \in DOMAIN list : (Eligible(list[k]) /\ Mark(marks, UidOf(list[k])) = "none") =>
                          st.c[UidOf(list[k])] = [ex |-> TRUE, tag |-> LastFor(list, UidOf(list[k])), full |-> TRUE]
                    /\ \A u \in Uids : st.c[u].ex => (start.c[u] = st.c[u] \/ (LastFor(list, u) = st.c[u].tag /\ st.c[u].full))
\* (5) the stop condition: pages 1, 2, ... in order; a quiet run against a Django paginator asks for exactly one page past the last
PagesInOrder == \A k \in DOMAIN log : log[k] = k
StopsOnePastTheEnd == (pc = "done" /\ Quiet) =>
                    IF Flavour = "astropix" THEN log = <<1>> ELSE Len(log) = NPages(start.feed, size) + 1
EndsAgainst404 == tail = "404" => pc # "capped"
\* (6) idempotence: a second refresh over an unchanged feed changes nothing and ends the way the first did
Idempotent == (Ended /\ run = 2 /\ evs = <<>>) => (st.c = prev.c /\ st.r = prev.r /\ pc = prev.pc /\ log = prev.log)
\* (7) a feed that only grows (new images listed first) loses nothing that was there when the run began
GrowthLosesNothing == (Flavour = "djangoplicity" /\ pc = "done" /\ OnlyGrew) =>
                    \A e \in SetOf(Served(start.feed)) : (Eligible(e) /\ Mark(marks, UidOf(e)) = "none") => st.c[UidOf(e)] = Written(e)
\* (8) the run after catches up: a quiet run that ends normally has every eligible entry of the feed as it then is (this is (4) for
\*     run 2; stated for the record together with what run 1 may have missed)
CatchesUp == (pc = "done" /\ Quiet /\ run = 2 /\ Flavour = "djangoplicity") =>
                    \A e \in SetOf(Served(feed)) : (Eligible(e) /\ Mark(marks, UidOf(e)) = "none") => st.c[UidOf(e)] = Written(e)
\* (9) a published / ignored image never gets a candidate file
StoreRespected == \A u \in Uids : Mark(marks, u) # "none" => ~st.c[u].ex
\* (10) rejects/ holds only entries refresh refused, and (as built) nothing at all
RejectsOnlyRefused == /\ \A u \in st.r : \E e \in known : NotActionable(e) /\ UidOf(e) = u
                      /\ Handler = "aborts" => st.r = {}
\* (11) the deviations are taken exactly where they are said to be
DeviationsWhereNamed == /\ ("RejectAborts" \in st.acts => Handler = "aborts" /\ Flavour = "astropix")
                        /\ ((\E u \in Uids : st.c[u].ex /\ ~st.c[u].full) => "MalformedLeavesEmpty" \in st.acts)
                        /\ (Flavour = "djangoplicity" => st.acts = {})

\* ---- ideal statements the code does not keep (negative controls)
NotActionableIsSkipped == pc = "died" => \E e \in known : Fatal(e)
NoEmptyCandidate == \A u \in Uids : st.c[u].ex => st.c[u].full
AlwaysEnds == pc # "capped"
NeverMisses == (pc = "done") => \A e \in SetOf(Served(start.feed)) \cap SetOf(Served(feed)) :
                    (Eligible(e) /\ Mark(marks, UidOf(e)) = "none") => st.c[UidOf(e)].ex
SeesFinalFeed == (pc = "done") => \A e \in SetOf(Served(feed)) : (Eligible(e) /\ Mark(marks, UidOf(e)) = "none") => st.c[UidOf(e)].ex
OneFilePerEntry == (pc = "done" /\ Quiet /\ start.c = NoCands) =>
                    Cardinality({u \in Uids : st.c[u].ex}) =
                    Cardinality({k \in DOMAIN Served(start.feed) : Eligible(Served(start.feed)[k]) /\ Mark(marks, UidOf(Served(start.feed)[k])) = "none"})
EligibleSurviveBadNeighbours == (Ended /\ Quiet) => \A e \in SetOf(Served(start.feed)) :
                    (Eligible(e) /\ Mark(marks, UidOf(e)) = "none") => st.c[UidOf(e)].ex
Ideals == [NotActionableIsSkipped |-> NotActionableIsSkipped, NoEmptyCandidate |-> NoEmptyCandidate, AlwaysEnds |-> AlwaysEnds,
           NeverMisses |-> NeverMisses, SeesFinalFeed |-> SeesFinalFeed, OneFilePerEntry |-> OneFilePerEntry,
           EligibleSurviveBadNeighbours |-> EligibleSurviveBadNeighbours]

=============================================================================
