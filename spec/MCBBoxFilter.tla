---- MODULE MCBBoxFilter ----
(* Stand-alone model of BBoxFilter for G = 4 (tlc -config MCBBoxFilter.cfg MCBBoxFilter.tla).          *)
(* checks/c07.py generates this module for the G it uses; Emit prints one row of verdicts per tile.   *)
EXTENDS BBoxFilter, Json
MCLatLonBases == {0, 6}
MCLatBoxSeq == <<<<-3, -1>>, <<-3, 1>>, <<-3, 3>>, <<-1, 1>>, <<-1, 3>>, <<1, 3>>>>
ASSUME {MCLatBoxSeq[i] : i \in DOMAIN MCLatBoxSeq} = LatBoxes
BminSeq == [i \in 1..TWOPI |-> 2 * i - 1 - TWOPI]
WSeq == [i \in 1..(G + 1) |-> 2 * i]
ASSUME {BminSeq[i] : i \in DOMAIN BminSeq} = BoxMins /\ {WSeq[i] : i \in DOMAIN WSeq} = Widths
Emit == ph = "tile" =>
  IF fam = "lon"
  THEN PrintT(<<"B", ToJson([fam |-> fam, c |-> cs,
                 v |-> [i \in DOMAIN BminSeq |-> [j \in DOMAIN WSeq |-> Accept(cs, MkBox(BminSeq[i], WSeq[j], MidLatBox))]]])>>)
  ELSE PrintT(<<"B", ToJson([fam |-> fam, c |-> cs,
                 v |-> [i \in 1..3 |-> [j \in 1..3 |-> [k \in DOMAIN MCLatBoxSeq |-> Accept(cs, MkBox(LatFamBmins[i], LatFamWs[j], MCLatBoxSeq[k]))]]]])>>)
====
