--------------------------- MODULE TileLockTrace ---------------------------
(* Trace validation (code -> spec) for TileLock: is a recorded run of the real *)
(* PyramidIO.update_image a behaviour of the specification?                    *)
(*                                                                             *)
(* The file named by the environment variable TRACES holds one JSON object per  *)
(* line:  {"cfg": <configuration record of TileLock>,                           *)
(*         "hidden": [names of the steps this recording cannot see],            *)
(*         "events": [{"ev": name, "p": process, "i": update index, ...}]}      *)
(* Event names and their payload (all as observed on the real run):             *)
(*   try      ok   - one SoftFileLock._acquire attempt and whether it succeeded *)
(*   read     px   - the image update_image handed to the body (projected)      *)
(*   modify   px   - the buffer when the body finished                          *)
(*   wbegin / wend - Image.save entered / finished;  release - lock released    *)
(*   final    tiles - what is on disk after every updater has finished          *)
(* Real-process recordings see only the body (read / modify, ordered by a       *)
(* ticket drawn under a shared lock) and the final files: the other steps are   *)
(* `hidden` and may be interposed by TLC.  Thread-level recordings see all.     *)
(* Each line is validated independently (tid = line number; the line itself is  *)
(* the frozen variable tr); register tid holds the longest consumed prefix; a   *)
(* trace is accepted iff that is all its events.                                *)
EXTENDS TileLock, Json, IOUtils

Traces == ndJsonDeserialize(IOEnv.TRACES)

VARIABLES tid, tr, i
tvars == <<vars, tid, tr, i>>

Events   == tr.events
Ev       == Events[i]
Is(name) == i <= Len(Events) /\ Ev.ev = name
Mine(p)  == Ev.p = p /\ Ev.i = upd[p]
Hid(name) == name \in Range(tr.hidden)
Eat      == i' = i + 1 /\ UNCHANGED <<tid, tr>>
Skip     == i' = i /\ UNCHANGED <<tid, tr>>

TraceInit == \E t \in DOMAIN Traces : tid = t /\ tr = Traces[t] /\ i = 1 /\ InitFor(Traces[t].cfg)

TraceNext ==
    \/ \E p \in Procs :
        \/ Is("try") /\ Mine(p) /\ TryAcquire(p) /\ ((pc'[p] = "locked") <=> Ev.ok) /\ Eat
        \/ Hid("try") /\ TryOK(p) /\ Skip
        \/ Is("read") /\ Mine(p) /\ Read(p) /\ buf'[p] = Ev.px /\ Eat
        \/ Hid("read") /\ Read(p) /\ Skip
        \/ Is("modify") /\ Mine(p) /\ Modify(p) /\ buf'[p] = Ev.px /\ Eat
        \/ Hid("modify") /\ Modify(p) /\ Skip
        \/ Is("wbegin") /\ Mine(p) /\ WriteBegin(p) /\ Eat
        \/ Hid("wbegin") /\ WriteBegin(p) /\ Skip
        \/ Is("wend") /\ Mine(p) /\ WriteEnd(p) /\ Eat
        \/ Hid("wend") /\ WriteEnd(p) /\ Skip
        \/ Is("release") /\ Mine(p) /\ Release(p) /\ Eat
        \/ Hid("release") /\ Release(p) /\ Skip
    \/ /\ Is("final") /\ AllDone
       /\ \A t \in Poss : tile[t].st = Ev.tiles[t].st /\ tile[t].px = Ev.tiles[t].px
       /\ UNCHANGED vars /\ Eat

TraceSpec == TraceInit /\ [][TraceNext]_tvars

\* bookkeeping: longest consumed prefix per trace (TLC registers; run with -workers 1)
Consumed == TLCSet(tid, IF TLCGet(tid) < i - 1 THEN i - 1 ELSE TLCGet(tid))
Report   == PrintT("CONSUMED " \o ToJson([t \in DOMAIN Traces |-> <<TLCGet(t), Len(Traces[t].events)>>]))
\* the specification's own theorems also hold along every accepted prefix
TraceSafe == Mutex /\ NoPartialRead /\ SerialPrefix /\ NoLostUpdate
=============================================================================
