---- MODULE WorkQueueSim ----
(* WorkQueue with a `lastAct` history variable and a JSON emitter, for replaying TLC behaviours into the *)
(* real code (mechanism M2).  Run with -simulate -workers 1: the always-true invariant Emit is evaluated  *)
(* on the states of each simulated behaviour in order.                                                    *)
EXTENDS WorkQueue, Json
VARIABLE lastAct
NoFaults == {{}}
AnyOneFault == {{}} \cup {{i} : i \in Items}
AnyFaults == SUBSET Items
SimInit == Init /\ lastAct = <<"Init", 0>>
A(act, name, who) == act /\ lastAct' = <<name, who>>
SimNext == \/ A(PPut, "PPut", 0) \/ A(PPutFull, "PPutFull", 0) \/ A(PClose, "PClose", 0)
           \/ A(PJoinThread, "PJoinThread", 0) \/ A(PJoinThreadPoll, "PJoinThreadPoll", 0) \/ A(PSetEv, "PSetEv", 0) \/ A(PJoinW, "PJoinW", 0) \/ A(Flush, "Flush", 0)
           \/ \E w \in Workers : \/ A(WSample(w), "WSample", w) \/ A(WAcquire(w), "WAcquire", w)
                                 \/ A(WLockTimeout(w), "WLockTimeout", w) \/ A(WRecv(w), "WRecv", w)
                                 \/ A(WPollTimeout(w), "WPollTimeout", w) \/ A(WCheckDone(w), "WCheckDone", w)
                                 \/ A(WCbStart(w), "WCbStart", w) \/ A(WCbEnd(w), "WCbEnd", w)
SimSpec == SimInit /\ [][SimNext]_<<vars, lastAct>>
Emit == PrintT(<<"TR", ToJson([lvl |-> TLCGet("level"), act |-> lastAct[1], who |-> lastAct[2],
          faults |-> faults, next |-> next, buf |-> buf, pipe |-> pipe, sem |-> sem, rlock |-> rlock, doneEv |-> doneEv,
          ppc |-> ppc, pjoin |-> pjoin, wpc |-> wpc, witem |-> witem, wflag |-> wflag,
          started |-> started, processed |-> processed, outcome |-> outcome])>>)
====
