SPECIFICATION Spec
CONSTANTS
 Ids <- MCIds
 Kind <- MCKind
 Feed <- MCFeed
 Careful = TRUE
 RejectAtRefresh = "aborts"
 ListingOrder <- MCFree
INVARIANT TypeOK TodoHasCandidate OutputWasFetched PublishedInStore RejectsApart OnlyRejectsFlagged
INVARIANT OnlyActionablePublished DirsExist OnlyOffered Idempotent
INVARIANT ExclusiveCache ExclusiveOutput NoRework PublishedNotRequeued NeverWedged
PROPERTY Flow OkPublished RejectFlagged
CHECK_DEADLOCK FALSE
