SPECIFICATION Spec
CONSTANTS
 ArgSets <- MCArgSets
 PilSeeds <- MCPilSeeds
 PathFiles <- MCPathFiles
 MaxCalls = 3
 Scripts = {}
INVARIANT TypeOK
INVARIANT ClassDefaultsUntouched
INVARIANT ConfiguredOptionsStick
INVARIANT FreshLoaderHasDefaults
INVARIANT GlobalRestored
INVARIANT FileLoadsIndependentOfHistory
INVARIANT PilLoadOfPristineArgument
INVARIANT PilLoadOfCurrentArgument
INVARIANT ArgumentCopiedFirst
INVARIANT PlainLoadTouchesNothing
INVARIANT RepeatedPilLoadStableAsBuilt
PROPERTY LoadsLeaveLoaders
PROPERTY FailedCreateLeavesSlot
PROPERTY OnlyPilLoadsTouchArguments
CHECK_DEADLOCK FALSE
