------------------------------ MODULE SampleJobs ------------------------------
(* Several SEPARATELY STARTED updating-mode sampling runs ("jobs": toast.sample_layer_filtered / Builder.toast_base    *)
(* with a tile filter, each a process of its own, possibly on another host) working on ONE pyramid directory at         *)
(* overlapping times - the use the updating mode exists for (two overlapping images tiled into one TOAST pyramid).      *)
(* Each job walks the leaves of its own filtered pyramid in any order; for a leaf, ToastSampler.visit_callback           *)
(*     JSample    calls the job's sampler (outside any lock; the values arrive in any representation, SampleOps.tla)    *)
(*     JAcquire   enters the critical section of PyramidIO.update_image          TileLock!TryAcquire, key = position    *)
(*     JRead      is handed the tile as stored (absent = all undefined) and merges its samples in   TileLock!Read, !Modify *)
(*     JWrite     stores the merged tile (removes an all-undefined one) and leaves                 TileLock!Write.., !Release *)
(* The critical section is TileLock.tla's (property C10 establishes Mutex / NoPartialRead / NoLostUpdate for it, down    *)
(* to lock-file polls and partially written files); here it is composed, at that granularity, with the sampling         *)
(* machine of SampleLayer.tla.  Locked = FALSE is the negative control: read-merge-write without exclusion (or with an   *)
(* exclusion that some path around update_image does not take, e.g. "the tile is not there yet, so there is nothing to   *)
(* merge with") - TLC refutes JFinalOK and JKept for it.                                                                *)
(*                                                                                                                       *)
(* One behaviour = one configuration cfg \in JobCfgs (frozen):                                                           *)
(*   cfg.id     a number naming the configuration                                                                        *)
(*   cfg.jobs   sequence of [filter |-> accepted positions, region |-> the band where the job's sampler is defined]      *)
(*   cfg.pre    band sampled into the union of the leaf sets by an earlier, finished run (<<0, 0>>: fresh directory)     *)
EXTENDS SampleOps
CONSTANTS JobCfgs, Locked, Reprs,
          MaxJobs      \* bound on Len(cfg.jobs) (for the fairness condition)

VARIABLES cfg, bottomUp,       \* frozen
          jtodo,               \* job -> leaves it still has to visit
          jpc,                 \* job -> "idle" | "sampled" | "locked" | "merged"
          jcur,                \* job -> the leaf it is working on
          jbuf,                \* job -> file rows: its samples ("sampled", "locked"), the merged tile ("merged")
          lock,                \* positions whose lock file exists
          files,               \* tile files (pos -> stored rows)
          jdone                \* history: job -> leaves whose update it has completed
jvars == <<cfg, bottomUp, jtodo, jpc, jcur, jbuf, lock, files, jdone>>

Jobs == 1..Len(cfg.jobs)
JLeaves(j) == LeavesOf(cfg.jobs[j].filter)
JLeafSet == UNION {JLeaves(j) : j \in Jobs}
Mine(j, p) == Stored(Sampled(p, cfg.jobs[j].region), bottomUp)         \* job j's contribution to tile p, as file rows
PreFiles == LET have == {p \in JLeafSet : ~AllU(Sampled(p, cfg.pre))} IN [p \in have |-> Stored(Sampled(p, cfg.pre), bottomUp)]

JInit == /\ cfg \in JobCfgs /\ bottomUp \in BOOLEAN
         /\ jtodo = [j \in Jobs |-> JLeaves(j)]
         /\ jpc = [j \in Jobs |-> "idle"]
         /\ jcur = [j \in Jobs |-> <<0, 0, 0>>]
         /\ jbuf = [j \in Jobs |-> Blank]
         /\ lock = {}
         /\ files = PreFiles
         /\ jdone = [j \in Jobs |-> {}]

JSample(j, p) == \E rep \in Reprs :
    /\ jpc[j] = "idle" /\ p \in jtodo[j]
    /\ jbuf' = [jbuf EXCEPT ![j] = Stored(Returned(p, cfg.jobs[j].region, rep), bottomUp)]
    /\ jcur' = [jcur EXCEPT ![j] = p]
    /\ jpc' = [jpc EXCEPT ![j] = "sampled"]
    /\ UNCHANGED <<cfg, bottomUp, jtodo, lock, files, jdone>>
JAcquire(j) ==
    /\ jpc[j] = "sampled"
    /\ Locked => jcur[j] \notin lock
    /\ lock' = IF Locked THEN lock \cup {jcur[j]} ELSE lock
    /\ jpc' = [jpc EXCEPT ![j] = "locked"]
    /\ UNCHANGED <<cfg, bottomUp, jtodo, jcur, jbuf, files, jdone>>
JRead(j) ==
    /\ jpc[j] = "locked"
    /\ LET p == jcur[j]
           old == IF p \in DOMAIN files THEN files[p] ELSE Blank
       IN jbuf' = [jbuf EXCEPT ![j] = Merge(old, jbuf[j])]
    /\ jpc' = [jpc EXCEPT ![j] = "merged"]
    /\ UNCHANGED <<cfg, bottomUp, jtodo, jcur, lock, files, jdone>>
JWrite(j) ==
    /\ jpc[j] = "merged"
    /\ LET p == jcur[j] IN
       /\ files' = IF AllU(jbuf[j]) THEN [q \in DOMAIN files \ {p} |-> files[q]]
                   ELSE [q \in DOMAIN files \cup {p} |-> IF q = p THEN jbuf[j] ELSE files[q]]
       /\ lock' = lock \ {p}
       /\ jtodo' = [jtodo EXCEPT ![j] = @ \ {p}]
       /\ jdone' = [jdone EXCEPT ![j] = @ \cup {p}]
    /\ jpc' = [jpc EXCEPT ![j] = "idle"]
    /\ jcur' = [jcur EXCEPT ![j] = <<0, 0, 0>>]
    /\ jbuf' = [jbuf EXCEPT ![j] = Blank]
    /\ UNCHANGED <<cfg, bottomUp>>
JStep(j) == (\E p \in jtodo[j] : JSample(j, p)) \/ JAcquire(j) \/ JRead(j) \/ JWrite(j)
JNext == \E j \in Jobs : JStep(j)
JSpec == JInit /\ [][JNext]_jvars
JFairSpec == JSpec /\ \A j \in 1..MaxJobs : WF_jvars(j \in Jobs /\ JStep(j))

\* ---- the property, for every interleaving of the jobs: once all have returned every leaf of any job's pyramid holds, in
\* display orientation, the value of every sampler (and of the earlier run) defined at that pixel's own centre - no run's
\* pixels are lost, nothing else exists
InCS(j) == jpc[j] \in {"locked", "merged"}
JAllDone == \A j \in Jobs : jpc[j] = "idle" /\ jtodo[j] = {}
JCovered(p, pt) == InRegion(pt, cfg.pre) \/ \E j \in Jobs : p \in JLeaves(j) /\ InRegion(pt, cfg.jobs[j].region)
JExpected(p) == LET g == DisplayGrid(p) IN
                [r \in 0..(NPix - 1) |-> [c \in 0..(NPix - 1) |-> IF JCovered(p, g[r][c]) THEN g[r][c] ELSE U]]
JFinalOK == JAllDone =>
    /\ DOMAIN files = {p \in JLeafSet : ~AllU(JExpected(p))}
    /\ \A p \in DOMAIN files : files[p] = Stored(JExpected(p), bottomUp)
\* at every moment: what a job has finished writing stays (an update never takes a defined pixel away)
JKept == \A j \in Jobs : \A p \in jdone[j] : LET m == Mine(j, p) IN \A fr \in 0..(NPix - 1) : \A c \in 0..(NPix - 1) :
            m[fr][c] # U => (p \in DOMAIN files /\ files[p][fr][c] = m[fr][c])
JMutex == Locked => \A j1, j2 \in Jobs : (j1 # j2 /\ InCS(j1) /\ InCS(j2)) => jcur[j1] # jcur[j2]
JLockOK == Locked => lock = {jcur[j] : j \in {i \in Jobs : InCS(i)}}
JOnlyLeaves == DOMAIN files \subseteq JLeafSet
JOwnPixels == \A p \in DOMAIN files : LET g == DisplayGrid(p) IN \A fr \in 0..(NPix - 1) : \A c \in 0..(NPix - 1) :
                files[p][fr][c] \in {U, g[IF bottomUp THEN NPix - 1 - fr ELSE fr][c]}
JTermination == <>JAllDone
=============================================================================
