----------------------------- MODULE BBoxFilter -----------------------------
(* The tile-versus-latitude/longitude-box test of toasty/_libtoasty.pyx                                     *)
(*   _tile_intersects_latlon_bbox(corner_lonlats, bbox_lon_min, bbox_lon_max, bbox_lat_min, bbox_lat_max)    *)
(* reached through samplers._latlon_tile_filter (WcsSampler.filter, ChunkedPlateCarreeSampler.filter).       *)
(* Code regions transcribed:  lat reject (LatReject)  -  pole accept (PoleAccept)  -  the 5-comparator      *)
(* sorting network (Sort4)  -  the re-insertion unwrap loop (Reinsert / Unwrap)  -  the two shift loops     *)
(* (ShiftUp / ShiftDown)  -  the two overlap tests (LonTest).                                                *)
(*                                                                                                        *)
(* Angles are integers in units of pi/G (G even): 2*pi = 2G, pi = G, pi/2 = G/2.  Corner longitudes and     *)
(* latitudes are EVEN units, box edges are ODD units, so no comparison of the code is ever a tie and the    *)
(* grid verdict equals the floating-point verdict of the compiled function for the same case.              *)
(*                                                                                                        *)
(* Ground truth (what the property talks about): the tile's corner hull = latitude range of the corners x   *)
(* the minimal arc containing the corner longitudes (span < pi; a span of exactly pi is ambiguous and only  *)
(* pole-touching level-1 tiles have it - those are accepted by PoleAccept).  Every pixel centre of a tile   *)
(* lies in its corner hull (checked on real tiles by the harness), so                                       *)
(*      NoFalseNegative ==  hull meets the box (mod 2*pi)  =>  Accept                                       *)
(* is the sentence "the filter accepts every tile that has a pixel centre inside the box".                  *)
EXTENDS Integers, Sequences, FiniteSets, TLC

CONSTANT G            \* grid resolution: units of pi/G, a multiple of 4
ASSUME G \in Nat /\ G >= 4 /\ G % 4 = 0      \* pi/2 is an even unit

TWOPI  == 2 * G
PI     == G
HALFPI == G \div 2

\* ------------------------------------------------------------------ transcription of the code
\* corners: sequence of four <<lon, lat>>
Lons(cs) == [i \in 1..4 |-> cs[i][1]]
Lats(cs) == [i \in 1..4 |-> cs[i][2]]
Min2(a, b) == IF a < b THEN a ELSE b
Max2(a, b) == IF a > b THEN a ELSE b
MinOf(s) == Min2(Min2(s[1], s[2]), Min2(s[3], s[4]))      \* s: four numbers
MaxOf(s) == Max2(Max2(s[1], s[2]), Max2(s[3], s[4]))

LatReject(cs, latmin, latmax) == latmin > MaxOf(Lats(cs)) \/ latmax < MinOf(Lats(cs))
\* `tile_lat_max > 1.5707963 or tile_lat_min < -1.5707963`: the threshold sits just inside the pole, i.e.
\* strictly between the even units HALFPI - 2 and HALFPI
PoleAccept(cs) == MaxOf(Lats(cs)) > HALFPI - 1 \/ MinOf(Lats(cs)) < 1 - HALFPI

OrderPair(s, i, j) == IF s[i] > s[j] THEN [s EXCEPT ![i] = s[j], ![j] = s[i]] ELSE s
\* _order_pair_1d(lons, 0, 2); (1, 3); (0, 1); (2, 3); (1, 2)     (1-based here)
Sort4(s) == OrderPair(OrderPair(OrderPair(OrderPair(OrderPair(s, 1, 3), 2, 4), 1, 2), 3, 4), 2, 3)

\* one pass of the while body: remove lons[0], add 2*pi, re-insert before the first larger element
\* (for i in range(3): if lons[i+1] > updated: lons[i] = updated; break; lons[i] = lons[i+1]  else: lons[3] = updated)
Reinsert(s) ==
    LET u    == s[1] + TWOPI
        rest == <<s[2], s[3], s[4]>>
        pos  == Cardinality({i \in 1..3 : \A j \in 1..i : rest[j] <= u})   \* elements shifted left before the break
    IN [i \in 1..4 |-> IF i <= pos THEN rest[i] ELSE IF i = pos + 1 THEN u ELSE rest[i - 1]]
RECURSIVE Unwrap(_)
Unwrap(s) == IF s[4] - s[1] > PI THEN Unwrap(Reinsert(s)) ELSE s
RECURSIVE ShiftUp(_, _, _)
ShiftUp(lo, hi, bmin) == IF lo < bmin THEN ShiftUp(lo + TWOPI, hi + TWOPI, bmin) ELSE <<lo, hi>>
RECURSIVE ShiftDown(_, _, _)
ShiftDown(lo, hi, bmin) == IF lo - bmin > TWOPI THEN ShiftDown(lo - TWOPI, hi - TWOPI, bmin) ELSE <<lo, hi>>

LonTest(lons, bmin, bmax) ==
    LET s == Unwrap(Sort4(lons))
        a == ShiftUp(s[1], s[4], bmin)
        b == ShiftDown(a[1], a[2], bmin)
    IN (b[1] < bmax) \/ (b[2] > bmin + TWOPI)

\* the whole function; box = [lonmin, lonmax, latmin, latmax]
Accept(cs, box) ==
    IF LatReject(cs, box.latmin, box.latmax) THEN FALSE
    ELSE IF PoleAccept(cs) THEN TRUE
    ELSE LonTest(Lons(cs), box.lonmin, box.lonmax)

\* ------------------------------------------------------------------ ground truth
\* an arc [lo, hi] (hi >= lo, any branch) meets the box [bmin, bmax] modulo 2*pi
ArcMeets(lo, hi, bmin, bmax) == \E k \in -4..4 : lo + k * TWOPI <= bmax /\ hi + k * TWOPI >= bmin
LatMeets(cs, latmin, latmax) == MinOf(Lats(cs)) <= latmax /\ MaxOf(Lats(cs)) >= latmin
TouchesPole(cs) == MaxOf(Lats(cs)) = HALFPI \/ MinOf(Lats(cs)) = -HALFPI
\* minimal arc of the four longitudes: the start a (one of them, reduced mod 2*pi) for which the largest
\* offset is smallest; unique when its span is < pi
Span(lons, a) == MaxOf([i \in 1..4 |-> (lons[i] - a) % TWOPI])
MinArc(lons) ==
    LET starts == {lons[i] % TWOPI : i \in 1..4}
        a == CHOOSE x \in starts : \A y \in starts : Span(lons, x) <= Span(lons, y)
    IN <<a, a + Span(lons, a)>>
HullMeets(cs, box) ==
    /\ LatMeets(cs, box.latmin, box.latmax)
    /\ \/ TouchesPole(cs)                    \* at a pole the corner longitude is meaningless: every longitude is in the tile
       \/ LET arc == MinArc(Lons(cs)) IN ArcMeets(arc[1], arc[2], box.lonmin, box.lonmax)

\* ------------------------------------------------------------------ the case space
\* A tile is built from its ground truth: the minimal arc starts at `base` (corner 1), the other corners sit at
\* even offsets <= PI - 2 (so the arc is < pi and unique), every corner is then moved to an arbitrary branch
\* (ks) and given a latitude.  Every 4-set of longitudes with a minimal arc < pi arises this way.
Evens(S) == {x \in S : x % 2 = 0}
Odds(S)  == {x \in S : x % 2 # 0}
Bases    == Evens(0..(TWOPI - 1))
Offsets  == Evens(0..(PI - 2))
Branches == {-1, 0}
BoxMins  == Odds((-TWOPI)..TWOPI)
Widths   == Evens(2..(TWOPI + 2))           \* up to and beyond 2*pi
LatVals  == Evens((-HALFPI)..HALFPI)
LatEdges == Odds((-HALFPI - 1)..(HALFPI + 1))
LatBoxes == {lb \in LatEdges \X LatEdges : lb[1] < lb[2]}
MidLat   == 0
MidLatBox == <<-1, 1>>

CONSTANT LatLonBases     \* the base longitudes used for the latitude family (a subset of Bases keeps it small)
LatFamBmins == <<1 - TWOPI, 1, PI + 1>>
LatFamWs    == <<2, PI, TWOPI + 2>>
LatFamOffs  == {<<0, 2, 0>>, <<2, 2, 0>>}
LatFamKs    == {[i \in 1..4 |-> 0], [i \in 1..4 |-> IF i = 2 THEN -1 ELSE 0]}

MkCorners(b, o, kk, ll) == [i \in 1..4 |-> <<b + (IF i = 1 THEN 0 ELSE o[i - 1]) + kk[i] * TWOPI, ll[i]>>]
MkBox(bm, ww, lb) == [lonmin |-> bm, lonmax |-> bm + ww, latmin |-> lb[1], latmax |-> lb[2]]

\* state: ph = "tile" (a tile has been chosen, the box is a placeholder) or "case" (tile and box chosen)
\*   fam  "lon": every longitude configuration x every longitude box, mid latitudes
\*        "lat": every latitude configuration x every latitude box, a few longitude configurations/boxes
\*   hull = <<lo, hi>> the minimal arc of the corner longitudes, known by construction
VARIABLES fam, ph, hull, cs, box
vars == <<fam, ph, hull, cs, box>>

InitLon == /\ fam = "lon" /\ ph = "tile"
           /\ \E b \in Bases, o \in Offsets \X Offsets \X Offsets, kk \in [1..4 -> Branches] :
                 /\ cs = MkCorners(b, o, kk, [i \in 1..4 |-> MidLat])
                 /\ hull = <<b, b + Max2(o[1], Max2(o[2], o[3]))>>
           /\ box = MkBox(1 - TWOPI, 2, MidLatBox)
InitLat == /\ fam = "lat" /\ ph = "tile"
           /\ \E b \in LatLonBases, o \in LatFamOffs, kk \in LatFamKs, ll \in [1..4 -> LatVals] :
                 /\ cs = MkCorners(b, o, kk, ll)
                 /\ hull = <<b, b + Max2(o[1], Max2(o[2], o[3]))>>
           /\ box = MkBox(1 - TWOPI, 2, MidLatBox)
Init == InitLon \/ InitLat

PickBox == /\ ph = "tile" /\ ph' = "case"
           /\ \/ fam = "lon" /\ \E bm \in BoxMins, ww \in Widths : box' = MkBox(bm, ww, MidLatBox)
              \/ fam = "lat" /\ \E i \in 1..3, j \in 1..3, lb \in LatBoxes : box' = MkBox(LatFamBmins[i], LatFamWs[j], lb)
           /\ UNCHANGED <<fam, hull, cs>>
\* Steps that do not change the geometry: a corner moves by a whole turn, the box moves by a whole turn.
Turn(x) == IF x >= 0 THEN x - TWOPI ELSE x + TWOPI
Rebranch(i) == /\ ph = "case" /\ fam = "lon"
               /\ cs' = [cs EXCEPT ![i] = <<Turn(cs[i][1]), cs[i][2]>>]
               /\ UNCHANGED <<fam, ph, hull, box>>
TurnBox     == /\ ph = "case" /\ fam = "lon"
               /\ box' = [box EXCEPT !.lonmin = Turn(@), !.lonmax = Turn(box.lonmin) + (box.lonmax - box.lonmin)]
               /\ UNCHANGED <<fam, ph, hull, cs>>
Next == PickBox \/ (\E i \in 1..4 : Rebranch(i)) \/ TurnBox
Spec == Init /\ [][Next]_vars

Verdict == Accept(cs, box)
\* ground truth with the arc known by construction
Meets == /\ LatMeets(cs, box.latmin, box.latmax)
         /\ (TouchesPole(cs) \/ ArcMeets(hull[1], hull[2], box.lonmin, box.lonmax))

\* ------------------------------------------------------------------ theorems (INVARIANTs / action property)
\* (the placeholder box of a "tile" state is a case like any other, so no guard on ph is needed)
NoFalseNegative == Meets => Verdict
\* the converse away from the poles: the test is exact on the corner hull (not needed by C07; documents tightness
\* and makes the verdict a function of the geometry alone)
NoFalsePositive == (Verdict /\ ~PoleAccept(cs)) => Meets
\* the verdict depends on the geometry only, not on the branch a longitude or the box is given on: every
\* Rebranch / TurnBox neighbour of a state has the same verdict (stated on the state so that TLC checks it as an
\* invariant; it is the action property [][Verdict' = Verdict]_vars of the two geometry-preserving steps)
BranchFree ==
    /\ \A i \in 1..4 : Accept([cs EXCEPT ![i] = <<Turn(cs[i][1]), cs[i][2]>>], box) = Verdict
    /\ Accept(cs, [box EXCEPT !.lonmin = Turn(@), !.lonmax = Turn(box.lonmin) + (box.lonmax - box.lonmin)]) = Verdict
\* A multi-image TOAST tiling prunes its downsampling stage with the UNION of the per-image footprint filters
\* (fits_tiler._tile_toast: `for filter in filters: if filter(tile): return True`).  The union is taken over the
\* ENTRIES of the collection (a sequence: the same file may be listed more than once with different HDUs), and it
\* has no false negative for the union of the boxes, whatever the order and whether or not entries coincide.
MeetsB(b) == /\ LatMeets(cs, b.latmin, b.latmax)
             /\ (TouchesPole(cs) \/ ArcMeets(hull[1], hull[2], b.lonmin, b.lonmax))
UnionVerdict(tile, boxes) == \E n \in DOMAIN boxes : Accept(tile, boxes[n])
OtherBox == [box EXCEPT !.lonmin = @ + PI, !.lonmax = @ + PI]        \* a second footprint, half a turn away
UnionNoFalseNegative ==
    \A boxes \in {<<box, OtherBox>>, <<OtherBox, box>>, <<box, box>>} :
        (\E n \in DOMAIN boxes : MeetsB(boxes[n])) => UnionVerdict(cs, boxes)
\* the sorting network sorts; the unwrap loop ends sorted with exactly the minimal arc
SortOK == LET s == Sort4(Lons(cs)) IN \A i \in 1..3 : s[i] <= s[i + 1]
UnwrapOK == LET s == Unwrap(Sort4(Lons(cs)))
            IN /\ \A i \in 1..3 : s[i] <= s[i + 1]
               /\ s[4] - s[1] <= PI
               /\ s[1] % TWOPI = hull[1] /\ s[4] - s[1] = hull[2] - hull[1]
\* the arc known by construction is the minimal arc as defined from the longitudes alone
HullIsMinArc == MinArc(Lons(cs)) = hull
=============================================================================
