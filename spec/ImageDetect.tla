----------------------------- MODULE ImageDetect -----------------------------
(* G05 - mode detection: which mode an array (number of axes, size of the    *)
(* third axis, dtype) or a PIL image (its mode string) gets, or that it is   *)
(* refused.  c = [t, nd, planes, dt, pm]; t = "array": Image.from_array /    *)
(* ImageMode.from_array_info; t = "pil": Image.from_pil / load_pil;          *)
(* t = "mode" (pm = the mode): its array, its maskable buffer, its PIL view, *)
(* its row of the save / load table.                                         *)
EXTENDS ImageModes, Json

Nds == 0..4
Planes == 1..5
Dts == {"f2", "f4", "f8", "u1", "u2", "u4", "i1", "i2", "i4", "i8", "b1", "c8"}
PilModes == {"RGB", "RGBA", "F", "L", "LA", "P", "I", "I;16", "1", "CMYK"}
ArrayCases == {[t |-> "array", nd |-> n, planes |-> IF n = 3 THEN p ELSE 0, dt |-> d, pm |-> ""] : n \in Nds, p \in Planes, d \in Dts}
PilCases == {[t |-> "pil", nd |-> 0, planes |-> 0, dt |-> "", pm |-> m] : m \in PilModes}
ModeCases == {[t |-> "mode", nd |-> 0, planes |-> 0, dt |-> "", pm |-> m] : m \in Modes}
Cases == ArrayCases \cup PilCases \cup ModeCases

VARIABLE c
Init == c \in Cases
Differ(a, b) == Cardinality({f \in {"nd", "planes", "dt", "pm"} : a[f] # b[f]})
Next == c' \in {d \in Cases : d.t = c.t /\ (Differ(c, d) = 1 \/ (c.nd = 3) # (d.nd = 3))}
Spec == Init /\ [][Next]_c

A == FromArrayMode(c.nd, c.planes, c.dt)             \* Image.from_array(arr).mode, "none" = ValueError
AI == FromArrayInfoMode(c.nd, c.planes, c.dt)        \* ImageMode.from_array_info(shape, dtype)
PM == ModeOfPil(c.pm)                                \* Image.from_pil(img).mode, "none" = refused
\* ImageLoader().load_pil(img).mode: an unknown PIL mode is converted to RGB first
LM == IF c.pm \in StdPil THEN ModeOfPil(c.pm) ELSE "RGB"

\* detection yields one of the eight modes or refuses
DetectsAMode == c.t = "array" => A \in Modes \cup {"none"}
\* a mode is detected exactly for the array of that mode (make_maskable_buffer / asarray): detection inverts ArrayKind
DetectInvertsArrayKind == (c.t = "array" /\ A # "none") =>
    LET k == ArrayKind(A) IN k.nd = EffNd(c.nd) /\ k.dt = c.dt /\ (k.nd = 3 => k.planes = c.planes)
\* the two detection tables agree wherever from_array_info is defined (2 and 3 axes); from_array also takes 0 and 1 axes
TablesAgree == (c.t = "array" /\ c.nd >= 2) => A = AI
FewAxesPromoted == (c.t = "array" /\ c.nd < 2) => (AI = "none" /\ A = ModeOfArray(2, 0, c.dt))
\* from_pil takes exactly the PIL modes that are mode values; the loader never refuses a PIL mode
FromPilStrict == c.t = "pil" => ((PM # "none") <=> c.pm \in StdPil)
LoaderNeverRefuses == c.t = "pil" => LM \in {"RGB", "RGBA", "F32"}

\* the maskable buffer of every mode is an array of one of the eight modes that can mark a pixel undefined, and
\* promoting twice changes nothing
BufferCanMask == c.t = "mode" => /\ BufMode(c.pm) \in Modes /\ ClassOf(BufMode(c.pm)) # "RGB"
                                 /\ BufMode(BufMode(c.pm)) = BufMode(c.pm)
                                 /\ LET k == ArrayKind(BufMode(c.pm)) IN ModeOfArray(k.nd, k.planes, k.dt) = BufMode(c.pm)
\* aspil() refuses exactly the mode PIL has no layout for
AsPilRefusesF16x3 == c.t = "mode" => ((PilModeOf(c.pm) = "none") <=> c.pm = "F16x3")
\* every mode has a lossless format, and so has its buffer; SUPPORTED_FORMATS is the set of names save accepts
EveryModeHasALosslessHome == c.t = "mode" => \E f \in SupportedFormats : Pair(c.pm, f) = "exact" /\ Pair(BufMode(c.pm), f) = "exact"

Record == [c |-> c, a |-> A, ai |-> AI, pmode |-> PM, lmode |-> LM,
           kind |-> ArrayKind(c.pm), buf |-> BufMode(c.pm), bufkind |-> ArrayKind(BufMode(c.pm)), aspil |-> PilModeOf(c.pm),
           class |-> ClassOf(c.pm), bufdflt |-> ClassDefaultFormat,
           pair |-> [f \in SupportedFormats \cup {"tiff"} |-> Pair(c.pm, f)]]
Emit == PrintT(<<"D", ToJson(Record)>>)
=============================================================================
