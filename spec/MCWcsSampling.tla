---- MODULE MCWcsSampling ----
(* Stand-alone model of WcsSampling (tlc -config MCWcsSampling.cfg MCWcsSampling.tla): a small built-in family of   *)
(* root images.  checks/g11.py generates this module for its own (larger, seeded) family; Emit prints, for every     *)
(* state, the image description, the requests and the specified answers (Report).  With                             *)
(* MCWcsSampling_ideal.cfg TLC refutes IdealSeamless (the other ideals: replace the invariant).                      *)
EXTENDS WcsSampling, Json
Root(id, proj, nx, ny, cd, r, lon0, per, base, ch, deltas) ==
    [id |-> id, proj |-> proj, nx |-> nx, ny |-> ny, cd |-> cd, r |-> r, lon0 |-> lon0, per |-> per, base |-> base, ch |-> ch, deltas |-> deltas]
MCRoots == {
    Root(1, "CAR", 3, 2, <<-1, 0, 0, 1>>, <<2, 2>>, 5, 16, 0, 1, {2, 9}),                  \* small field; recentring by 9 crosses the seam
    Root(2, "CAR", 4, 2, <<-1, 0, 0, 1>>, <<5, 3>>, 0, 4, 0, 1, {1}),                      \* all sky (4 x 2 pixels of 90 deg)
    Root(3, "CAR", 4, 2, <<-1, 0, 0, 1>>, <<20, 3>>, 0, 16, 16777214, 1, {}),              \* reaches beyond native 180 deg; values cross 2^24
    Root(4, "TAN", 3, 2, <<-1, 0, 0, 1>>, <<4, 3>>, 0, 0, 0, 3, {}),                       \* RGB
    Root(5, "TAN", 2, 3, <<-2, 1, -1, 1>>, <<-3, 7>>, 0, 0, 0, 1, {}),                     \* skewed, reference pixel outside
    Root(6, "TAN", 1, 1, <<1, 0, 0, 1>>, <<2, 2>>, 0, 0, 0, 4, {}) }                       \* one pixel, RGBA
Emit == PrintT(<<"S", ToJson(Report)>>)
====
