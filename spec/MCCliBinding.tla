--------------------------- MODULE MCCliBinding ---------------------------
(* Model-checking companion of CliBinding.tla (G07).                                                              *)
(*  - constants a cfg cannot spell;                                                                               *)
(*  - the JSON tables the harness reads (declaration table, value sets, undeclared options, input files, the      *)
(*    process state) so that it enumerates INPUTS from the specification and not from a copy of it;               *)
(*  - Expected(cases): the effective call of every case of a case list (the harness's oracle), with the           *)
(*    membership of the case in the checked space;                                                                *)
(*  - Witness: an always-true invariant that prints, per worker, the first state refuting each "ideal" statement  *)
(*    (negative controls in the same run that proves the theorems).                                               *)
EXTENDS CliBinding, Json
MCNoInvs == <<>>
Tables == [subs |-> [s \in Subs |-> [decls |-> [i \in Idx(s) |-> [o |-> DT[s][i].o, kind |-> DT[s][i].kind, pos |-> DT[s][i].pos, need |-> DT[s][i].need,
                                                                  dest |-> DT[s][i].dest \cup DT[s][i].also, sel |-> DT[s][i].sel,
                                                                  vals |-> ValsT[DT[s][i].kind],
                                                                  okvals |-> {v \in ValsT[DT[s][i].kind] : ArgparseOK(DT[s][i].kind, v) /\ Conv(DT[s][i].kind, ArgVal(DT[s][i].kind, v)) # Bad}]],
                                     foreign |-> ForeignT[s]]],
           files |-> [p \in {"sky.png", "avm.png", "title.png", "map.fits", "wcs.fits"} |-> FileInfo(p)],
           avm_title |-> AvmTitle,
           proc |-> InitProc,
           work_calls |-> WorkCalls,
           aliases |-> Aliases]

\* is the case inside the space SpaceSpec walks (for the Level / ForeignUpTo of this run)?
InSpace(s, a) ==
    LET declared == {o \in DOMAIN a : o \in OptNames(s)}
        foreign == DOMAIN a \ declared
    IN /\ s \in Subs
       /\ \A o \in declared : a[o] \in ValsT[DeclOf(s, o).kind]
       /\ Cardinality(foreign) <= 1
       /\ \A o \in foreign : o \in Foreign(s) /\ a[o] = ForeignT[s][o] /\ Cardinality(NonPos(s, a)) <= ForeignUpTo
Expected(cases) == [i \in 1..Len(cases) |-> [eff |-> Eff(cases[i].sub, cases[i].asg, InitProc), inspace |-> InSpace(cases[i].sub, cases[i].asg),
                                             after |-> ProcAfter(cases[i].sub, cases[i].asg, InitProc)]]

\* the statements the code does not keep (CliBinding.tla, "do NOT hold"), evaluated on the current state
Ideals == <<[name |-> "OmittedAlwaysLibraryDefault", holds |-> OmittedAlwaysLibraryDefault],
            [name |-> "NothingSuppressed", holds |-> NothingSuppressed],
            [name |-> "MissingNeedDiesCleanly", holds |-> MissingNeedDiesCleanly],
            [name |-> "CropAlwaysShrinksImage", holds |-> CropAlwaysShrinksImage],
            [name |-> "OmittedNameKeepsAvmTitle", holds |-> OmittedNameKeepsAvmTitle],
            [name |-> "StudyAlwaysTiles", holds |-> StudyAlwaysTiles]>>
ASSUME \A i \in 1..6 : TLCSet(i, 0)
Witness == \A i \in 1..Len(Ideals) :
               \/ Ideals[i].holds
               \/ TLCGet(i) = 1
               \/ (TLCSet(i, 1) /\ PrintT(<<"R", ToJson([ideal |-> Ideals[i].name, sub |-> sub, asg |-> asg, status |-> eff.status, by |-> eff.by])>>))
============================================================================
