--------------------------- MODULE FeedAstrometry ---------------------------
(* G08 part 2 (DESIGN.md section 7) - from a feed entry's spatial metadata to the astrometry of the        *)
(* ImageSet written by `toasty pipeline process-todos`.                                                   *)
(*                                                                                                         *)
(* Transcribes                                                                                             *)
(*   toasty/pipeline/astropix.py       AstroPixImageSource.fetch_candidate / process, AstroPixMetadata     *)
(*                                     (__init__, as_wcs_headers, get_credit_url), EXTENSION_REMAPPING     *)
(*   toasty/pipeline/djangoplicity.py  DjangoplicityImageSource.fetch_candidate / process,                 *)
(*                                     DjangoplicityMetadata.as_wcs_headers                                *)
(*   toasty/builder.py                 tile_base_as_study -> StudyTiling.apply_to_imageset (levels,        *)
(*                                     projection), the padding of the image into the tile pyramid          *)
(*                                     (StudyTiling!P2 / Levels / Centre, INSTANCEd)                        *)
(*   wwt_data_formats/imageset.py      ImageSet.set_position_from_wcs (what both sources call with their    *)
(*                                     headers; not toasty's code but what `process` records) -> Position   *)
(*                                     ImageSet.wcs_headers_from_position (the library's own reading of     *)
(*                                     an untiled ImageSet) -> ClientCD / ClientRef for L = 0               *)
(*                                                                                                         *)
(* All numbers are exact rationals <<num, den>> (den > 0, lowest terms).  The rotation of the metadata is   *)
(* given as a rational unit vector <<cos, sin>> (multiples of 90 degrees and Pythagorean angles), so that   *)
(* cos / sin are exact; the rotation written into the ImageSet is the pair of arguments of the atan2 the    *)
(* code takes (a direction; checks/g08.py turns it into degrees only to compare it).                        *)
(*                                                                                                         *)
(* The metadata are AVM: reference pixel 1-based with y counted from the BOTTOM row (FITS), scale in        *)
(* degrees per pixel of the reference dimension (scale[0] < 0 < scale[1] for an ordinary sky image), the    *)
(* rotation is the FITS CROTA2.  AvmCD is that reading.  Display coordinates of the fetched image:          *)
(* u pixels to the right of its left edge, v pixels below its top edge.                                     *)
(*                                                                                                         *)
(* Sky positions are compared in the tangent plane at the reference value (xi towards increasing RA, eta    *)
(* towards north, degrees): the map from pixels to the plane is affine, the same spherical deprojection     *)
(* follows in every reading.                                                                               *)
(*                                                                                                         *)
(* How a WWT client places a TILED study (my reading of the engine's TangentTile: the level-0 tile spans    *)
(* BaseDegreesPerTile, its centre is displaced from (CenterX, CenterY) by OffsetX to the image's right and  *)
(* OffsetY upwards, Rotation as in wcs_headers_from_position with parity +1) is stated in ClientRef /       *)
(* ClientCD for L > 0 and is an ASSUMPTION of the theorems about tiled images.                               *)
(*                                                                                                         *)
(* AS-BUILT DEVIATIONS (each a named predicate, with the ideal statement TLC refutes):                      *)
(*   RescaleSkewed       as_wcs_headers takes lambda = scale[1]/scale[0] from the UNSCALED metadata and     *)
(*                       multiplies by the rescaled CDELT: when the fetched image is not a uniform          *)
(*                       rescaling of the reference dimension AND the rotation is not a multiple of 180     *)
(*                       degrees, CD1_2 carries 1/f0 instead of 1/f1 and CD2_1 1/f1 instead of 1/f0: image   *)
(*                       corners move on the sky (ideal: CornersAlwaysPreserved)                            *)
(*   FrameIgnored        the coordinate frame of the entry is not looked at: galactic reference values are  *)
(*                       recorded as RA / Dec (ideal: FrameRespected)                                       *)
(*   MirroredTiledRaises scale[0] * scale[1] > 0 (mirrored image) and a fetched image larger than one tile:  *)
(*                       process raises after the tiles were written (ideal: AcceptedAtFetchIsProcessable)   *)
(*   Approximated        a matrix that is a similarity only within 5 % is accepted; the ImageSet then       *)
(*                       carries one scale and one angle: OffsetX is computed with the x scale, the client   *)
(*                       uses the y scale (ideal: ProcessedIsExact)                                          *)
(*   SmallImagePadded    an image that fits one tile is recorded as an untiled SkyImage whose offsets        *)
(*                       refer to the W x H source while the file the Url names is the padded 256 x 256 tile *)
(*                       (ideal: ServedFileIsWhatOffsetsDescribe)                                            *)
EXTENDS Integers, Sequences, TLC

CONSTANTS Flavours,     \* subset of {"astropix", "djangoplicity"}
          FetchSet,     \* fetch variants: [orig, spatial, urlext, refurl] (see Fetch below)
          DimSet,       \* <<rw, rh, w, h>>: reference dimension of the metadata, size of the fetched image
          RefPixSet,    \* symbolic reference pixels, see RefPixOf
          RefValSet,    \* <<ra, dec>> integers (degrees)
          ScaleSet,     \* <<s0, s1>> rationals; s1 = Null: the entry has no second scale
          RotSet,       \* <<cos, sin>> rational unit vectors
          FrameSet,     \* coordinate frames of the entry
          DefaultCase   \* the case around which fetch variants and frames are varied

ST == INSTANCE StudyTiling WITH TS <- 256, MaxW <- 1, MaxH <- 1, MaxLen <- 1, SubMode <- "none", SubLens <- {}, c <- 0

\* ------------------------------------------------------------------------------------------------ rationals
Abs(a) == IF a < 0 THEN -a ELSE a
RECURSIVE Gcd(_, _)
Gcd(a, b) == IF b = 0 THEN a ELSE Gcd(b, a % b)
Q(n, d) == LET g == Gcd(Abs(n), Abs(d))
               sg == IF d < 0 THEN -1 ELSE 1
           IN <<(sg * n) \div g, (sg * d) \div g>>
I(n) == <<n, 1>>
Zero == <<0, 1>>
Half == <<1, 2>>
Null == <<0, 0>>                       \* "no value" (JSON null / missing second scale); never a valid rational
Neg(a) == <<-a[1], a[2]>>
Add(a, b) == LET g == Gcd(a[2], b[2])
             IN Q(a[1] * (b[2] \div g) + b[1] * (a[2] \div g), (a[2] \div g) * b[2])
Sub(a, b) == Add(a, Neg(b))
Mul(a, b) == LET g1 == Gcd(Abs(a[1]), b[2])
                 g2 == Gcd(Abs(b[1]), a[2])
             IN IF a[1] = 0 \/ b[1] = 0 THEN Zero
                ELSE <<(a[1] \div g1) * (b[1] \div g2), (a[2] \div g2) * (b[2] \div g1)>>
Inv(a) == IF a[1] < 0 THEN <<-a[2], -a[1]>> ELSE <<a[2], a[1]>>
Div(a, b) == Mul(a, Inv(b))
Lt(a, b) == LET g == Gcd(a[2], b[2]) IN a[1] * (b[2] \div g) < b[1] * (a[2] \div g)
AbsQ(a) == <<Abs(a[1]), a[2]>>
Sq(a) == Mul(a, a)
\* floor of the square root of a natural; exact rational square roots
RECURSIVE SqrtBetween(_, _, _)
SqrtBetween(lo, hi, n) == IF lo = hi THEN lo
                          ELSE LET mid == (lo + hi + 1) \div 2
                               IN IF mid * mid <= n THEN SqrtBetween(mid, hi, n) ELSE SqrtBetween(lo, mid - 1, n)
ISqrt(n) == SqrtBetween(0, IF n < 46340 THEN n ELSE 46340, n)
IsSquareN(n) == LET r == ISqrt(n) IN r * r = n
IsSquareQ(a) == a[1] >= 0 /\ IsSquareN(a[1]) /\ IsSquareN(a[2])
SqrtQ(a) == <<ISqrt(a[1]), ISqrt(a[2])>>

\* 2 x 2 matrices as <<m11, m12, m21, m22>>, vectors <<x, y>>
Apply(m, v) == <<Add(Mul(m[1], v[1]), Mul(m[2], v[2])), Add(Mul(m[3], v[1]), Mul(m[4], v[2]))>>
Det(m) == Sub(Mul(m[1], m[4]), Mul(m[2], m[3]))

\* ------------------------------------------------------------------------------------------------ a case
\* what one feed entry + its downloaded image amount to
Case(aFlav, aFx, aDims, aRp, aRv, aSc, aRot, aFrame) ==
    [flav |-> aFlav, fx |-> aFx, dims |-> aDims, rp |-> aRp, rv |-> aRv, sc |-> aSc, rot |-> aRot, frame |-> aFrame]
RW(cs) == cs.dims[1]
RH(cs) == cs.dims[2]
W(cs) == cs.dims[3]
H(cs) == cs.dims[4]
\* the reference pixel (1-based, y from the bottom) in the reference dimension
RefPixOf(cs) ==
    CASE cs.rp = "centre"  -> <<Q(RW(cs) + 1, 2), Q(RH(cs) + 1, 2)>>      \* the middle of the image
      [] cs.rp = "first"   -> <<I(1), I(1)>>                               \* the centre of the bottom-left pixel
      [] cs.rp = "corner"  -> <<Half, Q(2 * RH(cs) + 1, 2)>>               \* the top-left corner of the image
      [] cs.rp = "frac"    -> <<Q(RW(cs), 3), Q(RH(cs) + 2, 4)>>           \* somewhere inside, not on a pixel centre
      [] cs.rp = "outside" -> <<I(-10), I(RH(cs) + 20)>>                   \* outside the image
F0(cs) == Q(W(cs), RW(cs))             \* factor0 = width / reference_dimension[0]
F1(cs) == Q(H(cs), RH(cs))
S0(cs) == cs.sc[1]
\* djangoplicity: `if not Spatial.Scale[1]: scale1 = abs(scale0)`
S1(cs) == IF cs.sc[2] = Null THEN AbsQ(cs.sc[1]) ELSE cs.sc[2]
Cos(cs) == cs.rot[1]
Sin(cs) == cs.rot[2]

\* ------------------------------------------------------------------------------------------------ fetch
\* fx = [orig |-> the API lists a resource of type "Original" (djangoplicity),
\*       spatial |-> "TAN" | "null" (djangoplicity: Spatial.CoordsystemProjection),
\*       urlext |-> the characters after the last "." of the image URL, refurl |-> "given" | "empty" (astropix: reference_url)]
Lower(e) == CASE e = "PNG" -> "png" [] e = "JPG" -> "jpg" [] e = "JPEG" -> "jpeg" [] OTHER -> e
\* the name under which the download is cached and later looked for
CacheExt(cs) == LET l == Lower(cs.fx.urlext)
                IN IF cs.flav = "astropix" /\ l = "jpeg" THEN "jpg" ELSE l        \* EXTENSION_REMAPPING, astropix only
Fetch(cs) ==
    IF cs.flav = "astropix"
    THEN [out |-> "cached", files |-> {<<"image", CacheExt(cs)>>}]                   \* no validation at all
    ELSE IF ~cs.fx.orig THEN [out |-> "dies", files |-> {}]                           \* Exception: can't identify "fullsize original"
    ELSE IF cs.fx.spatial # "TAN" THEN [out |-> "rejected", files |-> {}]             \* NotActionableError -> rejects/
    ELSE [out |-> "cached", files |-> {<<"image", CacheExt(cs)>>, <<"metadata", "json">>}]
\* AstroPixMetadata.get_credit_url
CreditsFrom(cs) == IF cs.flav = "astropix" THEN (IF cs.fx.refurl = "given" THEN "reference_url" ELSE "astropix-page") ELSE "ReferenceURL"

\* ------------------------------------------------------------------------------------------------ the intended reading (AVM)
\* pixel steps (right, UP) of the reference-dimension image -> (xi, eta)
AvmCD(cs) == <<Mul(S0(cs), Cos(cs)), Neg(Mul(S1(cs), Sin(cs))),
               Mul(S0(cs), Sin(cs)), Mul(S1(cs), Cos(cs))>>
\* the display point (u, v) of the FETCHED image is the point (u / f0, (H - v) / f1) of the reference image, measured from its
\* bottom-left corner, i.e. FITS pixel coordinate (u / f0 + 1/2, (H - v) / f1 + 1/2)
AvmSky(cs, u, v) ==
    LET refp == RefPixOf(cs)
        x == Add(Div(u, F0(cs)), Half)
        y == Add(Div(Sub(I(H(cs)), v), F1(cs)), Half)
    IN Apply(AvmCD(cs), <<Sub(x, refp[1]), Sub(y, refp[2])>>)
\* one step to the right / one step DOWN on the fetched image
IdealTopDownCD(cs) == LET m == AvmCD(cs)
                      IN <<Div(m[1], F0(cs)), Neg(Div(m[2], F1(cs))), Div(m[3], F0(cs)), Neg(Div(m[4], F1(cs)))>>

\* ------------------------------------------------------------------------------------------------ as_wcs_headers(width, height)
Headers(cs) ==
    LET refp == RefPixOf(cs)
        lam == Div(S1(cs), S0(cs))
        pc11 == Cos(cs)
        pc12 == Neg(Mul(lam, Sin(cs)))
        pc21 == Div(Sin(cs), lam)
        pc22 == Cos(cs)
        cdelt1 == Div(S0(cs), F0(cs))
        cdelt2 == Div(S1(cs), F1(cs))
        crpix1 == Add(Mul(Sub(refp[1], Half), F0(cs)), Half)
        crpix2 == Add(Mul(Sub(refp[2], Half), F1(cs)), Half)
    IN [crval |-> <<I(cs.rv[1]), I(cs.rv[2])>>,
        crpix |-> <<crpix1, Sub(I(H(cs) + 1), crpix2)>>,                  \* the parity flip: CRPIX2 = height + 1 - CRPIX2
        cd |-> <<Mul(cdelt1, pc11), Neg(Mul(cdelt1, pc12)), Mul(cdelt2, pc21), Neg(Mul(cdelt2, pc22))>>]
\* pixel coordinates of these headers: X = u + 1/2, Y = v + 1/2 (1-based, pixel centres on integers, row 1 = TOP row)
HeaderSky(hd, u, v) == Apply(hd.cd, <<Sub(Add(u, Half), hd.crpix[1]), Sub(Add(v, Half), hd.crpix[2])>>)

\* astropix: float(None) in AstroPixMetadata.__init__; both: division by zero cannot occur in the case sets (scales # 0)
HeadersRaise(cs) == cs.flav = "astropix" /\ cs.sc[2] = Null

\* ------------------------------------------------------------------------------------------------ tile_base_as_study
P2(cs) == ST!P2(W(cs), H(cs))
Levels(cs) == ST!Levels(P2(cs))
Gx0(cs) == ST!Centre(P2(cs), W(cs))      \* where the image's left column sits in the level-0 pixel grid
Gy0(cs) == ST!Centre(P2(cs), H(cs))      \* ... its top row

\* ------------------------------------------------------------------------------------------------ set_position_from_wcs
Tol == <<1, 20>>
Position(hd, w, h, lev) ==
    LET cd == hd.cd
        refx == Sub(hd.crpix[1], Half)
        refy == Sub(hd.crpix[2], Half)
        det == Det(cd)
        sign == IF det[1] < 0 THEN -1 ELSE 1
        sx2 == Add(Sq(cd[1]), Sq(cd[2]))
        sy2 == Add(Sq(cd[3]), Sq(cd[4]))
        sx == SqrtQ(sx2)
        sy == SqrtQ(sy2)
        dir0 == <<Neg(cd[4]), IF sign = 1 THEN Neg(cd[2]) ELSE cd[2]>>       \* atan2(-cd_sign * cd1_2, -cd2_2) as <<x, y>>
        t1 == IF sign = 1 THEN Sub(cd[1], cd[4]) ELSE Add(cd[1], cd[4])
        t2 == IF sign = 1 THEN Add(cd[3], cd[2]) ELSE Sub(cd[3], cd[2])
    IN IF det[1] < 0 /\ lev > 0 THEN [out |-> "raises", why |-> "parity"]
       ELSE IF det[1] = 0 THEN [out |-> "raises", why |-> "determinant"]
       ELSE IF ~(IsSquareQ(sx2) /\ IsSquareQ(sy2)) THEN [out |-> "irrational", why |-> "scale"]     \* outside exact arithmetic: not replayed
       ELSE IF Lt(Mul(Tol, Add(sx, sy)), AbsQ(Sub(sx, sy))) THEN [out |-> "raises", why |-> "non-square"]
       ELSE IF Lt(AbsQ(det), Mul(I(400), Sq(t1))) THEN [out |-> "raises", why |-> "cd1"]              \* |t1| / sqrt|det| > 1/20
       ELSE IF Lt(AbsQ(det), Mul(I(400), Sq(t2))) THEN [out |-> "raises", why |-> "cd2"]
       ELSE IF lev > 0
            THEN [out |-> "ok", why |-> "", proj |-> "Tan", bu |-> FALSE, lev |-> lev, cx |-> hd.crval[1], cy |-> hd.crval[2], dir |-> dir0,
                  bdpt |-> Mul(sy, I(256 * (2 ^ lev))),
                  offx |-> Mul(Sub(I((w + 1) \div 2), refx), sx),
                  offy |-> Mul(Sub(refy, I((h + 1) \div 2)), sy),
                  zoom |-> Mul(Mul(I(h), sy), <<51, 5>>), sx |-> sx, sy |-> sy]
            ELSE [out |-> "ok", why |-> "", proj |-> "SkyImage", bu |-> (sign = -1), lev |-> 0, cx |-> hd.crval[1], cy |-> hd.crval[2],
                  dir |-> IF sign = -1 THEN <<dir0[1], Neg(dir0[2])>> ELSE dir0,                  \* rotation_deg = -rotation_deg
                  bdpt |-> sy, offx |-> refx, offy |-> Sub(I(h), refy),
                  zoom |-> Mul(Mul(I(h), sy), <<51, 5>>), sx |-> sx, sy |-> sy]

\* ------------------------------------------------------------------------------------------------ the whole of `process`
Process(cs) ==
    IF HeadersRaise(cs) THEN [out |-> "raises", why |-> "metadata"]
    ELSE Position(Headers(cs), W(cs), H(cs), Levels(cs))

\* ------------------------------------------------------------------------------------------------ how a client reads the ImageSet
\* the unit vector of Rotation (exists when the direction has a rational length)
DirLen2(p) == Add(Sq(p.dir[1]), Sq(p.dir[2]))
HasUnit(p) == IsSquareQ(DirLen2(p))
UnitDir(p) == LET n == SqrtQ(DirLen2(p)) IN <<Div(p.dir[1], n), Div(p.dir[2], n)>>
\* degrees per pixel the client uses
ClientScale(p) == IF p.lev > 0 THEN Div(p.bdpt, I(256 * (2 ^ p.lev))) ELSE p.bdpt
\* wcs_headers_from_position: steps (right, down) -> (xi, eta)
ClientCD(p) ==
    LET par == IF p.bu THEN -1 ELSE 1
        ud == UnitDir(p)
        cc == Neg(ud[1])                                                   \* -cos(parity * rot)
        ss == IF par = 1 THEN Neg(ud[2]) ELSE ud[2]                        \* -sin(parity * rot)
        csc == ClientScale(p)
    IN <<Mul(Mul(cc, csc), I(par)), Mul(Mul(ss, csc), I(par)), Neg(Mul(ss, csc)), Mul(cc, csc)>>
\* where on the fetched image (u right of its left edge, v below its top edge) the client puts (CenterX, CenterY)
ClientRef(p, cs) ==
    IF p.lev > 0
    THEN LET csc == ClientScale(p)
             half == I(P2(cs) \div 2)
         IN <<Sub(Sub(half, Div(p.offx, csc)), I(Gx0(cs))), Sub(Add(half, Div(p.offy, csc)), I(Gy0(cs)))>>
    ELSE <<p.offx, Sub(I(H(cs)), p.offy)>>                                 \* CRPIX1 - 1/2, (height - offset_y + 1/2) - 1/2
ClientSky(p, cs, u, v) == LET r == ClientRef(p, cs) IN Apply(ClientCD(p), <<Sub(u, r[1]), Sub(v, r[2])>>)

Corners(cs) == {<<I(0), I(0)>>, <<I(W(cs)), I(0)>>, <<I(0), I(H(cs))>>, <<I(W(cs)), I(H(cs))>>, <<Q(W(cs), 2), Q(H(cs), 2)>>}
\* the reference pixel of the metadata, as a display point of the fetched image
RefDisplay(cs) == LET refp == RefPixOf(cs)
                  IN <<Mul(Sub(refp[1], Half), F0(cs)), Sub(I(H(cs)), Mul(Sub(refp[2], Half), F1(cs)))>>

\* ------------------------------------------------------------------------------------------------ named as-built deviations
UniformRescale(cs) == F0(cs) = F1(cs)
RescaleSkewed(cs) == ~UniformRescale(cs) /\ Sin(cs) # Zero
FrameIgnored(cs) == cs.frame # "ICRS"
Mirrored(cs) == Mul(S0(cs), S1(cs))[1] > 0
MirroredTiledRaises(cs) == Mirrored(cs) /\ Levels(cs) > 0
ExactSimilarity(hd) == LET sign == IF Det(hd.cd)[1] < 0 THEN -1 ELSE 1
                       IN /\ hd.cd[1] = (IF sign = 1 THEN hd.cd[4] ELSE Neg(hd.cd[4]))
                          /\ hd.cd[3] = (IF sign = 1 THEN Neg(hd.cd[2]) ELSE hd.cd[2])
Approximated(cs) == ~ExactSimilarity(Headers(cs))
SmallImagePadded(cs) == Levels(cs) = 0 /\ <<W(cs), H(cs)>> # <<256, 256>>

\* ------------------------------------------------------------------------------------------------ the space of cases
VARIABLES flav, fx, dims, rp, rv, sc, rot, frame
vars == <<flav, fx, dims, rp, rv, sc, rot, frame>>
Cur == Case(flav, fx, dims, rp, rv, sc, rot, frame)
\* fetch variants and frames are varied around the default metadata only
Shape(cs) == (cs.fx # DefaultCase.fx \/ cs.frame # DefaultCase.frame)
                => (cs.dims = DefaultCase.dims /\ cs.rp = DefaultCase.rp /\ cs.rv = DefaultCase.rv /\ cs.sc = DefaultCase.sc /\ cs.rot = DefaultCase.rot)
\* every case is reached from the default one by changing one coordinate at a time
Init == /\ flav \in Flavours /\ fx = DefaultCase.fx /\ dims = DefaultCase.dims /\ rp = DefaultCase.rp /\ rv = DefaultCase.rv
        /\ sc = DefaultCase.sc /\ rot = DefaultCase.rot /\ frame = DefaultCase.frame
\* walk the space: one coordinate at a time
Next == /\ \/ flav' \in Flavours /\ UNCHANGED <<fx, dims, rp, rv, sc, rot, frame>>
           \/ fx' \in FetchSet /\ UNCHANGED <<flav, dims, rp, rv, sc, rot, frame>>
           \/ dims' \in DimSet /\ UNCHANGED <<flav, fx, rp, rv, sc, rot, frame>>
           \/ rp' \in RefPixSet /\ UNCHANGED <<flav, fx, dims, rv, sc, rot, frame>>
           \/ rv' \in RefValSet /\ UNCHANGED <<flav, fx, dims, rp, sc, rot, frame>>
           \/ sc' \in ScaleSet /\ UNCHANGED <<flav, fx, dims, rp, rv, rot, frame>>
           \/ rot' \in RotSet /\ UNCHANGED <<flav, fx, dims, rp, rv, sc, frame>>
           \/ frame' \in FrameSet /\ UNCHANGED <<flav, fx, dims, rp, rv, sc, rot>>
        /\ Shape(Case(flav', fx', dims', rp', rv', sc', rot', frame'))
Spec == Init /\ [][Next]_vars

\* ================================================================================================ theorems
\* Every theorem is an operator over (case, its headers, its process result) so that TLC computes the headers and the result once per
\* state (Judged); the names without arguments are the sentences about the current state, for INVARIANT lines.
NoHeaders == [crval |-> <<>>, crpix |-> <<>>, cd |-> <<>>]
Comp(cs) == ~HeadersRaise(cs)
OkP(cs, pr) == Comp(cs) /\ pr.out = "ok"

T_UnitRotation(cs, hd, pr) == Add(Sq(Cos(cs)), Sq(Sin(cs))) = I(1)              \* the case set is what it claims to be
\* ---- the headers (toasty's own part)
\* (1) the reference value sits at the reference pixel, wherever that is and whatever the rescaling
T_RefPixelAtRefValue(cs, hd, pr) == Comp(cs) => LET d == RefDisplay(cs)
                                                IN /\ HeaderSky(hd, d[1], d[2]) = <<Zero, Zero>>
                                                   /\ AvmSky(cs, d[1], d[2]) = <<Zero, Zero>>
                                                   /\ hd.crval = <<I(cs.rv[1]), I(cs.rv[2])>>
\* (2) one pixel step of the fetched image is the stated scale and rotation, in the stated handedness - unless RescaleSkewed
T_StepsAsStated(cs, hd, pr) == (Comp(cs) /\ ~RescaleSkewed(cs)) => hd.cd = IdealTopDownCD(cs)
\* ... and then every corner (and the middle) of the fetched image lies where the metadata put the corner of the reference image
T_CornersPreserved(cs, hd, pr) == (Comp(cs) /\ ~RescaleSkewed(cs)) =>
                                      \A p \in Corners(cs) : HeaderSky(hd, p[1], p[2]) = AvmSky(cs, p[1], p[2])
\* (2') what holds as built in every case: the two diagonal entries are right, the off-diagonal ones carry the other axis's factor
T_StepsAsBuilt(cs, hd, pr) == Comp(cs) => LET id == IdealTopDownCD(cs)
                                          IN /\ hd.cd[1] = id[1] /\ hd.cd[4] = id[4]
                                             /\ Mul(hd.cd[2], F0(cs)) = Mul(id[2], F1(cs))
                                             /\ Mul(hd.cd[3], F1(cs)) = Mul(id[3], F0(cs))
\* (3) the flip to top-down reverses the handedness of the matrix and nothing else: det(top-down) = - det(AVM) / (f0 f1)
T_HandednessFlipped(cs, hd, pr) == Comp(cs) => Det(hd.cd) = Neg(Div(Det(AvmCD(cs)), Mul(F0(cs), F1(cs))))
\* (4) the rescaling alone: headers for the fetched size describe the same plane as headers for the reference size
T_RescalingPreservesCorners(cs, hd, pr) ==
    (Comp(cs) /\ ~RescaleSkewed(cs)) =>
        LET ref == Headers([cs EXCEPT !.dims = <<RW(cs), RH(cs), RW(cs), RH(cs)>>])
        IN \A k \in {<<0, 0>>, <<1, 0>>, <<0, 1>>, <<1, 1>>} :
              HeaderSky(hd, I(k[1] * W(cs)), I(k[2] * H(cs))) = HeaderSky(ref, I(k[1] * RW(cs)), I(k[2] * RH(cs)))
\* ---- the ImageSet
\* (5) what is accepted: an exact similarity (non-degenerate; unmirrored when tiled) always is; whatever is accepted has pixels
\*     square within 5 %
T_SimilarityAccepted(cs, hd, pr) == (Comp(cs) /\ ExactSimilarity(hd) /\ Det(hd.cd) # Zero /\ ~MirroredTiledRaises(cs) /\ pr.out # "irrational") => OkP(cs, pr)
T_AcceptedNearSquare(cs, hd, pr) == OkP(cs, pr) => ~Lt(Mul(Tol, Add(pr.sx, pr.sy)), AbsQ(Sub(pr.sx, pr.sy)))
T_MirrorRule(cs, hd, pr) == Comp(cs) => (pr.out = "raises" /\ pr.why = "parity" <=> MirroredTiledRaises(cs))
\* (6) tiled = more than one tile; a tiled ImageSet is never bottoms-up; an untiled one is bottoms-up exactly when mirrored
T_TiledIffLarge(cs, hd, pr) == OkP(cs, pr) => /\ (pr.proj = "Tan" <=> (W(cs) > 256 \/ H(cs) > 256))
                                              /\ pr.lev = Levels(cs)
                                              /\ (pr.proj = "Tan" => ~pr.bu)
                                              /\ (pr.proj = "SkyImage" => (pr.bu <=> Mirrored(cs)))
\* (7) the client puts (CenterX, CenterY) on the reference pixel: exactly when the pixels are square, for every image size
\*     parity and padding (this is where wwt_data_formats' (w + 1) // 2 has to agree with StudyTiling's (p2 - w) // 2)
T_ClientRefAtRefPixel(cs, hd, pr) == (OkP(cs, pr) /\ pr.sx = pr.sy) => ClientRef(pr, cs) = RefDisplay(cs)
\* (8) ... and reads back the matrix of the headers when that is an exact similarity: with (7), every corner where the headers put it
T_ClientReadsHeaders(cs, hd, pr) == (OkP(cs, pr) /\ ExactSimilarity(hd) /\ HasUnit(pr)) =>
                                        /\ ClientCD(pr) = hd.cd
                                        /\ \A p \in Corners(cs) : ClientSky(pr, cs, p[1], p[2]) = HeaderSky(hd, p[1], p[2])
\* (9) end to end, for undistorted metadata and a uniform rescaling: the client shows every corner where the AVM metadata say
T_EndToEnd(cs, hd, pr) == (OkP(cs, pr) /\ ExactSimilarity(hd) /\ HasUnit(pr) /\ ~RescaleSkewed(cs)) =>
                              \A p \in Corners(cs) : ClientSky(pr, cs, p[1], p[2]) = AvmSky(cs, p[1], p[2])
\* (10) the rotation written is minus the AVM rotation for an ordinary (unmirrored, square-pixel, uniformly rescaled) image
T_RotationIsMinusAvm(cs, hd, pr) == (OkP(cs, pr) /\ ~Mirrored(cs) /\ S0(cs)[1] < 0 /\ AbsQ(S0(cs)) = AbsQ(S1(cs)) /\ UniformRescale(cs)) =>
                                        /\ HasUnit(pr) /\ UnitDir(pr) = <<Cos(cs), Neg(Sin(cs))>>
                                        /\ ClientScale(pr) = Div(S1(cs), F1(cs))
\* (11) nothing but the documented inputs matters: the frame and the fetch variant do not move the image
T_FrameAndFetchIrrelevant(cs, hd, pr) == Comp(cs) => pr = Process([cs EXCEPT !.fx = DefaultCase.fx, !.frame = DefaultCase.frame])
\* (12) both sources compute the same headers from the same numbers
T_FlavoursAgree(cs, hd, pr) == (cs.sc[2] # Null) => Headers([cs EXCEPT !.flav = "astropix"]) = Headers([cs EXCEPT !.flav = "djangoplicity"])
\* fetch
T_FetchRule(cs, hd, pr) == LET f == Fetch(cs)
                           IN /\ (f.out = "cached" <=> (cs.flav = "astropix" \/ (cs.fx.orig /\ cs.fx.spatial = "TAN")))
                              /\ (f.out = "cached" => <<"image", CacheExt(cs)>> \in f.files)
                              /\ (f.out # "cached" => f.files = {})

\* ---- ideal statements the code does not keep (negative controls; TLC refutes each)
I_CornersAlwaysPreserved(cs, hd, pr) == Comp(cs) => \A p \in Corners(cs) : HeaderSky(hd, p[1], p[2]) = AvmSky(cs, p[1], p[2])
I_FrameRespected(cs, hd, pr) == (Comp(cs) /\ FrameIgnored(cs)) => pr.out = "raises"
I_AcceptedAtFetchIsProcessable(cs, hd, pr) == (Fetch(cs).out = "cached") => (Comp(cs) /\ pr.out # "raises")
I_ProcessedIsExact(cs, hd, pr) == OkP(cs, pr) => ExactSimilarity(hd)
I_ServedFileIsWhatOffsetsDescribe(cs, hd, pr) == OkP(cs, pr) => ~SmallImagePadded(cs)
I_ClientRefAlwaysAtRefPixel(cs, hd, pr) == OkP(cs, pr) => ClientRef(pr, cs) = RefDisplay(cs)

Verdicts(cs, hd, pr) ==
    [UnitRotation |-> T_UnitRotation(cs, hd, pr), RefPixelAtRefValue |-> T_RefPixelAtRefValue(cs, hd, pr), StepsAsStated |-> T_StepsAsStated(cs, hd, pr),
     CornersPreserved |-> T_CornersPreserved(cs, hd, pr), StepsAsBuilt |-> T_StepsAsBuilt(cs, hd, pr), HandednessFlipped |-> T_HandednessFlipped(cs, hd, pr),
     RescalingPreservesCorners |-> T_RescalingPreservesCorners(cs, hd, pr), SimilarityAccepted |-> T_SimilarityAccepted(cs, hd, pr),
     AcceptedNearSquare |-> T_AcceptedNearSquare(cs, hd, pr), MirrorRule |-> T_MirrorRule(cs, hd, pr), TiledIffLarge |-> T_TiledIffLarge(cs, hd, pr),
     ClientRefAtRefPixel |-> T_ClientRefAtRefPixel(cs, hd, pr), ClientReadsHeaders |-> T_ClientReadsHeaders(cs, hd, pr), EndToEnd |-> T_EndToEnd(cs, hd, pr),
     RotationIsMinusAvm |-> T_RotationIsMinusAvm(cs, hd, pr), FrameAndFetchIrrelevant |-> T_FrameAndFetchIrrelevant(cs, hd, pr),
     FlavoursAgree |-> T_FlavoursAgree(cs, hd, pr), FetchRule |-> T_FetchRule(cs, hd, pr)]
IdealVerdicts(cs, hd, pr) ==
    [CornersAlwaysPreserved |-> I_CornersAlwaysPreserved(cs, hd, pr), FrameRespected |-> I_FrameRespected(cs, hd, pr),
     AcceptedAtFetchIsProcessable |-> I_AcceptedAtFetchIsProcessable(cs, hd, pr), ProcessedIsExact |-> I_ProcessedIsExact(cs, hd, pr),
     ServedFileIsWhatOffsetsDescribe |-> I_ServedFileIsWhatOffsetsDescribe(cs, hd, pr), ClientRefAlwaysAtRefPixel |-> I_ClientRefAlwaysAtRefPixel(cs, hd, pr)]
\* the current state: headers and result computed once
Judged == LET cs == Cur
              hd == IF Comp(cs) THEN Headers(cs) ELSE NoHeaders
              pr == Process(cs)
          IN [cs |-> cs, hd |-> hd, pr |-> pr, th |-> Verdicts(cs, hd, pr), ideal |-> IdealVerdicts(cs, hd, pr)]
\* INVARIANT: every theorem holds in the current state
Theorems == LET j == Judged IN \A k \in DOMAIN j.th : j.th[k]
\* ... and one by one (the same sentences; used when a diagnosis is wanted)
Hd == IF Comp(Cur) THEN Headers(Cur) ELSE NoHeaders
Pr == Process(Cur)
UnitRotation == T_UnitRotation(Cur, Hd, Pr)
RefPixelAtRefValue == T_RefPixelAtRefValue(Cur, Hd, Pr)
StepsAsStated == T_StepsAsStated(Cur, Hd, Pr)
CornersPreserved == T_CornersPreserved(Cur, Hd, Pr)
StepsAsBuilt == T_StepsAsBuilt(Cur, Hd, Pr)
HandednessFlipped == T_HandednessFlipped(Cur, Hd, Pr)
RescalingPreservesCorners == T_RescalingPreservesCorners(Cur, Hd, Pr)
SimilarityAccepted == T_SimilarityAccepted(Cur, Hd, Pr)
AcceptedNearSquare == T_AcceptedNearSquare(Cur, Hd, Pr)
MirrorRule == T_MirrorRule(Cur, Hd, Pr)
TiledIffLarge == T_TiledIffLarge(Cur, Hd, Pr)
ClientRefAtRefPixel == T_ClientRefAtRefPixel(Cur, Hd, Pr)
ClientReadsHeaders == T_ClientReadsHeaders(Cur, Hd, Pr)
EndToEnd == T_EndToEnd(Cur, Hd, Pr)
RotationIsMinusAvm == T_RotationIsMinusAvm(Cur, Hd, Pr)
FrameAndFetchIrrelevant == T_FrameAndFetchIrrelevant(Cur, Hd, Pr)
FlavoursAgree == T_FlavoursAgree(Cur, Hd, Pr)
FetchRule == T_FetchRule(Cur, Hd, Pr)
=============================================================================
