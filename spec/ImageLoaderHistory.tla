------------------------- MODULE ImageLoaderHistory -------------------------
(* G05 - short histories of ImageLoader instances.                           *)
(*                                                                           *)
(* Two loader slots, a few PIL image objects that the caller keeps and may   *)
(* hand to any loader any number of times, a few files, and the process-wide *)
(* state the loader touches (the class attributes of ImageLoader, which are  *)
(* the option DEFAULTS, and PIL.Image.MAX_IMAGE_PIXELS, which load_stream /  *)
(* load_pil switch off and restore).  Commands, in any order and repetition: *)
(*   new(k)          ImageLoader()                                           *)
(*   args(k, a)      ImageLoader.create_from_args(parser.parse_args(ArgSets[a])) *)
(*                   (an unparsable --crop raises; slot k keeps what it had) *)
(*   pil(k, j)       loader k .load_pil(the caller's PIL object j)           *)
(*   path(k, j) / stream(k, j)   loader k .load_path / load_stream of file j *)
(*   reopen(j)       the caller replaces PIL object j by a freshly opened one *)
(*                                                                           *)
(* The option lookup is Python's: an instance attribute if create_from_args  *)
(* set one, else the class attribute.  create_from_args always sets          *)
(* black_to_transparent, colorspace_processing and psd_single_layer, and     *)
(* crop only when --crop was given.                                          *)
(*                                                                           *)
(* Deviation kept from the code: load_pil works IN PLACE on the object it is *)
(* handed whenever no crop / convert made a copy first (ImageModes!ArgAfter). *)
(* The load is therefore split into PilClean (argument untouched) and         *)
(* PilMutatesArgument; the theorems say what still holds.                    *)
EXTENDS ImageModes

CONSTANTS ArgSets,      \* sequence of [hascrop, tok, b2t, cp, psd]: the command lines offered to create_from_args
          PilSeeds,     \* sequence of PIL records: what each of the caller's PIL objects holds when (re)opened
          PathFiles,    \* sequence of files
          MaxCalls,
          Scripts       \* set of command sequences (ScriptSpec)

VARIABLES cls,          \* the class attributes of ImageLoader
          ld,           \* slot -> loader instance
          pils,         \* the caller's PIL objects
          maxpix,       \* PIL.Image.MAX_IMAGE_PIXELS
          hist,         \* the commands so far
          last          \* the last call: [act, res, before]
vars == <<cls, ld, pils, maxpix, hist, last>>

Slots == {1, 2}
Attrs == {"crop", "b2t", "cp", "psd"}
ClassDefaults == [crop |-> <<>>, b2t |-> FALSE, cp |-> "srgb", psd |-> -1]          \* psd_single_layer = None
MaxPix0 == 89478485
Dead == [live |-> FALSE, set |-> {}, crop |-> <<>>, b2t |-> FALSE, cp |-> "srgb", psd |-> -1, want |-> DefaultOpts]
Plain == [Dead EXCEPT !.live = TRUE]                                                 \* ImageLoader()
ArgsOK(a) == ~a.hascrop \/ CropParses(a.tok)
FromArgs(a) == [live |-> TRUE, set |-> {"b2t", "cp", "psd"} \cup (IF a.hascrop THEN {"crop"} ELSE {}),
                crop |-> IF a.hascrop THEN ParseCrop(a.tok) ELSE <<>>, b2t |-> a.b2t, cp |-> a.cp, psd |-> a.psd,
                \* ghost: the options this command line asks for
                want |-> Opts(IF a.hascrop THEN ParseCrop(a.tok) ELSE <<>>, a.b2t, a.cp)]
\* attribute lookup: instance dict first, then the class
Eff(k, a) == IF a \in ld[k].set THEN ld[k][a] ELSE cls[a]
EffOpts(k) == Opts(Eff(k, "crop"), Eff(k, "b2t"), Eff(k, "cp"))

NoPil == [pm |-> "none", w |-> 0, h |-> 0, px |-> <<>>, icc |-> "none", conv |-> FALSE, q |-> "exact"]
Cmd(op, k, j) == [op |-> op, k |-> k, j |-> j]
Commands == {Cmd("new", k, 0) : k \in Slots} \cup {Cmd("args", k, a) : k \in Slots, a \in DOMAIN ArgSets}
            \cup {Cmd("pil", k, j) : k \in Slots, j \in DOMAIN PilSeeds}
            \cup {Cmd(op, k, j) : op \in {"path", "stream"}, k \in Slots, j \in DOMAIN PathFiles}
            \cup {Cmd("reopen", 0, j) : j \in DOMAIN PilSeeds}
NoRes == Raised("none")
Rec(act, res, before) == [act |-> act, res |-> res, before |-> before]

Init == /\ cls = ClassDefaults /\ ld = [k \in Slots |-> Dead] /\ pils = PilSeeds /\ maxpix = MaxPix0
        /\ hist = <<>> /\ last = Rec("Init", NoRes, NoPil)

New(c) == /\ c.op = "new" /\ ld' = [ld EXCEPT ![c.k] = Plain] /\ last' = Rec("New", NoRes, NoPil)
          /\ UNCHANGED <<cls, pils, maxpix>>
CreateFromArgs(c) == /\ c.op = "args" /\ ArgsOK(ArgSets[c.j])
                     /\ ld' = [ld EXCEPT ![c.k] = FromArgs(ArgSets[c.j])] /\ last' = Rec("CreateFromArgs", NoRes, NoPil)
                     /\ UNCHANGED <<cls, pils, maxpix>>
CreateFromArgsRaises(c) == /\ c.op = "args" /\ ~ArgsOK(ArgSets[c.j])
                           /\ last' = Rec("CreateFromArgsRaises", Raised("args"), NoPil)
                           /\ UNCHANGED <<cls, ld, pils, maxpix>>
PilStep(c, mutates) ==
    /\ c.op = "pil" /\ ld[c.k].live
    /\ LET o == EffOpts(c.k)
           res == LoadPil(o, pils[c.j])
           after == IF res.ok THEN ArgAfter(o, pils[c.j]) ELSE pils[c.j]
       IN /\ (after # pils[c.j]) = mutates
          /\ pils' = [pils EXCEPT ![c.j] = after]
          /\ last' = Rec(IF mutates THEN "PilMutatesArgument" ELSE "PilClean", res, pils[c.j])
    /\ UNCHANGED <<cls, ld, maxpix>>                       \* MAX_IMAGE_PIXELS is restored in a finally block, also when the load raises
PilClean(c) == PilStep(c, FALSE)
PilMutatesArgument(c) == PilStep(c, TRUE)
\* load_path / load_stream open their own PIL object: nothing of the caller's is touched
FileLoad(c) == /\ c.op \in {"path", "stream"} /\ ld[c.k].live
               /\ last' = Rec("FileLoad", Load(EffOpts(c.k), PathFiles[c.j], c.op, NaturalSuffix(PathFiles[c.j].fmt)), NoPil)
               /\ UNCHANGED <<cls, ld, pils, maxpix>>
Reopen(c) == /\ c.op = "reopen" /\ pils' = [pils EXCEPT ![c.j] = PilSeeds[c.j]] /\ last' = Rec("Reopen", NoRes, NoPil)
             /\ UNCHANGED <<cls, ld, maxpix>>

Do(c) == /\ Len(hist) < MaxCalls /\ hist' = Append(hist, c)
         /\ \/ New(c) \/ CreateFromArgs(c) \/ CreateFromArgsRaises(c) \/ PilClean(c) \/ PilMutatesArgument(c) \/ FileLoad(c) \/ Reopen(c)
Next == \E c \in Commands : Do(c)
Spec == Init /\ [][Next]_vars
ScriptNext == \E s \in Scripts : /\ Len(hist) < Len(s) /\ SubSeq(s, 1, Len(hist)) = hist /\ Do(s[Len(hist) + 1])
ScriptSpec == Init /\ [][ScriptNext]_vars

-----------------------------------------------------------------------------
(* The contract.                                                             *)
LastCmd == hist[Len(hist)]
IsLoad == hist # <<>> /\ LastCmd.op \in {"pil", "path", "stream"}
TypeOK == /\ \A k \in Slots : ld[k].set \subseteq Attrs
          /\ Len(pils) = Len(PilSeeds) /\ Len(hist) <= MaxCalls

\* options are per instance: nothing a loader is given or does changes the class-level defaults ...
ClassDefaultsUntouched == cls = ClassDefaults
\* ... so every live loader has exactly the options its own construction asked for, whatever happened before or since
ConfiguredOptionsStick == \A k \in Slots : ld[k].live => EffOpts(k) = ld[k].want
FreshLoaderHasDefaults == \A k \in Slots : (ld[k].live /\ ld[k].set = {}) => EffOpts(k) = DefaultOpts
\* the documented --crop forms: one number = all four edges, two = vertical, horizontal
CropFormsParsed == \A a \in DOMAIN ArgSets : (ArgSets[a].hascrop /\ ArgsOK(ArgSets[a])) =>
    LET t == ArgSets[a].tok
        c == FromArgs(ArgSets[a]).crop
    IN /\ Len(c) = 4
       /\ Len(t) = 1 => c = <<t[1], t[1], t[1], t[1]>>
       /\ Len(t) = 2 => c[1] = t[1] /\ c[3] = t[1] /\ c[2] = t[2] /\ c[4] = t[2]
       /\ Len(t) = 4 => c = t
\* the process-wide switch is back where it was after every call, also a failing one
GlobalRestored == maxpix = MaxPix0
\* a load never reconfigures any loader (action property), a failed construction leaves the slot as it was
LoadsLeaveLoaders == [][(hist' # hist /\ hist'[Len(hist')].op \in {"pil", "path", "stream"}) => (ld' = ld /\ cls' = cls)]_vars
FailedCreateLeavesSlot == [][(hist' # hist /\ last'.act = "CreateFromArgsRaises") => ld' = ld]_vars

\* options apply once and only to the configured loader: the result of a file load is a function of THAT loader's
\* configured options and the file - not of the history (other loaders, earlier loads of the same file, failures)
FileLoadsIndependentOfHistory == (IsLoad /\ LastCmd.op \in {"path", "stream"}) =>
    last.res = Load(ld[LastCmd.k].want, PathFiles[LastCmd.j], LastCmd.op, NaturalSuffix(PathFiles[LastCmd.j].fmt))
\* the same holds for load_pil as long as the object handed in is as the caller opened it
PilLoadOfPristineArgument == (IsLoad /\ LastCmd.op = "pil" /\ last.before = PilSeeds[LastCmd.j]) =>
    last.res = LoadPil(ld[LastCmd.k].want, PilSeeds[LastCmd.j])
\* ... and in general it is a function of the loader's options and what the object holds NOW
PilLoadOfCurrentArgument == (IsLoad /\ LastCmd.op = "pil") => last.res = LoadPil(ld[LastCmd.k].want, last.before)
\* the argument is left alone whenever a crop or a conversion copied it first, and by every failing load
ArgumentCopiedFirst == (IsLoad /\ LastCmd.op = "pil" /\
                        (ld[LastCmd.k].want.crop # <<>> \/ last.before.pm \notin StdPil \/ (ld[LastCmd.k].want.b2t /\ last.before.pm # "RGBA")
                         \/ ~last.res.ok)) => pils[LastCmd.j] = last.before
\* with default options and no profile nothing is ever touched
PlainLoadTouchesNothing == (IsLoad /\ LastCmd.op = "pil" /\ ld[LastCmd.k].want = DefaultOpts /\ last.before.icc = "none") =>
    pils[LastCmd.j] = last.before
\* the in-place work is idempotent - handing the same object to the same loader again gives the same image - unless
\* the loader both turns black transparent and converts colours: the first load converts in place, and the second one
\* finds black where the profile sent a dark colour (see RepeatedPilLoadStable below)
RepeatedPilLoadStableAsBuilt == (IsLoad /\ LastCmd.op = "pil" /\ last.res.ok) =>
    LET o == ld[LastCmd.k].want IN
    ~(o.b2t /\ o.cp # "none" /\ last.before.icc = "odd") => LoadPil(o, pils[LastCmd.j]) = last.res
\* only load_pil ever changes a PIL object of the caller (action property)
OnlyPilLoadsTouchArguments == [][(pils' # pils) => (hist'[Len(hist')].op \in {"pil", "reopen"})]_vars

-----------------------------------------------------------------------------
(* Negative controls (TLC must refute each; the counterexample is the        *)
(* shortest history showing the deviation).                                  *)
\* "load_pil does not modify the image it is given"
ArgumentNeverMutated == \A j \in DOMAIN pils : pils[j] = PilSeeds[j]
\* "options apply once: handing the same object to the same loader again gives the same image"
RepeatedPilLoadStable == (IsLoad /\ LastCmd.op = "pil" /\ last.res.ok) =>
    LoadPil(ld[LastCmd.k].want, pils[LastCmd.j]) = last.res
\* "what a loader returns depends on ITS options only: another loader's options never show"
NoLeakThroughArgument == (IsLoad /\ LastCmd.op = "pil") => last.res = LoadPil(ld[LastCmd.k].want, PilSeeds[LastCmd.j])
=============================================================================
