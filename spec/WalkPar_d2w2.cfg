SPECIFICATION Spec
CONSTANTS
 Depth = 2
 NW = 2
 Cap = 4
 AcceptSets <- MCAccept
 Apexes <- MCApex
 FaultSets <- OneFault
 Checked = TRUE
INVARIANT OnlyOps
INVARIANT AtMostOnce
INVARIANT ChildrenFirst
INVARIANT DoneOK
INVARIANT NoLossAtSet
INVARIANT PopSafe
INVARIANT NoDoubleRelease
INVARIANT NeverSwallowed
INVARIANT RaisedOnlyOnFault
PROPERTY ChildrenFirstStep
PROPERTY Termination
PROPERTY ReturnsWhenFaultFree
CHECK_DEADLOCK FALSE
