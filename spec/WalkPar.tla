------------------------------ MODULE WalkPar ------------------------------
(* The parallel pyramid walk: Pyramid._walk_parallel + _mp_walk_worker of      *)
(* toasty/pyramid.py, at the granularity of multiprocessing's critical         *)
(* sections.                                                                   *)
(*                                                                             *)
(*  dispatcher (parent process)                                                *)
(*     prep (modelled by Init): the reduction iterator of Reduce.tla computes   *)
(*       the number of operations, pre-fills `readiness` with the bits of the  *)
(*       children that are NOT live, and puts every live tile of level         *)
(*       Depth-1 on the ready queue in generator (post-)order;                 *)
(*     loop: DGet  = done_queue.get() delivered a position: apex => leave the  *)
(*                   loop; else set the child's bit in the parent's flags and, *)
(*                   when all four are set, put the parent on the ready queue; *)
(*           DTimeout = the get timed out (queue empty): check the workers'    *)
(*                   exit status, raise if one died (the C19 repair);          *)
(*     DClose, DJoinThread, DSetEv, DJoinW(w) ..., final exit-status check.     *)
(*  ready queue: unbounded; dispatcher-side buffer `rqBuf`, feeder thread       *)
(*     (FlushReady) moves it to the pipe `rqPipe`; `rlock` is the reader lock. *)
(*  done queue: bounded by Cap (semaphore count `dqSem`); one buffer + feeder  *)
(*     per worker (FlushDone(w)); single reader (the dispatcher).              *)
(*  worker w: get(timeout) = WAcquire | WLockTimeout, then WRecv | WPollTimeout;*)
(*     after Empty: WCheckDone reads the flag; WCbStart / WCbEnd bracket the    *)
(*     user callback (an item in Faults makes the callback raise: the process  *)
(*     dies with a non-zero exit status); WPut = done_queue.put.               *)
EXTENDS SparseLive, TLC
CONSTANTS NW, Cap, AcceptSets, Apexes, FaultSets, Checked
\* Checked = TRUE models the code with the exit-status checks (current tree); FALSE the code before the repair.

Workers == 1..NW
Free == 0

\* ---- the same ground truth as Reduce.tla (TOAST-filtered flavour; Full accept set = unfiltered / generic)
RECURSIVE ReachAt(_, _, _)
ReachAt(A, a, n) == IF n = 0 THEN {Root}
                    ELSE LET prev == ReachAt(A, a, n - 1) IN {k \in Level(n) : Passes(A, a, k) /\ Parent(k) \in prev}
RECURSIVE LiveAt(_, _, _)
LiveAt(A, a, n) == IF n = Depth THEN {p \in ReachAt(A, a, n) : InSub(p, a)}
                   ELSE LET deeper == LiveAt(A, a, n + 1) IN {p \in ReachAt(A, a, n) : InSub(p, a) /\ Kids(p) \cap deeper # {}}
LiveSet(A, a) == UNION {LiveAt(A, a, n) : n \in 0..Depth}
Visited(A, a) == {p \in UNION {ReachAt(A, a, n) : n \in 0..Depth} : InSub(p, a)}
RECURSIVE PostD(_)
PostD(p) == IF p[1] >= Depth THEN <<p>>
            ELSE PostD(Kid(p, 0)) \o PostD(Kid(p, 1)) \o PostD(Kid(p, 2)) \o PostD(Kid(p, 3)) \o <<p>>
SelectIn(s, S) == SelectSeq(s, LAMBDA e : e \in S)

VARIABLES acc, apex, faults, live, ops,      \* frozen per behaviour
          dpc, djoin, readiness,
          rqBuf, rqPipe, rlock,
          dqBuf, dqPipe, dqSem,
          wpc, witem, doneEv,
          started, ended                     \* history: callback starts / completions (sequences)
vars == <<acc, apex, faults, live, ops, dpc, djoin, readiness, rqBuf, rqPipe, rlock, dqBuf, dqPipe, dqSem,
          wpc, witem, doneEv, started, ended>>
frozen == <<acc, apex, faults, live, ops>>
NoItem == <<>>

Dead == {w \in Workers : wpc[w] = "dead"}
Gone == {w \in Workers : wpc[w] \in {"exited", "dead"}}

Init ==
    /\ acc \in AcceptSets /\ apex \in Apexes
    /\ live = LiveSet(acc, apex)
    /\ ops = {p \in live : p[1] < Depth}
    /\ faults \in {F \in FaultSets : F \subseteq ops}
    /\ LET vis == Visited(acc, apex)
           pre(p) == {i \in 0..3 : Kid(p, i) \notin live}
       IN readiness = [p \in {q \in vis : q[1] < Depth /\ pre(q) # {}} |-> pre(p)]
    /\ rqBuf = (IF Depth = 0 THEN <<>> ELSE SelectIn(PostD(Root), {p \in live : p[1] = Depth - 1}))
    /\ rqPipe = <<>> /\ rlock = Free
    /\ dqBuf = [w \in Workers |-> <<>>] /\ dqPipe = <<>> /\ dqSem = 0
    \* "Nothing to do": returns before creating any worker
    /\ dpc = (IF ops = {} THEN "returned" ELSE "loop") /\ djoin = 1
    /\ wpc = [w \in Workers |-> IF ops = {} THEN "exited" ELSE "idle"]
    /\ witem = [w \in Workers |-> NoItem]
    /\ doneEv = FALSE /\ started = <<>> /\ ended = <<>>

\* ---- feeder threads
FlushReady == /\ rqBuf # <<>> /\ rqPipe' = Append(rqPipe, Head(rqBuf)) /\ rqBuf' = Tail(rqBuf)
              /\ UNCHANGED <<frozen, dpc, djoin, readiness, rlock, dqBuf, dqPipe, dqSem, wpc, witem, doneEv, started, ended>>
FlushDone(w) == /\ dqBuf[w] # <<>> /\ dqPipe' = Append(dqPipe, Head(dqBuf[w])) /\ dqBuf' = [dqBuf EXCEPT ![w] = Tail(@)]
                /\ UNCHANGED <<frozen, dpc, djoin, readiness, rqBuf, rqPipe, rlock, dqSem, wpc, witem, doneEv, started, ended>>

\* ---- workers
WAcquire(w) == /\ wpc[w] = "idle" /\ rlock = Free /\ rlock' = w /\ wpc' = [wpc EXCEPT ![w] = "locked"]
               /\ UNCHANGED <<frozen, dpc, djoin, readiness, rqBuf, rqPipe, dqBuf, dqPipe, dqSem, witem, doneEv, started, ended>>
WLockTimeout(w) == /\ wpc[w] = "idle" /\ rlock # Free /\ wpc' = [wpc EXCEPT ![w] = "empty"]
                   /\ UNCHANGED <<frozen, dpc, djoin, readiness, rqBuf, rqPipe, rlock, dqBuf, dqPipe, dqSem, witem, doneEv, started, ended>>
WRecv(w) == /\ wpc[w] = "locked" /\ rqPipe # <<>>
            /\ witem' = [witem EXCEPT ![w] = Head(rqPipe)] /\ rqPipe' = Tail(rqPipe)
            /\ rlock' = Free /\ wpc' = [wpc EXCEPT ![w] = "cb"]
            /\ UNCHANGED <<frozen, dpc, djoin, readiness, rqBuf, dqBuf, dqPipe, dqSem, doneEv, started, ended>>
WPollTimeout(w) == /\ wpc[w] = "locked" /\ rqPipe = <<>> /\ rlock' = Free /\ wpc' = [wpc EXCEPT ![w] = "empty"]
                   /\ UNCHANGED <<frozen, dpc, djoin, readiness, rqBuf, rqPipe, dqBuf, dqPipe, dqSem, witem, doneEv, started, ended>>
WCheckDone(w) == /\ wpc[w] = "empty" /\ wpc' = [wpc EXCEPT ![w] = IF doneEv THEN "exited" ELSE "idle"]
                 /\ UNCHANGED <<frozen, dpc, djoin, readiness, rqBuf, rqPipe, rlock, dqBuf, dqPipe, dqSem, witem, doneEv, started, ended>>
WCbStart(w) == /\ wpc[w] = "cb" /\ started' = Append(started, witem[w])
               /\ wpc' = [wpc EXCEPT ![w] = IF witem[w] \in faults THEN "dead" ELSE "running"]
               /\ UNCHANGED <<frozen, dpc, djoin, readiness, rqBuf, rqPipe, rlock, dqBuf, dqPipe, dqSem, witem, doneEv, ended>>
WCbEnd(w) == /\ wpc[w] = "running" /\ ended' = Append(ended, witem[w]) /\ wpc' = [wpc EXCEPT ![w] = "put"]
             /\ UNCHANGED <<frozen, dpc, djoin, readiness, rqBuf, rqPipe, rlock, dqBuf, dqPipe, dqSem, witem, doneEv, started>>
WPut(w) == /\ wpc[w] = "put" /\ dqSem < Cap /\ dqSem' = dqSem + 1
           /\ dqBuf' = [dqBuf EXCEPT ![w] = Append(@, witem[w])]
           /\ wpc' = [wpc EXCEPT ![w] = "idle"] /\ witem' = [witem EXCEPT ![w] = NoItem]
           /\ UNCHANGED <<frozen, dpc, djoin, readiness, rqBuf, rqPipe, rlock, dqPipe, doneEv, started, ended>>

\* ---- dispatcher
Flags(p) == IF p \in DOMAIN readiness THEN readiness[p] ELSE {}
DGet == /\ dpc = "loop" /\ dqPipe # <<>>
        /\ LET pos == Head(dqPipe) IN
           /\ dqPipe' = Tail(dqPipe) /\ dqSem' = dqSem - 1
           /\ IF pos = apex THEN dpc' = "closing" /\ UNCHANGED <<readiness, rqBuf>>
              ELSE LET pp == Parent(pos)
                       fl == Flags(pp) \cup {Slot(pos)} IN
                   /\ dpc' = "loop"
                   /\ IF fl = 0..3
                      THEN /\ readiness' = [q \in DOMAIN readiness \ {pp} |-> readiness[q]]
                           /\ rqBuf' = Append(rqBuf, pp)
                      ELSE /\ readiness' = [q \in DOMAIN readiness \cup {pp} |-> IF q = pp THEN fl ELSE readiness[q]]
                           /\ UNCHANGED rqBuf
        /\ UNCHANGED <<frozen, djoin, rqPipe, rlock, dqBuf, wpc, witem, doneEv, started, ended>>
\* the get timed out; with Checked the dispatcher looks at the workers' exit status
DTimeout == /\ dpc = "loop" /\ dqPipe = <<>>
            /\ IF Checked /\ Dead # {} THEN dpc' = "raised" /\ doneEv' = TRUE ELSE UNCHANGED <<dpc, doneEv>>
            /\ UNCHANGED <<frozen, djoin, readiness, rqBuf, rqPipe, rlock, dqBuf, dqPipe, dqSem, wpc, witem, started, ended>>
DClose == /\ dpc = "closing" /\ dpc' = "jointhread"
          /\ UNCHANGED <<frozen, djoin, readiness, rqBuf, rqPipe, rlock, dqBuf, dqPipe, dqSem, wpc, witem, doneEv, started, ended>>
DJoinThread == /\ dpc = "jointhread" /\ rqBuf = <<>> /\ dpc' = "setev"
               /\ UNCHANGED <<frozen, djoin, readiness, rqBuf, rqPipe, rlock, dqBuf, dqPipe, dqSem, wpc, witem, doneEv, started, ended>>
DSetEv == /\ dpc = "setev" /\ doneEv' = TRUE /\ dpc' = "joinw"
          /\ UNCHANGED <<frozen, djoin, readiness, rqBuf, rqPipe, rlock, dqBuf, dqPipe, dqSem, wpc, witem, started, ended>>
\* `for w in workers: w.join()` then check_workers(workers)
DJoinW == /\ dpc = "joinw" /\ djoin \in Gone
          /\ IF djoin < NW THEN djoin' = djoin + 1 /\ UNCHANGED dpc
             ELSE /\ UNCHANGED djoin
                  /\ dpc' = (IF Checked /\ Dead # {} THEN "raised" ELSE "returned")
          /\ UNCHANGED <<frozen, readiness, rqBuf, rqPipe, rlock, dqBuf, dqPipe, dqSem, wpc, witem, doneEv, started, ended>>

WNext(w) == WAcquire(w) \/ WLockTimeout(w) \/ WRecv(w) \/ WPollTimeout(w) \/ WCheckDone(w)
            \/ WCbStart(w) \/ WCbEnd(w) \/ WPut(w) \/ FlushDone(w)
Next == FlushReady \/ DGet \/ DTimeout \/ DClose \/ DJoinThread \/ DSetEv \/ DJoinW \/ \E w \in Workers : WNext(w)

\* Fairness: every process keeps being scheduled; a timeout fires when its wait condition persists.
\* (No fairness on WLockTimeout: nobody is obliged to lose a race for the reader lock.)
Fair == /\ WF_vars(FlushReady) /\ WF_vars(DGet) /\ WF_vars(DTimeout) /\ WF_vars(DClose) /\ WF_vars(DJoinThread)
        /\ WF_vars(DSetEv) /\ WF_vars(DJoinW)
        /\ \A w \in Workers : /\ WF_vars(WAcquire(w)) /\ WF_vars(WRecv(w)) /\ WF_vars(WPollTimeout(w))
                              /\ WF_vars(WCheckDone(w)) /\ WF_vars(WCbStart(w)) /\ WF_vars(WCbEnd(w))
                              /\ WF_vars(WPut(w)) /\ WF_vars(FlushDone(w))
Spec == Init /\ [][Next]_vars /\ Fair

\* ------------------------------------------------------------------ properties (C01)
StartedSet == Range(started)
EndedSet == Range(ended)
\* the callback runs only for live non-leaf tiles of the sub-pyramid ...
OnlyOps == StartedSet \subseteq ops
\* ... at most once ...
AtMostOnce == NoDup(started)
\* the sparse computation of the live set (used for deep pyramids) is the live set (a state predicate on the frozen
\* variables; the configuration modules generated by checks/c01.py assert it as an ASSUME over every configuration)
SparseAgrees == SLiveSet(acc, apex) = live
\* ... and only after the callbacks of all its live non-leaf children have completed
ChildrenFirst == \A i \in DOMAIN started : \A k \in Kids(started[i]) : k \in ops => k \in EndedSet
ChildrenFirstStep == [][\A w \in Workers : WCbStart(w) => \A k \in Kids(witem[w]) : k \in ops => k \in EndedSet]_vars
\* the walk returns normally only when every operation has been carried out and every worker has exited
DoneOK == dpc = "returned" => /\ EndedSet = ops /\ Len(ended) = Cardinality(ops)
                              /\ \A w \in Workers : wpc[w] = "exited"
                              /\ rqBuf = <<>> /\ rqPipe = <<>>
\* the shutdown flag is raised only when nothing can arrive any more
NoLossAtSet == (doneEv /\ dpc # "raised") => rqBuf = <<>> /\ rqPipe = <<>>
\* readiness.pop() never raises KeyError, flags never exceed four bits, no parent is released twice
PopSafe == \A p \in DOMAIN readiness : p \in ops => readiness[p] # 0..3
NoDoubleRelease == NoDup(rqBuf \o rqPipe) /\ \A i \in DOMAIN started : \A j \in DOMAIN rqPipe : rqPipe[j] # started[i]
\* and it does return (fault-free) / it ends, and not normally, when a callback raised (C19)
Termination == <>(dpc \in {"returned", "raised"})
FaultFree == faults = {}
ReturnsWhenFaultFree == FaultFree => <>(dpc = "returned")
NeverSwallowed == (Dead # {}) => dpc # "returned"
RaisedOnlyOnFault == dpc = "raised" => Dead # {}
=============================================================================
