---- MODULE MCWcsSamplingThumb ----
(* Stand-alone model of WcsSamplingThumb (tlc -config MCWcsSamplingThumb.cfg MCWcsSamplingThumb.tla): every size up to   *)
(* 64 x 64 plus sizes around the thumbnail's own, rounding ties (width = 16 mod 32), extreme aspect ratios and large  *)
(* images.  checks/g11.py generates this module for its own size list; Emit prints the specified crop box, output    *)
(* size and refusal of every state (Report).                                                                         *)
EXTENDS WcsSamplingThumb, Json
MCSizes == ((1..64) \X (1..64)) \cup ((90..100) \X (40..50)) \cup ((180..200) \X (85..95))
           \cup {<<1000, 1>>, <<1, 1000>>, <<4000, 30>>, <<30, 4000>>, <<2000, 1000>>, <<1000, 2000>>, <<4000, 3000>>,
                 <<112, 300>>, <<144, 300>>, <<176, 90>>, <<208, 1000>>, <<2000, 2001>>, <<138, 46>>, <<4096, 1920>>}
MCSmallSizes == {<<1, 1>>, <<50, 50>>, <<96, 45>>, <<300, 100>>}
Emit == PrintT(<<"T", ToJson(Report)>>)
====
