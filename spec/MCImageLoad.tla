----------------------------- MODULE MCImageLoad -----------------------------
(* Wrapper of ImageLoad.tla for checks/g05.py: families and emitter.         *)
EXTENDS ImageLoad, ImageFamilies, Json

MCEntries == {"path", "stream", "pil"}
MCSuffixes == {".png", ".jpg", ".tiff", ".npy", ".fits", ".dat", ".NPY", ".FITS", ".fts", ".fits.gz", ".FTS.GZ"}
\* quick: every layout at 4 x 3, and a 2 x 2 instance (every quick crop but one empties or overshoots it) of four layouts
MCFilesQuick == FileFamily(FileKinds, {<<4, 3>>}, {0})
                \cup FileFamily({<<"png", "RGB", "none">>, <<"png", "RGBA", "odd">>, <<"png", "LA", "none">>, <<"jpg", "RGB", "none">>, <<"npy", "F32", "none">>}, {<<2, 2>>}, {1})
MCFilesThorough == FileFamily(FileKinds, {<<4, 3>>, <<2, 2>>, <<3, 5>>, <<1, 1>>}, {0, 2})
\* None; nothing; one edge each; all four; exactly everything (4 x 3 and 2 x 2); too much
MCCropsQuick == {<<>>, <<0, 0, 0, 0>>, <<1, 0, 0, 0>>, <<0, 1, 0, 0>>, <<0, 0, 1, 0>>, <<0, 0, 0, 1>>, <<1, 1, 1, 1>>, <<1, 2, 2, 2>>, <<0, 3, 0, 2>>}
MCCropsThorough == MCCropsQuick \cup {<<2, 0, 0, 1>>, <<0, 2, 1, 0>>, <<1, 0, 1, 3>>, <<3, 0, 0, 0>>, <<0, 0, 0, 4>>, <<2, 0, 2, 0>>, <<0, 0, 0, 5>>}

Record == [file |-> file, crop |-> crop, b2t |-> b2t, cp |-> cp, entry |-> entry, suffix |-> suffix, r |-> R,
           mask |-> IF R.ok THEN MaskOf(R) ELSE {},
           ideal |-> [CropAppliesToEveryFile |-> CropAppliesToEveryFile, AlphaSurvivesLoad |-> AlphaSurvivesLoad,
                      B2TAppliesToEveryFile |-> B2TAppliesToEveryFile, EmptyCropRefused |-> EmptyCropRefused]]
Emit == PrintT(<<"LD", ToJson(Record)>>)
=============================================================================
