------------------------------ MODULE MultiWcs ------------------------------
(* G06 (DESIGN.md section 7) - the REPROJECTION route of multi-image tiling:   *)
(* toasty/multi_wcs.py, MultiWcsProcessor.compute_global_pixelization, tile,   *)
(* _tile_serial, _tile_parallel, _mp_tile_worker; with                          *)
(* reproject.mosaicking.find_optimal_celestial_wcs (the target grid),           *)
(* toasty/image.py ImageDescription.ensure_negative_parity / _flip_wcs_parity,  *)
(* Image.update_into_maskable_buffer; toasty/study.py StudyTiling /             *)
(* compute_for_subimage / generate_populated_positions; toasty/pyramid.py       *)
(* PyramidIO.update_image / write_image / clean_lockfiles; toasty/builder.py    *)
(* Builder.apply_wcs_info.                                                      *)
(*                                                                             *)
(* Reused, not restated: spec/StudyTiling.tla (padded square, centring,         *)
(* sub-tilings, rectangles, row slices of both tile parities) as ST;            *)
(* spec/Mosaic.tla (the aligned multi-TAN route, C09) as M for the display-     *)
(* level ground truth (DefGlobal, Val, PasteMosaic, SingleTiles, Display,        *)
(* Stored, Winner, CellTable, Canonical) and the ImageSet fields (Fields).      *)
(* The per-tile Lock / Read / Write / Unlock steps are the critical section of  *)
(* spec/TileLock.tla (TryOK / Read / Modify + WriteBegin + WriteEnd / Release;  *)
(* TileLock!NoPartialRead is why a write is one step here); the hand-over of     *)
(* the inputs to the workers is spec/WorkQueue.tla (Take = WRecv + WCbStart,     *)
(* the end of an input's loop = WCbEnd; its sentences AtMostOnce and             *)
(* ReturnedImpliesAll are restated over this module's variables below).          *)
(*                                                                             *)
(* MODELLING ASSUMPTION (the aligned family).  Every input is a rectangle of    *)
(* cells of ONE common sky lattice (same tangent point, same pixel scale, axes   *)
(* along the lattice), stored in any of the eight lattice orientations.  Then    *)
(* the optimal target WCS is that lattice again (reference value = the common    *)
(* CRVAL, rotation 0 because the four corners of the bounding box are corners    *)
(* of inputs - WellFormed below), every input differs from the target by an      *)
(* integer pixel shift, and reprojection (reproject_interp) returns the input's  *)
(* own pixel values: Reproj below.  What floating point adds is modelled         *)
(* explicitly (slack, below); what interpolation does for unaligned inputs is    *)
(* outside this model.                                                          *)
(*                                                                             *)
(* A case c = [ins, agree, rx, ry]:                                              *)
(*   ins[k] = [x0, y0, w, h, bl, br, bt, bb, hx0, hx1, hy0, hy1]: the lattice     *)
(*            cells x0 .. x0+w-1 (x grows to the right of the display),          *)
(*            y0 .. y0+h-1 (y grows UPWARDS, as in a FITS image), and - in the    *)
(*            input's display orientation (row 0 on top) - undefined (NaN)        *)
(*            borders and an undefined hole, exactly Mosaic's sub-image record;   *)
(*   agree    overlapping inputs carry the same values (the sky) or each its own; *)
(*   rx, ry   2 * lattice coordinates (pixel EDGE coordinates: cell i spans       *)
(*            [i, i+1]) of the common reference point CRVAL.                      *)
(*                                                                             *)
(* As-built deviation, modelled and named: RoundoffSlack.  The corners of an      *)
(* aligned input fall EXACTLY on pixel edges of the target (x.5), where          *)
(* floor(x + 0.5) / ceil(x + 0.5) are discontinuous: a relative error of 1e-13    *)
(* in world_to_pixel(pixel_to_world(corner)) moves imin one pixel down or imax    *)
(* one pixel up (never the other way).  sl[k] = [l, r, t, b] in {0, 1}^4 is that   *)
(* error, chosen by the environment.  The widened box's extra row / column is     *)
(* outside the input, reprojects to NaN and contributes nothing - theorems        *)
(* SlackContributesNothing, TilesAreTilingOfMosaic - but the input VISITS         *)
(* (locks, reads, writes, counts in n_todo) tiles its footprint does not touch:   *)
(* the ideal VisitsOnlyFootprintTiles is refuted by TLC.                          *)
EXTENDS Integers, Sequences, FiniteSets, TLC

CONSTANTS TS,             \* tile size in pixels (256 in toasty)
          Cases,          \* the cases the state machines explore
          Caps,           \* values of MAXIMUM_CHUNK_SIZE (pixels per reprojection chunk)
          SlackSet,       \* the slack records the environment may choose for an input
          NWorkers,       \* SpecPar: worker processes
          UseLock,        \* SpecPar: update_image holds the tile lock around read + write (the design: TRUE)
          ReleaseUnlinks  \* SpecPar: releasing the lock removes its file (SoftFileLock: TRUE)

M == INSTANCE Mosaic WITH Decomps <- {}, dc <- 0, pars <- 0, q <- 0, plan <- 0, order <- 0, tiles <- 0, mosaic <- 0,
                          wk <- 0, held <- 0, lockfiles <- 0, cleaned <- 0
ST == INSTANCE StudyTiling WITH MaxW <- 1, MaxH <- 1, MaxLen <- 1, SubMode <- "none", SubLens <- {}, c <- 0

U == M!U
Parities == ST!Parities
Max(a, b) == IF a >= b THEN a ELSE b
Min(a, b) == IF a <= b THEN a ELSE b
Range(s) == {s[k] : k \in DOMAIN s}
NoDup(s) == \A i, j \in DOMAIN s : i # j => s[i] # s[j]

\* ================================================================ compute_global_pixelization
NIn(c) == Len(c.ins)
XMin(c) == M!SetMin({c.ins[k].x0 : k \in DOMAIN c.ins})
XMax(c) == M!SetMax({c.ins[k].x0 + c.ins[k].w : k \in DOMAIN c.ins})
YMin(c) == M!SetMin({c.ins[k].y0 : k \in DOMAIN c.ins})
YMax(c) == M!SetMax({c.ins[k].y0 + c.ins[k].h : k \in DOMAIN c.ins})
\* find_optimal_celestial_wcs(auto_rotate, TAN): with CRPIX = (1, 1) the corner at lattice X sits at pixel 1 + X - rx/2;
\* crpix = (1 - xmin) + 0.5; naxis = round(xmax - xmin).  CDELT = (-res, +res): the optimal WCS is BOTTOM-UP.
GW(c) == XMax(c) - XMin(c)
GH(c) == YMax(c) - YMin(c)
C1(c) == c.rx - 2 * XMin(c) + 1                 \* 2 * CRPIX1
C2BU(c) == c.ry - 2 * YMin(c) + 1               \* 2 * CRPIX2 of the bottom-up optimal WCS
\* ImageDescription(wcs, shape).ensure_negative_parity(): _flip_wcs_parity, CRPIX2 <- height + 1 - CRPIX2
C2(c) == 2 * (GH(c) + 1) - C2BU(c)
\* self._combined_wcs.world_to_pixel of the lattice point X / Y (edge coordinates): 0-based pixel coordinate, doubled
PX2(c, X) == (2 * X - c.rx) + (C1(c) - 2)
PY2(c, Y) == (C2(c) - 2) - (2 * Y - c.ry)       \* top-down: the pixel row grows as Y falls
FloorHalfUp(v2) == (v2 + 1) \div 2              \* floor(v + 0.5) for v = v2 / 2
CeilHalfUp(v2) == (v2 + 2) \div 2               \* ceil(v + 0.5)
NoSlack == [l |-> 0, r |-> 0, t |-> 0, b |-> 0]
AllSlack == [l |-> 1, r |-> 1, t |-> 1, b |-> 1]
CornerX2(c, k) == {PX2(c, c.ins[k].x0), PX2(c, c.ins[k].x0 + c.ins[k].w)}
CornerY2(c, k) == {PY2(c, c.ins[k].y0), PY2(c, c.ins[k].y0 + c.ins[k].h)}
\* desc.imin .. desc.jmax; s = the floating-point slack of this input (RoundoffSlack)
Box(c, k, s) == [imin |-> Max(0, FloorHalfUp(M!SetMin(CornerX2(c, k))) - s.l),
                 imax |-> Min(GW(c), CeilHalfUp(M!SetMax(CornerX2(c, k))) + s.r),
                 jmin |-> Max(0, FloorHalfUp(M!SetMin(CornerY2(c, k))) - s.t),
                 jmax |-> Min(GH(c), CeilHalfUp(M!SetMax(CornerY2(c, k))) + s.b)]
ExactBox(c, k) == Box(c, k, NoSlack)
\* the display-level ground truth in Mosaic's vocabulary: where input k lies in the target, counted from its top-left pixel
SubOf(c, k) == LET i == c.ins[k]
               IN [ox |-> i.x0 - XMin(c), oy |-> YMax(c) - (i.y0 + i.h), w |-> i.w, h |-> i.h,
                   bl |-> i.bl, br |-> i.br, bt |-> i.bt, bb |-> i.bb, hx0 |-> i.hx0, hx1 |-> i.hx1, hy0 |-> i.hy0, hy1 |-> i.hy1]
Decomp(c) == [W |-> GW(c), H |-> GH(c), r1 |-> C1(c), r2 |-> C2(c), agree |-> c.agree, subs |-> [k \in 1..NIn(c) |-> SubOf(c, k)]]
GT(c) == ST!Tiling(GW(c), GH(c))                \* StudyTiling(width, height)
GFields(c) == M!Fields(GW(c), GH(c), GT(c).lev, <<C1(c), C2(c)>>)   \* apply_to_imageset + apply_wcs_info

\* the reprojection bands of one input: rows_per_chunk = max(MAXIMUM_CHUNK_SIZE // width, 1)
RowsPerChunk(cap, width) == Max(cap \div width, 1)
Chunks(b, cap) == LET rpc == RowsPerChunk(cap, b.imax - b.imin)
                      n == ((b.jmax - b.jmin) + rpc - 1) \div rpc
                  IN [i \in 1..n |-> [j0 |-> b.jmin + (i - 1) * rpc, j1 |-> Min(b.jmin + i * rpc, b.jmax)]]
ChunkTiling(c, b, ch) == ST!SubTiling(GT(c), b.imin, ch.j0, b.imax - b.imin, ch.j1 - ch.j0)   \* compute_for_subimage
NTodoOf(c, b, cap) == LET chs == Chunks(b, cap)
                      IN ST!SumRange([i \in 1..Len(chs) |-> ST!Count(ChunkTiling(c, b, chs[i]))], 1, Len(chs))
NTodo(c, boxes, cap) == ST!SumRange([k \in 1..NIn(c) |-> NTodoOf(c, boxes[k], cap)], 1, NIn(c))

\* ================================================================ tile(): one input
\* reproject_function((array, wcs), output_projection = combined_wcs[j0:j1, imin:imax], shape_out): under the modelling
\* assumption the value of input k at the target cell, NaN where the input is undefined or does not reach
Reproj(d, k, gx, gy) == IF M!DefGlobal(d.subs[k], gx, gy) THEN M!Val(d, k, gx, gy) ELSE U
\* one chunk: the reprojected array (top-down, <<row, column>>), the populated positions of its sub-tiling, and the
\* buffer rows each rectangle is written to: by_idx = slice(tile_y, tile_y + height) for top-down tile formats,
\* slice(255 - tile_y, 255 - tile_y - height (None for -1), -1) for FITS tiles - ST!RowIdx.  The image rows are NOT
\* counted from the other end here (unlike multi_tan, which flips the input to the tile parity first).
ChunkPlan(c, d, k, b, ch, qq) ==
    LET rs == ST!Rects(ChunkTiling(c, b, ch))
    IN [img |-> [p \in (0..(ch.j1 - ch.j0 - 1)) \X (0..(b.imax - b.imin - 1)) |-> Reproj(d, k, b.imin + p[2], ch.j0 + p[1])],
        rs |-> rs,
        rows |-> [j \in 1..Len(rs) |-> ST!RowIdx(qq, rs[j])]]
RECURSIVE FlatSteps(_, _)
FlatSteps(cps, i) == IF i > Len(cps) THEN <<>>
                     ELSE [j \in 1..Len(cps[i].rs) |-> [ci |-> i, j |-> j, pos |-> <<cps[i].rs[j].pos[2], cps[i].rs[j].pos[3]>>]]
                          \o FlatSteps(cps, i + 1)
InputPlan(c, k, s, cap, qq) ==
    LET b == Box(c, k, s)
        chs == Chunks(b, cap)
        d == Decomp(c)
        cps == [i \in 1..Len(chs) |-> ChunkPlan(c, d, k, b, chs[i], qq)]
    IN [box |-> b, chunks |-> chs, ch |-> cps, steps |-> FlatSteps(cps, 1)]     \* steps: one update_image each
Plan(c, ss, cap, qq) == [k \in 1..NIn(c) |-> InputPlan(c, k, ss[k], cap, qq)]

\* image_out.update_into_maskable_buffer(basis, iy_idx, ix_idx, by_idx, bx_idx): only non-NaN source pixels are written
UpdateRect(buf, img, r, rows) ==
    [e \in M!TileIdx |-> LET tp == ST!TilePixel(r, rows, e[1], e[2])          \* <<chunk column, chunk row>> or Undef
                         IN IF tp = ST!Undef THEN buf[e]
                            ELSE LET v == img[<<tp[2], tp[1]>>] IN IF v # U THEN v ELSE buf[e]]
StepUpdate(buf, pk, s) == UpdateRect(buf, pk.ch[s.ci].img, pk.ch[s.ci].rs[s.j], pk.ch[s.ci].rows[s.j])
RECURSIVE ApplySteps(_, _, _)
ApplySteps(tl, pk, i) == IF i > Len(pk.steps) THEN tl
                         ELSE LET s == pk.steps[i]
                                  nt == [tl EXCEPT ![s.pos] = StepUpdate(@, pk, s)]
                              IN ApplySteps(nt, pk, i + 1)

\* ================================================================ state machines
VARIABLES cs,        \* the case (frozen)
          q,         \* parity of the tile format (frozen): fits "bottomup", npy / png "topdown"
          cap,       \* MAXIMUM_CHUNK_SIZE (frozen)
          sl,        \* the roundoff slack of every input (frozen; chosen by the environment)
          plan,      \* Plan(cs, sl, cap, q) (frozen)
          geo,       \* [d |-> Decomp(cs), t |-> GT(cs), exact |-> the exact boxes] (frozen; computed once per behaviour)
          order,     \* the inputs in the order in which they were pasted / taken from the queue
          fin,       \* SpecPar: the inputs whose loop has ended, in that order
          tiles,     \* deepest-level tiles: <<tx, ty>> -> <<file row, column>> -> value
          mosaic,    \* SpecSerial: ghost - the inputs pasted at display level into one W x H image
          nvis,      \* number of update_image calls so far (progress.update(1) in serial mode)
          wk,        \* SpecPar: per worker [st, k, i, buf]
          held,      \* SpecPar: positions whose lock is held
          lockfiles, \* positions whose .lock file exists
          cleaned    \* tile() has returned (clean_lockfiles ran)
vars == <<cs, q, cap, sl, plan, geo, order, fin, tiles, mosaic, nvis, wk, held, lockfiles, cleaned>>
frozen == <<cs, q, cap, sl, plan, geo>>
N == Len(geo.exact)
D == geo.d
T == geo.t
Exact(k) == geo.exact[k]
AllPasted == Len(order) = N

InitCommon == /\ cs \in Cases
              /\ q \in Parities
              /\ cap \in Caps
              /\ sl \in [1..NIn(cs) -> SlackSet]
              /\ plan = Plan(cs, sl, cap, q)
              /\ geo = [d |-> Decomp(cs), t |-> GT(cs), exact |-> [k \in 1..NIn(cs) |-> ExactBox(cs, k)]]
              /\ order = <<>> /\ fin = <<>> /\ nvis = 0
              /\ tiles = [p \in M!TilePositions(GT(cs)) |-> M!Blank]
              /\ held = {} /\ lockfiles = {} /\ cleaned = FALSE

\* ---------------------------------------------------------------- SpecSerial: _tile_serial over every collection order
InitSerial == InitCommon /\ mosaic = M!BlankMosaic(Decomp(cs)) /\ wk = <<>>
Paste(k) == /\ k \notin Range(order) /\ ~cleaned
            /\ order' = Append(order, k) /\ fin' = Append(fin, k)
            /\ tiles' = ApplySteps(tiles, plan[k], 1)
            /\ mosaic' = M!PasteMosaic(mosaic, D, k)
            /\ nvis' = nvis + Len(plan[k].steps)
            /\ UNCHANGED <<frozen, wk, held, lockfiles, cleaned>>
\* pio.clean_lockfiles(self._tiling._tile_levels)
FinishSerial == /\ AllPasted /\ ~cleaned /\ cleaned' = TRUE /\ lockfiles' = {}
                /\ UNCHANGED <<frozen, order, fin, tiles, mosaic, nvis, wk, held>>
NextSerial == FinishSerial \/ \E k \in 1..N : Paste(k)
SpecSerial == InitSerial /\ [][NextSerial]_vars

\* ---------------------------------------------------------------- theorems: the target grid (evaluated in the initial states)
Boxes == [k \in 1..N |-> plan[k].box]
TilesOfBox(b) == {<<tx, ty>> : tx \in ((T.x.g0 + b.imin) \div TS)..((T.x.g0 + b.imax - 1) \div TS),
                               ty \in ((T.y.g0 + b.jmin) \div TS)..((T.y.g0 + b.jmax - 1) \div TS)}
Widened(b) == [imin |-> Max(0, b.imin - 1), imax |-> Min(D.W, b.imax + 1), jmin |-> Max(0, b.jmin - 1), jmax |-> Min(D.H, b.jmax + 1)]
Visited(k) == {plan[k].steps[i].pos : i \in DOMAIN plan[k].steps}
\* "the target grid covers every input footprint" and is the smallest such grid: Mosaic's WellFormed says every
\* sub-image lies inside W x H and every side of the bounding box is touched; the target is top-down (row 0 = the
\* highest lattice row) whatever the reference point
HullIsBox(c) == /\ \E k \in DOMAIN c.ins : c.ins[k].x0 = XMin(c) /\ c.ins[k].y0 = YMin(c)
                /\ \E k \in DOMAIN c.ins : c.ins[k].x0 = XMin(c) /\ c.ins[k].y0 + c.ins[k].h = YMax(c)
                /\ \E k \in DOMAIN c.ins : c.ins[k].x0 + c.ins[k].w = XMax(c) /\ c.ins[k].y0 = YMin(c)
                /\ \E k \in DOMAIN c.ins : c.ins[k].x0 + c.ins[k].w = XMax(c) /\ c.ins[k].y0 + c.ins[k].h = YMax(c)
TargetCovers == (order = <<>>) =>
    /\ HullIsBox(cs)               \* the modelling assumption: the case is in the aligned family
    /\ M!WellFormed(D)
    /\ PX2(cs, XMin(cs)) = -1 /\ PX2(cs, XMax(cs)) = 2 * D.W - 1         \* left edge at -0.5, right edge at W - 0.5
    /\ PY2(cs, YMax(cs)) = -1 /\ PY2(cs, YMin(cs)) = 2 * D.H - 1         \* the TOP edge is the highest lattice row
    /\ \A k \in 1..N : LET e == Exact(k) s == D.subs[k]
                       IN e = [imin |-> s.ox, imax |-> s.ox + s.w, jmin |-> s.oy, jmax |-> s.oy + s.h]
\* the box the code works with: never smaller than the footprint, at most one pixel wider per side, inside the grid
BoxesOK == (order = <<>>) => \A k \in 1..N :
    LET b == Boxes[k] e == Exact(k) w == Widened(e)
    IN /\ b.imin <= e.imin /\ b.imax >= e.imax /\ b.jmin <= e.jmin /\ b.jmax >= e.jmax
       /\ b.imin >= w.imin /\ b.imax <= w.imax /\ b.jmin >= w.jmin /\ b.jmax <= w.jmax
       /\ b.imin >= 0 /\ b.jmin >= 0 /\ b.imax <= D.W /\ b.jmax <= D.H
\* the bands partition the box's rows; a band holds at most cap pixels unless it is a single row
ChunksOK == (order = <<>>) => \A k \in 1..N :
    LET b == Boxes[k] chs == plan[k].chunks n == Len(chs)
    IN /\ n >= 1 /\ chs[1].j0 = b.jmin /\ chs[n].j1 = b.jmax
       /\ \A i \in 1..n : chs[i].j0 < chs[i].j1 /\ (i < n => chs[i].j1 = chs[i + 1].j0)
       /\ \A i \in 1..n : (chs[i].j1 - chs[i].j0) * (b.imax - b.imin) <= cap \/ chs[i].j1 - chs[i].j0 = 1
       /\ \A i \in 1..n : LET t == ChunkTiling(cs, b, chs[i])
                          IN /\ ST!SubTilingOK(T, <<b.imin, chs[i].j0>>, t) /\ ST!IntervalPartitionOK(t)
                             /\ ST!SegsOK(t.x) /\ ST!SegsOK(t.y) /\ ST!AxisRowsOK(t.y)
\* each input visits exactly the tiles its box intersects (each once per band); these include every tile its
\* footprint intersects and lie within the footprint widened by one pixel
VisitsOK == (order = <<>>) => \A k \in 1..N :
    /\ Visited(k) = TilesOfBox(Boxes[k])
    /\ TilesOfBox(Exact(k)) \subseteq Visited(k)
    /\ Visited(k) \subseteq TilesOfBox(Widened(Exact(k)))
    /\ (sl[k] = NoSlack => Visited(k) = TilesOfBox(Exact(k)))
    /\ \A i1, i2 \in DOMAIN plan[k].steps :
          (i1 # i2 /\ plan[k].steps[i1].ci = plan[k].steps[i2].ci) => plan[k].steps[i1].pos # plan[k].steps[i2].pos
    /\ Len(plan[k].steps) = NTodoOf(cs, Boxes[k], cap)
\* the imageset: levels, projection and placement are those of the single W x H top-down image with the target's CRPIX
FieldsOK == (order = <<>>) =>
    LET fl == GFields(cs) IN
    /\ fl.levels = T.lev /\ 2^fl.levels * TS = T.p2
    /\ ST!P2Minimal(D.W, D.H) /\ ST!Centred(T.p2, D.W) /\ ST!Centred(T.p2, D.H)
    /\ T.lev > 0 => /\ fl.offx2 = (T.p2 - 2 * T.x.g0) - (C1(cs) - 1)
                    /\ fl.offy2 = (C2(cs) - 1) - (T.p2 - 2 * T.y.g0)

\* ---------------------------------------------------------------- theorems: the tiles (every prefix of every order)
DefCells(k) == {g \in (0..(D.W - 1)) \X (0..(D.H - 1)) : M!DefGlobal(D.subs[k], g[1], g[2])}
TileOfCell(g) == <<(T.x.g0 + g[1]) \div TS, (T.y.g0 + g[2]) \div TS>>
DefTiles(k) == {TileOfCell(g) : g \in DefCells(k)}
FullyDefined(s) == s.bl = 0 /\ s.br = 0 /\ s.bt = 0 /\ s.bb = 0 /\ (s.hx0 = s.hx1 \/ s.hy0 = s.hy1)
StoredTiles == {p \in DOMAIN tiles : M!Stored(tiles[p])}
\* the tiles are the single-image study tiling of the display-level paste: an expression without slack, bands, or
\* collection internals (hence: the extra row / column of a widened box contributes nothing, bands do not matter)
TilesAreTilingOfMosaic == tiles = M!SingleTiles(mosaic, D.W, D.H, q)
LastWins == \A g \in DOMAIN mosaic :
               LET k == M!Winner(D.subs, order, g[1], g[2])
               IN mosaic[g] = IF k = 0 THEN U ELSE M!Val(D, k, g[1], g[2])
\* "the populated tile set is exactly the union of the inputs' footprints' tiles"
PopulatedExact ==
    /\ StoredTiles = UNION {DefTiles(k) : k \in Range(order)}
    /\ \A k \in 1..N : FullyDefined(D.subs[k]) => DefTiles(k) = TilesOfBox(Exact(k))
\* "every defined mosaic cell ends up with the value of some input covering it, and with the unique value where one
\* input covers it"; a cell nobody defines stays undefined - in display orientation, whatever the tile parity
CellValues ==
    \A gx \in 0..(T.p2 - 1), gy \in 0..(T.p2 - 1) :
       LET ix == gx - T.x.g0
           iy == gy - T.y.g0
           ks == {k \in Range(order) : M!DefGlobal(D.subs[k], ix, iy)}
           v == M!Display(tiles, q, gx, gy)
       IN /\ ks = {} => v = U
          /\ ks # {} => \E k \in ks : v = M!Val(D, k, ix, iy)
          /\ \A k \in ks : ks = {k} => v = M!Val(D, k, ix, iy)
\* "order-independence where inputs agree on overlaps"
OrderIndependent == (AllPasted /\ cs.agree) => /\ mosaic = M!Canonical(D)
                                               /\ tiles = M!SingleTiles(M!Canonical(D), D.W, D.H, q)
\* n_todo (the progress total) is the number of update_image calls
NTodoIsVisits == /\ nvis = ST!SumRange([k \in 1..N |-> IF k \in Range(order) THEN Len(plan[k].steps) ELSE 0], 1, N)
                 /\ AllPasted => nvis = NTodo(cs, Boxes, cap)
\* "undefined (NaN footprint) pixels never overwrite defined ones" (action property)
NeverOverwritten ==
    [][\A k \in 1..N : (order' = Append(order, k)) =>
          \A gx \in 0..(T.p2 - 1), gy \in 0..(T.p2 - 1) :
             LET ix == gx - T.x.g0
                 iy == gy - T.y.g0
             IN IF M!DefGlobal(D.subs[k], ix, iy)
                THEN M!Display(tiles', q, gx, gy) = M!Val(D, k, ix, iy)
                ELSE M!Display(tiles', q, gx, gy) = M!Display(tiles, q, gx, gy)]_vars
\* the serial route takes no lock that outlives its update and leaves no lock file
SerialNoLocks == lockfiles = {} /\ held = {}

\* the cells a widened box adds lie outside the input: they reproject to NaN and contribute nothing
SlackContributesNothing == (order = <<>>) => \A k \in 1..N : \A ci \in DOMAIN plan[k].ch :
    LET b == Boxes[k] e == Exact(k) ch == plan[k].chunks[ci] img == plan[k].ch[ci].img
    IN \A p \in DOMAIN img :
          LET gx == b.imin + p[2] gy == ch.j0 + p[1]
          IN (gx < e.imin \/ gx >= e.imax \/ gy < e.jmin \/ gy >= e.jmax) => img[p] = U

\* ---- the as-built deviations, named, with the statement each one breaks and the proof that it is the ONLY cause
RoundoffSlack == \E k \in 1..N : sl[k] # NoSlack               \* some box is wider than the footprint
SplitIntoBands == \E k \in 1..N : Len(plan[k].chunks) > 1      \* some input is reprojected in more than one band
InputsDisagree == ~cs.agree

\* ---- statements that are NOT true of the code as built (TLC must refute each)
\* an input only visits tiles its footprint intersects (refuted by RoundoffSlack)
VisitsOnlyFootprintTiles == \A k \in 1..N : Visited(k) = TilesOfBox(Exact(k))
\* the progress total counts each tile an input touches once (refuted by bands: a tile that two bands of one input
\* reach is locked, read and written once per band)
OneVisitPerInputAndTile == \A k \in 1..N : Len(plan[k].steps) = Cardinality(Visited(k))
\* the result does not depend on the order of the inputs even where they disagree
OrderNeverMatters == AllPasted => \A g \in DOMAIN mosaic :
                        LET k == M!Winner(D.subs, [j \in 1..N |-> j], g[1], g[2])
                        IN mosaic[g] = IF k = 0 THEN U ELSE M!Val(D, k, g[1], g[2])

\* ... and each of them holds whenever its named deviation is absent
DeviationsAreTheOnlyCauses == /\ ~RoundoffSlack => VisitsOnlyFootprintTiles
                              /\ ~SplitIntoBands => OneVisitPerInputAndTile
                              /\ ~InputsDisagree => OrderNeverMatters

\* ---------------------------------------------------------------- SpecPar: _tile_parallel / _mp_tile_worker
Workers == 1..NWorkers
Idle == [st |-> "idle", k |-> 0, i |-> 0, buf |-> M!Blank]
InitPar == InitCommon /\ mosaic = <<>> /\ wk = [w \in Workers |-> Idle]
WStep(w) == plan[wk[w].k].steps[wk[w].i]
WPos(w) == WStep(w).pos
\* queue.get: the inputs leave the queue in collection order, to whichever worker asks (WorkQueue: WRecv + WCbStart)
Take(w) == /\ wk[w].st = "idle" /\ Len(order) < N
           /\ order' = Append(order, Len(order) + 1)
           /\ wk' = [wk EXCEPT ![w] = [st |-> "lock", k |-> Len(order) + 1, i |-> 1, buf |-> M!Blank]]
           /\ UNCHANGED <<frozen, fin, tiles, mosaic, nvis, held, lockfiles, cleaned>>
\* SoftFileLock(p + ".lock").__enter__ (TileLock: TryOK)
Lock(w) == /\ wk[w].st = "lock"
           /\ UseLock => WPos(w) \notin held
           /\ held' = IF UseLock THEN held \cup {WPos(w)} ELSE held
           /\ lockfiles' = IF UseLock THEN lockfiles \cup {WPos(w)} ELSE lockfiles
           /\ wk' = [wk EXCEPT ![w].st = "read"]
           /\ UNCHANGED <<frozen, order, fin, tiles, mosaic, nvis, cleaned>>
\* read_image(pos, default = "masked") (TileLock: Read)
Read(w) == /\ wk[w].st = "read"
           /\ wk' = [wk EXCEPT ![w].st = "write", ![w].buf = tiles[WPos(w)]]
           /\ UNCHANGED <<frozen, order, fin, tiles, mosaic, nvis, held, lockfiles, cleaned>>
\* update_into_maskable_buffer; write_image (TileLock: Modify, WriteBegin, WriteEnd)
Write(w) == /\ wk[w].st = "write"
            /\ tiles' = [tiles EXCEPT ![WPos(w)] = StepUpdate(wk[w].buf, plan[wk[w].k], WStep(w))]
            /\ nvis' = nvis + 1
            /\ wk' = [wk EXCEPT ![w].st = "unlock"]
            /\ UNCHANGED <<frozen, order, fin, mosaic, held, lockfiles, cleaned>>
\* SoftFileLock.__exit__ (TileLock: Release); after the last rectangle of the last band the worker asks for more
Unlock(w) == /\ wk[w].st = "unlock"
             /\ held' = held \ {WPos(w)}
             /\ lockfiles' = IF ReleaseUnlinks THEN lockfiles \ {WPos(w)} ELSE lockfiles
             /\ IF wk[w].i < Len(plan[wk[w].k].steps)
                THEN wk' = [wk EXCEPT ![w].st = "lock", ![w].i = @ + 1] /\ fin' = fin
                ELSE wk' = [wk EXCEPT ![w] = Idle] /\ fin' = Append(fin, wk[w].k)
             /\ UNCHANGED <<frozen, order, tiles, mosaic, nvis, cleaned>>
\* the workers have been joined (WorkQueue: outcome = "returned"); pio.clean_lockfiles(level)
Finish == /\ AllPasted /\ ~cleaned /\ \A w \in Workers : wk[w].st = "idle"
          /\ cleaned' = TRUE /\ lockfiles' = {}
          /\ UNCHANGED <<frozen, order, fin, tiles, mosaic, nvis, wk, held>>
NextPar == Finish \/ \E w \in Workers : Take(w) \/ Lock(w) \/ Read(w) \/ Write(w) \/ Unlock(w)
SpecPar == InitPar /\ [][NextPar]_vars /\ WF_vars(NextPar)

Busy(w) == wk[w].st \in {"read", "write", "unlock"}
Mutex == UseLock => \A w1, w2 \in Workers : (w1 # w2 /\ Busy(w1) /\ Busy(w2)) => WPos(w1) # WPos(w2)
\* "contributions merge under the tile lock": when tile() has returned every cell is defined iff some input defines it
\* and carries the value of one of them (of THE one where only one covers it) - for every assignment of inputs to
\* workers and every interleaving of their tile updates
NoContributionLost ==
    cleaned => \A gx \in 0..(T.p2 - 1), gy \in 0..(T.p2 - 1) :
                  LET ix == gx - T.x.g0
                      iy == gy - T.y.g0
                      ks == {k \in 1..N : M!DefGlobal(D.subs[k], ix, iy)}
                  IN IF ks = {} THEN M!Display(tiles, q, gx, gy) = U
                     ELSE \E k \in ks : M!Display(tiles, q, gx, gy) = M!Val(D, k, ix, iy)
\* "the parallel result equals the serial result for every order / worker assignment" (where inputs agree: the serial
\* result is SpecSerial's OrderIndependent; where they do not, it is one of the serial results cell by cell: above)
ParallelEqualsSerial == (cleaned /\ cs.agree) => tiles = M!SingleTiles(M!Canonical(D), D.W, D.H, q)
ParPopulatedExact == cleaned => StoredTiles = UNION {DefTiles(k) : k \in 1..N}
\* "lock files are gone at the end"
NoLocksRemain == cleaned => lockfiles = {} /\ held = {}
LocksOnlyWhileRunning == (ReleaseUnlinks /\ UseLock) => lockfiles = held
ParVisits == cleaned => nvis = NTodo(cs, Boxes, cap)
\* WorkQueue's sentences over this module's abstraction of the queue (started <- order, processed <- fin,
\* outcome = "returned" <- cleaned)
AtMostOnce == NoDup(order)
ReturnedImpliesAll == cleaned => /\ Range(fin) = 1..N /\ Len(fin) = N
                                 /\ (wk # <<>> => \A w \in Workers : wk[w].st = "idle")
Returns == <>cleaned

\* ================================================================ TS = 256: the expectation for one real case
\* rc = [ins, agree, rx, ry, cap, boxes]: a case as above at real pixel sizes; boxes = the desc.imin .. desc.jmax the
\* real compute_global_pixelization produced (<<>>: not observed - the exact boxes are used)
RCBoxes(rc) == IF rc.boxes = <<>> THEN [k \in 1..NIn(rc) |-> ExactBox(rc, k)] ELSE rc.boxes
BoxAllowed(c, k, bx) == \E s \in [l : 0..1, r : 0..1, t : 0..1, b : 0..1] : bx = Box(c, k, s)
RealChunk(c, b, ch) == LET t == ChunkTiling(c, b, ch)
                           rs == ST!Rects(t)
                       IN [j0 |-> ch.j0, j1 |-> ch.j1, xs |-> M!SegT(t.x), ys |-> M!SegT(t.y),
                           bu |-> M!FileRows("bottomup", t.y), td |-> M!FileRows("topdown", t.y),
                           vis |-> [j \in 1..Len(rs) |-> <<rs[j].pos[2], rs[j].pos[3]>>]]
RealCase(rc) ==
    LET t == GT(rc)
        d == Decomp(rc)
        n == NIn(rc)
        bs == RCBoxes(rc)
        ct == M!CellTable(d.subs, d.W, d.H, [k \in 1..n |-> k])
        tx(x) == (t.x.g0 + x) \div TS
        ty(y) == (t.y.g0 + y) \div TS
    IN [w |-> d.W, h |-> d.H, p2 |-> t.p2, lev |-> t.lev, gx0 |-> t.x.g0, gy0 |-> t.y.g0,
        crpix |-> <<C1(rc), C2(rc)>>, fields |-> GFields(rc), ntodo |-> NTodo(rc, bs, rc.cap),
        ins |-> [k \in 1..n |-> [exact |-> ExactBox(rc, k), allowed |-> BoxAllowed(rc, k, bs[k]), box |-> bs[k],
                                 chunks |-> LET chs == Chunks(bs[k], rc.cap) IN [i \in 1..Len(chs) |-> RealChunk(rc, bs[k], chs[i])]]],
        full |-> [xs |-> M!SegT(t.x), ys |-> M!SegT(t.y), bu |-> M!FileRows("bottomup", t.y), td |-> M!FileRows("topdown", t.y)],
        cells |-> ct,
        stored |-> UNION {{<<a, b>> : a \in tx(ct.xc[ij[1]])..tx(ct.xc[ij[1] + 1] - 1), b \in ty(ct.yc[ij[2]])..ty(ct.yc[ij[2] + 1] - 1)} :
                          ij \in {ij \in (1..(Len(ct.xc) - 1)) \X (1..(Len(ct.yc) - 1)) : ct.win[ij[2]][ij[1]] # 0}}]
\* the theorems that can be evaluated at TS = 256, for exactly the drawn case
RealCaseOK(rc) ==
    LET t == GT(rc)
        d == Decomp(rc)
        bs == RCBoxes(rc)
        fl == GFields(rc)
    IN /\ M!WellFormed(d)
       /\ HullIsBox(rc)
       /\ PX2(rc, XMin(rc)) = -1 /\ PY2(rc, YMax(rc)) = -1
       /\ \A k \in 1..NIn(rc) : LET e == ExactBox(rc, k) s == d.subs[k]
                                IN e = [imin |-> s.ox, imax |-> s.ox + s.w, jmin |-> s.oy, jmax |-> s.oy + s.h]
       /\ ST!P2Minimal(d.W, d.H) /\ ST!Centred(t.p2, d.W) /\ ST!Centred(t.p2, d.H)
       /\ ST!IntervalPartitionOK(t) /\ ST!AxisRowsOK(t.y)
       /\ \A k \in 1..NIn(rc) : LET chs == Chunks(bs[k], rc.cap) IN
             /\ chs[1].j0 = bs[k].jmin /\ chs[Len(chs)].j1 = bs[k].jmax
             /\ \A i \in 1..Len(chs) : LET s == ChunkTiling(rc, bs[k], chs[i]) IN
                   /\ chs[i].j0 < chs[i].j1 /\ (i < Len(chs) => chs[i].j1 = chs[i + 1].j0)
                   /\ ST!SubTilingOK(t, <<bs[k].imin, chs[i].j0>>, s)
                   /\ ST!SegsOK(s.x) /\ ST!SegsOK(s.y) /\ ST!AxisRowsOK(s.y) /\ ST!IntervalPartitionOK(s)
       /\ t.lev > 0 => /\ fl.offx2 = (t.p2 - 2 * t.x.g0) - (C1(rc) - 1)
                       /\ fl.offy2 = (C2(rc) - 1) - (t.p2 - 2 * t.y.g0)

\* a do-nothing behaviour for the constant-evaluation runs
IdleInit == /\ cs = 0 /\ q = 0 /\ cap = 0 /\ sl = 0 /\ plan = 0 /\ geo = 0 /\ order = 0 /\ fin = 0 /\ tiles = 0 /\ mosaic = 0 /\ nvis = 0
            /\ wk = 0 /\ held = 0 /\ lockfiles = 0 /\ cleaned = 0
IdleNext == UNCHANGED vars
=============================================================================
