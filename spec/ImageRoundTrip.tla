--------------------------- MODULE ImageRoundTrip ---------------------------
(* G05 - the save / load round trip of toasty.image over every               *)
(*   source image (mode, size, pixels incl. undefined ones, inf, > 2^24),    *)
(*   format request  (save(format = ...): "default" = None, the four         *)
(*                    supported names, and an unsupported one),              *)
(*   save mode       (save(mode = ...): none / RGB / RGBA),                  *)
(*   default format  (Image.from_array(default_format = ...); "png" is what  *)
(*                    an image gets when none is given),                     *)
(*   route           "direct": the image itself is saved;                    *)
(*                   "buffer": it is first put into the maskable buffer of   *)
(*                    its mode (what the tiling code saves).                 *)
(* One state = one configuration; a step changes one coordinate.  The        *)
(* round trip is  x0 --Save--> file --Load (default loader)--> x1 --Save-->   *)
(* file --Load--> x2, all from ImageModes.                                   *)
EXTENDS ImageModes

CONSTANTS Images, Requests, SaveModes, Defaults, Routes

VARIABLES src, freq, smode, dflt, route
vars == <<src, freq, smode, dflt, route>>

\* the default format matters only when it is used
Relevant(f, r, d) == (f # "default" \/ r = "buffer") => d = ClassDefaultFormat
Init == /\ src \in Images /\ freq \in Requests /\ smode \in SaveModes /\ dflt \in Defaults /\ route \in Routes
        /\ Relevant(freq, route, dflt)
Next == /\ \/ src' \in Images /\ UNCHANGED <<freq, smode, dflt, route>>
           \/ freq' \in Requests /\ UNCHANGED <<src, smode, dflt, route>>
           \/ smode' \in SaveModes /\ UNCHANGED <<src, freq, dflt, route>>
           \/ dflt' \in Defaults /\ UNCHANGED <<src, freq, smode, route>>
           \/ route' \in Routes /\ UNCHANGED <<src, freq, smode, dflt>>
        /\ Relevant(freq', route', dflt')
Spec == Init /\ [][Next]_vars

X0 == [src EXCEPT !.dflt = dflt]                                        \* Image.from_array(arr, default_format = dflt)
Saved(x) == IF route = "buffer" THEN FillWhole(x) ELSE x
Trip(x) == LET s == Save(Saved(x), freq, smode)
           IN [s |-> s, x |-> IF s.ok THEN Load(DefaultOpts, s.file, "path", NaturalSuffix(s.file.fmt)) ELSE Raised("nofile")]
T1 == Trip(X0)
T2 == IF T1.x.ok THEN Trip(T1.x) ELSE T1
T3 == IF T2.x.ok THEN Trip(T2.x) ELSE T2
SM == Saved(X0).mode                                                    \* the mode handed to save
F == EffFmt(Saved(X0), freq)                                            \* the format save uses
P == Pair(SM, F)

-----------------------------------------------------------------------------
(* The contract.                                                             *)
TypeOK == /\ src.mode \in Modes /\ Len(src.px) = src.w * src.h
          /\ T1.x.ok => T1.x.mode \in Modes /\ Len(T1.x.px) = T1.x.w * T1.x.h

\* lossless pairs round-trip exactly: pixels, mode, size and mask - and the image remembers the format it came from
LosslessExact == (P = "exact" /\ smode = "none") =>
    /\ T1.s.ok /\ T1.x.ok
    /\ T1.x.mode = SM /\ T1.x.w = src.w /\ T1.x.h = src.h /\ T1.x.px = Saved(X0).px /\ T1.x.q = "exact"
    /\ MaskOf(T1.x) = MaskOf(Saved(X0))
    /\ T1.x.dflt = F
\* ... which makes "save without a format" after a lossless load a lossless copy again
LoadedDefaultHoldsItsMode == (T1.x.ok /\ P = "exact" /\ smode = "none") => Pair(T1.x.mode, T1.x.dflt) = "exact"

\* load(save(x)) is idempotent after the first round trip, for every pair that gets written at all (direct route).
\* Through the maskable buffer a first trip that ended in RGB (png of an integer image, save mode RGB) is promoted
\* to RGBA by the second trip; from then on nothing changes.
Idempotent == T1.s.ok => /\ T1.x.ok /\ T2.s.ok /\ T2.x.ok
                         /\ route = "direct" => T2.x = T1.x
                         /\ T2.x # T1.x => (T1.x.mode = "RGB" /\ T2.x = [T1.x EXCEPT !.mode = "RGBA", !.px = [k \in DOMAIN T1.x.px |-> T1.x.px[k] \o <<255>>]])
                         /\ T3.s.ok /\ T3.x = T2.x
\* the pairs that are refused are refused before anything is written
\* (an explicit save mode is a conversion request: save(png, mode = RGB) of a float image writes the converted bitmap)
UnsupportedRaise == (P = "raises" /\ (smode = "none" \/ F \notin PilFormats \/ SM = "F16x3")) => ~T1.s.ok /\ T1.s.file = NoFile
NothingWrittenOnRaise == ~T1.s.ok => T1.s.file = NoFile
UnknownFormatNameRefused == (freq # "default" /\ freq \notin SupportedFormats) => ~T1.s.ok /\ T1.s.err = "format"

\* JPEG, the documented lossy pair: RGB comes back, every pixel defined (alpha is dropped), colours approximately
JpegLossy == (P = "lossy" /\ smode = "none") =>
    /\ T1.s.ok /\ T1.x.ok /\ T1.x.mode = "RGB" /\ T1.x.q = "approx" /\ MaskOf(T1.x) = {}
    /\ T1.x.w = src.w /\ T1.x.h = src.h
    /\ \A k \in DOMAIN T1.x.px : T1.x.px[k] = Colour(SM, Saved(X0).px[k])
\* the explicit save mode wins for the bitmap formats and is ignored by the array formats
SaveModeHonoured == (F \in PilFormats /\ smode # "none" /\ T1.s.ok) => T1.x.mode = smode
SaveModeIgnoredForArrays == F \notin PilFormats => Save(Saved(X0), freq, smode) = Save(Saved(X0), freq, "none")
\* ... by PIL's conversion: RGB -> RGBA adds an opaque alpha, RGBA -> RGB drops the alpha and keeps the colours
SaveModeConverts == (F = "png" /\ smode # "none" /\ SM \in {"RGB", "RGBA"}) =>
    /\ T1.x.ok /\ T1.x.q = "exact"
    /\ \A k \in DOMAIN T1.x.px : T1.x.px[k] = ConvPx(SM, smode, Saved(X0).px[k])
\* JPEG cannot hold alpha: asking for it is refused
JpegRefusesAlpha == (F = "jpg" /\ smode = "RGBA" /\ SM # "F16x3") => ~T1.s.ok /\ T1.s.err = "backend"
\* the maskable-buffer route: the buffer of mode m has mode BufMode(m); an RGB image comes back as RGBA with every
\* pixel opaque (the promotion is lossless for the pixels, NOT for the mode); every other mode is unchanged by the route
BufferPromotion == (route = "buffer" /\ Pair(BufMode(src.mode), F) = "exact" /\ smode = "none") =>
    /\ T1.x.ok /\ T1.x.mode = BufMode(src.mode)
    /\ src.mode = "RGB" => /\ MaskOf(T1.x) = {}
                           /\ \A k \in DOMAIN src.px : T1.x.px[k] = src.px[k] \o <<255>>
    /\ src.mode # "RGB" => T1.x.px = src.px
\* whatever was written can be loaded, and what comes back is one of the eight modes with the size of the source
WrittenLoads == T1.s.ok => T1.x.ok /\ T1.x.mode \in Modes /\ T1.x.w = src.w /\ T1.x.h = src.h

\* AS BUILT (deviation SaveForeign): the scalar modes are accepted by aspil() (only F16x3 is refused), so png (integers)
\* and jpg (integers and floats) are written as gray bitmaps and come back as RGB with every pixel defined
SaveForeign == (P = "foreign" /\ smode = "none") =>
    /\ T1.s.ok /\ T1.s.file.kind \in {"L", "I;16", "RGB"} /\ T1.x.ok /\ T1.x.mode = "RGB" /\ MaskOf(T1.x) = {}
    /\ SM \in {"U8", "I16", "I32"} => \A k \in DOMAIN src.px : T1.x.px[k] = Gray(Clip(src.px[k][1], 0, 255))

-----------------------------------------------------------------------------
(* Statements that are NOT true of the code as built (negative controls:     *)
(* TLC must refute each; the counterexample is the deviation's witness).     *)
\* "a pair outside the documented table raises rather than writes"
OnlyDocumentedPairsWrite == T1.s.ok => Documented(SM, F)
\* "an image built without a default format is saved, by default, in a format that can hold its mode"
\* (the docstring of from_array: "automatically chosen at write time based on the array type")
DefaultFormatHoldsMode == (freq = "default" /\ dflt = ClassDefaultFormat /\ smode = "none") => Documented(SM, F)
\* "the mode survives every route"
BufferRouteKeepsMode == (P = "exact" /\ smode = "none") => T1.x.mode = src.mode
\* "load(save(x)) is idempotent after the first round trip on every route"
IdempotentOnEveryRoute == T1.s.ok => T2.x = T1.x
\* "a written file always reads back with the mode that was saved"
ModeSurvivesEveryWrite == (T1.s.ok /\ smode = "none" /\ F # "jpg") => T1.x.mode = SM
=============================================================================
