------------------------- MODULE MCAstrometryBuiltin -------------------------
(* A built-in case space for Astrometry.tla, so that `tlc MCAstrometryBuiltin` checks the theorems without *)
(* checks/g09.py (which generates its own dimension sets).  Kept apart from MCAstrometry.tla because TLC   *)
(* evaluates every constant definition of a loaded module eagerly.                                          *)
EXTENDS MCAstrometry

BuiltinDirs == {<<0, 1>>, <<0, 0 - 1>>, <<1, 0>>, <<0 - 1, 0>>, <<3, 4>>, <<0 - 4, 3>>, <<3, 0 - 4>>, <<0 - 3, 0 - 4>>,
                <<5, 12>>, <<12, 0 - 5>>, <<1, 1>>, <<0 - 1, 7>>}
BuiltinMatrices == {ExactMatrix(bd, sg) : bd \in BuiltinDirs, sg \in {1, 0 - 1}}
                   \cup {<<0 - 20, 0, 0, 0 - 21>>, <<0 - 20, 0, 0, 21>>, <<0 - 30, 1, 0, 0 - 30>>, <<0 - 10, 0, 0, 0 - 12>>,
                         <<0 - 20, 2, 0, 0 - 20>>, <<1, 1, 1, 1>>, <<0, 0, 0, 0>>, <<0 - 1, 0, 0, 0 - 2>>}
BuiltinSizes == {<<1, 1>>, <<1, 7>>, <<200, 300>>, <<256, 256>>, <<257, 100>>, <<300, 200>>, <<513, 2>>, <<1024, 1025>>}
BuiltinTags == {"centre", "first", "corner", "edge", "frac", "outside"}
BuiltinCrvals == {<<QZero, QZero>>, <<Q(418, 5), Q(0 - 27, 5)>>, <<Q(0 - 10, 1), Q(89, 1)>>}
BuiltinUnits == {Q(1, 400), Q(3, 1000)}
BuiltinAvmDims == {<<600, 400, 600, 400>>, <<600, 400, 300, 200>>, <<300, 200, 600, 400>>, <<600, 400, 150, 100>>,
                   <<600, 400, 300, 230>>, <<100, 100, 200, 200>>}
BuiltinCases ==
    WcsCases({"wcs", "ens"}, {"study"}, BuiltinMatrices, BuiltinSizes, BuiltinTags, {<<Q(418, 5), Q(0 - 27, 5)>>}, {Q(1, 400)}, {"tan"})
    \cup WcsCases({"wcs"}, {"study"}, {ExactMatrix(<<3, 4>>, sg) : sg \in {1, 0 - 1}}, {<<200, 300>>, <<300, 200>>}, {"frac"}, BuiltinCrvals, BuiltinUnits, {"tan"})
    \cup WcsCases({"wcs"}, {"study"}, {<<0 - 1, 0, 0, 0 - 1>>}, {<<300, 200>>}, {"centre"}, BuiltinCrvals, {Q(1, 400)}, {"gal"})
    \cup WcsCases({"wcs"}, {"toast"}, {ExactMatrix(<<3, 4>>, sg) : sg \in {1, 0 - 1}} \cup {<<0 - 10, 0, 0, 0 - 12>>}, {<<300, 200>>},
                  {"centre", "outside"}, BuiltinCrvals, {Q(1, 400)}, {"tan"})
    \cup AvmScaleCases({<<1, 0>>, <<4, 3>>, <<0 - 5, 12>>, <<0, 0 - 1>>}, BuiltinAvmDims, {"centre", "first", "outside"}, BuiltinCrvals,
                       {Q(1, 400)}, {"tan"}, {TRUE})
    \cup AvmScaleCases({<<4, 3>>}, {<<600, 400, 300, 200>>}, {"centre"}, {<<Q(418, 5), Q(0 - 27, 5)>>}, {Q(1, 400)}, {"tan", "gal"}, {TRUE, FALSE})
    \cup AvmCdCases({<<0 - 1, 0, 0, 1>>, <<0 - 4, 0 - 3, 0 - 3, 4>>, <<0 - 1, 0, 0, 0 - 1>>}, BuiltinAvmDims, {"centre", "first"},
                    {<<Q(418, 5), Q(0 - 27, 5)>>}, {Q(1, 400)})
    \cup DefaultCases(BuiltinSizes)

=============================================================================
