-------------------------- MODULE AstrometryHistory --------------------------
(* G09 part 2 - the history of ONE toasty.builder.Builder object and its output directory.                *)
(*                                                                                                       *)
(* Commands, in any order and repetition (toasty/builder.py unless said otherwise):                       *)
(*   Prepare(w, h)      prepare_study_tiling(image): StudyTiling.apply_to_imageset - no order check        *)
(*   Astro(case)        kind "wcs"  apply_wcs_info(W, w, h)                                               *)
(*                      kind "ens"  ImageDescription.ensure_negative_parity(); apply_wcs_info             *)
(*                      kind "avm"  apply_avm_info(avm, w, h): the WCS, then Title / Description / Credit / *)
(*                                  ReferenceURL where the AVM has them                                    *)
(*                      kind "default"  default_tiled_study_astrometry() (after _check_no_wcs_yet)         *)
(*                      the WCS arithmetic is Astrometry.tla (INSTANCEd): SetFields / SetPlace act on the  *)
(*                      CURRENT ImageSet, whatever earlier commands left in it                             *)
(*   Toast(depth)       toast_base(sampler, depth) (after _check_no_wcs_yet)                               *)
(*   SetName(s)         set_name                                                                           *)
(*   Thumb(w, h)        make_thumbnail_from_other(image of w x h): thumb.jpg + imgset.thumbnail_url         *)
(*   Write(flag)        write_index_rel_wtml(add_place_for_toast = flag) -> create_wtml_folder (which      *)
(*                      copies name, data set type and thumbnail from the ImageSet into the Place)        *)
(*   Restore            toasty/fits_tiler.py: FitsTiler(out_dir = the directory).tile() on the existing    *)
(*                      directory -> _restore_builder_from_wtml: the Builder a later tile_fits call returns *)
(*                                                                                                       *)
(* AS-BUILT DEVIATIONS (named; the ideal statement is refuted by TLC with a shortest history):            *)
(*   WcsAtOriginNotDetected  _check_no_wcs_yet looks at center_x / center_y: a WCS with CRVAL = (0, 0)     *)
(*                           is not noticed (ideal: OrderAlwaysDetected)                                   *)
(*   PrepareUnchecked        prepare_study_tiling does not call _check_no_wcs_yet: Astro; Prepare leaves   *)
(*                           offsets of the other meaning (ideal: DescriptionSurvivesPrepare)                   *)
(*   ToastKeepsGeometry      Astro on a toasted ImageSet keeps the old offsets / flags (ideal:             *)
(*                           NoCarryOverAtAll)                                                             *)
(*   PlaceNameLags           apply_avm_info renames the ImageSet only; the Place follows at the next        *)
(*                           set_name / write (ideal: PlaceNameSynced)                                     *)
(*   ThumbFailureEmptiesFile a thumbnail of a 1-pixel-wide image fails after thumb.jpg was truncated        *)
(*                           (ideal: ThumbUrlValid)                                                        *)
(*   ToastRestoreLosesPlace  a TOAST data set written without a Place is restored with a default Place      *)
(*                           (ideal: RestoreIsIdentity)                                                    *)
EXTENDS Integers, Sequences, FiniteSets, TLC

CONSTANTS Commands,      \* the command alphabet (records built by the Cmd* operators below)
          MaxCmds,       \* exploration bound
          Scripts        \* ScriptSpec: set of command sequences

A == INSTANCE Astrometry WITH Cases <- {}, cs <- 0, out <- 0

VARIABLES bld,           \* the Builder: [set, meta, place, pmeta]
          dsk,           \* the output directory: [wtml, thumb]
          rst,           \* the Builder returned by the reuse path (NoBuilder: none yet)
          gh,            \* ghosts: what the history promises
          cnt,           \* number of commands issued
          hist, act      \* (script / walk specs) the commands so far, outcome of the last one
vars == <<bld, dsk, rst, gh, cnt, hist, act>>

\* ---------------------------------------------------------------------------------------------- commands
NoCase == A!Case("none", 1, 1, "study", <<0, 0, 0, 0>>, A!QI(1), <<A!QZero, A!QZero>>, <<A!QZero, A!QZero>>, "tan", 0, 0, "", FALSE)
NoMeta == [title |-> "", desc |-> "", credit |-> "", url |-> ""]
Cmd(aOp, aCase, aMeta, aName, ww, hh, aFlag) == [op |-> aOp, case |-> aCase, meta |-> aMeta, name |-> aName, w |-> ww, h |-> hh, flag |-> aFlag]
CmdPrepare(ww, hh) == Cmd("Prepare", NoCase, NoMeta, "", ww, hh, FALSE)
CmdAstro(aCase, aMeta) == Cmd("Astro", aCase, aMeta, "", aCase.w, aCase.h, FALSE)
CmdToast(depth) == Cmd("Toast", NoCase, NoMeta, "", depth, 0, FALSE)
CmdSetName(s) == Cmd("SetName", NoCase, NoMeta, s, 0, 0, FALSE)
CmdThumb(ww, hh) == Cmd("Thumb", NoCase, NoMeta, "", ww, hh, FALSE)
CmdWrite(aFlag) == Cmd("Write", NoCase, NoMeta, "", 0, 0, aFlag)
CmdRestore == Cmd("Restore", NoCase, NoMeta, "", 0, 0, FALSE)

\* ---------------------------------------------------------------------------------------------- state
FreshMeta == [name |-> "Toasty", desc |-> "", credits |-> "", curl |-> "", thumb |-> ""]
FreshPMeta == [name |-> "Toasty", thumb |-> ""]
FreshBuilder == [set |-> A!FreshSet, meta |-> FreshMeta, place |-> A!FreshPlace, pmeta |-> FreshPMeta]
NoBuilder == [set |-> A!FreshSet, meta |-> [FreshMeta EXCEPT !.name = ""], place |-> A!FreshPlace, pmeta |-> [FreshPMeta EXCEPT !.name = ""]]
NoWtml == [kind |-> "none", folder |-> "", b |-> NoBuilder]
NoGhost == [wcs |-> FALSE,          \* some WCS / AVM astrometry was accepted
            last |-> NoCase,        \* the last accepted Astro case, while nothing changed the tiling state since
            lastany |-> NoCase,     \* the last accepted WCS / AVM case, whatever happened since
            ord |-> [seen |-> FALSE, wcs |-> FALSE, centre0 |-> TRUE, refused |-> FALSE],   \* the last command that ran _check_no_wcs_yet
            lastlev |-> 0, lastproj |-> "",
            named |-> "Toasty",     \* the last name given by set_name or an AVM title
            thumbok |-> FALSE,      \* the last Thumb command succeeded
            wfresh |-> FALSE,       \* index_rel.wtml was written from the current Builder state
            rfresh |-> FALSE]       \* rst was restored from the current index_rel.wtml
Init == /\ bld = FreshBuilder /\ dsk = [wtml |-> NoWtml, thumb |-> "none"] /\ rst = NoBuilder /\ gh = NoGhost
        /\ cnt = 0 /\ hist = <<>> /\ act = "init"

\* ---------------------------------------------------------------------------------------------- effects
\* what an Astro command does to the ImageSet it finds: <<error, new builder>>
AstroErr(bb, cmd) ==
    LET k == cmd.case IN
    IF k.kind = "default" THEN (IF A!OrderError(bb.set) THEN "order" ELSE "none")
    ELSE IF k.kind = "avm" /\ A!AvmErr(k, k.w, k.h) # "none" THEN A!AvmErr(k, k.w, k.h)
    ELSE A!ErrOf(bb.set, A!Applied(k))
AstroResult(bb, cmd) ==
    LET k == cmd.case
        ap == A!Applied(k)
        mt == cmd.meta
    IN IF k.kind = "default"
       THEN [bb EXCEPT !.set = A!DefaultFields(bb.set), !.place = A!DefaultPlace(bb.place)]
       ELSE [bb EXCEPT !.set = A!SetFields(bb.set, ap, k.w, k.h), !.place = A!SetPlace(bb.place, ap, k.w, k.h),
                       !.meta = IF k.kind # "avm" THEN @
                                ELSE [@ EXCEPT !.name = IF mt.title # "" THEN mt.title ELSE @,
                                               !.desc = IF mt.desc # "" THEN mt.desc ELSE @,
                                               !.credits = IF mt.credit # "" THEN mt.credit ELSE @,
                                               !.curl = IF mt.url # "" THEN mt.url ELSE @]]
\* make_thumbnail_bitmap: the 96:45 crop has height int(round(w * 45 / 96)) when the image is not wider than 96:45 - zero for w = 1
ThumbFails(ww, hh) == 45 * ww <= 96 * hh /\ 90 * ww < 96
\* create_wtml_folder copies into the Place
Synced(bb) == [bb EXCEPT !.pmeta = [name |-> bb.meta.name, thumb |-> bb.meta.thumb], !.place = [@ EXCEPT !.dst = bb.set.dst]]
WtmlOf(bb, flag) == IF bb.set.proj = "Toast" /\ ~flag
                    THEN [kind |-> "imageset", folder |-> bb.meta.name, b |-> [NoBuilder EXCEPT !.set = bb.set, !.meta = bb.meta]]
                    ELSE [kind |-> "place", folder |-> bb.meta.name, b |-> bb]
\* _restore_builder_from_wtml on the Builder FitsTiler.tile has just made (named after the directory: "dir")
ReuseBuilder == [FreshBuilder EXCEPT !.meta = [@ EXCEPT !.name = "dir"], !.pmeta = [@ EXCEPT !.name = "dir"]]
Restored(w) == IF w.kind = "none" THEN ReuseBuilder
               ELSE IF w.kind = "place" THEN w.b
               ELSE [ReuseBuilder EXCEPT !.set = w.b.set, !.meta = w.b.meta, !.pmeta = [@ EXCEPT !.name = w.b.meta.name]]

\* ---------------------------------------------------------------------------------------------- actions
Refused(why) == /\ act' = why /\ UNCHANGED <<bld, dsk, rst>>
OrdGhost(refused) == [seen |-> TRUE, wcs |-> gh.wcs, centre0 |-> bld.set.cv = <<A!QZero, A!QZero>>, refused |-> refused]
Touch(g) == [g EXCEPT !.wfresh = FALSE, !.rfresh = FALSE]       \* the Builder changed: disk and restored copy are behind

Prepare(cmd) == /\ cmd.op = "Prepare"
                /\ bld' = [bld EXCEPT !.set = A!Prepared(bld.set, cmd.w, cmd.h)]
                /\ gh' = [Touch(gh) EXCEPT !.last = NoCase]
                /\ act' = "ok" /\ UNCHANGED <<dsk, rst>>
Astro(cmd) == /\ cmd.op = "Astro"
              /\ LET e == AstroErr(bld, cmd)
                     isdef == cmd.case.kind = "default" IN
                 IF e # "none" THEN Refused(e) /\ gh' = [gh EXCEPT !.ord = IF isdef THEN OrdGhost(TRUE) ELSE @]
                 ELSE /\ bld' = AstroResult(bld, cmd)
                      /\ gh' = [Touch(gh) EXCEPT !.wcs = @ \/ ~isdef,
                                                 !.last = IF isdef THEN NoCase ELSE cmd.case,
                                                 !.lastany = IF isdef THEN @ ELSE cmd.case,
                                                 !.lastlev = bld.set.levels, !.lastproj = bld.set.proj,
                                                 !.ord = IF isdef THEN OrdGhost(FALSE) ELSE @,
                                                 !.named = IF cmd.case.kind = "avm" /\ cmd.meta.title # "" THEN cmd.meta.title ELSE @]
                      /\ act' = "ok" /\ UNCHANGED <<dsk, rst>>
Toast(cmd) == /\ cmd.op = "Toast"
              /\ IF A!OrderError(bld.set) THEN Refused("order") /\ gh' = [gh EXCEPT !.ord = OrdGhost(TRUE)]
                 ELSE /\ bld' = [bld EXCEPT !.set = A!Toasted(bld.set, cmd.w), !.place = [@ EXCEPT !.zoom = A!SOfQ(A!QI(360))]]
                      /\ gh' = [Touch(gh) EXCEPT !.last = NoCase, !.ord = OrdGhost(FALSE)]
                      /\ act' = "ok" /\ UNCHANGED <<dsk, rst>>
SetName(cmd) == /\ cmd.op = "SetName"
                /\ bld' = [bld EXCEPT !.meta = [@ EXCEPT !.name = cmd.name], !.pmeta = [@ EXCEPT !.name = cmd.name]]
                /\ gh' = [Touch(gh) EXCEPT !.named = cmd.name]
                /\ act' = "ok" /\ UNCHANGED <<dsk, rst>>
Thumb(cmd) == /\ cmd.op = "Thumb"
              /\ IF ThumbFails(cmd.w, cmd.h)
                 THEN /\ dsk' = [dsk EXCEPT !.thumb = "empty"]              \* opened for writing, nothing written
                      /\ gh' = [gh EXCEPT !.thumbok = FALSE]
                      /\ act' = "thumb" /\ UNCHANGED <<bld, rst>>
                 ELSE /\ dsk' = [dsk EXCEPT !.thumb = "jpeg"]
                      /\ bld' = [bld EXCEPT !.meta = [@ EXCEPT !.thumb = "thumb.jpg"]]
                      /\ gh' = [Touch(gh) EXCEPT !.thumbok = TRUE]
                      /\ act' = "ok" /\ UNCHANGED rst
Write(cmd) == /\ cmd.op = "Write"
              /\ bld' = Synced(bld)
              /\ dsk' = [dsk EXCEPT !.wtml = WtmlOf(Synced(bld), cmd.flag)]
              /\ gh' = [gh EXCEPT !.wfresh = TRUE, !.rfresh = FALSE]
              /\ act' = "ok" /\ UNCHANGED rst
Restore(cmd) == /\ cmd.op = "Restore"
                /\ rst' = Restored(dsk.wtml)
                /\ gh' = [gh EXCEPT !.rfresh = TRUE]
                /\ act' = "ok" /\ UNCHANGED <<bld, dsk>>
Do(cmd) == /\ cnt < MaxCmds /\ cnt' = cnt + 1
           /\ (Prepare(cmd) \/ Astro(cmd) \/ Toast(cmd) \/ SetName(cmd) \/ Thumb(cmd) \/ Write(cmd) \/ Restore(cmd))
\* every command sequence (states that differ only in how they were reached are one state)
AllNext == \E cmd \in Commands : Do(cmd) /\ UNCHANGED hist
AllSpec == Init /\ [][AllNext]_vars
\* given command sequences / TLC's own walks, with the history
Step(cmd) == Do(cmd) /\ hist' = Append(hist, cmd)
ScriptNext == \E s \in Scripts : Len(hist) < Len(s) /\ SubSeq(s, 1, Len(hist)) = hist /\ Step(s[Len(hist) + 1])
ScriptSpec == Init /\ [][ScriptNext]_vars
FreeNext == \E cmd \in Commands : Step(cmd)
FreeSpec == Init /\ [][FreeNext]_vars
\* remembering the last command only (readable shortest counterexamples; VIEW ViewVars)
LastNext == \E cmd \in Commands : Do(cmd) /\ hist' = <<cmd>>
LastSpec == Init /\ [][LastNext]_vars
ViewVars == <<bld, dsk, rst, gh, cnt>>

\* ============================================================================================== THEOREMS
Astro5(s) == <<s.levels, s.proj, s.dst, s.wf, s.cv, s.rot, s.bu, s.base, s.offx, s.offy>>
\* (H1) the description after an accepted WCS / AVM command is a function of that command and of the tiling state it found
\*      (levels, projection) - nothing else of the object's past shows (for a TOAST ImageSet see ToastKeepsGeometry)
NoCarryOver == (gh.last # NoCase /\ gh.lastproj # "Toast") =>
                   LET k == gh.last
                       clean == [A!FreshSet EXCEPT !.levels = gh.lastlev, !.proj = gh.lastproj]
                   IN /\ bld.set = A!SetFields(clean, A!Applied(k), k.w, k.h)
                      /\ [bld.place EXCEPT !.dst = "Sky"] = A!SetPlace(A!FreshPlace, A!Applied(k), k.w, k.h)
\* ... and it reads back as the WCS that was applied when the tiling state was the one prepared for that image
ReadsBack == (gh.last # NoCase /\ gh.lastproj # "Toast" /\ A!ExactForm(A!Applied(gh.last).m)
              /\ gh.lastlev = A!ST!Tiling(gh.last.w, gh.last.h).lev /\ (gh.lastproj = "Tan" <=> gh.lastlev > 0)) =>
                 A!Decode(bld.set, gh.last.w, gh.last.h) = A!AffOfW(A!Applied(gh.last))
\* (H2) a refused command changes nothing in the Builder (a failing thumbnail empties thumb.jpg: ThumbFailureEmptiesFile)
RefusedChangesNothing == [][(act' \notin {"ok", "init"}) => (bld' = bld /\ rst' = rst /\ dsk'.wtml = dsk.wtml)]_vars
\* (H3) the order-of-operations check is a check on the centre
OrderCheckIsCentreCheck == gh.ord.seen => (gh.ord.refused <=> ~gh.ord.centre0)
\* (H4) names: the ImageSet carries the last name given; the Place agrees after set_name and in everything written
NameLastWriter == bld.meta.name = gh.named
WrittenNamesAgree == dsk.wtml.kind # "none" => /\ dsk.wtml.folder = dsk.wtml.b.meta.name
                                              /\ (dsk.wtml.kind = "place" => dsk.wtml.b.pmeta.name = dsk.wtml.b.meta.name
                                                                             /\ dsk.wtml.b.pmeta.thumb = dsk.wtml.b.meta.thumb
                                                                             /\ dsk.wtml.b.place.dst = dsk.wtml.b.set.dst)
\* (H5) the thumbnail url is set only by a successful thumbnail; then the file was a JPEG at that moment
ThumbUrlSetBySuccess == bld.meta.thumb # "" => bld.meta.thumb = "thumb.jpg" /\ dsk.thumb # "none"
ThumbOkMeansJpeg == gh.thumbok => dsk.thumb = "jpeg" /\ bld.meta.thumb = "thumb.jpg"
\* (H6) writing and restoring: the ImageSet always comes back; the Place too when one was written
RestoreGivesWritten == (gh.wfresh /\ gh.rfresh) =>
                           /\ rst.set = bld.set /\ rst.meta = bld.meta
                           /\ (dsk.wtml.kind = "place" => rst.place = bld.place /\ rst.pmeta = bld.pmeta)
\* ... so the restored description reads back as the same sky positions
RestoredReadsBack == (gh.wfresh /\ gh.rfresh /\ gh.last # NoCase /\ bld.set.proj # "Toast") =>
                         A!Decode(rst.set, gh.last.w, gh.last.h) = A!Decode(bld.set, gh.last.w, gh.last.h)
WtmlKindRule == dsk.wtml.kind = "imageset" => dsk.wtml.b.set.proj = "Toast"
TypeOK == cnt \in 0..MaxCmds /\ bld.set.levels >= 0 /\ dsk.thumb \in {"none", "jpeg", "empty"}

\* ---------------------------------------------------------------------------------------------- statements the code does NOT keep
OrderAlwaysDetected == (gh.ord.seen /\ gh.ord.wcs) => gh.ord.refused
\* whatever the order of Prepare and Astro, the description reads back as the last WCS applied
DescriptionSurvivesPrepare == (gh.lastany # NoCase /\ bld.set.proj # "Toast" /\ A!ExactForm(A!Applied(gh.lastany).m)
                               /\ bld.set.levels = A!ST!Tiling(gh.lastany.w, gh.lastany.h).lev) =>
                                  A!Decode(bld.set, gh.lastany.w, gh.lastany.h) = A!AffOfW(A!Applied(gh.lastany))
NoCarryOverAtAll == gh.last # NoCase =>
                        LET k == gh.last
                            clean == [A!FreshSet EXCEPT !.levels = gh.lastlev, !.proj = gh.lastproj,
                                                        !.base = IF gh.lastproj = "Toast" THEN A!SOfQ(A!QI(180)) ELSE @]
                        IN bld.set = A!SetFields(clean, A!Applied(k), k.w, k.h)
PlaceNameSynced == bld.pmeta.name = bld.meta.name
ThumbUrlValid == bld.meta.thumb = "thumb.jpg" => dsk.thumb = "jpeg"
RestoreIsIdentity == (gh.wfresh /\ gh.rfresh) => rst = bld
=============================================================================
