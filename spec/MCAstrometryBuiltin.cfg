SPECIFICATION Spec
CONSTANTS
 Cases <- BuiltinCases
INVARIANT WellFormed
INVARIANT FlipIsParitys
INVARIANT RoundTripIdentity
INVARIANT CornersReproduced
INVARIANT LevelsMatchTiling
INVARIANT LegacyFields
INVARIANT ParityRefusedIff
INVARIANT BottomsUpIffNegDet
INVARIANT EnsureNormalises
INVARIANT AvmScaleFormIsBottomsUp
INVARIANT ExpressibleAccepted
INVARIANT MisdescribedIffNotExact
INVARIANT AcceptedWithinFivePercent
INVARIANT OneScaleOneAngle
INVARIANT RefusedUnchanged
INVARIANT UntiledRotationFormula
INVARIANT TwinRotationsDiffer
INVARIANT PlaceCentred
INVARIANT PlaceOnDescribedCentre
INVARIANT PlaceZoomFromHeight
INVARIANT ViewHoldsHeight
INVARIANT AvmExactAtReference
INVARIANT AvmHalfPixel
INVARIANT AvmCdMatrixNotRescaled
INVARIANT DefaultIsCentred
INVARIANT ToastKeepsGeometry
INVARIANT ServedFileMatchesIffFullTile
PROPERTY TwinStep
PROPERTY AvmReferenceStep
CHECK_DEADLOCK FALSE
