---- MODULE MCWorkQueue ----
EXTENDS WorkQueue
NoFaults == {{}}
AnyOneFault == {{}} \cup {{i} : i \in Items}
AnyFaults == SUBSET Items
====
